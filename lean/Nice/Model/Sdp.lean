/-
  Model of the SDP text code of agent/agent.c:
    _cand_type_to_sdp, _transport_to_sdp, _transport_to_sdp_tcptype, _generate_candidate_sdp,
    _get_default_local_candidate_locked, _generate_stream_sdp, nice_agent_generate_local_sdp,
    nice_agent_generate_local_stream_sdp, nice_agent_generate_local_candidate_sdp,
    nice_agent_parse_remote_sdp, nice_agent_parse_remote_stream_sdp,
    nice_agent_parse_remote_candidate_sdp, _set_remote_candidates_locked, priv_add_remote_candidate
    (list bookkeeping only), nice_agent_set_stream_name, nice_agent_set_local_credentials,
  and of the GLib helpers they use (g_strsplit, g_ascii_strtoull, g_ascii_strcasecmp, g_strlcpy).
  Core Lean only.  The address <-> text conversions are a parameter (`Libc`); `Libc.model` plugs in
  the executable glibc model of `Nice.Addr`.
-/
import Nice.Gen.Consts
import Nice.Model.Addr
namespace Nice.Sdp
open Nice.Addr Nice.Gen

/-! ## literals -/
def pCandidate : Text := [97, 61, 99, 97, 110, 100, 105, 100, 97, 116, 101, 58]  -- "a=candidate:"
def pUfrag : Text := [97, 61, 105, 99, 101, 45, 117, 102, 114, 97, 103, 58]      -- "a=ice-ufrag:"
def pPwd : Text := [97, 61, 105, 99, 101, 45, 112, 119, 100, 58]                 -- "a=ice-pwd:"
def pM : Text := [109, 61]                                                       -- "m="
def sTyp : Text := [116, 121, 112]                                               -- "typ"
def sRaddr : Text := [114, 97, 100, 100, 114]                                    -- "raddr"
def sRport : Text := [114, 112, 111, 114, 116]                                   -- "rport"
def sTcptype : Text := [116, 99, 112, 116, 121, 112, 101]                        -- "tcptype"
def sHost : Text := [104, 111, 115, 116]                                         -- "host"
def sSrflx : Text := [115, 114, 102, 108, 120]                                   -- "srflx"
def sPrflx : Text := [112, 114, 102, 108, 120]                                   -- "prflx"
def sRelay : Text := [114, 101, 108, 97, 121]                                    -- "relay"
def sUDP : Text := [85, 68, 80]                                                  -- "UDP"
def sTCP : Text := [84, 67, 80]                                                  -- "TCP"
def sUnk : Text := [63, 63, 63]                                                  -- "???"
def sActive : Text := [97, 99, 116, 105, 118, 101]                               -- "active"
def sPassive : Text := [112, 97, 115, 115, 105, 118, 101]                        -- "passive"
def sSo : Text := [115, 111]                                                     -- "so"
def sTcpSo : Text := [84, 67, 80, 45, 83, 79]                                    -- "TCP-SO"
def sTcpAct : Text := [84, 67, 80, 45, 65, 67, 84]                               -- "TCP-ACT"
def sTcpPass : Text := [84, 67, 80, 45, 80, 65, 83, 83]                          -- "TCP-PASS"
def sIceSdp : Text := [32, 73, 67, 69, 47, 83, 68, 80]                           -- " ICE/SDP"
def sCIn : Text := [99, 61, 73, 78, 32, 73, 80, 52, 32]                          -- "c=IN IP4 "
def sRtcp : Text := [97, 61, 114, 116, 99, 112, 58]                              -- "a=rtcp:"
def sDash : Text := [45]                                                         -- "-"
def validNames : List Text :=
  [[97, 117, 100, 105, 111], [118, 105, 100, 101, 111], [116, 101, 120, 116],
   [97, 112, 112, 108, 105, 99, 97, 116, 105, 111, 110], [109, 101, 115, 115, 97, 103, 101],
   [105, 109, 97, 103, 101]]  -- audio video text application message image

/-- NICE_STREAM_MAX_UFRAG / NICE_STREAM_MAX_PWD (`256 + 1`, agent/stream.h) -/
def MAX_UFRAG : Nat := NICE_STREAM_MAX_UFRAG
def MAX_PWD : Nat := NICE_STREAM_MAX_PWD

/-! ## GLib helpers -/

/-- pieces between delimiters (always at least one piece) -/
def splitOn (d : UInt8) : Text → List Text
  | [] => [[]]
  | c :: rest =>
    if c == d then [] :: splitOn d rest
    else match splitOn d rest with
      | p :: ps => (c :: p) :: ps
      | [] => [[c]]

/-- `g_strsplit (s, <one-byte delimiter>, 0)`: the empty string gives the empty vector -/
def strsplit (d : UInt8) (s : Text) : List Text := if s.isEmpty then [] else splitOn d s

def isSpace (c : UInt8) : Bool := c == 32 || c == 12 || c == 10 || c == 13 || c == 9 || c == 11

/-- digit loop (base 10): value and sticky overflow flag -/
def ullDigits : Text → Nat → Bool → Nat × Bool
  | [], v, o => (v, o)
  | c :: rest, v, o =>
    if 48 ≤ c && c ≤ 57 then
      let d := c.toNat - 48
      if v > 1844674407370955161 || (v == 1844674407370955161 && d > 5) then ullDigits rest v true
      else ullDigits rest (v * 10 + d) o
    else (v, o)

/-- `g_ascii_strtoull (s, NULL, 10)`; this GLib forwards to libc `strtoull_l (…, C locale)`:
    leading white space, optional sign, decimal digits, stop at the first other byte, no digits → 0,
    overflow → G_MAXUINT64, a minus sign negates modulo 2^64 -/
def strtoull (s : Text) : UInt64 :=
  let s := s.dropWhile isSpace
  let (neg, s) : Bool × Text := match s with
    | 45 :: r => (true, r)
    | 43 :: r => (false, r)
    | _ => (false, s)
  let (v, o) := ullDigits s 0 false
  if o then 18446744073709551615          -- ERANGE: ULLONG_MAX whatever the sign
  else if neg then 0 - UInt64.ofNat v else UInt64.ofNat v

def lower (c : UInt8) : UInt8 := if 65 ≤ c && c ≤ 90 then c + 32 else c

/-- `g_ascii_strcasecmp (a, b) == 0` -/
def caseEq (a b : Text) : Bool := a.map lower == b.map lower

/-- `g_strlcpy (dst, src, n)`: what ends up in `dst` -/
def strlcpy (src : Text) (n : Nat) : Text := src.take (n - 1)

def hasPrefix (s p : Text) : Bool := p.isPrefixOf s

/-! ## candidates -/

structure Cand where
  /-- NiceCandidateType: 0 host, 1 srflx, 2 prflx, 3 relay -/
  type : Nat := 0
  /-- NiceCandidateTransport: 0 UDP, 1 TCP_ACTIVE, 2 TCP_PASSIVE, 3 TCP_SO -/
  transport : Nat := 0
  addr : Address := {}
  base : Address := {}
  priority : UInt32 := 0
  streamId : UInt32 := 0
  componentId : UInt32 := 0
  /-- bytes of `foundation[33]` up to the first NUL (at most 33 when unterminated) -/
  foundation : Text := []
  deriving DecidableEq, Repr, Inhabited

/-- the two libc-backed address conversions, as seen through address.c -/
structure Libc where
  /-- `nice_address_to_string` -/
  ntop : Address → Text
  /-- `nice_address_set_from_string` -/
  pton : Text → Option Address

def Libc.model : Libc := { ntop := Addr.toString, pton := Addr.fromString }

def typeToSdp (t : Nat) : Text :=
  if t == NICE_CANDIDATE_TYPE_SERVER_REFLEXIVE then sSrflx
  else if t == NICE_CANDIDATE_TYPE_PEER_REFLEXIVE then sPrflx
  else if t == NICE_CANDIDATE_TYPE_RELAYED then sRelay
  else sHost

def transportToSdp (t : Nat) : Text :=
  if t == NICE_CANDIDATE_TRANSPORT_UDP then sUDP
  else if t == NICE_CANDIDATE_TRANSPORT_TCP_ACTIVE || t == NICE_CANDIDATE_TRANSPORT_TCP_PASSIVE
          || t == NICE_CANDIDATE_TRANSPORT_TCP_SO then sTCP
  else sUnk

def tcptypeToSdp (t : Nat) : Text :=
  if t == NICE_CANDIDATE_TRANSPORT_TCP_ACTIVE then sActive
  else if t == NICE_CANDIDATE_TRANSPORT_TCP_PASSIVE then sPassive
  else if t == NICE_CANDIDATE_TRANSPORT_TCP_SO then sSo
  else []

/-- `%d` of `port == 0 ? 9 : port` with `guint16 port = nice_address_get_port (a)` -/
def sdpPort (a : Address) : Text :=
  let p := (getPort a).toUInt16
  fmtD (if p == 0 then 9 else (p.toNat : Int))

/-- `%d` of a `guint` / `guint32` argument: printed as the `int` with the same bits -/
def fmtU32 (x : UInt32) : Text := fmtD x.toInt32.toInt

def joinSp : List Text → Text
  | [] => []
  | [t] => t
  | t :: ts => t ++ 32 :: joinSp ts

/-- the space-separated fields `_generate_candidate_sdp` prints after "a=candidate:" -/
def genTokens (L : Libc) (c : Cand) : List Text :=
  [c.foundation.take NICE_CANDIDATE_MAX_FOUNDATION, fmtU32 c.componentId, transportToSdp c.transport,
   fmtU32 c.priority, L.ntop c.addr, sdpPort c.addr, sTyp, typeToSdp c.type]
  ++ (if isValid c.base && !equal c.addr c.base then [sRaddr, L.ntop c.base, sRport, sdpPort c.base] else [])
  ++ (if c.transport != NICE_CANDIDATE_TRANSPORT_UDP then [sTcptype, tcptypeToSdp c.transport] else [])

/-- `_generate_candidate_sdp` / `nice_agent_generate_local_candidate_sdp` -/
def genCandidate (L : Libc) (c : Cand) : Text := pCandidate ++ joinSp (genTokens L c)

structure Keys where
  type : Option Text := none
  raddr : Option Text := none
  rport : UInt16 := 0
  tcptype : Option Text := none

/-- the `default:` arm of the token loop: key/value pairs; a key without a value ends the parse
    with no candidate (`tokens[i + 1] == NULL → goto done`) -/
def keyLoop : List Text → Keys → Option Keys
  | [], k => some k
  | [_], _ => none
  | key :: v :: rest, k =>
    let k := if key == sTyp then { k with type := some v }
      else if key == sRaddr then { k with raddr := some v }
      else if key == sRport then { k with rport := (strtoull v).toUInt16 }
      else if key == sTcptype then { k with tcptype := some v }
      else k
    keyLoop rest k

def typeNames : List Text := [sHost, sSrflx, sPrflx, sRelay]

def lookupType (t : Text) : Option Nat :=
  if t == sHost then some 0 else if t == sSrflx then some 1 else if t == sPrflx then some 2
  else if t == sRelay then some 3 else none

/-- transport decision; the Bool reports the GLib critical raised by
    `g_ascii_strcasecmp (NULL, "so")` (which then returns 0, i.e. "equal") when the transport is
    "TCP" and no `tcptype` key was given -/
def lookupTransport (transport : Text) (tcptype : Option Text) : Option Nat × Bool :=
  if caseEq transport sUDP then (some NICE_CANDIDATE_TRANSPORT_UDP, false)
  else if caseEq transport sTcpSo then (some NICE_CANDIDATE_TRANSPORT_TCP_SO, false)
  else if caseEq transport sTcpAct then (some NICE_CANDIDATE_TRANSPORT_TCP_ACTIVE, false)
  else if caseEq transport sTcpPass then (some NICE_CANDIDATE_TRANSPORT_TCP_PASSIVE, false)
  else if caseEq transport sTCP then
    match tcptype with
    | none => (none, false)   -- `if (tcptype == NULL) goto done;`
    | some t =>
      if caseEq t sSo then (some NICE_CANDIDATE_TRANSPORT_TCP_SO, false)
      else if caseEq t sActive then (some NICE_CANDIDATE_TRANSPORT_TCP_ACTIVE, false)
      else if caseEq t sPassive then (some NICE_CANDIDATE_TRANSPORT_TCP_PASSIVE, false)
      else (none, false)
  else (none, false)

structure PResult where
  cand : Option Cand := none
  /-- number of GLib criticals raised on the way -/
  crit : Nat := 0

/-- body of `nice_agent_parse_remote_candidate_sdp` after `g_strsplit` -/
def parseTokensX (L : Libc) (sid : UInt32) (tokens : List Text) : PResult :=
  match tokens with
  | foundation :: comp :: transport :: prio :: addr :: port :: rest =>
    match keyLoop rest {} with
    | none => {}
    | some k =>
      match k.type with
      | none => {}
      | some ty =>
        match lookupType ty with
        | none => {}
        | some ntype =>
          match lookupTransport transport k.tcptype with
          | (none, cr) => { crit := if cr then 1 else 0 }
          | (some ctransport, cr) =>
            let crit := if cr then 1 else 0
            match L.pton addr with
            | none => { crit := crit }
            | some a =>
              let a := setPort a (strtoull port).toUInt16.toUInt32
              let c : Cand := { type := ntype, transport := ctransport, addr := a, base := {}, priority := (strtoull prio).toUInt32, streamId := sid, componentId := (strtoull comp).toUInt32, foundation := strlcpy foundation NICE_CANDIDATE_MAX_FOUNDATION }
              match k.raddr with
              | some r =>
                if k.rport != 0 then
                  match L.pton r with
                  | none => { crit := crit }
                  | some b => { cand := some { c with base := setPort b k.rport.toUInt32 }, crit := crit }
                else { cand := some c, crit := crit }
              | none => { cand := some c, crit := crit }
  | _ => {}

/-- `nice_agent_parse_remote_candidate_sdp (agent, stream_id, sdp)` -/
def parseCandidateX (L : Libc) (sid : UInt32) (s : Text) : PResult :=
  if sid == 0 then { crit := 1 }   -- g_return_val_if_fail (stream_id >= 1, NULL)
  else if !hasPrefix s pCandidate then {}
  else parseTokensX L sid (strsplit 32 (s.drop 12))

def parseTokens (L : Libc) (sid : UInt32) (tokens : List Text) : Option Cand := (parseTokensX L sid tokens).cand
def parseCandidate (L : Libc) (sid : UInt32) (s : Text) : Option Cand := (parseCandidateX L sid s).cand

/-! ## agent-level bookkeeping touched by the SDP functions -/

structure Component where
  id : UInt32
  locals : List Cand := []
  remotes : List Cand := []
  deriving Repr, Inhabited

structure Stream where
  id : UInt32
  name : Option Text := none
  localUfrag : Text := []
  localPwd : Text := []
  remoteUfrag : Text := []
  remotePwd : Text := []
  comps : List Component := []
  deriving Repr, Inhabited

structure Agent where
  streams : List Stream := []
  forceRelay : Bool := false
  deriving Repr, Inhabited

def findStream (a : Agent) (sid : UInt32) : Option Stream := a.streams.find? (·.id == sid)
def findComp (s : Stream) (cid : UInt32) : Option Component := s.comps.find? (·.id == cid)

def updStream (a : Agent) (sid : UInt32) (f : Stream → Stream) : Agent :=
  { a with streams := a.streams.map fun s => if s.id == sid then f s else s }

def updComp (s : Stream) (cid : UInt32) (f : Component → Component) : Stream :=
  { s with comps := s.comps.map fun c => if c.id == cid then f c else c }

/-- `nice_agent_set_stream_name`: (agent, result, critical for a non-SDP name) -/
def setStreamName (a : Agent) (sid : UInt32) (name : Text) : Agent × Bool × Bool :=
  let crit := !validNames.contains name
  if sid == 0 then (a, false, true) else
  -- the loop stops at the first *other* stream that already has the name
  let rec go : List Stream → Bool → Option Bool
    | [], found => some found
    | s :: rest, found =>
      if s.id != sid && s.name == some name then none
      else if s.id == sid then go rest true else go rest found
  match go a.streams false with
  | none => (a, false, crit)
  | some false => (a, false, crit)
  | some true => (updStream a sid fun s => { s with name := some name }, true, crit)

/-- `nice_agent_set_local_credentials` -/
def setLocalCredentials (a : Agent) (sid : UInt32) (ufrag pwd : Text) : Agent × Bool :=
  match findStream a sid with
  | none => (a, false)
  | some _ => (updStream a sid fun s =>
      { s with localUfrag := strlcpy ufrag MAX_UFRAG, localPwd := strlcpy pwd MAX_PWD }, true)

/-- `_get_default_local_candidate_locked` -/
def defaultRtp (a : Agent) (c : Component) : Option Cand :=
  c.locals.foldl (fun (d : Option Cand) (l : Cand) =>
    if a.forceRelay && l.type != NICE_CANDIDATE_TYPE_RELAYED then d
    else if ipVersion l.addr != 4 then d
    else match d with
      | none => some l
      | some dc => if l.priority < dc.priority then some l else d) none

def defaultCandidate (a : Agent) (s : Stream) (c : Component) : Option Cand :=
  if c.id.toNat == NICE_COMPONENT_TYPE_RTP then defaultRtp a c else
  match findComp s (UInt32.ofNat NICE_COMPONENT_TYPE_RTP) with
  | none => none
  | some rtp =>
    match defaultRtp a rtp with
    | none => none
    | some d =>
      c.locals.find? fun l =>
        !(a.forceRelay && l.type != NICE_CANDIDATE_TYPE_RELAYED) && ipVersion l.addr == 4 &&
        l.foundation.take NICE_CANDIDATE_MAX_FOUNDATION == d.foundation.take NICE_CANDIDATE_MAX_FOUNDATION

def any4 : Address := { family := .v4, bytes := [0, 0, 0, 0], port := 0, scope := 0 }

/-- `_generate_stream_sdp` -/
def genStream (L : Libc) (a : Agent) (s : Stream) (includeNonIce : Bool) : Text :=
  let head : Text :=
    if includeNonIce then
      let (rtp, rtcp) := s.comps.foldl (fun (p : Address × Address) (c : Component) =>
        if c.id.toNat == NICE_COMPONENT_TYPE_RTP then
          (match defaultCandidate a s c with | some d => (d.addr, p.2) | none => p)
        else if c.id.toNat == NICE_COMPONENT_TYPE_RTCP then
          (match defaultCandidate a s c with | some d => (p.1, d.addr) | none => p)
        else p) (any4, any4)
      pM ++ (s.name.getD sDash) ++ 32 :: fmtU32 (getPort rtp) ++ sIceSdp ++ [10]
      ++ sCIn ++ L.ntop rtp ++ [10]
      ++ (if getPort rtcp != 0 then sRtcp ++ fmtU32 (getPort rtcp) ++ [10] else [])
    else []
  head ++ pUfrag ++ s.localUfrag ++ [10] ++ pPwd ++ s.localPwd ++ [10]
  ++ (s.comps.flatMap fun c => c.locals.flatMap fun l =>
        if a.forceRelay && l.type != NICE_CANDIDATE_TYPE_RELAYED then [] else genCandidate L l ++ [10])

/-- `nice_agent_generate_local_sdp` -/
def genSdp (L : Libc) (a : Agent) : Text := a.streams.flatMap fun s => genStream L a s true

/-- `nice_agent_generate_local_stream_sdp` (`none` = NULL) -/
def genStreamSdp (L : Libc) (a : Agent) (sid : UInt32) (includeNonIce : Bool) : Option Text :=
  if sid == 0 then none else
  match findStream a sid with
  | none => none
  | some s => some (genStream L a s includeNonIce)

/-- `priv_add_remote_candidate`, list bookkeeping (default agent settings: ICE-UDP and ICE-TCP on,
    not controlling; the receiving component has no local candidates so no pairs are formed) -/
def addRemote (c : Component) (sid : UInt32) (d : Cand) : Component × Bool :=
  if d.type == NICE_CANDIDATE_TYPE_PEER_REFLEXIVE then (c, false)
  else if d.priority == 0 then (c, false)
  else
    -- nice_component_find_remote_candidate: first with equal address and transport
    let idx := c.remotes.findIdx? fun r => equal r.addr d.addr && r.transport == d.transport
    let remotes := match idx with
      | some i => c.remotes.modify i fun r =>
          if r.type == NICE_CANDIDATE_TYPE_PEER_REFLEXIVE then { r with type := d.type } else r
      | none => c.remotes
    let same := match idx with
      | some i => (match remotes[i]? with | some r => r.type == d.type | none => false)
      | none => false
    match idx, same with
    | some i, true =>
      ({ c with remotes := remotes.modify i fun r =>
          { r with base := d.base, priority := d.priority, foundation := strlcpy d.foundation NICE_CANDIDATE_MAX_FOUNDATION } }, true)
    | _, _ =>
      let n : Cand := { type := d.type, transport := d.transport, addr := d.addr, base := d.base, priority := d.priority, streamId := sid, componentId := c.id, foundation := strlcpy d.foundation NICE_CANDIDATE_MAX_FOUNDATION }
      ({ c with remotes := remotes ++ [n] }, true)

/-- state of the line loop of `nice_agent_parse_remote_sdp` -/
structure PS where
  agent : Agent
  /-- position of `stream_item` in `agent->streams` (`none` = NULL) -/
  cur : Option Nat := none
  ret : Int := 0
  crit : Nat := 0

def parseLines (L : Libc) : List Text → PS → PS
  | [], st => st
  | line :: rest, st =>
    if hasPrefix line pM then
      let nxt := match st.cur with | none => 0 | some i => i + 1
      if nxt < st.agent.streams.length then parseLines L rest { st with cur := some nxt }
      else { st with ret := -1, crit := st.crit + 1 }     -- g_critical ("More streams in SDP than in agent")
    else
      let cs : Option Stream := match st.cur with | none => none | some i => st.agent.streams[i]?
      if hasPrefix line pUfrag then
        match cs with
        | none => { st with ret := -1 }
        | some s => parseLines L rest { st with agent := updStream st.agent s.id fun s =>
            { s with remoteUfrag := strlcpy (line.drop 12) MAX_UFRAG } }
      else if hasPrefix line pPwd then
        match cs with
        | none => { st with ret := -1 }
        | some s => parseLines L rest { st with agent := updStream st.agent s.id fun s =>
            { s with remotePwd := strlcpy (line.drop 10) MAX_PWD } }
      else if hasPrefix line pCandidate then
        match cs with
        | none => { st with ret := -1 }
        | some s =>
          let r := parseCandidateX L s.id line
          let st := { st with crit := st.crit + r.crit }
          match r.cand with
          | none => { st with ret := -1 }
          | some cand =>
            match findComp s cand.componentId with
            | none => { st with ret := -1 }
            | some comp =>
              -- _set_remote_candidates_locked on the one-element list
              let (comp', added) := if isValid cand.addr then addRemote comp s.id cand else (comp, false)
              let ag := updStream st.agent s.id fun s => updComp s comp.id fun _ => comp'
              parseLines L rest { st with agent := ag, ret := if added then st.ret + 1 else st.ret }
      else parseLines L rest st

/-- `nice_agent_parse_remote_sdp`: new agent state, return value, criticals -/
def parseRemoteSdp (L : Libc) (a : Agent) (sdp : Text) : Agent × Int × Nat :=
  let st := parseLines L (strsplit 10 sdp) { agent := a }
  (st.agent, st.ret, st.crit)

structure SResult where
  ufrag : Option Text := none
  pwd : Option Text := none
  cands : List Cand := []
  crit : Nat := 0

def parseStreamLines (L : Libc) (sid : UInt32) : List Text → SResult → SResult
  | [], r => r
  | line :: rest, r =>
    if hasPrefix line pUfrag then parseStreamLines L sid rest { r with ufrag := some (line.drop 12) }
    else if hasPrefix line pPwd then parseStreamLines L sid rest { r with pwd := some (line.drop 10) }
    else if hasPrefix line pCandidate then
      let p := parseCandidateX L sid line
      let r := { r with crit := r.crit + p.crit }
      match p.cand with
      | none => { r with cands := [] }
      | some c => parseStreamLines L sid rest { r with cands := c :: r.cands }   -- g_slist_prepend
    else parseStreamLines L sid rest r

/-- `nice_agent_parse_remote_stream_sdp (agent, stream_id, sdp, &ufrag, &pwd)`;
    `none` when the stream does not exist (nothing is touched) -/
def parseRemoteStreamSdp (L : Libc) (a : Agent) (sid : UInt32) (sdp : Text) : Option SResult :=
  if sid == 0 then none else
  match findStream a sid with
  | none => none
  | some s => some (parseStreamLines L s.id (strsplit 10 sdp) {})

end Nice.Sdp
