/-
  Model of stun/usages/timer.c (stun_timer_start / stun_timer_remainder / stun_timer_refresh).

  The clock is an argument: `now` is the monotonic clock in microseconds, split the way
  `stun_gettime` does (tv_sec = now / 10^6, tv_usec = now % 10^6).  The deadline is kept as the
  (tv_sec, tv_usec) pair the C code stores, including its normalisation quirk
  (`while (tv_usec > 1000000)`, so tv_usec = 1000000 is left as it is).
  `delay`, `retransmissions`, `max_retransmissions` are C `unsigned` (UInt32, wrap-around).
-/
namespace Nice.Timer

inductive Ret where
  | success | retransmit | timeout
  deriving DecidableEq, Repr

structure Timer where
  dlSec   : Nat
  dlUsec  : Nat
  delay   : UInt32
  retrans : UInt32
  maxRetrans : UInt32
  deriving DecidableEq, Repr

/-- `set_delay`: deadline := now + delay ms, with the C normalisation loop (one iteration is
    enough because tv_usec < 10^6 and (delay % 1000) * 1000 < 10^6). -/
def setDelay (now : Nat) (delay : UInt32) : Nat × Nat :=
  let sec := now / 1000000 + delay.toNat / 1000
  let usec := now % 1000000 + (delay.toNat % 1000) * 1000
  if usec > 1000000 then (sec + 1, usec - 1000000) else (sec, usec)

def start (now : Nat) (initialTimeout maxRetransmissions : UInt32) : Timer :=
  let d := setDelay now initialTimeout
  { dlSec := d.1, dlUsec := d.2, delay := initialTimeout, retrans := 1,
    maxRetrans := maxRetransmissions }

/-- C: `delay += ((signed)(dl_usec - now_usec)) / 1000` — a truncating (towards zero) signed
    division whose result is converted to `unsigned` and added modulo 2^32: adding a negative
    quotient is subtracting its magnitude. -/
def addUsecDiffMs (base : UInt32) (dlUsec nowUsec : Nat) : UInt32 :=
  if nowUsec ≤ dlUsec then base + UInt32.ofNat ((dlUsec - nowUsec) / 1000)
  else base - UInt32.ofNat ((nowUsec - dlUsec) / 1000)

/-- `stun_timer_remainder` -/
def remainder (t : Timer) (now : Nat) : UInt32 :=
  let nowSec := now / 1000000
  let nowUsec := now % 1000000
  if nowSec > t.dlSec then 0
  else
    let dsec : UInt32 := UInt32.ofNat (t.dlSec - nowSec)
    if dsec == 0 && nowUsec >= t.dlUsec then 0
    else addUsecDiffMs (dsec * 1000) t.dlUsec nowUsec

/-- `stun_timer_refresh` -/
def refresh (t : Timer) (now : Nat) : Timer × Ret :=
  if remainder t now == 0 then
    if t.retrans >= t.maxRetrans then (t, .timeout)
    else
      let delay := if t.retrans == t.maxRetrans - 1 then t.delay / 2 else t.delay * 2
      let d := setDelay now delay
      ({ t with delay := delay, dlSec := d.1, dlUsec := d.2, retrans := t.retrans + 1 }, .retransmit)
  else (t, .success)

end Nice.Timer
