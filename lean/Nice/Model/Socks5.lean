/-
  Model of socket/socks5.c (SOCKS5 client: method negotiation, optional username/password
  sub-negotiation, CONNECT reply with IPv4 / IPv6 bound address; domain-name replies are refused).

  Quirk mirrored line by line: each reply is read into a small automatic array `data[]` and the
  code tests `local_recv_buf.size` (the capacity it passed in, never changed by the base socket)
  instead of the received length, so a reply that arrives short is parsed with the never-written
  tail of `data[]` (modelled as `stackJunk`), and the second read of the CONNECT reply (bound
  address) must succeed immediately (`ret != 1` -> error).
-/
import Nice.Model.SockBase
namespace Nice.Socks5
open Nice.Sock

inductive State where
  | init | auth | connect | connected | error
  deriving DecidableEq, Repr

structure St where
  state    : State := .init
  username : Option Bytes := none    -- C strings: no NUL inside
  password : Option Bytes := none
  ipv6     : Bool := false
  addr     : Bytes := []             -- 4 or 16 address bytes, network order
  port     : Nat := 0
  queue    : List Bytes := []
  deriving Repr, DecidableEq

/-- `nice_socks5_socket_new`: greeting -/
def new (user pass : Option Bytes) (ipv6 : Bool) (addr : Bytes) (port : Nat) (b : Base) : Res × St :=
  let msg : Bytes := if user.isSome || pass.isSome then [0x05, 0x02, 0x00, 0x02] else [0x05, 0x01, 0x00]
  ({ ret := 0, down := flushDown b [msg] },
   { username := user, password := pass, ipv6 := ipv6, addr := addr, port := port })

def connectMsg (s : St) : Bytes :=
  [0x05, 0x01, 0x00] ++ [if s.ipv6 then 0x04 else 0x01] ++ s.addr ++
    [UInt8.ofNat (s.port / 256), UInt8.ofNat (s.port % 256)]

/-- label `error:` — frees the base socket -/
def fail (s : St) (b : Base) (down : List Bytes := []) : Res × St × Base :=
  ({ ret := -1, down := down }, { s with state := .error }, { b with freed := true })

/-- label `send_connect:` -/
def sendConnect (s : St) (b : Base) : Res × St × Base :=
  ({ ret := 0, down := flushDown b [connectMsg s] }, { s with state := .connect }, b)

/-- `socket_recv_messages` (one message, caller buffer `ucap` bytes) -/
def recv (s : St) (b : Base) (ucap : Nat := 65536) : Res × St × Base :=
  match s.state with
  | .connected =>
    if b.freed then ({ ret := -1 }, s, b)
    else
      let ((ret, bytes), b) := b.read ucap
      if ret ≤ 0 then ({ ret := ret }, s, b) else ({ ret := ret, up := [{ data := bytes }] }, s, b)
  | .init =>
    if b.freed then ({ ret := -1 }, s, b)
    else
      let ((ret, bytes), b) := b.read 2
      if ret ≤ 0 then ({ ret := ret }, s, b)
      else
        let data := fixedBuf bytes 2 stackJunk
        if data.getD 0 0 == 0x05 then
          if data.getD 1 0 == 0x02 then
            if s.username.isSome || s.password.isSome then
              let u := s.username.getD []
              let p := s.password.getD []
              if u.length > 255 then fail s b
              else if p.length > 255 then fail s b
              else
                let msg : Bytes := [0x01, UInt8.ofNat u.length] ++ u ++ [UInt8.ofNat p.length] ++ p
                ({ ret := 0, down := flushDown b [msg] }, { s with state := .auth }, b)
            else fail s b
          else if data.getD 1 0 == 0x00 then sendConnect s b
          else fail s b
        else fail s b
  | .auth =>
    if b.freed then ({ ret := -1 }, s, b)
    else
      let ((ret, bytes), b) := b.read 2
      if ret ≤ 0 then ({ ret := ret }, s, b)
      else
        let data := fixedBuf bytes 2 stackJunk
        if data.getD 0 0 == 0x01 && data.getD 1 0 == 0x00 then sendConnect s b else fail s b
  | .connect =>
    if b.freed then ({ ret := -1 }, s, b)
    else
      let ((ret, bytes), b) := b.read 4
      if ret ≤ 0 then ({ ret := ret }, s, b)
      else
        let data := fixedBuf bytes 4 stackJunk
        if data.getD 0 0 == 0x05 then
          if data.getD 1 0 == 0x00 then
            if data.getD 2 0 == 0x00 then
              let atyp := data.getD 3 0
              if atyp == 0x01 || atyp == 0x04 then
                let ((ret2, _), b) := b.read (if atyp == 0x01 then 6 else 18)
                if ret2 != 1 then fail s b
                else
                  ({ ret := 0, down := flushDown b s.queue }, { s with state := .connected, queue := [] }, b)
              else fail s b
            else fail s b
          else fail s b
        else fail s b
  | .error => fail s b

def send (s : St) (b : Base) (bufs : List Bytes) (reliable : Bool) : Res × St :=
  match s.state with
  | .connected =>
    if b.freed then ({ ret := -1 }, s)
    else if b.sendRet < 0 then ({ ret := -1 }, s)
    else ({ ret := 1, down := [bufs.flatten] }, s)
  | .error => ({ ret := -1 }, s)
  | _ => if reliable then ({ ret := 1 }, { s with queue := queueSend s.queue bufs }) else ({ ret := 0 }, s)

end Nice.Socks5
