/-
  The agent's inbound decision kernels:
  * `demux` — agent/agent.c agent_recv_message_unlocked: fast length check → full length check →
    STUN handler → source gate (nice_component_verify_remote_candidate) → deliver.
  * `gate` — agent/conncheck.c conn_check_handle_inbound_stun: what each StunValidationStatus leads to
    BEFORE any agent state is touched.
  Status numbers are the regenerated STUN_VALIDATION_* constants.
-/
import Nice.Gen.Consts
namespace Nice.Gate
open Nice.Gen

inductive Effect where
  | notHandled          -- returns FALSE: the datagram is not control traffic, falls through to the data path
  | replyOnly (code : Nat)  -- an error response goes back to the source; no state is touched
  | dropped             -- handled, silently ignored
  | proceed             -- authenticated: the request/response processing may change the agent
  | consentRevoked      -- authenticated 403: pairs from that source fail
  deriving DecidableEq, Repr

/-- conn_check_handle_inbound_stun, status → effect (RFC 5245 compatibility) -/
def gate (status : Nat) : Effect :=
  if status = STUN_VALIDATION_NOT_STUN ∨ status = STUN_VALIDATION_INCOMPLETE_STUN ∨
     status = STUN_VALIDATION_BAD_REQUEST then .notHandled
  else if status = STUN_VALIDATION_UNKNOWN_REQUEST_ATTRIBUTE then .replyOnly 420
  else if status = STUN_VALIDATION_UNAUTHORIZED then .replyOnly 401
  else if status = STUN_VALIDATION_UNAUTHORIZED_BAD_REQUEST then .replyOnly 400
  else if status = STUN_VALIDATION_FORBIDDEN then .consentRevoked
  else if status = STUN_VALIDATION_UNMATCHED_RESPONSE then .dropped
  else if status = STUN_VALIDATION_SUCCESS then .proceed
  else .notHandled       -- `valid != STUN_VALIDATION_SUCCESS` → return FALSE (e.g. UNKNOWN_ATTRIBUTE)

def handled (e : Effect) : Bool := e ≠ .notHandled

inductive Verdict where
  | control      -- consumed as ICE control traffic, never shown to the application
  | deliver      -- handed to the application, bytes and boundary unchanged
  | drop         -- silently dropped (unknown source)
  deriving DecidableEq, Repr

/-- agent_recv_message_unlocked for a datagram of `len` bytes: `fast`/`full` are the two length
    functions' results, `status` the validation status if the handler is reached, `srcValid` =
    nice_component_verify_remote_candidate (the source completed an authenticated check) -/
def demux (len : Nat) (fast full : Int) (status : Nat) (srcValid : Bool) : Verdict :=
  if fast = (len : Int) ∧ full = (len : Int) ∧ handled (gate status) then .control
  else if srcValid then .deliver else .drop

end Nice.Gate
