/-
  The receive loop shared by every stream layer: what the agent's socket source does when bytes
  arrive.  `feed` = the bytes of one TCP read event are appended to the kernel buffer below the
  layer, then the layer's receive function is called while the descriptor is readable (bytes
  pending) or the layer asked to be woken up again, and stops at the first error return.
  The driver (Nice/Drv/Sock.lean) executes exactly these functions; harness/sock_drv.c does the same
  against the real code.
-/
import Nice.Model.SockBase
namespace Nice.Sock

/-- what is observed over a session -/
structure Obs where
  rets : List Int := []
  ups  : List Up := []
  down : List Bytes := []
  deriving Repr, DecidableEq

def Obs.add (o : Obs) (r : Res) : Obs :=
  { rets := o.rets ++ [r.ret], ups := o.ups ++ r.up, down := o.down ++ r.down }

/-- a receive machine: state, one receive call, which return values end the loop, wake-up request -/
structure Machine (σ : Type) where
  recv : σ → Base → Res × σ × Base
  stop : Int → Bool := fun r => r < 0
  wake : σ → Bool := fun _ => false

def pump (m : Machine σ) : Nat → σ → Base → Obs → σ × Base × Obs
  | 0, s, b, o => (s, b, o)
  | fuel + 1, s, b, o =>
    let (r, s, b) := m.recv s b
    let o := o.add r
    if !m.stop r.ret && (!b.pend.isEmpty || m.wake s) then pump m fuel s b o else (s, b, o)

/-- enough iterations: every call that does not end the loop consumes a pending byte or hands up
    one of the buffered frames (at most one per two buffered bytes) -/
def feedFuel (b : Base) (buffered : Nat) : Nat := 2 * (b.pend.length + buffered) + 4

def feed (m : Machine σ) (buffered : σ → Nat) (x : σ × Base × Obs) (chunk : Bytes) : σ × Base × Obs :=
  let b := x.2.1.push chunk
  pump m (feedFuel b (buffered x.1)) x.1 b x.2.2

def feedAll (m : Machine σ) (buffered : σ → Nat) (s : σ) (b : Base) (chunks : List Bytes) : σ × Base × Obs :=
  chunks.foldl (feed m buffered) (s, b, {})

/-- messages delivered upward, in order -/
def Obs.msgs (o : Obs) : List Bytes := o.ups.map (·.data)
/-- the tunnelled byte stream delivered upward -/
def Obs.stream (o : Obs) : Bytes := (o.ups.map (·.data)).flatten
/-- the byte stream written downward -/
def Obs.wire (o : Obs) : Bytes := o.down.flatten
/-- some receive call reported an error -/
def Obs.errored (o : Obs) (stop : Int → Bool) : Bool := o.rets.any stop

end Nice.Sock
