/-
  Model of the TCP send path: socket/tcp-bsd.c (`socket_send_message`, `socket_send_more`) and the
  queue helpers of socket/socket.c (`nice_socket_queue_send_with_callback`,
  `nice_socket_flush_send_queue_to_socket`).

  The kernel is a script: `acc` lists how many bytes each successive sendmsg accepts
  (0 = EAGAIN; list exhausted = everything).  `wire` is what the kernel accepted, per call.

  (socket.c `nice_socket_queue_send_with_callback` as fixed in 2caa19c: after the tail of the first
  partially written buffer the following buffers are copied from their start.)
-/
import Nice.Model.SockBase
namespace Nice.SendQueue
open Nice.Sock

structure Kernel where
  acc  : List Nat := []
  deriving Repr, DecidableEq

inductive SendRes where
  | eagain
  | wrote (n : Nat)
  deriving Repr, DecidableEq

/-- one sendmsg of `tot` bytes -/
def Kernel.send (k : Kernel) (data : Bytes) : SendRes × Bytes × Kernel :=
  match k.acc with
  | [] => (.wrote data.length, data, k)
  | a :: rest =>
    let n := min a data.length
    if n == 0 && data.length > 0 then (.eagain, [], { acc := rest })
    else (.wrote n, data.take n, { acc := rest })

structure St where
  queue    : List Bytes := []
  err      : Bool := false
  reliable : Bool := true
  src      : Bool := false       -- io_source attached
  wcb      : Nat := 0            -- writable callback invocations
  deriving Repr, DecidableEq

/-- write `src` at offset `off` of `dst` (memcpy inside the block) -/
def blit (dst : Bytes) (off : Nat) (src : Bytes) : Bytes :=
  dst.take off ++ src ++ dst.drop (off + src.length)

/-- the copy loop of `nice_socket_queue_send_with_callback` -/
def copyLoop : List Bytes → (messageOffset offset : Nat) → (tbs : Bytes) → Bytes
  | [], _, _, tbs => tbs
  | buf :: rest, messageOffset, offset, tbs =>
    if buf.length ≤ messageOffset then copyLoop rest (messageOffset - buf.length) offset tbs
    else
      let len := min (tbs.length - offset) (buf.length - messageOffset)
      let tbs := blit tbs offset ((buf.drop messageOffset).take len)
      let offset := offset + len
      -- the following buffers are queued from their start
      copyLoop rest 0 offset tbs

/-- `nice_socket_queue_send_with_callback (queue, message, message_offset, message_len, head, ...)`:
    the block that is queued (none when nothing remains) -/
def queuedBlock (bufs : List Bytes) (messageOffset messageLen : Nat) : Option Bytes :=
  if messageOffset ≥ messageLen then none
  else some (copyLoop bufs messageOffset 0 (List.replicate (messageLen - messageOffset) heapJunk))

def enqueue (s : St) (bufs : List Bytes) (messageOffset messageLen : Nat) (head : Bool) (withSource : Bool) : St :=
  match queuedBlock bufs messageOffset messageLen with
  | none => s
  | some blk =>
    let q := if head then blk :: s.queue else s.queue ++ [blk]
    { s with queue := q, src := s.src || withSource }

/-- tcp-bsd.c `socket_send_message`: returns (ret, bytes accepted by the kernel in this call) -/
def sendMessage (s : St) (k : Kernel) (bufs : List Bytes) (reliable : Bool) : Int × List Bytes × St × Kernel :=
  if s.err then (-1, [], s, k)
  else
    let data := bufs.flatten
    let messageLen := data.length
    if s.queue.isEmpty then
      match k.send data with
      | (.eagain, _, k) => (messageLen, [], enqueue s bufs 0 messageLen false true, k)
      | (.wrote n, w, k) =>
        if n < messageLen then (messageLen, [w], enqueue s bufs n messageLen true true, k)
        else (n, [w], s, k)
    else if reliable then (messageLen, [], enqueue s bufs 0 messageLen false true, k)
    else (0, [], s, k)

/-- `socket_send_messages` (one message) -/
def send (s : St) (k : Kernel) (bufs : List Bytes) : Res × St × Kernel :=
  let (len, w, s, k) := sendMessage s k bufs false
  ({ ret := if len < 0 then -1 else if len == 0 then 0 else 1, down := w }, s, k)

/-- `socket_send_messages_reliable` (one message) -/
def sendReliable (s : St) (k : Kernel) (bufs : List Bytes) : Res × St × Kernel :=
  let (len, w, s, k) := sendMessage s k bufs true
  ({ ret := if len < 0 then -1 else 1, down := w }, s, k)

/-- `nice_socket_flush_send_queue_to_socket`: returns (queue emptied?, accepted chunks) -/
def flush : Nat → List Bytes → Kernel → List Bytes → Bool × List Bytes × List Bytes × Kernel
  | 0, q, k, w => (false, w, q, k)
  | _ + 1, [], k, w => (true, w, [], k)
  | fuel + 1, tbs :: rest, k, w =>
    match k.send tbs with
    | (.eagain, _, k) => (false, w, tbs :: rest, k)
    | (.wrote n, acc, k) =>
      if n < tbs.length then (false, w ++ [acc], tbs.drop n :: rest, k)
      else flush fuel rest k (w ++ [acc])

/-- the G_IO_OUT source fires (`socket_send_more`); `ret` = whether a source was dispatched -/
def writable (s : St) (k : Kernel) : Res × St × Kernel :=
  if !s.src then ({ ret := 0 }, s, k)
  else
    let (emptied, w, q, k) := flush (s.queue.length + 1) s.queue k []
    if emptied then ({ ret := 1, down := w }, { s with queue := q, src := false, wcb := s.wcb + 1 }, k)
    else ({ ret := 1, down := w }, { s with queue := q }, k)

end Nice.SendQueue
