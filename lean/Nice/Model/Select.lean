/-
  Selected-pair kernel of a component (agent/conncheck.c conn_check_update_selected_pair): every nominated pair is
  offered to the component; it replaces the selected pair iff the REGENERATED guard `selected_pair_replaces` says so.
  A fresh component has selected priority 0 (component.c).
-/
import Nice.Gen.Select
namespace Nice.Select
open Nice.Gen

structure Sel where
  prio : Nat := 0
  id   : Option Nat := none          -- which pair (an opaque identifier of the local/remote transport addresses)
  deriving DecidableEq, Repr

/-- conn_check_update_selected_pair for the nominated pair `id` of priority `p` -/
def nominate (s : Sel) (x : Nat × Nat) : Sel :=
  if selected_pair_replaces x.2 s.prio then { prio := x.2, id := some x.1 } else s

def run (l : List (Nat × Nat)) : Sel := l.foldl nominate {}

/-- priority an agent gives to the pair (its local candidate priority `lp`, remote `rp`) -/
def pairPrio (controlling : Bool) (lp rp : UInt32) : Nat := (agent_candidate_pair_priority controlling lp rp).toNat

end Nice.Select
