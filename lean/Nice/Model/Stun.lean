/-
  Model of libnice's STUN message layer (namespace `Nice.Stun`).
    Stun/Basic.lean   bytes, faults, bounds-checked access, framing validators
    Stun/Find.lean    stun_message_find and the typed accessors, stun_xor_address
    Stun/Append.lean  stun_message_init / append*, CRC-32, stun_fingerprint
    Stun/Hash.lean    executable SHA-1, HMAC-SHA1, MD5
    Stun/Usages.lean  stun_usage_ice_conncheck_create/process/create_reply, stun_usage_bind_*
    Stun/Agent.lean   stun_agent_validate / finish_message / init_* / forget, stun_sha1, stun_hash_creds
-/
import Nice.Model.Stun.Basic
import Nice.Model.Stun.Find
import Nice.Model.Stun.Append
import Nice.Model.Stun.Hash
import Nice.Model.Stun.Agent
import Nice.Model.Stun.Usages
