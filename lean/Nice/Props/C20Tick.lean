/-
  C20 — completion is announced only when every discovery item is done.
  The theorems are about the accounting skeleton of agent/discovery.c priv_discovery_tick_unlocked that
  tools/extract_ctl.py REGENERATES from the source on every run (Nice/Gen/DiscoveryTick.lean): which branches
  count an item as outstanding (`++not_done`), which pace (`++need_pacing`), which mark it done.  They hold for
  every outcome of the code the skeleton does not track (all oracle values).
-/
import Nice.Gen.DiscoveryTick
namespace Nice.Props.C20
open Nice.Ctl Nice.Gen

/-- what one loop iteration started with `need_pacing = 0` guarantees -/
def BodyOk (s : S) (r : S × Flow) : Prop :=
  s.not_done ≤ r.1.not_done ∧
  (r.2 = .brk → s.not_done < r.1.not_done) ∧
  ((r.2 = .norm ∨ r.2 = .cont) → r.1.need_pacing = 0 ∧ (r.1.c.done = true ∨ s.not_done < r.1.not_done)) ∧
  r.2 ≠ .sbrk ∧ (∀ v, r.2 ≠ .ret v)

theorem bodyOk_ite {c : Prop} [Decidable c] {s : S} {a b : S × Flow}
    (ht : c → BodyOk s a) (hf : ¬c → BodyOk s b) : BodyOk s (if c then a else b) := by
  by_cases h : c
  · rw [if_pos h]; exact ht h
  · rw [if_neg h]; exact hf h

/-- one loop iteration: the item is either counted as outstanding, or done; the loop is left early only
    after something was counted.  (Site-agnostic proof: the regenerated body is a tree of `if`s; every leaf is
    checked under the conditions on its path.) -/
theorem tick_body_spec (o : Nat → Nat) (s : S) (h0 : s.need_pacing = 0) :
    BodyOk s (discovery_tick_body o s) := by
  unfold discovery_tick_body
  repeat' (apply bodyOk_ite <;> intro _)
  all_goals (simp_all [BodyOk])

/-- the loop: if nothing was counted as outstanding, every item of the list has been visited and is done -/
theorem forEach_spec (body : (Nat → Nat) → Stmt) (o : Nat → Nat → Nat)
    (hb : ∀ o s, s.need_pacing = 0 → BodyOk s (body o s)) :
    ∀ (items : List Item) (k : Nat) (s : S), s.need_pacing = 0 →
      s.not_done ≤ (forEach body o k s items).1.not_done ∧
      ((forEach body o k s items).2.2 = .norm ∨ (forEach body o k s items).2.2 = .abort) ∧
      ((forEach body o k s items).2.2 = .norm → (forEach body o k s items).1.not_done = s.not_done →
         ∀ it ∈ (forEach body o k s items).2.1, it.done = true) := by
  intro items
  induction items with
  | nil => intro k s _; simp [forEach]
  | cons it rest ih =>
    intro k s h0
    have hB := hb (o k) { s with c := it } h0
    generalize hr : body (o k) { s with c := it } = r at hB
    obtain ⟨s', f⟩ := r
    obtain ⟨h1, h2, h3, h4, h5⟩ := hB
    dsimp only at h1 h2 h3 h4 h5
    cases f with
    | norm =>
      obtain ⟨hnp, hd⟩ := h3 (Or.inl rfl)
      obtain ⟨i1, i2, i3⟩ := ih (k + 1) s' hnp
      simp only [forEach, hr]
      refine ⟨by omega, i2, ?_⟩
      intro hn he x hx
      simp only [List.mem_cons] at hx
      rcases hx with rfl | hx
      · rcases hd with hd | hd
        · exact hd
        · omega
      · exact i3 hn (by omega) x hx
    | cont =>
      obtain ⟨hnp, hd⟩ := h3 (Or.inr rfl)
      obtain ⟨i1, i2, i3⟩ := ih (k + 1) s' hnp
      simp only [forEach, hr]
      refine ⟨by omega, i2, ?_⟩
      intro hn he x hx
      simp only [List.mem_cons] at hx
      rcases hx with rfl | hx
      · rcases hd with hd | hd
        · exact hd
        · omega
      · exact i3 hn (by omega) x hx
    | brk =>
      have := h2 rfl
      simp only [forEach, hr]
      refine ⟨by omega, by simp, ?_⟩
      intro _ he; omega
    | sbrk => exact absurd rfl h4
    | ret v => exact absurd rfl (h5 v)
    | abort =>
      simp only [forEach, hr]
      exact ⟨h1, by simp, fun h => by simp at h⟩

/-- **C20_done_only_when_all_done.**  Whatever the untracked code does (send failures, timer outcomes, clock
    readings: all oracle values), if priv_discovery_tick_unlocked takes its "FINISHED" exit — frees the
    discovery list and announces candidate-gathering-done — then every discovery item on the list is done:
    none is pending with a request still inside its retransmission schedule. -/
theorem C20_done_only_when_all_done (o : Nat → Nat → Nat) (items : List Item)
    (h : (discovery_tick o items).2.2 = .ret false) :
    ∀ it ∈ (discovery_tick o items).2.1, it.done = true := by
  have hs := forEach_spec discovery_tick_body o tick_body_spec items 0 discovery_tick_init rfl
  unfold discovery_tick at h ⊢
  generalize forEach discovery_tick_body o 0 discovery_tick_init items = r at hs h ⊢
  obtain ⟨s, its, f⟩ := r
  obtain ⟨h1, h2, h3⟩ := hs
  dsimp only at h1 h2 h3
  rcases h2 with rfl | rfl
  · dsimp only at h ⊢
    unfold discovery_tick_tail at h
    by_cases hz : (s.not_done == 0) = true
    · have hz' : s.not_done = 0 := by simpa using hz
      exact h3 rfl (by simp [hz', discovery_tick_init])
    · rw [if_neg hz] at h; simp at h
  · simp at h

/-- the function has exactly the two return values, or does not return (noreturn call) -/
theorem C20_tick_return_values (o : Nat → Nat → Nat) (items : List Item) :
    (discovery_tick o items).2.2 = .ret false ∨ (discovery_tick o items).2.2 = .ret true ∨
    (discovery_tick o items).2.2 = .abort := by
  have hs := forEach_spec discovery_tick_body o tick_body_spec items 0 discovery_tick_init rfl
  unfold discovery_tick
  generalize forEach discovery_tick_body o 0 discovery_tick_init items = r at hs ⊢
  obtain ⟨s, its, f⟩ := r
  obtain ⟨_, h2, _⟩ := hs
  dsimp only at h2
  rcases h2 with rfl | rfl
  · dsimp only [discovery_tick_tail]
    by_cases hz : (s.not_done == 0) = true
    · rw [if_pos hz]; simp
    · rw [if_neg hz]; simp
  · simp

/-! non-vacuity: a list whose items are all done takes the FINISHED exit; one pending item does not -/
example : (discovery_tick (fun _ _ => 1) [{ pending := true, done := true }, { pending := true, done := true }]).2.2 = .ret false := by
  decide
example : (discovery_tick (fun _ _ => 1) [{ pending := true, done := true }, { pending := false }]).2.2 = .ret true := by
  decide

end Nice.Props.C20
