/-
  C14 — ICE restart issues fresh, well-formed credentials and forgets the previous session.
  Kernels only; re-convergence after restart is C01's simulation.
-/
import Nice.Model.Creds
import Nice.Props.C14Restart
namespace Nice.Props.C14
open Nice.Creds Nice.Gen

theorem alphabet_length : alphabet.length = 64 := by decide
theorem alphabet_ice : ∀ c ∈ alphabet, isIceChar c = true := by decide
theorem alphabet_nodup : alphabet.Nodup := by decide

theorem genPrint_length (draw : Nat → Nat) (n : Nat) : (genPrint draw n).length = n := by
  simp [genPrint]

theorem genPrint_ice (draw : Nat → Nat) (n : Nat) : ∀ c ∈ genPrint draw n, isIceChar c = true := by
  intro c hc
  simp only [genPrint, List.mem_map, List.mem_range] at hc
  obtain ⟨i, _, rfl⟩ := hc
  apply alphabet_ice
  have hlt : draw i % alphabet.length < alphabet.length := Nat.mod_lt _ (by rw [alphabet_length]; omega)
  have : alphabet.getD (draw i % alphabet.length) 'A' = alphabet[draw i % alphabet.length] := by
    simp [List.getD, List.getElem?_eq_getElem hlt]
  rw [this]
  exact List.getElem_mem hlt

/-- **C14_credentials_wellformed.**  For EVERY output of the random generator the new credentials
    have the configured lengths (ufrag 4 ≥ 4, password 22 ≥ 22, as ICE requires) over `ice-char`. -/
theorem C14_credentials_wellformed (draw : Nat → Nat) :
    (initCredentials draw).ufrag.length = 4 ∧ (initCredentials draw).pwd.length = 22 ∧
    (∀ c ∈ (initCredentials draw).ufrag, isIceChar c = true) ∧
    (∀ c ∈ (initCredentials draw).pwd, isIceChar c = true) := by
  refine ⟨?_, ?_, ?_, ?_⟩
  · simp [initCredentials, genPrint_length]; decide
  · simp [initCredentials, genPrint_length]; decide
  · exact genPrint_ice _ _
  · exact genPrint_ice _ _

/-- the alphabet lookup is injective on 0..63 -/
theorem alphabet_inj (a b : Nat) (ha : a < 64) (hb : b < 64)
    (h : alphabet.getD a 'A' = alphabet.getD b 'A') : a = b := by
  have hla : a < alphabet.length := by rw [alphabet_length]; exact ha
  have hlb : b < alphabet.length := by rw [alphabet_length]; exact hb
  exact (List.getD_inj hla hlb alphabet_nodup).mp h

/-- **C14_credentials_are_rng.**  The credentials are an injective image of the generator's draws:
    two runs give the same password only if all 22 draws coincide modulo 64.  (Freshness itself is
    therefore exactly the freshness of the RNG — probabilistic, measured in simulation.) -/
theorem C14_credentials_are_rng (d1 d2 : Nat → Nat) (n : Nat) (h : genPrint d1 n = genPrint d2 n) :
    ∀ i < n, d1 i % 64 = d2 i % 64 := by
  intro i hi
  have hl : alphabet.length = 64 := alphabet_length
  have h1 := congrArg (fun l => l[i]?) h
  simp only [genPrint, List.getElem?_map, List.getElem?_range hi, Option.map_some, hl] at h1
  have := Option.some.inj h1
  exact alphabet_inj _ _ (Nat.mod_lt _ (by omega)) (Nat.mod_lt _ (by omega)) this

/-- **C14_restart_forgets.**  After a restart nothing of the previous remote side is left and every
    component is announced GATHERING again. -/
theorem C14_restart_forgets (s : StreamSt) (draw : Nat → Nat) :
    (restart s draw).remoteCands = [] ∧ (restart s draw).checkList = [] ∧
    (restart s draw).remoteUfrag = [] ∧ (restart s draw).remotePwd = [] ∧
    (restart s draw).compStates.length = s.compStates.length ∧
    (∀ st ∈ (restart s draw).compStates, st = NICE_COMPONENT_STATE_GATHERING) := by
  refine ⟨rfl, rfl, rfl, rfl, by simp [restart], ?_⟩
  intro st hst
  simp only [restart, List.mem_map] at hst
  obtain ⟨_, _, rfl⟩ := hst; rfl

/-! non-vacuity -/
example : (initCredentials (fun i => i * 7)).ufrag = ['A', 'H', 'O', 'V'] := by decide
example : isIceChar '+' = true ∧ isIceChar ' ' = false := by decide

end Nice.Props.C14
