/-
  C11 / C20 — gathering completion is announced (agent_signal_gathering_done: for EVERY stream whose run is open) only when
  the discovery timer is gone, i.e. when no discovery item of any stream is scheduled or waiting for an answer: proved about
  the skeleton REGENERATED from agent/agent.c agent_gathering_done on every run (`Nice.Gen.GatheringDone.prog`).
  (Seeded C11g replaced the test by "no item is unscheduled": a host-only stream asked to gather while another stream's
  Allocate is in flight then announces completion for both.)
-/
import Nice.Gen.GatheringDone
namespace Nice.Props.C11GatheringDone
open Nice.Flow Nice.Gen.GatheringDone

def hv : Havoc := fun _ _ => [0, 1]

/-- event kind 7 = agent_signal_gathering_done -/
def policy : Policy := fun _ kind σ => kind != 7 || σ.r0 == 0

def init : List St := [{ r0 := 0 }, { r0 := 1 }]

theorem analysis_ok : (reach hv policy prog init).ok = true := by decide +kernel

/-- **C11_completion_needs_no_pending_discovery.**  On every execution of `agent_gathering_done`, from either state of the
    discovery timer and for every value of everything the skeleton does not track, completion is announced only with
    `agent->discovery_timer_source == NULL`. -/
theorem C11_completion_needs_no_pending_discovery {σ0 : St} (h0 : σ0 ∈ init) {tr : List Ev} {σ1 : St} {o : Out}
    (hx : Exec hv prog σ0 tr σ1 o) : ∀ e ∈ tr, e.kind = 7 → e.st.r0 = 0 := by
  intro e he hk
  have hp := events_satisfy_policy analysis_ok h0 hx e he
  simpa [policy, hk] using hp

/-! non-vacuity: completion IS announced on some path -/
def never7 : Policy := fun _ kind _ => kind != 7
example : (reach hv never7 prog init).ok = false := by decide +kernel

end Nice.Props.C11GatheringDone
