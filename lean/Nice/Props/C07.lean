/-
  C07 — whatever the STUN builder emits is bounded, well-formed and reads back equal.
  Theorems about the builder half of `Nice.Stun` (stun_message_init / append*, stunmessage.c,
  stun5389.c, utils.c) — for all buffers, capacities, types, lengths and values.
-/
import Nice.Proofs.StunAppend
import Nice.Props.C06
namespace Nice.Props.C07
open Nice.Stun Nice.Spec.Stun Nice.Gen

/-! ### no write outside the caller's buffer -/

theorem messageLength_ok {buf : Bytes} (h : 4 ≤ buf.size) : ∃ w, messageLength buf = .ok w := by
  obtain ⟨w, hw, _⟩ := getw_ok (b := buf) (off := 2) (by omega)
  exact ⟨w + UInt16.ofNat 20, by unfold messageLength; rw [show STUN_MESSAGE_LENGTH_POS = 2 from rfl, hw]; rfl⟩

/-- `stun_message_append` never reads or writes outside the buffer, whatever the buffer holds
    (any capacity ≥ 20, any header contents — including a message length that wrapped at 16 bits —
    any type, any length a caller can have in memory). -/
theorem C07_no_write_outside (a : Option Cfg) (buf : Bytes) (type : UInt16) (n : Nat)
    (h20 : 20 ≤ buf.size) (hn : n < 2 ^ 63) : ∃ r, append a buf type n = .ok r := by
  obtain ⟨w, hw⟩ := messageLength_ok (buf := buf) (by omega)
  obtain ⟨h1, h2⟩ := append_eq a buf type n w hw h20 hn
  by_cases hfit : w.toNat + 4 + n + padOf a n ≤ buf.size
  · obtain ⟨hc, _, h⟩ := h2 hfit; exact ⟨_, h⟩
  · exact ⟨_, h1 (by omega)⟩

/-- the same for `stun_message_append_bytes` (and so for flag / 32 / 64 / string / software, which
    call it): the value is copied inside the buffer or nothing is written -/
theorem C07_no_write_outside_bytes (a : Option Cfg) (buf : Bytes) (type : UInt16) (data : Bytes)
    (h20 : 20 ≤ buf.size) (hn : data.size < 2 ^ 63) : ∃ r, appendBytes a buf type data = .ok r := by
  obtain ⟨w, hw⟩ := messageLength_ok (buf := buf) (by omega)
  obtain ⟨h1, h2⟩ := append_eq a buf type data.size w hw h20 hn
  unfold appendBytes
  by_cases hfit : w.toNat + 4 + data.size + padOf a data.size ≤ buf.size
  · obtain ⟨hc, _, h⟩ := h2 hfit
    rw [h]
    simp only
    split
    · rw [wrBytes_eq (by rw [appendP_size]; omega)]; exact ⟨_, rfl⟩
    · exact ⟨_, rfl⟩
  · rw [h1 (by omega)]; exact ⟨_, rfl⟩

/-- `stun_message_init` writes only the 20 header bytes, or nothing -/
theorem C07_init_no_fault (buf : Bytes) (c m : Nat) (id : Bytes) :
    ∃ r, messageInit buf c m id = .ok r := by
  unfold messageInit
  have e : STUN_MESSAGE_HEADER_LENGTH = 20 := rfl
  have e4 : STUN_MESSAGE_TRANS_ID_POS = 4 := rfl
  have e16 : STUN_MESSAGE_TRANS_ID_LEN = 16 := rfl
  rw [e, e4, e16]
  by_cases h : buf.size < 20
  · rw [if_pos h]; exact ⟨_, rfl⟩
  · rw [if_neg h, wrZeros_eq (by omega)]
    simp only
    rw [wr_eq (by simp [blit_size]; omega)]
    simp only
    rw [wr_eq (by simp [blit_size]; omega)]
    simp only
    rw [wrBytes_eq (by simp [blit_size]; omega)]
    exact ⟨_, rfl⟩

/-! ### the builder state invariant -/

/-- `stun_message_init` (class < 4, i.e. a `StunClass`) yields a well-formed empty message -/
theorem init_built (a : Option Cfg) (buf : Bytes) (c m : Nat) (id b : Bytes) (hc : c < 4)
    (h : messageInit buf c m id = .ok (some b)) : Built a b 20 ∧ b.size = buf.size := by
  unfold messageInit at h
  have e : STUN_MESSAGE_HEADER_LENGTH = 20 := rfl
  have e4 : STUN_MESSAGE_TRANS_ID_POS = 4 := rfl
  have e16 : STUN_MESSAGE_TRANS_ID_LEN = 16 := rfl
  rw [e, e4, e16] at h
  by_cases hlt : buf.size < 20
  · rw [if_pos hlt] at h; cases h
  · rw [if_neg hlt, wrZeros_eq (by omega)] at h
    simp only at h
    rw [wr_eq (by simp [blit_size]; omega)] at h
    simp only at h
    rw [wr_eq (by simp [blit_size]; omega)] at h
    simp only at h
    have hidsz : (id.extract 0 16).size ≤ 16 := by simp; omega
    rw [wrBytes_eq (by simp [blit_size]; omega)] at h
    injection h with h; injection h with h
    have hsz : b.size = buf.size := by rw [← h]; simp [blit_size]
    have hget : ∀ j, j < 4 → b.getD j 0 =
        if j = 1 then (setType c m).2 else if j = 0 then (setType c m).1 else 0 := by
      intro j hj
      rw [← h, blit_getD _ _ _ _ (by simp [blit_size]; omega), if_neg (by omega), getD_set, getD_set,
        blit_getD _ _ _ _ (by simp; omega)]
      simp only [Array.size_setIfInBounds, blit_size, Array.size_replicate]
      have hz : (Array.replicate 4 (0 : UInt8)).getD (j - 0) 0 = 0 := by
        simp only [Array.getD_eq_getD_getElem?, Array.getElem?_replicate]; split <;> rfl
      by_cases h1 : j = 1
      · rw [if_pos ⟨h1.symm, by omega⟩, if_pos h1]
      · rw [if_neg (fun hh => h1 hh.1.symm), if_neg h1]
        by_cases h0 : j = 0
        · rw [if_pos ⟨h0.symm, by omega⟩, if_pos h0]
        · rw [if_neg (fun hh => h0 hh.1.symm), if_neg h0, if_pos ⟨by omega, by omega⟩, hz]
    have h20 : (20 : UInt16).toNat = 20 := rfl
    refine ⟨⟨?_, by rw [h20]; omega, by rw [h20, hsz]; omega, ?_, ?_, fun _ => by decide⟩, hsz⟩
    · have h2 := hget 2 (by omega)
      have h3 := hget 3 (by omega)
      rw [if_neg (by omega), if_neg (by omega)] at h2 h3
      have := messageLength_of_bytes (b := b) (x := 0) (by omega) (by rw [h2]; rfl) (by rw [h3]; rfl)
      simpa using this
    · have h0 := hget 0 (by omega)
      rw [if_neg (by omega), if_pos rfl] at h0
      unfold byteN; rw [h0]
      unfold setType
      simp only [UInt8.toNat_ofNat']
      have h1 : c >>> 1 < 2 ^ 6 := by rw [Nat.shiftRight_eq_div_pow]; omega
      have h2 : (m >>> 6) &&& 0x3e < 2 ^ 6 := Nat.lt_of_le_of_lt Nat.and_le_right (by decide)
      have := Nat.or_lt_two_pow h1 h2
      omega
    · have : (20 : UInt16).toNat - 20 = 0 := by decide
      rw [this, seg_zero]; exact Tiles.nil

/-- Each append either fits or reports lack of space leaving the message as it was.  On success
    the message stays inside the buffer, nothing at or beyond the new end is touched, nothing
    before the old end is touched except the header length field, and the value is stored. -/
theorem C07_append_fits_or_unchanged (a : Option Cfg) (buf : Bytes) (w type : UInt16) (data : Bytes)
    (hB : Built a buf w) (hcap : buf.size ≤ 65535) (hn : data.size < 2 ^ 63) :
    (appendBytes a buf type data = .ok (.noSpace, buf) ∧
      w.toNat + 4 + data.size + padOf a data.size > buf.size) ∨
    (∃ b' w', appendBytes a buf type data = .ok (.success, b') ∧ b'.size = buf.size ∧
      Built a b' w' ∧ w'.toNat = w.toNat + 4 + data.size + padOf a data.size ∧ w'.toNat ≤ buf.size ∧
      (∀ j, w'.toNat ≤ j → b'.getD j 0 = buf.getD j 0) ∧
      (∀ j, j < w.toNat → j ≠ 2 → j ≠ 3 → b'.getD j 0 = buf.getD j 0) ∧
      (∀ k, k < data.size → b'.getD (w.toNat + 4 + k) 0 = data.getD k 0)) := by
  obtain ⟨h1, h2⟩ := appendBytes_spec a buf w type data hB hcap hn
  by_cases hfit : w.toNat + 4 + data.size + padOf a data.size ≤ buf.size
  · right
    obtain ⟨hc, happ, hbuilt, hlen⟩ := h2 hfit
    have hL := hB.ge20
    have hsz := appendP_size a buf w type data.size hc
    have hpad := padOf_le a data.size hn
    have hg : ∀ j, (blit (appendP a buf w type data.size hc) (w.toNat + 4) data).getD j 0 =
        if w.toNat + 4 ≤ j ∧ j < w.toNat + 4 + data.size then data.getD (j - (w.toNat + 4)) 0
        else (appendP a buf w type data.size hc).getD j 0 :=
      fun j => blit_getD _ _ _ _ (by rw [hsz]; omega)
    refine ⟨_, _, happ, by rw [blit_size, hsz], hbuilt, hlen, by omega, ?_, ?_, ?_⟩
    · intro j hj
      rw [hg, if_neg (by omega), appendP_getD a buf w type data.size hc j hL hfit]
      rw [if_neg (by omega), if_neg (by omega), if_neg (by omega), if_neg (by omega), if_neg (by omega),
        if_neg (by omega), if_neg (by omega)]
    · intro j hj h2' h3'
      rw [hg, if_neg (by omega), appendP_getD a buf w type data.size hc j hL hfit]
      rw [if_neg (by omega), if_neg (by omega), if_neg (by omega), if_neg (by omega), if_neg (by omega),
        if_neg (by omega), if_neg (by omega)]
    · intro k hk
      rw [hg, if_pos (by omega)]
      have : w.toNat + 4 + k - (w.toNat + 4) = k := by omega
      rw [this]
  · left; exact ⟨h1 (by omega), by omega⟩

/-- a message in a well-formed builder state passes the library's own length validation (on the
    first `len` bytes) and the independent parser -/
theorem built_wellformed (a : Option Cfg) (buf : Bytes) (w : UInt16) (hB : Built a buf w) :
    validateLen (buf.extract 0 w.toNat) (!noAlign a) = .ok (.len w.toNat) ∧
    ∃ attrs, parseAttrs (!noAlign a) (buf.extract 0 w.toNat).toList = some attrs := by
  have hL := hB.ge20
  have hle := hB.le_size
  have hpl : (buf.extract 0 w.toNat).toList = buf.toList.take w.toNat := by
    rw [Array.toList_extract, List.extract_eq_take_drop]; simp
  have hlen : (buf.toList.take w.toNat).length = w.toNat := by simp; omega
  obtain ⟨b0, b1, l0, l1, rest, hl⟩ := C06.list4 (l := buf.toList.take w.toNat) (by omega)
  -- the header bytes of the prefix are those of the buffer
  have hb : ∀ k, k < 4 → byteL (buf.toList.take w.toNat) k = byteN buf k := by
    intro k hk
    rw [byteN_eq_byteL]
    simp only [byteL, List.getD_eq_getElem?_getD, List.getElem?_take]
    rw [if_pos (by omega)]
  have h0 := hb 0 (by omega); have h2 := hb 2 (by omega); have h3 := hb 3 (by omega)
  rw [hl] at h0 h2 h3
  simp [byteL] at h0 h2 h3
  obtain ⟨x, hx, hxn⟩ := getw_ok (b := buf) (off := 2) (by omega)
  have hw : w = x + 20 := by
    have := hB.len_ok
    unfold messageLength at this
    rw [show STUN_MESSAGE_LENGTH_POS = 2 from rfl, hx] at this
    injection this with this; exact this.symm
  have hbe : 20 + be16 l0 l1 = w.toNat := by
    have hx2 : x.toNat = be16 l0 l1 := by rw [hxn]; simp [getwN, be16, h2, h3]
    have : w.toNat = (x.toNat + 20) % 65536 := by rw [hw, UInt16.toNat_add]; rfl
    have := x.toNat_lt
    omega
  have hwf : WellFormed (!noAlign a) (buf.extract 0 w.toNat).toList w.toNat := by
    rw [hpl]
    refine ⟨b0, b1, l0, l1, rest, hl, by rw [h0]; exact hB.top, hbe.symm, ?_, by omega, ?_⟩
    · intro hp
      exact hB.mult4 (by simpa using hp)
    · rw [List.take_take, Nat.min_self, seg_take_drop]
      exact hB.tiles
  refine ⟨(C06.C06_length_iff_grammar _ _ _).mpr hwf, ?_⟩
  obtain ⟨b0', b1', l0', l1', rest', hl', _, hL', _, hle', ht⟩ := hwf
  obtain ⟨attrs, hattrs⟩ := parseFrom_of_tiles (!noAlign a) _ _ rfl 20 ht
  refine ⟨attrs, ?_⟩
  unfold parseAttrs
  rw [hl']
  simp only
  rw [← hl', ← hL', if_pos hle']
  exact hattrs

/-! ### read-back -/

set_option maxRecDepth 16000

theorem lit4 (a b c d : UInt8) : (#[a,b,c,d] : Bytes).getD 0 0 = a ∧ (#[a,b,c,d] : Bytes).getD 1 0 = b ∧
    (#[a,b,c,d] : Bytes).getD 2 0 = c ∧ (#[a,b,c,d] : Bytes).getD 3 0 = d := by
  simp [Array.getD_eq_getD_getElem?]

theorem be32_roundtrip (v : UInt32) : be32 (be32Bytes v) = v := by
  unfold be32 be32Bytes
  obtain ⟨h0, h1, h2, h3⟩ := lit4 (UInt8.ofNat (v.toNat / 16777216)) (UInt8.ofNat (v.toNat / 65536))
    (UInt8.ofNat (v.toNat / 256)) (UInt8.ofNat v.toNat)
  rw [h0, h1, h2, h3]
  apply UInt32.toNat_inj.mp
  simp only [UInt32.toNat_ofNat', UInt8.toNat_ofNat']
  have := v.toNat_lt
  omega

/-- "first occurrence": no earlier attribute has the (wire) type or is M-I / FINGERPRINT -/
def FirstOccurrence (a : Option Cfg) (t : UInt16) (attrs : List Attr) : Prop :=
  ∀ x ∈ attrs, x.type ≠ (swapType a t).toNat ∧ x.type ≠ MESSAGE_INTEGRITY ∧ x.type ≠ FINGERPRINT

/-- the attribute list of a builder state (exists by `built_wellformed`) -/
def AttrsOf (a : Option Cfg) (buf : Bytes) (w : UInt16) (attrs : List Attr) : Prop :=
  parseFrom (!noAlign a) 20 (seg buf 20 (w.toNat - 20)) = some attrs

theorem lenField_mult4 (a : Option Cfg) (hc : Bool) (n : Nat) (h4 : n % 4 = 0) (hn : n < 65536) :
    lenField a hc n = UInt16.ofNat n := by
  unfold lenField
  split
  · rfl
  · cases hc
    · simp only [Bool.false_eq_true, if_false]
      rw [alignN_eq n (by omega)]
      have : (n + 3) / 4 * 4 = n := by omega
      rw [this]
    · rfl

/-- Byte strings read back: after a successful `append_bytes` the lookup finds the attribute (first
    occurrence of its type) and the value bytes are the appended ones.  The length field is the data
    length, except for RFC 3489 style messages (no magic cookie, aligned attributes) whose length
    field libnice rounds up to a multiple of 4 — the extra bytes are the zero padding. -/
theorem C07_roundtrip_bytes (a : Option Cfg) (buf : Bytes) (w t : UInt16) (data b' : Bytes)
    (attrs : List Attr) (hB : Built a buf w) (hcap : buf.size ≤ 65535)
    (hA : AttrsOf a buf w attrs) (hF : FirstOccurrence a t attrs) (hdn : data.size < 2 ^ 63)
    (happ : appendBytes a buf t data = .ok (.success, b')) :
    ∃ lf : UInt16, find a b' t = .ok (some (w.toNat + 4, lf)) ∧
      rdBytes b' (w.toNat + 4) data.size = .ok data ∧
      (lf.toNat = data.size ∨ (noAlign a = false ∧ lf.toNat = data.size + pad4 data.size)) := by
  obtain ⟨h1, h2⟩ := appendBytes_spec a buf w t data hB hcap hdn
  by_cases hfit : w.toNat + 4 + data.size + padOf a data.size ≤ buf.size
  · obtain ⟨hc, happ', _, _⟩ := h2 hfit
    rw [happ'] at happ
    injection happ with happ; injection happ with _ hb
    rw [← hb]
    obtain ⟨hfind, hrd⟩ := roundtrip_core a buf w t data.size hc data hB hcap hfit rfl attrs hA hF
    refine ⟨_, hfind, hrd, ?_⟩
    have hds : data.size < 65536 := by omega
    unfold lenField
    cases hna : noAlign a
    · cases hc
      · right
        refine ⟨rfl, ?_⟩
        simp only [Bool.false_eq_true, if_false]
        rw [alignN_eq_add_pad _ (by omega), UInt16.toNat_ofNat']
        have : pad4 data.size ≤ 3 := by unfold pad4; omega
        have hpo : padOf a data.size = pad4 data.size := by
          simp [padOf, hna]; exact paddingN_eq_pad4 _ (by omega)
        have : (65536 : Nat) = 2 ^ 16 := by decide
        omega
      · left
        simp only [Bool.false_eq_true, if_false, if_true, UInt16.toNat_ofNat']
        have : (65536 : Nat) = 2 ^ 16 := by decide
        omega
    · left
      simp only [if_true, UInt16.toNat_ofNat']
      have : (65536 : Nat) = 2 ^ 16 := by decide
      omega
  · rw [h1 (by omega)] at happ; cases happ

/-- values whose size is a multiple of 4: the length field is exact in every mode -/
theorem roundtrip_mult4 (a : Option Cfg) (buf : Bytes) (w t : UInt16) (data b' : Bytes)
    (attrs : List Attr) (hB : Built a buf w) (hcap : buf.size ≤ 65535)
    (hA : AttrsOf a buf w attrs) (hF : FirstOccurrence a t attrs) (h4 : data.size % 4 = 0)
    (hdn : data.size < 2 ^ 63)
    (happ : appendBytes a buf t data = .ok (.success, b')) :
    find a b' t = .ok (some (w.toNat + 4, UInt16.ofNat data.size)) ∧
      rdBytes b' (w.toNat + 4) data.size = .ok data := by
  obtain ⟨h1, h2⟩ := appendBytes_spec a buf w t data hB hcap hdn
  by_cases hfit : w.toNat + 4 + data.size + padOf a data.size ≤ buf.size
  · obtain ⟨hc, happ', _, _⟩ := h2 hfit
    rw [happ'] at happ
    injection happ with happ; injection happ with _ hb
    rw [← hb]
    obtain ⟨hfind, hrd⟩ := roundtrip_core a buf w t data.size hc data hB hcap hfit rfl attrs hA hF
    rw [lenField_mult4 a hc data.size h4 (by omega)] at hfind
    exact ⟨hfind, hrd⟩
  · rw [h1 (by omega)] at happ; cases happ

/-- 32-bit integers read back identical -/
theorem C07_roundtrip_32 (a : Option Cfg) (buf : Bytes) (w t : UInt16) (v : UInt32) (b' : Bytes)
    (attrs : List Attr) (hB : Built a buf w) (hcap : buf.size ≤ 65535)
    (hA : AttrsOf a buf w attrs) (hF : FirstOccurrence a t attrs)
    (happ : append32 a buf t v = .ok (.success, b')) :
    find32 a b' t = .ok (.success, v) := by
  unfold append32 at happ
  have hsz : (be32Bytes v).size = 4 := rfl
  obtain ⟨hf, hr⟩ := roundtrip_mult4 a buf w t (be32Bytes v) b' attrs hB hcap hA hF (by rw [hsz])
    (by rw [hsz]; decide) happ
  unfold find32
  rw [hf]
  simp only [hsz]
  rw [if_pos (by decide)]
  rw [hsz] at hr
  rw [hr]
  simp only
  rw [be32_roundtrip]

/-- flags read back -/
theorem C07_roundtrip_flag (a : Option Cfg) (buf : Bytes) (w t : UInt16) (b' : Bytes)
    (attrs : List Attr) (hB : Built a buf w) (hcap : buf.size ≤ 65535)
    (hA : AttrsOf a buf w attrs) (hF : FirstOccurrence a t attrs)
    (happ : appendFlag a buf t = .ok (.success, b')) :
    findFlag a b' t = .ok .success := by
  unfold appendFlag at happ
  obtain ⟨hf, _⟩ := roundtrip_mult4 a buf w t #[] b' attrs hB hcap hA hF (by decide) (by decide) happ
  unfold findFlag
  rw [hf]
  rfl

theorem be64_roundtrip (v : UInt64) :
    UInt64.ofNat ((UInt32.ofNat (v.toNat / 4294967296)).toNat * 4294967296 + (UInt32.ofNat v.toNat).toNat) = v := by
  apply UInt64.toNat_inj.mp
  simp only [UInt64.toNat_ofNat', UInt32.toNat_ofNat']
  have := v.toNat_lt
  omega

/-- 64-bit integers read back identical -/
theorem C07_roundtrip_64 (a : Option Cfg) (buf : Bytes) (w t : UInt16) (v : UInt64) (b' : Bytes)
    (attrs : List Attr) (hB : Built a buf w) (hcap : buf.size ≤ 65535)
    (hA : AttrsOf a buf w attrs) (hF : FirstOccurrence a t attrs)
    (happ : append64 a buf t v = .ok (.success, b')) :
    find64 a b' t = .ok (.success, v) := by
  unfold append64 at happ
  generalize hd : be32Bytes (UInt32.ofNat (v.toNat / 4294967296)) ++ be32Bytes (UInt32.ofNat v.toNat) = data at happ
  have hsz : data.size = 8 := by rw [← hd]; rfl
  obtain ⟨hf, hr⟩ := roundtrip_mult4 a buf w t data b' attrs hB hcap hA hF (by rw [hsz])
    (by rw [hsz]; decide) happ
  unfold find64
  rw [hf]
  simp only [hsz]
  rw [if_pos (by decide)]
  rw [hsz] at hr
  rw [hr]
  simp only
  have h1 : be32 data = UInt32.ofNat (v.toNat / 4294967296) := by
    rw [← be32_roundtrip (UInt32.ofNat (v.toNat / 4294967296)), ← hd]
    unfold be32 be32Bytes
    simp [Array.getD_eq_getD_getElem?]
  have h2 : be32 (data.extract 4 8) = UInt32.ofNat v.toNat := by
    rw [← be32_roundtrip (UInt32.ofNat v.toNat), ← hd]
    unfold be32 be32Bytes
    simp [Array.getD_eq_getD_getElem?]
  rw [h1, h2, be64_roundtrip]

/-! #### addresses -/

theorem rdBytes_inv {b d : Bytes} {off n : Nat} (h : rdBytes b off n = .ok d) :
    off + n ≤ b.size ∧ d = b.extract off (off + n) := by
  unfold rdBytes at h
  split at h
  · rename_i hle; injection h with h; exact ⟨hle, h.symm⟩
  · cases h

theorem rdBytes_sub {b d : Bytes} {off n k m : Nat} (h : rdBytes b off n = .ok d) (hk : k + m ≤ n) :
    rdBytes b (off + k) m = .ok (d.extract k (k + m)) := by
  obtain ⟨hle, hd⟩ := rdBytes_inv h
  unfold rdBytes
  rw [if_pos (by omega), hd, Array.extract_extract]
  have e1 : off + k + m = off + (k + m) := by omega
  have e2 : min (off + (k + m)) (off + n) = off + (k + m) := by omega
  rw [e1, e2]

theorem getD_extract (b : Bytes) (off e i : Nat) (h : off + i < e) (he : e ≤ b.size) :
    (b.extract off e).getD i 0 = b.getD (off + i) 0 := by
  simp only [Array.getD_eq_getD_getElem?, Array.getElem?_extract]
  rw [if_pos (by omega)]

theorem rd_of_rdBytes {b d : Bytes} {off n i : Nat} (h : rdBytes b off n = .ok d) (hi : i < n) :
    rd b (off + i) = .ok (d.getD i 0) := by
  obtain ⟨hle, hd⟩ := rdBytes_inv h
  rw [rd_ok (by omega), hd, getD_extract _ _ _ _ (by omega) (by omega)]

theorem port_roundtrip (p : UInt16) : be16v (UInt8.ofNat (p.toNat / 256)) (UInt8.ofNat p.toNat) = p := by
  unfold be16v
  apply UInt16.toNat_inj.mp
  simp only [UInt16.toNat_ofNat', UInt8.toNat_ofNat']
  have := p.toNat_lt
  omega

theorem takeZ_self (ip : Bytes) (n : Nat) (h : ip.size = n) : takeZ ip n = ip := by
  apply Array.ext
  · simp [takeZ, h]
  · intro i h1 h2
    simp [takeZ, Array.getD_eq_getD_getElem?, Array.getElem?_eq_getElem h2]

/-- the value `stun_message_append_addr` stores: 0, family, port (big endian), address bytes -/
def encodeAddr (family : UInt8) (port : UInt16) (ip : Bytes) : Bytes :=
  #[0, family, UInt8.ofNat (port.toNat / 256), UInt8.ofNat port.toNat] ++ ip

theorem encodeAddr_facts (family : UInt8) (port : UInt16) (ip : Bytes) :
    (encodeAddr family port ip).size = 4 + ip.size ∧
    (encodeAddr family port ip).getD 1 0 = family ∧
    ((encodeAddr family port ip).extract 2 (2 + 2)).getD 0 0 = UInt8.ofNat (port.toNat / 256) ∧
    ((encodeAddr family port ip).extract 2 (2 + 2)).getD 1 0 = UInt8.ofNat port.toNat ∧
    (encodeAddr family port ip).extract 4 (4 + ip.size) = ip := by
  refine ⟨by simp [encodeAddr], ?_, ?_, ?_, ?_⟩
  · simp [encodeAddr, Array.getD_eq_getD_getElem?, Array.getElem?_append]
  · simp [encodeAddr, Array.getD_eq_getD_getElem?, Array.getElem?_append, Array.getElem?_extract]
  · simp [encodeAddr, Array.getD_eq_getD_getElem?, Array.getElem?_append, Array.getElem?_extract]
  · apply Array.ext
    · simp [encodeAddr]
    · intro i h1 h2
      simp [encodeAddr, Array.getElem_append]

/-- what `stun_message_find_addr` computes from a found attribute, for a well-formed address value -/
theorem findAddr_of_found (a : Option Cfg) (b' : Bytes) (t : UInt16) (off : Nat) (family : UInt8)
    (port : UInt16) (ip : Bytes) (hfam : (family = 1 ∧ ip.size = 4) ∨ (family = 2 ∧ ip.size = 16))
    (hfind : find a b' t = .ok (some (off, UInt16.ofNat (4 + ip.size))))
    (hrd : rdBytes b' off (4 + ip.size) = .ok (encodeAddr family port ip)) :
    findAddr a b' t sizeofStorage =
      .ok (.success, some ⟨if family = 1 then 4 else 6, port, ip⟩,
        if family = 1 then sizeofSockaddr else sizeofSockaddrIn6) := by
  obtain ⟨hsz, hd1, hp0, hp1, hipx⟩ := encodeAddr_facts family port ip
  generalize encodeAddr family port ip = d at *
  unfold findAddr
  rw [hfind]
  simp only
  rcases hfam with ⟨hf, hip⟩ | ⟨hf, hip⟩
  · subst hf
    rw [hip] at hrd hipx ⊢
    rw [if_neg (by decide), rd_of_rdBytes hrd (i := 1) (by decide), hd1]
    simp only
    rw [if_pos (by decide), if_neg (by decide),
      rdBytes_sub hrd (k := 2) (m := 2) (by decide), rdBytes_sub hrd (k := 4) (m := 4) (by decide)]
    simp only
    rw [hp0, hp1, hipx, port_roundtrip]
    rfl
  · subst hf
    rw [hip] at hrd hipx ⊢
    rw [if_neg (by decide), rd_of_rdBytes hrd (i := 1) (by decide), hd1]
    simp only
    rw [if_neg (by decide), if_pos (by decide), if_neg (by decide),
      rdBytes_sub hrd (k := 2) (m := 2) (by decide), rdBytes_sub hrd (k := 4) (m := 16) (by decide)]
    simp only
    rw [hp0, hp1, hipx, port_roundtrip]
    rfl

/-- `stun_message_append_addr` as "append + store `encodeAddr`" -/
theorem appendAddr_eq (a : Option Cfg) (buf : Bytes) (t : UInt16) (fam : Nat) (port : UInt16) (ip : Bytes)
    (addrlen : Nat) (b' : Bytes) (family : UInt8)
    (hfam : (fam = 4 ∧ family = 1 ∧ ip.size = 4) ∨ (fam = 6 ∧ family = 2 ∧ ip.size = 16))
    (happ : appendAddr a buf t ⟨fam, port, ip⟩ addrlen = .ok (.success, b')) :
    ∃ b off, append a buf t (4 + ip.size) = .ok (some (b, off)) ∧
      wrBytes b off (encodeAddr family port ip) = .ok b' := by
  unfold appendAddr at happ
  simp only at happ
  split at happ
  · cases happ
  · rcases hfam with ⟨hf, hfa, hip⟩ | ⟨hf, hfa, hip⟩
    · subst hf; subst hfa
      simp only [beq_self_eq_true, if_true, bne_self_eq_false, Bool.false_and, Bool.false_eq_true,
        if_false] at happ
      rw [takeZ_self ip 4 hip] at happ
      rw [hip]
      cases hap : append a buf t (4 + 4) with
      | error e => rw [hap] at happ; cases happ
      | ok r =>
        rw [hap] at happ
        cases r with
        | none => cases happ
        | some r =>
          obtain ⟨b, off⟩ := r
          simp only at happ
          refine ⟨b, off, rfl, ?_⟩
          cases hw : wrBytes b off (encodeAddr 1 port ip) with
          | error e =>
            have : wrBytes b off (#[0, 1, UInt8.ofNat (port.toNat / 256), UInt8.ofNat port.toNat] ++ ip) = .error e := hw
            rw [this] at happ; cases happ
          | ok b2 =>
            have : wrBytes b off (#[0, 1, UInt8.ofNat (port.toNat / 256), UInt8.ofNat port.toNat] ++ ip) = .ok b2 := hw
            rw [this] at happ
            injection happ with happ; injection happ with _ h; rw [h]
    · subst hf; subst hfa
      have h64 : ((6 : Nat) == 4) = false := by decide
      simp only [h64, Bool.false_eq_true, if_false, beq_self_eq_true, if_true, bne_self_eq_false,
        Bool.and_false] at happ
      split at happ
      · cases happ
      · rename_i fa family alen heq
        split at heq
        · cases heq
        · injection heq with heq; injection heq with hfa hal
          subst hfa; subst hal
          rw [takeZ_self ip 16 hip] at happ
          rw [hip]
          cases hap : append a buf t (4 + 16) with
          | error e => rw [hap] at happ; cases happ
          | ok r =>
            rw [hap] at happ
            cases r with
            | none => cases happ
            | some r =>
              obtain ⟨b, off⟩ := r
              simp only at happ
              refine ⟨b, off, rfl, ?_⟩
              cases hw : wrBytes b off (encodeAddr 2 port ip) with
              | error e =>
                have : wrBytes b off (#[0, 2, UInt8.ofNat (port.toNat / 256), UInt8.ofNat port.toNat] ++ ip) = .error e := hw
                rw [this] at happ; cases happ
              | ok b2 =>
                have : wrBytes b off (#[0, 2, UInt8.ofNat (port.toNat / 256), UInt8.ofNat port.toNat] ++ ip) = .ok b2 := hw
                rw [this] at happ
                injection happ with happ; injection happ with _ h; rw [h]

/-- plain IPv4 / IPv6 addresses read back identical -/
theorem C07_roundtrip_addr (a : Option Cfg) (buf : Bytes) (w t : UInt16) (fam : Nat) (port : UInt16)
    (ip : Bytes) (addrlen : Nat) (b' : Bytes) (attrs : List Attr) (hB : Built a buf w)
    (hcap : buf.size ≤ 65535) (hA : AttrsOf a buf w attrs) (hF : FirstOccurrence a t attrs)
    (hfam : (fam = 4 ∧ ip.size = 4) ∨ (fam = 6 ∧ ip.size = 16))
    (happ : appendAddr a buf t ⟨fam, port, ip⟩ addrlen = .ok (.success, b')) :
    findAddr a b' t sizeofStorage =
      .ok (.success, some ⟨fam, port, ip⟩, if fam = 4 then sizeofSockaddr else sizeofSockaddrIn6) := by
  have hipn : ip.size ≤ 16 := by rcases hfam with h | h <;> omega
  have hip4 : (4 + ip.size) % 4 = 0 := by rcases hfam with h | h <;> omega
  obtain ⟨family, hfamily⟩ : ∃ family : UInt8, (fam = 4 ∧ family = 1 ∧ ip.size = 4) ∨
      (fam = 6 ∧ family = 2 ∧ ip.size = 16) := by
    rcases hfam with ⟨h1, h2⟩ | ⟨h1, h2⟩
    · exact ⟨1, Or.inl ⟨h1, rfl, h2⟩⟩
    · exact ⟨2, Or.inr ⟨h1, rfl, h2⟩⟩
  obtain ⟨b, off, hap, hwr⟩ := appendAddr_eq a buf t fam port ip addrlen b' family hfamily happ
  have hsz := (encodeAddr_facts family port ip).1
  obtain ⟨h1, h2⟩ := append_then_write a buf w t (4 + ip.size) (encodeAddr family port ip)
    hB hcap (by omega) (by omega)
  by_cases hfit : w.toNat + 4 + (4 + ip.size) + padOf a (4 + ip.size) ≤ buf.size
  · obtain ⟨hc, happ', hwr', _, _⟩ := h2 hfit
    obtain ⟨hfind, hrd⟩ := roundtrip_core a buf w t (4 + ip.size) hc (encodeAddr family port ip)
      hB hcap hfit hsz attrs hA hF
    rw [lenField_mult4 a hc (4 + ip.size) hip4 (by omega)] at hfind
    generalize appendP a buf w t (4 + ip.size) hc = B at happ' hwr' hfind hrd
    rw [happ'] at hap
    have hbo := Option.some.inj (Except.ok.inj hap)
    have hb : B = b := congrArg Prod.fst hbo
    have hoff : w.toNat + 4 = off := congrArg Prod.snd hbo
    rw [← hb, ← hoff, hwr'] at hwr
    have hwr2 := Except.ok.inj hwr
    rw [hwr2] at hfind hrd
    have := findAddr_of_found a b' t (w.toNat + 4) family port ip
      (by rcases hfamily with ⟨_, h2, h3⟩ | ⟨_, h2, h3⟩
          · exact Or.inl ⟨h2, h3⟩
          · exact Or.inr ⟨h2, h3⟩) hfind hrd
    rw [this]
    rcases hfamily with ⟨h1', h2', _⟩ | ⟨h1', h2', _⟩
    · subst h1'; subst h2'; rfl
    · subst h1'; subst h2'; rfl
  · rw [h1 (by omega)] at hap; cases hap

/-- XOR-mapping an address is an involution (cookie and transaction id fixed by the message) -/
theorem C07_xor_involution (buf : Bytes) (addr : SockAddr) (addrlen : Nat) (cookie : UInt32)
    (r : SockAddr) (h : xorAddress buf addr addrlen cookie = .ok (.success, r))
    (hip : (addr.fam = 4 → addr.ip.size = 4) ∧ (addr.fam = 6 → addr.ip.size = 16)) :
    xorAddress buf r addrlen cookie = .ok (.success, addr) := by
  obtain ⟨fam, port, ip⟩ := addr
  simp only at hip
  have hx : ∀ (x k : Bytes), xorBytes (xorBytes x k) k = x := by
    intro x k
    apply Array.ext
    · simp [xorBytes]
    · intro i h1 h2
      simp [xorBytes, UInt8.xor_assoc]
  have hp : port ^^^ (cookie >>> 16).toUInt16 ^^^ (cookie >>> 16).toUInt16 = port := by
    rw [UInt16.xor_assoc, UInt16.xor_self, UInt16.xor_zero]
  unfold xorAddress at h ⊢
  simp only at h
  by_cases h4 : fam = 4
  · subst h4
    simp only [beq_self_eq_true, if_true] at h
    split at h
    · cases h
    · rename_i hal
      injection h with h; injection h with _ hr
      rw [← hr]
      simp only [beq_self_eq_true, if_true, if_neg hal, hx, hp]
  · have h4' : (fam == 4) = false := by simpa using h4
    simp only [h4', Bool.false_eq_true, if_false] at h
    by_cases h6 : fam = 6
    · subst h6
      simp only [beq_self_eq_true, if_true] at h
      split at h
      · cases h
      · rename_i hal
        cases hk : rdBytes buf 4 16 with
        | error e => rw [hk] at h; cases h
        | ok k =>
          rw [hk] at h
          injection h with h; injection h with _ hr
          rw [← hr]
          simp only [h4', Bool.false_eq_true, if_false, beq_self_eq_true, if_true, if_neg hal, hk, hx, hp]
    · have h6' : (fam == 6) = false := by simpa using h6
      simp only [h6', Bool.false_eq_true, if_false] at h
      cases h

/-! #### error codes -/

theorem strerror_size (code : Nat) : (strerror code).size ≤ 32 := by
  unfold strerror
  have hall : ∀ e ∈ stun_strerror_tab, e.2.length ≤ 32 := by decide
  cases h : stun_strerror_tab.find? (·.1 == code) with
  | none => simp only; decide
  | some e =>
    obtain ⟨c, str⟩ := e
    simp only
    have := hall _ (List.mem_of_find?_eq_some h)
    simpa using this

theorem lenField_ge (a : Option Cfg) (hc : Bool) (n : Nat) (hn : n + 3 < 65536) :
    n ≤ (lenField a hc n).toNat ∧ (lenField a hc n).toNat ≤ n + 3 := by
  have e : (65536 : Nat) = 2 ^ 16 := by decide
  unfold lenField
  split
  · rw [UInt16.toNat_ofNat']; omega
  · cases hc
    · simp only [Bool.false_eq_true, if_false]
      rw [alignN_eq n (by omega), UInt16.toNat_ofNat']; omega
    · simp only [if_true]; rw [UInt16.toNat_ofNat']; omega

/-- error codes 300..699 read back identical -/
theorem C07_roundtrip_error (a : Option Cfg) (buf : Bytes) (w : UInt16) (code : Nat) (b' : Bytes)
    (attrs : List Attr) (hB : Built a buf w) (hcap : buf.size ≤ 65535)
    (hA : AttrsOf a buf w attrs)
    (hF : FirstOccurrence a (UInt16.ofNat STUN_ATTRIBUTE_ERROR_CODE) attrs)
    (hcode : 300 ≤ code ∧ code ≤ 699)
    (happ : appendError a buf code = .ok (.success, b')) :
    findError a b' = .ok (.success, code) := by
  have hss := strerror_size code
  unfold appendError at happ
  simp only at happ
  generalize hd : (#[0, 0, UInt8.ofNat (code / 100), UInt8.ofNat (code % 100)] ++ strerror code : Bytes) = d at happ
  have hsz : d.size = 4 + (strerror code).size := by rw [← hd]; simp
  have hd2 : d.getD 2 0 = UInt8.ofNat (code / 100) := by
    rw [← hd]; simp [Array.getD_eq_getD_getElem?, Array.getElem?_append]
  have hd3 : d.getD 3 0 = UInt8.ofNat (code % 100) := by
    rw [← hd]; simp [Array.getD_eq_getD_getElem?, Array.getElem?_append]
  obtain ⟨h1, h2⟩ := append_then_write a buf w (UInt16.ofNat STUN_ATTRIBUTE_ERROR_CODE)
    (4 + (strerror code).size) d hB hcap (by omega) (by omega)
  by_cases hfit : w.toNat + 4 + (4 + (strerror code).size) + padOf a (4 + (strerror code).size) ≤ buf.size
  · obtain ⟨hc, happ', hwr', _, _⟩ := h2 hfit
    obtain ⟨hfind, hrd⟩ := roundtrip_core a buf w (UInt16.ofNat STUN_ATTRIBUTE_ERROR_CODE)
      (4 + (strerror code).size) hc d hB hcap hfit hsz attrs hA hF
    obtain ⟨hl1, _⟩ := lenField_ge a hc (4 + (strerror code).size) (by omega)
    generalize appendP a buf w (UInt16.ofNat STUN_ATTRIBUTE_ERROR_CODE) (4 + (strerror code).size) hc = B
      at happ' hwr' hfind hrd
    rw [happ'] at happ
    simp only at happ
    rw [hwr'] at happ
    have hb := congrArg Prod.snd (Except.ok.inj happ)
    simp only at hb
    rw [hb] at hfind hrd
    unfold findError
    rw [hfind]
    simp only
    rw [if_neg (by rw [UInt16.lt_iff_toNat_lt]; show ¬ _ < 4; omega)]
    rw [rd_of_rdBytes hrd (i := 2) (by omega), rd_of_rdBytes hrd (i := 3) (by omega), hd2, hd3]
    simp only
    have hc1 : (UInt8.ofNat (code / 100) &&& 7).toNat = code / 100 := by
      rw [UInt8.toNat_and, UInt8.toNat_ofNat']
      have e7 : (7 : UInt8).toNat = 2 ^ 3 - 1 := by decide
      rw [e7, Nat.and_two_pow_sub_one_eq_mod]
      omega
    have hc2 : (UInt8.ofNat (code % 100)).toNat = code % 100 := by
      rw [UInt8.toNat_ofNat']; omega
    have hn1 : ¬ (UInt8.ofNat (code / 100) &&& 7 < 3 || UInt8.ofNat (code / 100) &&& 7 > 6 ||
        UInt8.ofNat (code % 100) > 99) = true := by
      simp only [Bool.or_eq_true, decide_eq_true_eq, UInt8.lt_iff_toNat_lt, GT.gt]
      rw [hc1, hc2]
      show ¬ ((code / 100 < 3 ∨ 6 < code / 100) ∨ 99 < code % 100)
      omega
    rw [if_neg hn1, hc1, hc2]
    have : code / 100 * 100 + code % 100 = code := by omega
    rw [this]
  · rw [h1 (by omega)] at happ; cases happ

/-! ### every builder sequence keeps the message well formed -/

/-- the shape of every typed append: `stun_message_append` then a `memcpy` of at most `n` bytes -/
theorem preserve_of_write (a : Option Cfg) (buf : Bytes) (w t : UInt16) (n : Nat) (d b b' : Bytes) (off : Nat)
    (hB : Built a buf w) (hcap : buf.size ≤ 65535) (hn : n < 2 ^ 63) (hd : d.size ≤ n)
    (hap : append a buf t n = .ok (some (b, off))) (hwr : wrBytes b off d = .ok b') :
    ∃ w', Built a b' w' ∧ b'.size = buf.size := by
  obtain ⟨h1, h2⟩ := append_then_write a buf w t n d hB hcap hn hd
  by_cases hfit : w.toNat + 4 + n + padOf a n ≤ buf.size
  · obtain ⟨hc, happ', hwr', hbuilt, _⟩ := h2 hfit
    have hsz := appendP_size a buf w t n hc
    generalize appendP a buf w t n hc = B at happ' hwr' hbuilt hsz
    rw [happ'] at hap
    have hbo := Option.some.inj (Except.ok.inj hap)
    have hb : B = b := congrArg Prod.fst hbo
    have hoff : w.toNat + 4 = off := congrArg Prod.snd hbo
    rw [← hb, ← hoff, hwr'] at hwr
    have := Except.ok.inj hwr
    rw [← this]
    exact ⟨_, hbuilt, by rw [blit_size, hsz]⟩
  · rw [h1 (by omega)] at hap; cases hap

theorem preserve_appendBytes (a : Option Cfg) (buf : Bytes) (w t : UInt16) (data : Bytes) (r : Ret) (b' : Bytes)
    (hB : Built a buf w) (hcap : buf.size ≤ 65535) (hn : data.size < 2 ^ 63)
    (h : appendBytes a buf t data = .ok (r, b')) : ∃ w', Built a b' w' ∧ b'.size = buf.size := by
  obtain ⟨h1, h2⟩ := appendBytes_spec a buf w t data hB hcap hn
  by_cases hfit : w.toNat + 4 + data.size + padOf a data.size ≤ buf.size
  · obtain ⟨hc, happ, hbuilt, _⟩ := h2 hfit
    have hsz := appendP_size a buf w t data.size hc
    generalize appendP a buf w t data.size hc = B at happ hbuilt hsz
    rw [happ] at h
    have := congrArg Prod.snd (Except.ok.inj h)
    simp only at this
    rw [← this]
    exact ⟨_, hbuilt, by rw [blit_size, hsz]⟩
  · rw [h1 (by omega)] at h
    have := congrArg Prod.snd (Except.ok.inj h)
    simp only at this
    rw [← this]
    exact ⟨w, hB, rfl⟩

/-- builder operations (the typed appends of stunmessage.h) -/
inductive Op where
  | bytes (t : UInt16) (d : Bytes)
  | flag (t : UInt16)
  | u32 (t : UInt16) (v : UInt32)
  | u64 (t : UInt16) (v : UInt64)
  | str (t : UInt16) (s : Bytes)
  | err (code : Nat)
  | sw (s : Option Bytes)

def Op.run (a : Option Cfg) (buf : Bytes) : Op → M (Ret × Bytes)
  | .bytes t d => appendBytes a buf t d
  | .flag t => appendFlag a buf t
  | .u32 t v => append32 a buf t v
  | .u64 t v => append64 a buf t v
  | .str t s => appendString a buf t s
  | .err c => appendError a buf c
  | .sw s => appendSoftware a buf s

/-- size of the value an op stores (the caller has it in memory) -/
def Op.dataSize : Op → Nat
  | .bytes _ d => d.size
  | .str _ s => s.size
  | .sw (some s) => s.size
  | _ => 8

/-- run a sequence, ignoring the per-op return codes (a failed append leaves the message as it was) -/
def runOps (a : Option Cfg) (buf : Bytes) : List Op → M Bytes
  | [] => .ok buf
  | op :: ops =>
    match op.run a buf with
    | .error e => .error e
    | .ok (_, b) => runOps a b ops

theorem cstr_size (s : Bytes) : (cstr s).size ≤ s.size := by
  unfold cstr
  simp only [List.size_toArray]
  have := List.Sublist.length_le (List.takeWhile_sublist (fun x : UInt8 => x != 0) (l := s.toList))
  simpa using this

theorem appendSoftware_unf (a : Option Cfg) (buf : Bytes) (s : Option Bytes) :
    appendSoftware a buf s =
      match softwareLen (s.getD PACKAGE_STRING.toArray) 0 0 129 with
      | .error e => .error e
      | .ok n =>
        if n > (s.getD PACKAGE_STRING.toArray).size then .error .oob
        else appendBytes a buf (UInt16.ofNat STUN_ATTRIBUTE_SOFTWARE) ((s.getD PACKAGE_STRING.toArray).extract 0 n) := by
  cases s <;> rfl

theorem op_preserves (a : Option Cfg) (buf : Bytes) (w : UInt16) (op : Op) (r : Ret) (b' : Bytes)
    (hB : Built a buf w) (hcap : buf.size ≤ 65535) (hn : op.dataSize < 2 ^ 63)
    (h : op.run a buf = .ok (r, b')) : ∃ w', Built a b' w' ∧ b'.size = buf.size := by
  cases op with
  | bytes t d => exact preserve_appendBytes a buf w t d r b' hB hcap hn h
  | flag t => exact preserve_appendBytes a buf w t #[] r b' hB hcap (by decide) h
  | u32 t v =>
    refine preserve_appendBytes a buf w t _ r b' hB hcap ?_ h
    have : (be32Bytes v).size = 4 := rfl
    rw [this]; decide
  | u64 t v =>
    refine preserve_appendBytes a buf w t _ r b' hB hcap ?_ h
    have : (be32Bytes (UInt32.ofNat (v.toNat / 4294967296)) ++ be32Bytes (UInt32.ofNat v.toNat)).size = 8 := rfl
    rw [this]; decide
  | str t s =>
    exact preserve_appendBytes a buf w t (cstr s) r b' hB hcap
      (Nat.lt_of_le_of_lt (cstr_size s) hn) h
  | err c =>
    simp only [Op.run] at h
    unfold appendError at h
    simp only at h
    have hss := strerror_size c
    cases hap : append a buf (UInt16.ofNat STUN_ATTRIBUTE_ERROR_CODE) (4 + (strerror c).size) with
    | error e => rw [hap] at h; cases h
    | ok x =>
      rw [hap] at h
      cases x with
      | none =>
        have := congrArg Prod.snd (Except.ok.inj h)
        simp only at this
        rw [← this]; exact ⟨w, hB, rfl⟩
      | some x =>
        obtain ⟨b, off⟩ := x
        simp only at h
        cases hwr : wrBytes b off (#[0, 0, UInt8.ofNat (c / 100), UInt8.ofNat (c % 100)] ++ strerror c) with
        | error e => rw [hwr] at h; cases h
        | ok b2 =>
          rw [hwr] at h
          have := congrArg Prod.snd (Except.ok.inj h)
          simp only at this
          rw [← this]
          exact preserve_of_write a buf w _ _ _ b b2 off hB hcap (by omega) (by simp) hap hwr
  | sw s =>
    simp only [Op.run] at h
    rw [appendSoftware_unf] at h
    generalize hS : s.getD PACKAGE_STRING.toArray = S at h
    have hSs : S.size < 2 ^ 63 := by
      cases s with
      | none => simp only [Option.getD] at hS; rw [← hS]; decide
      | some s' => simp only [Option.getD] at hS; rw [← hS]; simpa [Op.dataSize] using hn
    cases hsl : softwareLen S 0 0 129 with
    | error e => rw [hsl] at h; cases h
    | ok n =>
      rw [hsl] at h
      simp only at h
      by_cases hgt : n > S.size
      · rw [if_pos hgt] at h; cases h
      · rw [if_neg hgt] at h
        refine preserve_appendBytes a buf w _ _ r b' hB hcap ?_ h
        have : (S.extract 0 n).size ≤ S.size := by simp; omega
        omega

/-- Every message the builder produces — `stun_message_init` followed by any sequence of typed
    appends, successful or not — stays inside the buffer, passes the library's own length validation
    and is accepted by the independent reference parser (buffers up to 65535 bytes). -/
theorem C07_finished_is_wellformed (a : Option Cfg) (buf0 : Bytes) (c m : Nat) (id b0 : Bytes)
    (ops : List Op) (b : Bytes) (hc : c < 4) (hcap : buf0.size ≤ 65535)
    (hinit : messageInit buf0 c m id = .ok (some b0))
    (hsizes : ∀ op ∈ ops, op.dataSize < 2 ^ 63)
    (hrun : runOps a b0 ops = .ok b) :
    ∃ w : UInt16, messageLength b = .ok w ∧ w.toNat ≤ b.size ∧ b.size = buf0.size ∧
      validateLen (b.extract 0 w.toNat) (!noAlign a) = .ok (.len w.toNat) ∧
      ∃ attrs, parseAttrs (!noAlign a) (b.extract 0 w.toNat).toList = some attrs := by
  obtain ⟨hB0, hsz0⟩ := init_built a buf0 c m id b0 hc hinit
  have key : ∀ (ops : List Op) (b1 : Bytes) (w1 : UInt16), Built a b1 w1 → b1.size = buf0.size →
      (∀ op ∈ ops, op.dataSize < 2 ^ 63) → runOps a b1 ops = .ok b →
      ∃ w, Built a b w ∧ b.size = buf0.size := by
    intro ops
    induction ops with
    | nil =>
      intro b1 w1 hB hs _ hr
      simp only [runOps] at hr
      injection hr with hr; subst hr
      exact ⟨w1, hB, hs⟩
    | cons op ops ih =>
      intro b1 w1 hB hs hsz hr
      simp only [runOps] at hr
      cases hop : op.run a b1 with
      | error e => rw [hop] at hr; cases hr
      | ok x =>
        obtain ⟨r, b2⟩ := x
        rw [hop] at hr
        simp only at hr
        obtain ⟨w2, hB2, hs2⟩ := op_preserves a b1 w1 op r b2 hB (by omega) (hsz op (by simp)) hop
        exact ih b2 w2 hB2 (by omega) (fun o ho => hsz o (by simp [ho])) hr
  obtain ⟨w, hB, hs⟩ := key ops b0 20 hB0 hsz0 hsizes hrun
  obtain ⟨hv, hp⟩ := built_wellformed a b w hB
  exact ⟨w, hB.len_ok, hB.le_size, hs, hv, hp⟩

/-! ### finishing (stun_agent_finish_message) -/

theorem stunSha1_size {H : Hashes} (hH : ∀ k t, (H.hmac k t).size = 20) {b : Bytes} {len : Nat} {ml : UInt16}
    {key sha : Bytes} {pad : Bool} (h : stunSha1 H b len ml key pad = .ok sha) : sha.size = 20 := by
  unfold stunSha1 at h
  split at h
  · cases h
  · have := Except.ok.inj h; rw [← this]; exact hH _ _

theorem finishPrep_buf {H : Hashes} {c : Cfg} {msg m : Msg} {k md5 : Bytes} {skip : Bool}
    (h : finishPrep H c msg k = .ok (skip, m, md5)) : m.buf = msg.buf := by
  unfold finishPrep at h
  simp only at h
  split at h
  · have e : _ = m := congrArg (fun x => x.2.1) (Except.ok.inj h); rw [← e]
  · split at h
    · split at h
      · split at h
        · have e : _ = m := congrArg (fun x => x.2.1) (Except.ok.inj h); rw [← e]
        · cases h
        · cases h
      · cases h
      · cases h
      · have e : _ = m := congrArg (fun x => x.2.1) (Except.ok.inj h); rw [← e]
    · have e : _ = m := congrArg (fun x => x.2.1) (Except.ok.inj h); rw [← e]

theorem finishAppendMI_built {H : Hashes} (hH : ∀ k t, (H.hmac k t).size = 20) {c : Cfg} {m m' : Msg}
    {k md5 : Bytes} {w : UInt16} (hB : Built (some c) m.buf w) (hcap : m.buf.size ≤ 65535)
    (h : finishAppendMI H c m k md5 = .ok (some m')) :
    ∃ w', Built (some c) m'.buf w' ∧ m'.buf.size = m.buf.size := by
  unfold finishAppendMI at h
  split at h
  · cases h
  · cases h
  · rename_i b ptr hap
    split at h
    · cases h
    · split at h
      · cases h
      · rename_i sha hsha
        split at h
        · cases h
        · rename_i b2 hwr
          have := Option.some.inj (Except.ok.inj h)
          rw [← this]
          exact preserve_of_write (some c) m.buf w tMI 20 sha b b2 ptr hB hcap (by decide)
            (by rw [stunSha1_size hH hsha]; exact Nat.le_refl _) hap hwr

theorem finishFPR_built {c : Cfg} {m m' : Msg} {w : UInt16} (hB : Built (some c) m.buf w)
    (hcap : m.buf.size ≤ 65535) (h : finishFPR c m = .ok (some m')) :
    ∃ w', Built (some c) m'.buf w' ∧ m'.buf.size = m.buf.size := by
  unfold finishFPR at h
  split at h
  · split at h
    · cases h
    · cases h
    · rename_i b ptr hap
      split at h
      · cases h
      · split at h
        · cases h
        · rename_i fpr _
          split at h
          · cases h
          · rename_i b2 hwr
            have := Option.some.inj (Except.ok.inj h)
            rw [← this]
            exact preserve_of_write (some c) m.buf w tFPR 4 (be32Bytes fpr) b b2 ptr hB hcap (by decide)
              (Nat.le_refl _) hap hwr
  · have := Option.some.inj (Except.ok.inj h)
    rw [← this]; exact ⟨w, hB, rfl⟩

/-- Finishing either yields a length within the buffer or zero; a non-zero result is the length of a
    message that is again in a well-formed builder state (so it passes the library's own validation
    and the independent parser, `built_wellformed`).  The buffer size never changes.
    Hypothesis on the parameter HMAC: it returns 20 bytes. -/
theorem C07_finish_len (H : Hashes) (hH : ∀ k t, (H.hmac k t).size = 20) (ag ag' : Agent) (msg m' : Msg)
    (key : Option Bytes) (w : UInt16) (r : Nat) (hB : Built (some ag.cfg) msg.buf w)
    (hcap : msg.buf.size ≤ 65535) (hf : finishMessage H ag msg key = .ok (r, ag', m')) :
    m'.buf.size = msg.buf.size ∧
    (r = 0 ∨ (r ≤ msg.buf.size ∧ ∃ w', Built (some ag.cfg) m'.buf w' ∧ w'.toNat = r)) := by
  unfold finishMessage at hf
  simp only at hf
  split at hf
  · rename_i cls method _ _
    split at hf
    · -- saved ids full
      have e := Except.ok.inj hf
      have e1 : 0 = r := congrArg Prod.fst e
      have e2 : msg = m' := congrArg (fun x => x.2.2) e
      rw [← e2]; exact ⟨rfl, Or.inl e1.symm⟩
    · rename_i savedIdx _
      -- MESSAGE-INTEGRITY stage
      cases hmi : finishMI H ag.cfg msg (pickKey msg.key key) with
      | error e => rw [hmi] at hf; cases hf
      | ok x =>
        obtain ⟨okmi, m1⟩ := x
        rw [hmi] at hf
        -- the message after the M-I stage is still a well-formed builder state of the same size
        have hm1 : (∃ w1, Built (some ag.cfg) m1.buf w1) ∧ m1.buf.size = msg.buf.size := by
          unfold finishMI at hmi
          split at hmi
          · have e : _ = m1 := congrArg Prod.snd (Except.ok.inj hmi)
            rw [← e]; exact ⟨⟨w, hB⟩, rfl⟩
          · rename_i k _
            split at hmi
            · cases hmi
            · rename_i m0 _ hprep
              have hb0 := finishPrep_buf hprep
              have e : _ = m1 := congrArg Prod.snd (Except.ok.inj hmi)
              rw [← e, hb0]; exact ⟨⟨w, hB⟩, rfl⟩
            · rename_i m0 md5 hprep
              have hb0 := finishPrep_buf hprep
              split at hmi
              · cases hmi
              · have e : _ = m1 := congrArg Prod.snd (Except.ok.inj hmi)
                rw [← e, hb0]; exact ⟨⟨w, hB⟩, rfl⟩
              · rename_i m2 happ
                have e : _ = m1 := congrArg Prod.snd (Except.ok.inj hmi)
                rw [← e]
                obtain ⟨w2, hB2, hs2⟩ := finishAppendMI_built hH (w := w) (by rw [hb0]; exact hB)
                  (by rw [hb0]; exact hcap) happ
                exact ⟨⟨w2, hB2⟩, by rw [hs2, hb0]⟩
        obtain ⟨⟨w1, hB1⟩, hs1⟩ := hm1
        cases okmi
        · simp only at hf
          have e := Except.ok.inj hf
          have e1 : 0 = r := congrArg Prod.fst e
          have e2 : m1 = m' := congrArg (fun x => x.2.2) e
          rw [← e2]; exact ⟨hs1, Or.inl e1.symm⟩
        · simp only at hf
          cases hfp : finishFPR ag.cfg m1 with
          | error e => rw [hfp] at hf; cases hf
          | ok y =>
            rw [hfp] at hf
            cases y with
            | none =>
              simp only at hf
              have e := Except.ok.inj hf
              have e1 : 0 = r := congrArg Prod.fst e
              have e2 : m1 = m' := congrArg (fun x => x.2.2) e
              rw [← e2]; exact ⟨hs1, Or.inl e1.symm⟩
            | some m2 =>
              simp only at hf
              obtain ⟨w2, hB2, hs2⟩ := finishFPR_built hB1 (by rw [hs1]; exact hcap) hfp
              split at hf
              · rename_i id len _ hlen
                have e := Except.ok.inj hf
                have e1 : len.toNat = r := congrArg Prod.fst e
                have e2 : { m2 with key := _ } = m' := congrArg (fun x => x.2.2) e
                have hbuf : m'.buf = m2.buf := by rw [← e2]
                have hw : len = w2 := by
                  have := hB2.len_ok
                  rw [hlen] at this
                  exact Except.ok.inj this
                rw [hbuf]
                refine ⟨by rw [hs2, hs1], Or.inr ⟨?_, w2, hB2, by rw [← hw]; exact e1⟩⟩
                rw [← e1, hw, ← hs1, ← hs2]
                exact hB2.le_size
              · cases hf
              · cases hf
  · cases hf
  · cases hf

/-- a finished message passes the library's own length validation and the independent parser -/
theorem C07_finished_message_wellformed (H : Hashes) (hH : ∀ k t, (H.hmac k t).size = 20) (ag ag' : Agent)
    (msg m' : Msg) (key : Option Bytes) (w : UInt16) (r : Nat) (hB : Built (some ag.cfg) msg.buf w)
    (hcap : msg.buf.size ≤ 65535) (hf : finishMessage H ag msg key = .ok (r, ag', m')) (hr : r ≠ 0) :
    validateLen (m'.buf.extract 0 r) (!noAlign (some ag.cfg)) = .ok (.len r) ∧
    ∃ attrs, parseAttrs (!noAlign (some ag.cfg)) (m'.buf.extract 0 r).toList = some attrs := by
  obtain ⟨_, h⟩ := C07_finish_len H hH ag ag' msg m' key w r hB hcap hf
  rcases h with h | ⟨_, w', hB', hw'⟩
  · exact absurd h hr
  · rw [← hw']; exact built_wellformed _ _ _ hB'

/-! ### non-vacuity -/

/-- a 40-byte buffer -/
def buf40 : Bytes := Array.replicate 40 0xaa
def txid : Bytes := #[0x21, 0x12, 0xa4, 0x42, 0, 0, 0, 0, 0, 0, 0, 0, 0, 0, 0, 1]

example : ∃ b0, messageInit buf40 0 1 txid = .ok (some b0) := by
  obtain ⟨r, h⟩ := C07_init_no_fault buf40 0 1 txid
  unfold messageInit at h ⊢
  rw [if_neg (by decide)] at h ⊢
  exact ⟨_, rfl⟩

/-- the hypotheses of the read-back theorems are satisfiable: a fresh message has no attributes -/
example (a : Option Cfg) (b0 : Bytes) (h : messageInit buf40 0 1 txid = .ok (some b0)) :
    Built a b0 20 ∧ AttrsOf a b0 20 [] ∧ FirstOccurrence a 0x24 [] := by
  refine ⟨(init_built a buf40 0 1 txid b0 (by decide) h).1, ?_, fun x hx => by cases hx⟩
  unfold AttrsOf
  have : (20 : UInt16).toNat - 20 = 0 := by decide
  rw [this, seg_zero, parseFrom]

end Nice.Props.C07
