/-
  C05 — no byte string makes the STUN message code misbehave.
  No-fault / in-bounds theorems over the faulting model `Nice.Stun` (every read and write of caller
  memory is bounds checked there and yields `Fault.oob`; `assert` is `Fault.assertFailed`): for all
  byte strings, all buffer splits (empty buffers included), all configurations.
  The runtime conjunct (no sanitizer report in the compiled C) is observed by the harness, not proved.
-/
import Nice.Proofs.StunSafe
import Nice.Props.C07
import Nice.Proofs.StunFinish
import Nice.Proofs.StunReply
namespace Nice.Props.C05
open Nice.Stun Nice.Spec.Stun Nice.Gen

/-- `stun_message_validate_buffer_length` returns a verdict for every byte string -/
theorem C05_no_fault_validate_buffer_length (bs : Bytes) (pad : Bool) : ∃ r, validateLen bs pad = .ok r :=
  C06.C06_walk_terminates_no_fault bs pad

/-- `stun_message_validate_buffer_length_fast` returns a verdict for every vector of buffers —
    empty buffers anywhere included (fix 669dd63) — when `total_length` is the number of bytes held -/
theorem C05_no_fault_validate_buffer_length_fast (bufs : Array Bytes) (pad : Bool) :
    ∃ r, validateFast bufs (C06.flatten bufs).size pad = .ok r := by
  have := validateFast_spec bufs pad
  simp only [C06.flatten, List.size_toArray]
  exact ⟨_, this⟩

/-- `stun_message_find` returns (found / not found) on every packet the length validation accepts -/
theorem C05_no_fault_find (a : Option Cfg) (pkt : Bytes) (t : UInt16) (hv : Valid a pkt) :
    ∃ r, find a pkt t = .ok r := by
  obtain ⟨r, h, _⟩ := find_valid a pkt t hv; exact ⟨r, h⟩

/-- anything an accessor returns lies inside the packet (behind the 20-byte header and the 4-byte
    attribute header) -/
theorem C05_accessor_inside (a : Option Cfg) (pkt : Bytes) (t : UInt16) (off : Nat) (len : UInt16)
    (hv : Valid a pkt) (hf : find a pkt t = .ok (some (off, len))) :
    24 ≤ off ∧ off + len.toNat ≤ pkt.size := by
  obtain ⟨r, h, hin⟩ := find_valid a pkt t hv
  rw [hf] at h
  injection h with h
  exact hin off len h.symm

/-- every typed accessor returns a status on a validated packet (no read outside the packet) -/
theorem C05_no_fault_accessors (a : Option Cfg) (pkt : Bytes) (t : UInt16) (hv : Valid a pkt) :
    (∃ r, hasAttribute a pkt t = .ok r) ∧ (∃ r, findFlag a pkt t = .ok r) ∧
    (∃ r, find32 a pkt t = .ok r) ∧ (∃ r, find64 a pkt t = .ok r) ∧
    (∀ n, ∃ r, findString a pkt t n = .ok r) ∧ (∀ n, ∃ r, findAddr a pkt t n = .ok r) ∧
    (∃ r, findError a pkt = .ok r) :=
  accessors_no_fault a pkt t hv

theorem xorAddress_ok (buf : Bytes) (addr : SockAddr) (alen : Nat) (ck : UInt32) (h : 20 ≤ buf.size) :
    ∃ r, xorAddress buf addr alen ck = .ok r := by
  unfold xorAddress
  split
  · split <;> exact ⟨_, rfl⟩
  · split
    · split
      · exact ⟨_, rfl⟩
      · obtain ⟨d, hd, _⟩ := rdBytes_ok (b := buf) (off := 4) (n := 16) (by omega)
        rw [hd]; exact ⟨_, rfl⟩
    · exact ⟨_, rfl⟩

/-- the XOR-mapped accessors likewise (they read the 16 transaction-id bytes of the header) -/
theorem C05_no_fault_xor_accessors (a : Option Cfg) (pkt : Bytes) (t : UInt16) (n : Nat) (cookie : UInt32)
    (hv : Valid a pkt) : ∃ r, findXorAddrFull a pkt t n cookie = .ok r := by
  obtain ⟨_, _, _, _, _, hA, _⟩ := accessors_no_fault a pkt t hv
  obtain ⟨r, hr⟩ := hA n
  have h20 := Valid.size_ge a pkt hv
  unfold findXorAddrFull
  rw [hr]
  obtain ⟨ret, ad, al⟩ := r
  cases ret <;> cases ad <;> try exact ⟨_, rfl⟩
  rename_i sa
  simp only
  obtain ⟨x, hx⟩ := xorAddress_ok pkt sa al cookie h20
  rw [hx]
  exact ⟨_, rfl⟩

/-- the unknown-attribute scan (`stun_agent_find_unknowns`) never leaves the packet -/
theorem C05_no_fault_find_unknowns (ag : Agent) (pkt : Bytes) (max : Nat) (hv : Valid (some ag.cfg) pkt) :
    ∃ r, findUnknowns ag pkt max = .ok r := findUnknowns_ok ag pkt max hv

/-- `stun_message_append` never touches memory outside the caller's buffer -/
theorem C05_no_fault_append (a : Option Cfg) (buf : Bytes) (type : UInt16) (n : Nat)
    (h20 : 20 ≤ buf.size) (hn : n < 2 ^ 63) : ∃ r, append a buf type n = .ok r :=
  C07.C07_no_write_outside a buf type n h20 hn

/-- `stun_agent_validate` returns a status for every byte string of length 0..65535, every
    compatibility mode, usage-flag set and agent state, every validater: no read outside the
    packet, no failed assertion (`stun_sha1`'s `assert (len >= 44)` included), all loops terminate
    (the model is a total Lean function). -/
theorem C05_no_fault_agent_validate (H : Hashes) (ag : Agent) (buffer : Bytes) (v : Validater) (u : Nat)
    (hs : buffer.size < 65536) : ∃ r, validate H ag buffer v u = .ok r :=
  validate_no_fault H ag buffer v u hs

/-- `stun_agent_finish_message` returns a length or 0 for every well-formed builder state (any
    capacity up to 65535, agent, key): no access outside the caller's buffer, `assert (len >= 44)` in
    stun_sha1 holds.  Hypothesis on the parameter HMAC: it returns 20 bytes. -/
theorem C05_no_fault_finish_message (H : Hashes) (hH : ∀ k t, (H.hmac k t).size = 20) (ag : Agent) (msg : Msg)
    (key : Option Bytes) (w : UInt16) (hB : Built (some ag.cfg) msg.buf w) (hcap : msg.buf.size ≤ 65535) :
    ∃ r, finishMessage H ag msg key = .ok r := finishMessage_no_fault H hH ag msg key w hB hcap

/-- the usage-level builders (binding request, binding keepalive, ICE connectivity check) return a
    length or 0 for every output buffer of 0..65535 bytes (agent SOFTWARE string valid UTF-8) -/
theorem C05_no_fault_usage_builders (H : Hashes) (hH : ∀ k t, (H.hmac k t).size = 20) (ag : Agent) (buf id : Bytes)
    (hsw : SoftwareOk ag) (hcap : buf.size ≤ 65535) :
    (∃ r, bindCreate H ag buf id = .ok r) ∧ (∃ r, bindKeepalive H ag buf id = .ok r) ∧
    (∀ username password candUse controlling priority tie candidateId compat,
      (∀ u, username = some u → u.size < 2 ^ 63) → (∀ c, candidateId = some c → c.size < 2 ^ 62) →
      ∃ r, iceConncheckCreate H ag buf id username password candUse controlling priority tie candidateId compat = .ok r) :=
  ⟨bindCreate_no_fault H hH ag buf id hsw hcap, bindKeepalive_no_fault H hH ag buf id hcap,
   fun username password candUse controlling priority tie candidateId compat hu hc =>
     (iceConncheckCreate_good H hH ag buf id username password candUse controlling priority tie candidateId compat
       hsw hcap hu hc).1⟩

/-- reply construction: `stun_usage_ice_conncheck_create_reply` returns a status for every validated
    request and every output buffer size (0..1300 in the property; proved for 0..65535), source
    address, role, tie-breaker and dialect; the `assert (0)` behind `failure:` is unreachable -/
theorem C05_no_fault_create_reply (H : Hashes) (hH : ∀ k t, (H.hmac k t).size = 20) (ag : Agent) (req old : Msg)
    (buf : Bytes) (src : SockAddr) (srclen : Nat) (control : Bool) (tie : UInt64) (compat : Nat)
    (hsw : SoftwareOk ag) (hcap : buf.size ≤ 65535) (hreq : Valid req.agent req.buf) :
    ∃ r, iceCreateReply H ag req old buf src srclen control tie compat = .ok r :=
  iceCreateReply_no_fault H hH ag req old buf src srclen control tie compat hsw hcap hreq

/-! ### non-vacuity -/

example : Valid none C06.msg28 :=
  ⟨(C06.C06_length_iff_grammar _ _ _).mpr C06.msg28_wf, by decide⟩

example : ∃ r, validate ⟨fun _ _ => #[], fun _ => #[]⟩ (agentInit [] 1 1) #[0x80, 1, 2] none 0 = .ok r :=
  C05_no_fault_agent_validate _ _ _ _ _ (by decide)

end Nice.Props.C05
