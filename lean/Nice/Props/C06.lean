/-
  C06 — STUN framing and attribute lookup agree with the RFC grammar.
  Theorems about `Nice.Stun` (model of stun/stunmessage.c) against the independent reference
  `Nice.Spec.Stun` (RFC 5389 §6/§15).  All statements are for all inputs (no size bound).
-/
import Nice.Proofs.StunFraming
import Nice.Proofs.StunFind
import Nice.Props.C03Recv
namespace Nice.Props.C06
open Nice.Stun Nice.Spec.Stun

/-! ### the header-only verdict, in terms of the reference definitions -/

theorem list4 {l : List UInt8} (h : 4 ≤ l.length) : ∃ b0 b1 l0 l1 rest, l = b0 :: b1 :: l0 :: l1 :: rest := by
  match l, h with
  | b0 :: b1 :: l0 :: l1 :: rest, _ => exact ⟨b0, b1, l0, l1, rest, rfl⟩

theorem fastSpec_len_iff (l : List UInt8) (pad : Bool) (L : Nat) :
    fastSpec l pad = .len L ↔
    ∃ b0 b1 l0 l1 rest, l = b0 :: b1 :: l0 :: l1 :: rest ∧ b0.toNat / 64 = 0 ∧
      L = 20 + be16 l0 l1 ∧ (pad = true → L % 4 = 0) ∧ L ≤ l.length := by
  constructor
  · intro h
    obtain ⟨_, hb, h4, hL, hp, hle⟩ := fastSpec_len h
    obtain ⟨b0, b1, l0, l1, rest, rfl⟩ := list4 h4
    refine ⟨b0, b1, l0, l1, rest, rfl, by simpa [byteL] using hb, ?_, hp, hle⟩
    rw [hL]; simp [byteL, be16]; omega
  · rintro ⟨b0, b1, l0, l1, rest, rfl, hb, hL, hp, hle⟩
    have e : byteL (b0 :: b1 :: l0 :: l1 :: rest) 2 * 256 + byteL (b0 :: b1 :: l0 :: l1 :: rest) 3 + 20 = L := by
      rw [hL]; simp [byteL, be16]; omega
    unfold fastSpec
    rw [if_neg (by simp), if_neg (by simpa [byteL] using hb), if_neg (by simp)]
    simp only [e]
    rw [if_neg (fun h => h.2 (hp h.1)), if_neg (by omega)]

theorem fastSpec_incomplete_iff (l : List UInt8) (pad : Bool) :
    fastSpec l pad = .incomplete ↔ Incomplete pad l := by
  constructor
  · intro h
    unfold fastSpec at h
    split at h
    · cases h
    · rename_i hne
      split at h
      · cases h
      · rename_i hb
        have hb' : byteL l 0 / 64 = 0 := by omega
        obtain ⟨b0, rest, rfl⟩ : ∃ b0 rest, l = b0 :: rest := by
          cases l with
          | nil => exact absurd rfl hne
          | cons a r => exact ⟨a, r, rfl⟩
        refine ⟨b0, rest, rfl, by simpa [byteL] using hb', ?_⟩
        split at h
        · rename_i h4; exact Or.inl h4
        · rename_i h4
          simp only at h
          obtain ⟨c0, b1, l0, l1, rest', hl⟩ := list4 (l := b0 :: rest) (by omega)
          have e : byteL (b0 :: rest) 2 * 256 + byteL (b0 :: rest) 3 + 20 = 20 + be16 l0 l1 := by
            rw [hl]; simp [byteL, be16]; omega
          rw [e] at h
          split at h
          · cases h
          · rename_i hp
            split at h
            · rename_i hlt
              right
              injection hl with h0 htl
              subst h0
              refine ⟨b1, l0, l1, rest', by rw [htl], ?_, hlt⟩
              intro hpad
              apply Decidable.byContradiction
              intro hc
              exact hp ⟨hpad, hc⟩
            · cases h
  · rintro ⟨b0, rest, rfl, hb, hcase⟩
    unfold fastSpec
    rw [if_neg (by simp), if_neg (by simpa [byteL] using hb)]
    rcases hcase with h4 | ⟨b1, l0, l1, rest', hl, hp, hlt⟩
    · rw [if_pos h4]
    · have h4 : ¬ (b0 :: rest).length < 4 := by rw [hl]; simp
      rw [if_neg h4]
      have e : byteL (b0 :: rest) 2 * 256 + byteL (b0 :: rest) 3 + 20 = 20 + be16 l0 l1 := by
        rw [hl]; simp [byteL, be16]; omega
      simp only [e]
      rw [if_neg (fun h => h.2 (hp h.1)), if_pos hlt]

/-! ### C06 theorems: framing -/

/-- The length check reports `L` exactly when the first `L` bytes form a well-formed STUN message
    (two top bits zero, `L` = 20 + header length field, `L` a multiple of four where padding
    applies, attributes tiling the body exactly). -/
theorem C06_length_iff_grammar (bs : Bytes) (pad : Bool) (L : Nat) :
    validateLen bs pad = .ok (.len L) ↔ WellFormed pad bs.toList L := by
  obtain ⟨hlen, hinv, hinc⟩ := validateLen_spec bs pad
  constructor
  · intro h
    cases hf : fastSpec bs.toList pad with
    | invalid => rw [hinv hf] at h; cases h
    | incomplete => rw [hinc hf] at h; cases h
    | len L' =>
      obtain ⟨hyes, hno⟩ := hlen L' hf
      by_cases ht : Tiles pad (seg bs 20 (L' - 20))
      · rw [hyes ht] at h
        injection h with h; injection h with h; subst h
        obtain ⟨b0, b1, l0, l1, rest, hl, hb, hL, hp, hle⟩ := (fastSpec_len_iff _ _ _).mp hf
        exact ⟨b0, b1, l0, l1, rest, hl, hb, hL, hp, hle, by rw [seg_take_drop]; exact ht⟩
      · rw [hno ht] at h; cases h
  · rintro ⟨b0, b1, l0, l1, rest, hl, hb, hL, hp, hle, ht⟩
    have hf : fastSpec bs.toList pad = .len L :=
      (fastSpec_len_iff _ _ _).mpr ⟨b0, b1, l0, l1, rest, hl, hb, hL, hp, hle⟩
    rw [seg_take_drop] at ht
    exact (hlen L hf).1 ht

/-- The length check reports "incomplete" exactly when the first two bits are zero and fewer bytes
    are present than an acceptable header announces. -/
theorem C06_incomplete_iff (bs : Bytes) (pad : Bool) :
    validateLen bs pad = .ok .incomplete ↔ Incomplete pad bs.toList := by
  obtain ⟨hlen, hinv, hinc⟩ := validateLen_spec bs pad
  rw [← fastSpec_incomplete_iff]
  constructor
  · intro h
    cases hf : fastSpec bs.toList pad with
    | invalid => rw [hinv hf] at h; cases h
    | incomplete => rfl
    | len L' =>
      obtain ⟨hyes, hno⟩ := hlen L' hf
      by_cases ht : Tiles pad (seg bs 20 (L' - 20))
      · rw [hyes ht] at h; cases h
      · rw [hno ht] at h; cases h
  · exact hinc

/-- the walk over the attributes terminates (it is a total Lean function with a `termination_by`
    proof) and never reads outside the buffer: neither validator ever faults -/
theorem C06_walk_terminates_no_fault (bs : Bytes) (pad : Bool) : ∃ r, validateLen bs pad = .ok r := by
  obtain ⟨hlen, hinv, hinc⟩ := validateLen_spec bs pad
  cases hf : fastSpec bs.toList pad with
  | invalid => exact ⟨_, hinv hf⟩
  | incomplete => exact ⟨_, hinc hf⟩
  | len L' =>
    by_cases ht : Tiles pad (seg bs 20 (L' - 20))
    · exact ⟨_, (hlen L' hf).1 ht⟩
    · exact ⟨_, (hlen L' hf).2 ht⟩

/-- concatenation of the receive buffers -/
def flatten (bufs : Array Bytes) : Bytes := (FL bufs.toList).toArray

/-- The vectored header pre-check gives the same answer for every way of splitting the same bytes
    over buffers — empty buffers included (after fix 669dd63) — as for one contiguous buffer. -/
theorem C06_fast_split_independent_with_empties (bufs : Array Bytes) (pad : Bool) :
    validateFast bufs (flatten bufs).size pad = validateFast #[flatten bufs] (flatten bufs).size pad := by
  have h1 := validateFast_spec bufs pad
  have h2 := validateFast_single (flatten bufs) pad
  simp only [flatten, List.size_toArray] at *
  rw [h1, h2]

/-- the property's quantifier: splits into non-empty buffers -/
theorem C06_fast_split_independent (bufs : Array Bytes) (pad : Bool)
    (_hne : ∀ i (h : i < bufs.size), bufs[i].size ≠ 0) :
    validateFast bufs (flatten bufs).size pad = validateFast #[flatten bufs] (flatten bufs).size pad :=
  C06_fast_split_independent_with_empties bufs pad

/-- whenever the full check accepts with length `L`, the vectored pre-check says `L` for every
    split of the same bytes (agent.c:4820-4837 relies on it) -/
theorem C06_fast_agrees_with_full (bs : Bytes) (pad : Bool) (L : Nat)
    (h : validateLen bs pad = .ok (.len L)) (bufs : Array Bytes) (hsplit : flatten bufs = bs) :
    validateFast bufs bs.size pad = .ok (.len L) := by
  have hf : validateFast #[bs] bs.size pad = .ok (.len L) := by
    unfold validateLen at h
    cases hfast : validateFast #[bs] bs.size pad with
    | error e => rw [hfast] at h; cases h
    | ok r =>
      rw [hfast] at h
      cases r with
      | invalid => cases h
      | incomplete => cases h
      | len mlen =>
        simp only at h
        split at h
        · cases h
        · injection h with h; rw [h]
        · cases h
  rw [← hsplit] at hf ⊢
  rw [C06_fast_split_independent_with_empties]; exact hf

/-! ### C06 theorems: lookup -/

theorem swapType_toNat (a : Option Cfg) (t : UInt16) :
    (swapType a t).toNat = swapRealmNonce (isOC2007 a) t.toNat := by
  unfold swapType swapRealmNonce
  cases isOC2007 a
  · simp
  · simp only [if_true]
    by_cases h1 : t = tREALM
    · subst h1; decide
    · have h1' : ¬ t.toNat = 0x14 := fun h => h1 (UInt16.toNat_inj.mp (by rw [h]; decide))
      rw [if_neg (by simpa using h1), if_neg h1']
      by_cases h2 : t = tNONCE
      · subst h2; decide
      · have h2' : ¬ t.toNat = 0x15 := fun h => h2 (UInt16.toNat_inj.mp (by rw [h]; decide))
        rw [if_neg (by simpa using h2), if_neg h2']

/-- Attribute lookups return the first attribute of the requested type that the independent parser
    finds, honouring "nothing but FINGERPRINT follows MESSAGE-INTEGRITY" — for every packet the
    length check accepts as a whole.  (`pkt.size < 65536`: `stun_message_length` is a `uint16_t`;
    a 65536..65555-byte message is accepted by the length check but its length wraps — outside the
    property's 2 KiB range and outside any UDP datagram.) -/
theorem C06_find_is_reference (a : Option Cfg) (pkt : Bytes) (t : UInt16)
    (hv : validateLen pkt (!noAlign a) = .ok (.len pkt.size)) (hsz : pkt.size < 65536) :
    ∃ attrs, parseAttrs (!noAlign a) pkt.toList = some attrs ∧
      (find a pkt t).map (Option.map fun r => (r.1, r.2.toNat)) =
        .ok ((refFind (swapRealmNonce (isOC2007 a) t.toNat) attrs).map fun at_ => (at_.off, at_.len)) := by
  obtain ⟨b0, b1, l0, l1, rest, hl, hb, hL, hp, hle, ht⟩ := (C06_length_iff_grammar _ _ _).mp hv
  have hlen : pkt.toList.length = pkt.size := by simp
  obtain ⟨attrs, hattrs⟩ := parseFrom_of_tiles (!noAlign a) _ _ rfl 20 ht
  refine ⟨attrs, ?_, ?_⟩
  · unfold parseAttrs
    rw [hl]
    simp only
    rw [← hl, ← hL, if_pos (by omega)]
    exact hattrs
  · -- the 16-bit message length equals the packet size
    have h2 : byteN pkt 2 = l0.toNat := by rw [byteN_eq_byteL, hl]; simp [byteL]
    have h3 : byteN pkt 3 = l1.toNat := by rw [byteN_eq_byteL, hl]; simp [byteL]
    have hsz4 : 4 ≤ pkt.size := by rw [← hlen, hl]; simp
    obtain ⟨w, hw, hwn⟩ := getw_ok (b := pkt) (off := 2) (by omega)
    have hml : messageLength pkt = .ok (w + UInt16.ofNat 20) := by
      unfold messageLength
      have e : Nice.Gen.STUN_MESSAGE_LENGTH_POS = 2 := rfl
      have e2 : Nice.Gen.STUN_MESSAGE_HEADER_LENGTH = 20 := rfl
      rw [e, e2, hw]
    have hwsz : (w + UInt16.ofNat 20).toNat = pkt.size := by
      rw [UInt16.toNat_add, hwn]
      have : getwN pkt 2 = be16 l0 l1 := by simp [getwN, h2, h3, be16]
      rw [this]
      have : (UInt16.ofNat 20).toNat = 20 := by decide
      rw [this]
      show (be16 l0 l1 + 20) % 65536 = _
      omega
    unfold find
    rw [hml]
    simp only
    rw [hwsz]
    have e3 : Nice.Gen.STUN_MESSAGE_ATTRIBUTES_POS = 20 := rfl
    rw [e3]
    rw [seg_take_drop] at hattrs
    have := findLoop_spec pkt (noAlign a) (swapType a t) pkt.size (Nat.le_refl _) (pkt.size - 20) 20
      (by omega) attrs hattrs
    rw [this, refFind_eq_rec, swapType_toNat]

/-! ### non-vacuity: the hypotheses above are satisfiable -/

/-- a 20-byte binding request header -/
def hdr20 : Bytes := #[0, 1, 0, 0, 0x21, 0x12, 0xa4, 0x42, 0, 0, 0, 0, 0, 0, 0, 0, 0, 0, 0, 1]
/-- binding request with one PRIORITY attribute (0x0024, 4 bytes) -/
def msg28 : Bytes := hdr20.set! 3 8 ++ #[0, 0x24, 0, 4, 0, 0, 0, 7]

example : WellFormed true hdr20.toList 20 :=
  ⟨0, 1, 0, 0, _, rfl, by decide, by decide, fun _ => by decide, by decide, Tiles.nil⟩

example : validateLen hdr20 true = .ok (.len 20) :=
  (C06_length_iff_grammar _ _ _).mpr
    ⟨0, 1, 0, 0, _, rfl, by decide, by decide, fun _ => by decide, by decide, Tiles.nil⟩

theorem msg28_wf : WellFormed true msg28.toList 28 :=
  ⟨0, 1, 0, 8, _, rfl, by decide, by decide, fun _ => by decide, by decide,
    Tiles.cons 0 0x24 0 4 [0, 0, 0, 7] [] [] (by decide) (by decide) Tiles.nil⟩

example : validateLen msg28 true = .ok (.len msg28.size) := (C06_length_iff_grammar _ _ _).mpr msg28_wf

/-- the lookup theorem applies to `msg28` and finds PRIORITY at offset 24 -/
example : ∃ attrs, parseAttrs true msg28.toList = some attrs ∧
    (find none msg28 0x24).map (Option.map fun r => (r.1, r.2.toNat)) = .ok (some (24, 4)) := by
  obtain ⟨attrs, hp, hf⟩ := C06_find_is_reference none msg28 0x24
    ((C06_length_iff_grammar _ _ _).mpr msg28_wf) (by decide)
  refine ⟨attrs, hp, ?_⟩
  rw [hf]
  have hl : msg28.toList = [0, 1, 0, 8, 0x21, 0x12, 0xa4, 0x42, 0, 0, 0, 0, 0, 0, 0, 0, 0, 0, 0, 1,
      0, 0x24, 0, 4, 0, 0, 0, 7] := by decide
  have : parseAttrs true msg28.toList = some [⟨0x24, 24, 4⟩] := by
    rw [hl]; simp [parseAttrs, parseFrom, be16, padLen, pad4]
  rw [show (!noAlign none) = true from rfl, this] at hp
  have hp' := Option.some.inj hp
  rw [← hp']
  simp [refFind, visibleFor, swapRealmNonce, isOC2007, FINGERPRINT, MESSAGE_INTEGRITY]

example : Incomplete true (hdr20.extract 0 3).toList :=
  ⟨0, [1, 0], rfl, by decide, Or.inl (by decide)⟩

/-- a split with empty buffers: [ ] [00 01] [ ] [00] [00 21 12 ...] -/
example : flatten #[#[], #[0, 1], #[], #[0], hdr20.extract 3 20] = hdr20 := by decide

end Nice.Props.C06
