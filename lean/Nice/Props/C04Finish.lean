/-
  C04, second module: "every message the library itself finishes with a key validates under that key"
  (partial form, see the theorem's comment).  Separate from Nice/Props/C04.lean because it builds on the
  builder proofs (Nice/Proofs/StunFinish.lean); the C04 check audits this module, which re-exports
  everything of Nice.Props.C04.
-/
import Nice.Proofs.StunFinish
import Nice.Props.C04
namespace Nice.Stun
open Nice.Gen Nice.Spec.Stun Nice.Props.C07

/-! ### a finished message, seen as a received packet (the first `len` bytes of the buffer) -/

theorem getD_extract0 (b : Bytes) (L i : Nat) (hi : i < L) (hL : L ≤ b.size) :
    (b.extract 0 L).getD i 0 = b.getD i 0 := by
  have := Props.C07.getD_extract b 0 L i (by omega) hL
  simpa using this

theorem size_extract0 (b : Bytes) (L : Nat) (hL : L ≤ b.size) : (b.extract 0 L).size = L := by
  simp; omega

theorem messageLength_prefix (b : Bytes) (L : Nat) (h4 : 4 ≤ L) (hL : L ≤ b.size) :
    messageLength (b.extract 0 L) = messageLength b := by
  have hw : stun_getw (ptrAt (b.extract 0 L) STUN_MESSAGE_LENGTH_POS) = stun_getw (ptrAt b STUN_MESSAGE_LENGTH_POS) := by
    apply UInt16.toNat_inj.mp
    rw [stun_getw_toNat, stun_getw_toNat]
    simp only [ptrAt, show STUN_MESSAGE_LENGTH_POS = 2 from rfl]
    rw [show (2 : Nat) + 0 = 2 from rfl, show (2 : Nat) + 1 = 3 from rfl,
      getD_extract0 b L 2 (by omega) hL, getD_extract0 b L 3 (by omega) hL]
  unfold messageLength getw
  rw [size_extract0 b L hL, hw, if_pos (by rw [show STUN_MESSAGE_LENGTH_POS = 2 from rfl]; omega),
    if_pos (by rw [show STUN_MESSAGE_LENGTH_POS = 2 from rfl]; omega)]

theorem seg_prefix (b : Bytes) (L off len : Nat) (h : off + len ≤ L) (hL : L ≤ b.size) :
    seg (b.extract 0 L) off len = seg b off len := by
  apply seg_ext (by rw [size_extract0 b L hL]; exact h) (by omega)
  intro j _ hj
  exact getD_extract0 b L j (by omega) hL

/-- the first `len` bytes of a builder state are a builder state of exactly that size -/
theorem built_prefix (a : Option Cfg) (buf : Bytes) (w : UInt16) (hB : Built a buf w) :
    Built a (buf.extract 0 w.toNat) w ∧ (buf.extract 0 w.toNat).size = w.toNat := by
  have hge := hB.ge20
  have hle := hB.le_size
  have hs := size_extract0 buf w.toNat hle
  refine ⟨⟨?_, hge, by rw [hs]; exact Nat.le_refl _, ?_, ?_, hB.mult4⟩, hs⟩
  · rw [messageLength_prefix buf w.toNat (by omega) hle]; exact hB.len_ok
  · unfold byteN; rw [getD_extract0 buf w.toNat 0 (by omega) hle]; exact hB.top
  · rw [seg_prefix buf w.toNat 20 (w.toNat - 20) (by omega) hle]; exact hB.tiles

/-- lookups see the same thing in the buffer and in the packet cut out of it -/
theorem find_prefix (a : Option Cfg) (buf : Bytes) (w t : UInt16) (hB : Built a buf w) :
    find a (buf.extract 0 w.toNat) t = find a buf t := by
  obtain ⟨hBp, hs⟩ := built_prefix a buf w hB
  have hge := hB.ge20
  have hle := hB.le_size
  obtain ⟨attrs, hattrs⟩ := parseFrom_of_tiles (!noAlign a) _ _ rfl 20 hB.tiles
  have h1 := find_built a buf w t hB attrs hattrs
  have h2 := find_built a _ w t hBp attrs (by rw [seg_prefix buf w.toNat 20 (w.toNat - 20) (by omega) hle]; exact hattrs)
  cases hf1 : find a buf t with
  | error e => rw [hf1] at h1; cases h1
  | ok r1 =>
    cases hf2 : find a (buf.extract 0 w.toNat) t with
    | error e => rw [hf2] at h2; cases h2
    | ok r2 =>
      rw [hf1] at h1; rw [hf2] at h2
      rw [← h1] at h2
      simp only [Except.map, Except.ok.injEq] at h2
      congr 1
      cases r1 with
      | none => cases r2 with
        | none => rfl
        | some y => simp [Option.map] at h2
      | some x => cases r2 with
        | none => simp [Option.map] at h2
        | some y =>
          simp only [Option.map, Option.some.injEq, Prod.mk.injEq] at h2
          obtain ⟨x1, x2⟩ := x
          obtain ⟨y1, y2⟩ := y
          simp only at h2
          have : y2 = x2 := UInt16.toNat_inj.mp h2.2
          rw [h2.1, this]

theorem rdBytes_prefix (b : Bytes) (L off n : Nat) (h : off + n ≤ L) (hL : L ≤ b.size) :
    rdBytes (b.extract 0 L) off n = rdBytes b off n := by
  unfold rdBytes
  rw [size_extract0 b L hL, if_pos h, if_pos (by omega), Array.extract_extract]
  congr 2
  · omega
  · simp; omega

theorem rdBytes_congr {b1 b2 : Bytes} {off n : Nat} (h1 : off + n ≤ b1.size) (h2 : off + n ≤ b2.size)
    (h : ∀ j, off ≤ j → j < off + n → b1.getD j 0 = b2.getD j 0) : rdBytes b1 off n = rdBytes b2 off n := by
  unfold rdBytes
  rw [if_pos h1, if_pos h2]
  have : b1.extract off (off + n) = b2.extract off (off + n) := by
    apply Array.ext
    · simp; omega
    · intro i hi1 hi2
      have hi : i < n := by simp at hi1; omega
      rw [Array.getElem_extract, Array.getElem_extract]
      have := h (off + i) (by omega) (by omega)
      simp only [Array.getD_eq_getD_getElem?] at this
      rw [Array.getElem?_eq_getElem (by omega), Array.getElem?_eq_getElem (by omega)] at this
      simpa using this
  rw [this]

/-- the MAC text depends only on bytes 0-1 and 4 .. len-24 -/
theorem macInput_congr {b1 b2 : Bytes} {len : Nat} {ml : UInt16} {pad : Bool} (hlen : 44 ≤ len)
    (h1 : len - 24 ≤ b1.size) (h2 : len - 24 ≤ b2.size)
    (h : ∀ j, j < len - 24 → j ≠ 2 → j ≠ 3 → b1.getD j 0 = b2.getD j 0) :
    macInput b1 len ml pad = macInput b2 len ml pad := by
  have e : 4 + (len - 28) = len - 24 := by omega
  have hr1 := rdBytes_congr (b1 := b1) (b2 := b2) (off := 0) (n := 2) (by omega) (by omega)
        (fun j _ hj => h j (by omega) (by omega) (by omega))
  have hr2 := rdBytes_congr (b1 := b1) (b2 := b2) (off := 4) (n := len - 28) (by omega) (by omega)
        (fun j hj1 hj2 => h j (by omega) (by omega) (by omega))
  unfold macInput
  rw [hr1, hr2]

end Nice.Stun

namespace Nice.Props.C04
open Nice.Stun Nice.Spec.Stun Nice.Gen Nice.Props.C07

/-- **Partial** form of "every message the library finishes with a key validates under that key":
    for an agent that uses short-term credentials (no LONG_TERM flag) and no fingerprints, a message
    whose body so far holds no MESSAGE-INTEGRITY / FINGERPRINT, finished with a key `k`, passes the
    MESSAGE-INTEGRITY stage of `stun_agent_validate` (`miCheckKey`) at any agent of the same
    configuration that is given `k` — in all four compatibility modes: the MAC written by
    `stun_agent_finish_message` is the MAC `stun_agent_validate` recomputes over the received bytes.
    NOT proved here (covered by the `fin` / `valm` tie on every run): the composition with the other
    stages of validate (cookie / presence rules / unknown attributes depend on what else the message
    holds), the LONG_TERM key derivation and the FINGERPRINT variant (incl. the MS-ICE2 `minus` rule). -/
theorem C04_finish_then_validate_partial (H : Hashes) (hH : ∀ k t, (H.hmac k t).size = 20) (ag ag' : Agent)
    (msg m' : Msg) (k : Bytes) (w : UInt16) (r : Nat) (attrs : List Attr)
    (hB : Built (some ag.cfg) msg.buf w) (hcap : msg.buf.size ≤ 65535)
    (hA : AttrsOf (some ag.cfg) msg.buf w attrs) (hF : FirstOccurrence (some ag.cfg) tMI attrs)
    (hkey : msg.key = none) (hlt : msg.ltValid = false)
    (hshort : ag.cfg.has STUN_AGENT_USAGE_LONG_TERM_CREDENTIALS = false)
    (hnofpr : (isRfc5389ish ag.cfg && ag.cfg.has STUN_AGENT_USAGE_USE_FINGERPRINT) = false)
    (hf : finishMessage H ag msg (some k) = .ok (r, ag', m')) (hr : r ≠ 0) :
    ∀ h f lv lk, miCheckKey H ag.cfg (m'.buf.extract 0 r) h f k lv lk = .ok (true, { key := some k }) := by
  intro h f lv lk
  have hge := hB.ge20
  have hle := hB.le_size
  have hpad20 : padOf (some ag.cfg) 20 = 0 := by
    unfold padOf; split
    · rfl
    · rw [paddingN_eq 20 (by decide)]
  have hminus : finishMinus ag.cfg = 20 := by
    unfold finishMinus
    have : (ag.cfg.compat == STUN_COMPATIBILITY_MSICE2 && ag.cfg.has STUN_AGENT_USAGE_USE_FINGERPRINT) = false := by
      cases hm : (ag.cfg.compat == STUN_COMPATIBILITY_MSICE2)
      · rfl
      · have : isRfc5389ish ag.cfg = true := by unfold isRfc5389ish; rw [hm]; simp
        rw [this] at hnofpr
        simpa using hnofpr
    rw [this]; rfl
  have hmk : finishMacKey ag.cfg k #[] = k := by unfold finishMacKey; rw [hshort]; rfl
  have hprep : finishPrep H ag.cfg msg k = .ok (false, msg, #[]) := by
    unfold finishPrep; simp [hlt, hshort]
  have hfpr : ∀ m, finishFPR ag.cfg m = .ok (some m) := by
    intro m; unfold finishFPR; rw [hnofpr]; rfl
  obtain ⟨h1, h2⟩ := append_eq (some ag.cfg) msg.buf tMI 20 w hB.len_ok (by omega) (by decide)
  by_cases hfit : w.toNat + 4 + 20 + padOf (some ag.cfg) 20 ≤ msg.buf.size
  · obtain ⟨hc, _, happ⟩ := h2 hfit
    -- B = the buffer right after stun_message_append (M-I, 20)
    obtain ⟨w', hBB, hsB, hw', _, _⟩ := append_built (some ag.cfg) msg.buf w tMI 20 _ _ hB hcap (by decide) happ
    rw [hpad20] at hw' hfit
    have h44 : 44 ≤ w'.toNat := by omega
    -- the MAC text and the MAC that finish computes
    obtain ⟨text, htext⟩ : ∃ text, macInput (appendP (some ag.cfg) msg.buf w tMI 20 hc) w'.toNat (w' - 20) (macPadOf ag.cfg) = .ok text := by
      unfold macInput
      rw [if_neg (by omega)]
      obtain ⟨d1, hd1, _⟩ := rdBytes_ok (b := appendP (some ag.cfg) msg.buf w tMI 20 hc) (off := 0) (n := 2) (by omega)
      obtain ⟨d2, hd2, _⟩ := rdBytes_ok (b := appendP (some ag.cfg) msg.buf w tMI 20 hc) (off := 4) (n := w'.toNat - 28) (by omega)
      rw [hd1, hd2]; exact ⟨_, rfl⟩
    have hsha : stunSha1 H (appendP (some ag.cfg) msg.buf w tMI 20 hc) w'.toNat (w' - finishMinus ag.cfg)
        (finishMacKey ag.cfg k #[]) (macPadOf ag.cfg) = .ok (H.hmac k text) := by
      unfold stunSha1; rw [hminus, hmk, htext]
    have hss : (H.hmac k text).size = 20 := hH _ _
    -- the finished buffer
    obtain ⟨hfind, hrd⟩ := roundtrip_core (some ag.cfg) msg.buf w tMI 20 hc (H.hmac k text) hB hcap
      (by rw [hpad20]; exact hfit) hss attrs hA hF
    rw [lenField_mult4 (some ag.cfg) hc 20 (by decide) (by decide)] at hfind
    have hsame : ∀ j, (j < w.toNat + 4 ∨ w.toNat + 4 + 20 ≤ j) →
        (blit (appendP (some ag.cfg) msg.buf w tMI 20 hc) (w.toNat + 4) (H.hmac k text)).getD j 0 =
          (appendP (some ag.cfg) msg.buf w tMI 20 hc).getD j 0 := by
      intro j hj
      rw [blit_getD _ _ _ _ (by rw [hss, hsB]; omega), if_neg (by omega)]
    obtain ⟨hBfin, hnl⟩ := built_step (some ag.cfg) msg.buf w tMI 20 hc hB hcap (by rw [hpad20]; exact hfit)
      (blit (appendP (some ag.cfg) msg.buf w tMI 20 hc) (w.toNat + 4) (H.hmac k text))
      (by rw [blit_size, hsB]) hsame
    rw [hpad20] at hnl
    have hwn : w' = newLen (some ag.cfg) w 20 := UInt16.toNat_inj.mp (by rw [hw', hnl])
    rw [← hwn] at hBfin hnl
    generalize hBdef : appendP (some ag.cfg) msg.buf w tMI 20 hc = B at *
    generalize hFdef : blit B (w.toNat + 4) (H.hmac k text) = Fb at *
    -- run finishMessage forward
    have hMI : finishMI H ag.cfg msg (some k) = .ok (true, { msg with buf := Fb }) := by
      unfold finishMI
      simp only
      rw [hprep]
      simp only
      unfold finishAppendMI
      rw [happ]
      simp only
      rw [hBB.len_ok]
      simp only
      rw [hsha]
      simp only
      rw [wrBytes_eq (by rw [hss, hsB]; omega), hFdef]
    unfold finishMessage at hf
    simp only at hf
    split at hf
    · split at hf
      · exact absurd (congrArg Prod.fst (Except.ok.inj hf)).symm hr
      · have hpk : pickKey msg.key (some k) = some k := by rw [hkey]; rfl
        rw [hpk, hMI] at hf
        simp only at hf
        rw [hfpr] at hf
        simp only at hf
        split at hf
        · rename_i id len _ hlen
          have e := Except.ok.inj hf
          have e1 : len.toNat = r := congrArg Prod.fst e
          have e2 : _ = m' := congrArg (fun x => x.2.2) e
          have hbuf : m'.buf = Fb := by rw [← e2]
          have hlw : len = w' := by
            have := hBfin.len_ok
            rw [hlen] at this
            exact Except.ok.inj this
          have hrw : r = w'.toNat := by rw [← e1, hlw]
          -- the received packet: first r bytes of the finished buffer
          rw [hbuf, hrw]
          obtain ⟨hBp, hsp⟩ := built_prefix (some ag.cfg) Fb _ hBfin
          have hLle := hBfin.le_size
          unfold miCheckKey
          rw [find_prefix (some ag.cfg) Fb _ tMI hBfin, hfind]
          simp only
          rw [if_neg (by decide)]
          -- the length the validator feeds to the MAC = the one finish used
          have hml : macLenOf ag.cfg (Fb.extract 0 w'.toNat) (w.toNat + 4) = .ok (w' - 20) := by
            have hv : (w' - 20).toNat = w.toNat + 4 := by
              rw [UInt16.toNat_sub_of_le _ _ (by rw [UInt16.le_iff_toNat_le]; show 20 ≤ w'.toNat; omega)]
              show w'.toNat - 20 = _
              omega
            unfold macLenOf
            split
            · rw [messageLength_prefix Fb _ (by omega) hLle, hBfin.len_ok]
              rfl
            · have : UInt16.ofNat (w.toNat + 4) = w' - 20 := by
                apply UInt16.toNat_inj.mp
                rw [hv, UInt16.toNat_ofNat']
                have : (65536 : Nat) = 2 ^ 16 := by decide
                omega
              rw [this]
          rw [hml]
          simp only
          rw [if_neg (by rw [hshort]; decide)]
          -- same MAC text: bytes 0-1 and 4 .. start of M-I are those finish hashed
          have hmac : macInput (Fb.extract 0 w'.toNat) (w.toNat + 4 + 20) (w' - 20) (macPadOf ag.cfg) =
              .ok text := by
            have e24 : w.toNat + 4 + 20 = w'.toNat := by omega
            rw [e24, ← htext]
            apply macInput_congr h44 (by rw [hsp]; omega) (by rw [hsB]; omega)
            intro j hj _ _
            rw [getD_extract0 Fb _ j (by omega) hLle, ← hFdef,
              blit_getD _ _ _ _ (by rw [hss, hsB]; omega), if_neg (by omega)]
          unfold stunSha1
          rw [hmac]
          simp only
          rw [rdBytes_prefix Fb _ (w.toNat + 4) 20 (by rw [hnl]; omega) hLle, hrd]
          simp
        · cases hf
        · cases hf
    · cases hf
    · cases hf
  · -- M-I does not fit: finish returns 0
    exfalso
    have happ := h1 (by omega)
    have hMI : finishMI H ag.cfg msg (some k) = .ok (false, msg) := by
      unfold finishMI
      simp only
      rw [hprep]
      simp only
      unfold finishAppendMI
      rw [happ]
    unfold finishMessage at hf
    simp only at hf
    split at hf
    · split at hf
      · exact absurd (congrArg Prod.fst (Except.ok.inj hf)).symm hr
      · have hpk : pickKey msg.key (some k) = some k := by rw [hkey]; rfl
        rw [hpk, hMI] at hf
        exact absurd (congrArg Prod.fst (Except.ok.inj hf)).symm hr
    · cases hf
    · cases hf

/-! non-vacuity: the configuration hypotheses are satisfiable (RFC 5389 agent, short-term credentials,
    no fingerprints); a fresh `stun_message_init` message satisfies `Built`, `AttrsOf … []` and
    `FirstOccurrence … []` (example at the end of Nice/Props/C07.lean) -/
example : (Cfg.has ⟨1, 1⟩ STUN_AGENT_USAGE_LONG_TERM_CREDENTIALS = false) ∧
    ((isRfc5389ish ⟨1, 1⟩ && Cfg.has ⟨1, 1⟩ STUN_AGENT_USAGE_USE_FINGERPRINT) = false) := by decide

example (a : Option Cfg) : FirstOccurrence a tMI [] := fun x hx => by cases hx

end Nice.Props.C04
