/-
  C20 — what ends a TURN discovery item, proved about the skeleton of agent/conncheck.c priv_map_reply_to_relay_request
  REGENERATED from the source on every run (`Nice.Gen.RelayReply.prog`): in the decision between "send the Allocate again with
  the fresh nonce / realm" and "a real unauthorized error", a 438 Stale Nonce answer never takes the second branch, and a 401
  takes it only through the realm comparison.  (Gathering completion is announced when every item is done — C20Tick — so an
  item ended by a 438 would complete gathering without the relayed candidate the server was about to grant: seeded C20d.)
-/
import Nice.Gen.RelayReply
namespace Nice.Props.C20Relay
open Nice.Flow Nice.Gen.RelayReply

/-- what the ERROR-CODE out-parameter may hold afterwards (code + 1; 0 = untouched, i.e. -1) -/
def hv : Havoc := fun _ _ => [0, 1, 301, 401, codeUnauthorized, codeStaleNonce, 487, 501]

def policy : Policy := fun _ kind σ => kind != 7 || σ.r0 != codeStaleNonce

def init : List St := [{ r0 := 0, r1 := 0 }, { r0 := codeStaleNonce, r1 := 1 }]

theorem analysis_ok : (reach hv policy prog init).ok = true := by decide +kernel

/-- **C20_stale_nonce_is_never_final.** -/
theorem C20_stale_nonce_is_never_final {σ0 : St} (h0 : σ0 ∈ init) {tr : List Ev} {σ1 : St} {o : Out}
    (hx : Exec hv prog σ0 tr σ1 o) : ∀ e ∈ tr, e.kind = 7 → e.st.r0 ≠ codeStaleNonce := by
  intro e he hk
  have hp := events_satisfy_policy analysis_ok h0 hx e he
  simpa [policy, hk] using hp

/-! non-vacuity: the final branch is reachable (a 401 with the same realm), the re-arm branch too -/
def never7 : Policy := fun _ kind _ => kind != 7
def never6 : Policy := fun _ kind _ => kind != 6
example : (reach hv never7 prog init).ok = false := by decide +kernel
example : (reach hv never6 prog init).ok = false := by decide +kernel
example : nDone = 3 ∧ nRearm = 1 := by decide

end Nice.Props.C20Relay
