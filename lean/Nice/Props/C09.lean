/-
  C09 — Pseudo-TCP always makes progress: completes, or fails with an error, never hangs.
  Theorems about `Nice.PTcp` (model of agent/pseudotcp.c): the invariants behind "never hangs silently".
  End-to-end completion after healing is a tied simulation claim (checks/C09.py), not a theorem.
-/
import Nice.Proofs.PTcpRun
import Nice.Props.C09Window
import Nice.Props.C10Kernels
namespace Nice.Props.C09
open Nice.PTcp Nice.Gen Nice.Proofs.PTcp

set_option maxRecDepth 16000

/-- **C09_rto_bounded.**  After every history of public operations (any packets, any clock values, any `WritePacket`
    results) the retransmission timeout satisfies `MIN_RTO <= rx_rto <= MAX_RTO`; the bounds are the constants
    regenerated from the source. -/
theorem C09_rto_bounded (conv : UInt32) (ops : List (UInt32 × Op)) (s' : Sock)
    (h : run (Sock.init conv) ops = .ok s') : MIN_RTO ≤ s'.rx_rto.toNat ∧ s'.rx_rto.toNat ≤ MAX_RTO := by
  have i := run_inv0 ops _ s' (init_inv0 conv) h
  have h1 := UInt32.le_iff_toNat_le.mp i.rto_lo
  have h2 := UInt32.le_iff_toNat_le.mp i.rto_hi
  rw [cmin] at h1; rw [cmax] at h2
  exact ⟨h1, h2⟩

/-- **C09_rto_bounded_init.**  A fresh socket starts inside the bounds (`DEF_RTO`). -/
theorem C09_rto_bounded_init (conv : UInt32) :
    MIN_RTO ≤ (Sock.init conv).rx_rto.toNat ∧ (Sock.init conv).rx_rto.toNat ≤ MAX_RTO := by
  show MIN_RTO ≤ cDEF_RTO.toNat ∧ cDEF_RTO.toNat ≤ MAX_RTO
  decide

example : run (Sock.init 7) [(5, .setTime 9)] = .ok (setTime (Sock.init 7) 9) := rfl

/-- **C09_backoff_doubles_to_ceiling.**  The exponential back-off `min (limit, rx_rto * 2)` (limit = DEF_RTO while
    connecting, MAX_RTO afterwards) never leaves the bounds and never wraps. -/
theorem C09_backoff_doubles_to_ceiling (r lim : UInt32) (h1 : cMIN_RTO ≤ r) (h2 : r ≤ cMAX_RTO)
    (hl : lim = cDEF_RTO ∨ lim = cMAX_RTO) :
    (min lim (r * 2)).toNat = min lim.toNat (2 * r.toNat) ∧ cMIN_RTO ≤ min lim (r * 2) ∧ min lim (r * 2) ≤ cMAX_RTO := by
  refine ⟨?_, backoff_range r lim h1 h2 hl⟩
  have hm : min lim (r * 2) = if lim ≤ r * 2 then lim else r * 2 := rfl
  rw [hm]
  rw [UInt32.le_iff_toNat_le] at h1 h2
  rw [cmin] at h1; rw [cmax] at h2
  have h2r : (r * 2).toNat = r.toNat * 2 := by
    rw [UInt32.toNat_mul]; have : (2 : UInt32).toNat = 2 := rfl
    rw [this]; exact Nat.mod_eq_of_lt (by omega)
  split <;> rename_i hc <;> rw [UInt32.le_iff_toNat_le, h2r] at hc <;> (try rw [h2r]) <;> omega

example : cMIN_RTO ≤ (2000 : UInt32) ∧ (2000 : UInt32) ≤ cMAX_RTO := by decide

/-- **C09_transmit_gives_up.**  A segment that has been transmitted 30 times (15 in ESTABLISHED) is not transmitted
    again: `transmit` reports ETIMEDOUT, which every caller turns into `closedown` with that error, i.e. a `Closed`
    callback — the connection fails with an error instead of retrying for ever. -/
theorem C09_transmit_gives_up (s : Sock) (idx : Nat) (now : UInt32) (seg : SSeg)
    (hseg : s.slist[idx]? = some seg) (hx : seg.xmit ≥ (if s.state = .established then 15 else 30)) :
    transmit s idx now = .ok (.ETIMEDOUT, s) := by
  unfold transmit
  simp [hseg, hx, pure, Except.pure]

example : ∃ (s : Sock) (seg : SSeg), s.slist[0]? = some seg ∧ seg.xmit ≥ (if s.state = .established then 15 else 30) :=
  ⟨{ Sock.init 0 with slist := [{ seq := 0, len := 1, xmit := 30, flags := 0, unsent := false }] }, _, rfl, by decide⟩

/-- `closedown` with a non-zero error always reports it: the `Closed` callback is appended to the event list. -/
theorem setStateClosed_reports (s s' : Sock) (e : Err) (he : e ≠ .none) (h : setStateClosed s e = .ok s') :
    s'.state = .closed ∧ s'.out.back? = some (.closed e) := by
  unfold setStateClosed at h
  simp only [bind, Except.bind] at h
  cases hs : setState s .closed with
  | error x => rw [hs] at h; cases h
  | ok s1 =>
    rw [hs] at h
    simp only [pure, Except.pure] at h
    cases h
    have hst : s1.state = .closed := by
      unfold setState at hs
      split at hs
      · cases hs; rename_i h0; exact h0.symm
      · split at hs
        · cases hs; rfl
        · simp [fault] at hs
    refine ⟨hst, ?_⟩
    have : (e != Err.none) = true := by simpa using he
    simp [emitIf, this]

/-- **C09_next_clock_finite.**  While a socket is not closed and no pre-FIN-ACK shutdown is pending, the clock
    interface names a deadline (returns TRUE) — for every state and every clock value. -/
theorem C09_next_clock_finite (s : Sock) (t0 : UInt64) (clk : UInt32) (hs : s.shutdown = .none)
    (hc : s.state ≠ .closed) : ∃ t, getNextClock s t0 clk = .ok (true, t, s) := by
  unfold getNextClock
  simp only [hs]
  have h1 : ¬ (Shutdown.none = Shutdown.forceful) := by decide
  have h2 : (decide (Shutdown.none = Shutdown.graceful)) = false := by decide
  simp only [h1, if_false, h2, Bool.false_and]
  simp only [hc, decide_false, Bool.and_false, Bool.false_eq_true, if_false]
  split
  · exact ⟨_, rfl⟩
  · exact ⟨_, rfl⟩

example : (Sock.init 0).shutdown = .none ∧ (Sock.init 0).state ≠ .closed := by decide

/-- **C09_next_clock_le_4000.**  Asked with `*timeout = 0`, a socket that is not closed names a deadline at most
    `DEFAULT_TIMEOUT` (4 s) after the current time, as long as the 32-bit millisecond clock does not wrap within that
    interval (at the wrap the sum is computed modulo 2^32, see DESIGN section 8 item 9). -/
theorem C09_next_clock_le_4000 (s : Sock) (clk : UInt32) (hs : s.shutdown = .none) (hc : s.state ≠ .closed)
    (hw : (getCurrentTime s clk).toNat + DEFAULT_TIMEOUT < 2 ^ 32) (t : UInt64)
    (h : getNextClock s 0 clk = .ok (true, t, s)) :
    t.toNat ≤ (getCurrentTime s clk).toNat + DEFAULT_TIMEOUT := by
  have hdt : DEFAULT_TIMEOUT = 4000 := rfl
  have htw : TIME_WAIT_TIMEOUT = 1 := rfl
  have hct : CLOSED_TIMEOUT = 60000 := rfl
  unfold getNextClock at h
  simp only [hs] at h
  have h1 : ¬ (Shutdown.none = Shutdown.forceful) := by decide
  have h2 : (decide (Shutdown.none = Shutdown.graceful)) = false := by decide
  simp only [h1, if_false, h2, Bool.false_and] at h
  simp only [hc, decide_false, Bool.and_false, Bool.false_eq_true, if_false] at h
  generalize getCurrentTime s clk = now at *
  have hmin : ∀ a b : UInt64, (min a b).toNat ≤ b.toNat ∧ (min a b).toNat ≤ a.toNat := by
    intro a b
    have : min a b = if a ≤ b then a else b := rfl
    rw [this]; split <;> rename_i hh <;> rw [UInt64.le_iff_toNat_le] at hh <;> omega
  have hadd : ∀ k : Nat, k ≤ 4000 → ((now + UInt32.ofNat k).toUInt64).toNat = now.toNat + k := by
    intro k hk
    rw [UInt32.toNat_toUInt64, UInt32.toNat_add, UInt32.toNat_ofNat']
    have : k % 2 ^ 32 = k := Nat.mod_eq_of_lt (by omega)
    rw [this]; exact Nat.mod_eq_of_lt (by omega)
  have hopt : ∀ (c : Prop) [Decidable c] (a x : UInt64), (if c then min a x else a).toNat ≤ a.toNat := by
    intro c _ a x
    split
    · exact (hmin a x).2
    · exact Nat.le_refl _
  split at h
  · -- TIME-WAIT: deadline now + TIME_WAIT_TIMEOUT
    simp only [pure, Except.pure] at h
    cases h
    have e1 := hadd TIME_WAIT_TIMEOUT (by decide)
    refine Nat.le_trans (hmin _ _).1 ?_
    rw [e1, htw, hdt]
    omega
  · simp only [pure, Except.pure] at h
    cases h
    have e4 := hadd DEFAULT_TIMEOUT (by decide)
    refine Nat.le_trans (hopt _ _ _) (Nat.le_trans (hopt _ _ _) (Nat.le_trans (hopt _ _ _) ?_))
    refine Nat.le_trans (hmin _ _).1 ?_
    rw [e4]
    exact Nat.le_refl _

example : (getCurrentTime (Sock.init 0) 1000).toNat + DEFAULT_TIMEOUT < 2 ^ 32 := by decide

end Nice.Props.C09
