import Nice.Model.PTcp
/-! # C09: the receive window as the peer sees it (window scaling)

Kernel-level theorems about `resize_receive_buffer`'s scale loop and the window field of `packet`
(the model's `scaleLoop`, `advWnd`, `advField`, tied to agent/pseudotcp.c by the ptcp_drv streams):
the two places a seeded change (C09f) and a genuine defect (3fc62b4) went wrong. -/
namespace Nice.Props.C09Window
open Nice.PTcp

theorem scaleLoop_fits (fuel : Nat) : ∀ (n : UInt32) (sc : UInt8), n.toNat < 2 ^ (16 + fuel) →
    (scaleLoop fuel n sc).1.toNat ≤ 0xFFFF := by
  induction fuel with
  | zero => intro n sc h; simp [scaleLoop] at *; omega
  | succ f ih =>
    intro n sc h
    unfold scaleLoop
    split
    · apply ih
      rw [UInt32.toNat_shiftRight]
      have : (1 : UInt32).toNat % 32 = 1 := by decide
      rw [this, Nat.shiftRight_eq_div_pow]
      have : 2 ^ (16 + (f + 1)) = 2 * 2 ^ (16 + f) := by rw [← Nat.add_assoc, Nat.pow_succ]; omega
      omega
    · rename_i hgt
      have : ¬ (0xFFFF : UInt32) < n := hgt
      rw [UInt32.lt_iff_toNat_lt] at this
      have h2 : (0xFFFF : UInt32).toNat = 0xFFFF := by decide
      show n.toNat ≤ 0xFFFF
      omega

theorem C09_scaled_buffer_fits_window_field (n : UInt32) : (scaleLoop 33 n 0).1.toNat ≤ 0xFFFF :=
  scaleLoop_fits 33 n 0 (by have := n.toNat_lt; omega)

theorem scaleLoop_nonzero (fuel : Nat) : ∀ (n : UInt32) (sc : UInt8), n ≠ 0 → (scaleLoop fuel n sc).1 ≠ 0 := by
  induction fuel with
  | zero => intro n sc h; simpa [scaleLoop] using h
  | succ f ih =>
    intro n sc h
    unfold scaleLoop
    split
    · rename_i hgt
      apply ih
      intro h0
      have hgt' : (0xFFFF : UInt32).toNat < n.toNat := UInt32.lt_iff_toNat_lt.mp hgt
      have h2 : (0xFFFF : UInt32).toNat = 0xFFFF := by decide
      have : (n >>> 1).toNat = 0 := by rw [h0]; rfl
      rw [UInt32.toNat_shiftRight] at this
      have h1 : (1 : UInt32).toNat % 32 = 1 := by decide
      rw [h1, Nat.shiftRight_eq_div_pow] at this
      omega
    · exact h

theorem scaleLoop_prod (fuel : Nat) : ∀ (n : UInt32) (sc : UInt8) (V : Nat), n.toNat * 2 ^ sc.toNat ≤ V → sc.toNat + fuel ≤ 255 →
    (scaleLoop fuel n sc).1.toNat * 2 ^ (scaleLoop fuel n sc).2.toNat ≤ V := by
  induction fuel with
  | zero => intro n sc V h _; simpa [scaleLoop] using h
  | succ f ih =>
    intro n sc V h hs
    unfold scaleLoop
    split
    · have hsc : (sc + 1).toNat = sc.toNat + 1 := by
        rw [UInt8.toNat_add]; have : (1 : UInt8).toNat = 1 := rfl
        rw [this]; exact Nat.mod_eq_of_lt (by omega)
      apply ih
      · rw [hsc, UInt32.toNat_shiftRight]
        have h1 : (1 : UInt32).toNat % 32 = 1 := by decide
        rw [h1, Nat.shiftRight_eq_div_pow]
        have h2 : n.toNat / 2 ^ 1 * 2 ≤ n.toNat := by
          have := Nat.div_mul_le_self n.toNat 2; simpa using this
        have h3 : ∀ a b : Nat, a * 2 ^ (b + 1) = (a * 2) * 2 ^ b := by
          intro a b; rw [Nat.pow_succ, Nat.mul_comm (2 ^ b) 2, Nat.mul_assoc]
        rw [h3]
        exact Nat.le_trans (Nat.mul_le_mul_right _ h2) h
      · omega
    · exact h

theorem scaleLoop_count (fuel : Nat) : ∀ (n : UInt32) (sc : UInt8) (k : Nat), n.toNat < 2 ^ (16 + k) → sc.toNat + fuel ≤ 255 →
    (scaleLoop fuel n sc).2.toNat ≤ sc.toNat + k := by
  induction fuel with
  | zero => intro n sc k _ _; simp [scaleLoop]
  | succ f ih =>
    intro n sc k h hs
    unfold scaleLoop
    split
    · rename_i hgt
      have hgt' : (0xFFFF : UInt32).toNat < n.toNat := UInt32.lt_iff_toNat_lt.mp hgt
      have h2 : (0xFFFF : UInt32).toNat = 0xFFFF := by decide
      have hsc : (sc + 1).toNat = sc.toNat + 1 := by
        rw [UInt8.toNat_add]; have : (1 : UInt8).toNat = 1 := rfl
        rw [this]; exact Nat.mod_eq_of_lt (by omega)
      cases k with
      | zero => simp at h; omega
      | succ k' =>
        have := ih (n >>> 1) (sc + 1) k' (by
          rw [UInt32.toNat_shiftRight]
          have h1 : (1 : UInt32).toNat % 32 = 1 := by decide
          rw [h1, Nat.shiftRight_eq_div_pow]
          have : 2 ^ (16 + (k' + 1)) = 2 * 2 ^ (16 + k') := by rw [← Nat.add_assoc, Nat.pow_succ]; omega
          omega) (by omega)
        omega
    · show sc.toNat ≤ sc.toNat + k; omega

/-- **an empty receive buffer of any configured size advertises an open window**: for every requested size `v ≠ 0`,
    with `(n, k)` the result of the scale loop of `resize_receive_buffer`, the buffer gets `n << k` bytes, and a window of
    that many bytes is written into the header as `n`, which fits 16 bits and is not 0. -/
theorem C09_empty_buffer_advertises_open_window (v : UInt32) (hv : v ≠ 0) :
    let r := scaleLoop 33 v 0
    advField (r.1 <<< r.2.toUInt32) r.2 = r.1.toUInt16 ∧ r.1.toUInt16 ≠ 0 ∧ r.2 ≤ 16 := by
  intro r
  have hfit : r.1.toNat ≤ 0xFFFF := C09_scaled_buffer_fits_window_field v
  have hnz : r.1 ≠ 0 := scaleLoop_nonzero 33 v 0 hv
  have hprod : r.1.toNat * 2 ^ r.2.toNat ≤ v.toNat := scaleLoop_prod 33 v 0 v.toNat (by simp) (by simp)
  have hcnt : r.2.toNat ≤ 16 := by
    have := scaleLoop_count 33 v 0 16 (by have := v.toNat_lt; omega) (by simp)
    simpa using this
  have hv32 := v.toNat_lt
  have hsc32 : r.2.toUInt32.toNat = r.2.toNat := by simp
  have hmod : r.2.toNat % 32 = r.2.toNat := Nat.mod_eq_of_lt (by omega)
  have hshl : (r.1 <<< r.2.toUInt32).toNat = r.1.toNat * 2 ^ r.2.toNat := by
    rw [UInt32.toNat_shiftLeft, hsc32, hmod, Nat.shiftLeft_eq]
    exact Nat.mod_eq_of_lt (by omega)
  have hback : (r.1 <<< r.2.toUInt32) >>> r.2.toUInt32 = r.1 := by
    apply UInt32.toNat_inj.mp
    rw [UInt32.toNat_shiftRight, hshl, hsc32, hmod, Nat.shiftRight_eq_div_pow]
    exact Nat.mul_div_cancel _ (Nat.pow_pos (by decide))
  refine ⟨by show ((r.1 <<< r.2.toUInt32) >>> r.2.toUInt32).toUInt16 = _; rw [hback], ?_, ?_⟩
  · intro h0
    apply hnz
    apply UInt32.toNat_inj.mp
    have : r.1.toUInt16.toNat = 0 := by rw [h0]; rfl
    rw [UInt32.toNat_toUInt16] at this
    have : r.1.toNat % 65536 = 0 := by simpa using this
    show r.1.toNat = 0
    omega
  · exact UInt8.le_iff_toNat_le.mpr (by simpa using hcnt)

/-- the test `recv` uses to decide that the peer was told "window closed" (fix 3fc62b4) agrees with the window field
    `packet` writes, whenever the scaled window fits the field (it does: the receive window never exceeds the buffer) -/
theorem C09_closed_test_matches_field (w : UInt32) (sc : UInt8) (h : (w >>> sc.toUInt32).toNat < 65536) :
    advField w sc = 0 ↔ (advWnd w sc == 0) = true := by
  show (w >>> sc.toUInt32).toUInt16 = 0 ↔ ((w >>> sc.toUInt32) == 0) = true
  constructor
  · intro h0
    have : ((w >>> sc.toUInt32).toUInt16).toNat = 0 := by rw [h0]; rfl
    rw [UInt32.toNat_toUInt16] at this
    have h2 : (w >>> sc.toUInt32).toNat = 0 := by omega
    have : (w >>> sc.toUInt32) = 0 := UInt32.toNat_inj.mp h2
    simp [this]
  · intro h0
    have : (w >>> sc.toUInt32) = 0 := by simpa using h0
    rw [this]; rfl

example : scaleLoop 33 65536 0 = (32768, 1) := by decide
example : scaleLoop 33 1048576 0 = (32768, 5) := by decide
example : scaleLoop 33 61440 0 = (61440, 0) := by decide
-- the state the defect needed: window 1 with scale 1 is advertised as 0 although rcv_wnd ≠ 0
example : advField 1 1 = 0 ∧ ((1 : UInt32) == 0) = false := by decide

end Nice.Props.C09Window
