/-
  C08 — Pseudo-TCP delivers exactly the bytes written, in order, then end-of-stream.
  Theorems about `Nice.PTcp` (model of agent/pseudotcp.c): the two rings refine byte queues (what is written is what is
  read, at the same stream positions), the sender's payload is the ring content at the segment's offset, an
  out-of-order store never touches committed data.  The two-socket statements (N) `C08_stream_prefix` and (E)
  `C08_eos_after_all_data` of DESIGN section 5/C08 are decided by the oracle stream of checks/C08.py on the real code;
  their proof needs the ghost stream of DESIGN 5a piece 7, which is not built yet.
-/
import Nice.Proofs.PTcpRing
import Nice.Proofs.PTcpRun
import Nice.Props.C10Kernels
namespace Nice.Props.C08
open Nice.PTcp Nice.Gen Nice.Proofs.PTcp

/-- **C08_fifo_write_appends.**  `pseudo_tcp_fifo_write` accepts `min (n, free space)` bytes, appends exactly these bytes
    behind the buffered data (logical positions `data .. data+c`) and changes no byte that was already buffered. -/
theorem C08_fifo_write_appends (b b' : Fifo) (src : Array UInt8) (n c : Nat) (hb : FifoOk b) (hc : b.buf.size < 2 ^ 64)
    (h : b.write src n = .ok (c, b')) :
    c = min n (b.buf.size - b.data) ∧ b'.data = b.data + c ∧
    (∀ i, i < b.data → byteAt b' i = byteAt b i) ∧ (∀ j, j < c → byteAt b' (b.data + j) = src.getD j 0) := by
  have hd := hb.1
  unfold Fifo.write at h
  cases hw : b.writeOffset src 0 n 0 with
  | error e => simp [hw, bind, Except.bind] at h
  | ok v =>
    obtain ⟨c1, b1⟩ := v
    simp only [hw, bind, Except.bind, pure, Except.pure] at h
    cases h
    by_cases hfull : b.data + 0 < b.buf.size
    · have ⟨hc1, hbytes⟩ := writeOffset_content hb hc hfull hw
      have ⟨_, hsz, hdt, hrp⟩ := writeOffset_ok hb hw
      have hba : ∀ i, byteAt { b1 with data := b1.data + c } i = byteAt b1 i := fun i => rfl
      simp only [Nat.add_zero, Nat.sub_zero] at hc1 hbytes
      refine ⟨hc1, by simp only; rw [hdt], ?_, ?_⟩
      · intro i hi
        rw [hba, hbytes i (by omega)]
        have : ¬ (b.data ≤ i ∧ i < b.data + c) := by omega
        simp only [this, if_false]
      · intro j hj
        rw [hba, hbytes (b.data + j) (by omega)]
        have : b.data ≤ b.data + j ∧ b.data + j < b.data + c := by omega
        simp only [this, and_self, if_true, Nat.zero_add, Nat.add_sub_cancel_left]
    · -- ring full: nothing is accepted
      unfold Fifo.writeOffset at hw
      simp only [fault] at hw
      have h0 : ¬ b.cap = 0 := by simp only [Fifo.cap]; have := hb.2; omega
      have h1 : b.data + 0 ≥ b.cap := by simp only [Fifo.cap]; omega
      simp only [h0, if_false, h1, if_true, pure, Except.pure] at hw
      cases hw
      refine ⟨by omega, rfl, fun i _ => rfl, fun j hj => by omega⟩

example : ∃ c b', (Fifo.init 4).write #[1, 2, 3, 4, 5, 6] 6 = .ok (c, b') := ⟨_, _, rfl⟩

/-- **C08_fifo_read_takes.**  `pseudo_tcp_fifo_read` returns the oldest `min (n, data)` buffered bytes in order and
    leaves the rest of the queue unchanged (every remaining byte moves `copy` positions towards the head). -/
theorem C08_fifo_read_takes (b b' : Fifo) (n : Nat) (out : Array UInt8) (hb : FifoOk b) (hc : b.buf.size < 2 ^ 64)
    (h : b.read n = .ok (out, b')) :
    out.size = min n b.data ∧ (∀ j, j < out.size → out[j]?.getD 0 = byteAt b j) ∧
    b'.data = b.data - out.size ∧ (∀ i, byteAt b' i = byteAt b (out.size + i)) := by
  have hd := hb.1
  have hr := hb.2
  unfold Fifo.read at h
  cases hro : b.readOffset n 0 n with
  | error e => simp [hro, bind, Except.bind] at h
  | ok o =>
    simp only [hro, bind, Except.bind, pure, Except.pure] at h
    cases h
    have ⟨hs, hg⟩ := readOffset_content hb hc hro
    simp only [Nat.sub_zero, Nat.zero_add] at hs hg
    refine ⟨hs, hg, ?_, ?_⟩
    · simp only; rw [gsub_of_le (by omega) (by omega)]
    · intro i
      simp only [byteAt, Fifo.cap]
      congr 2
      rw [Nat.add_mod, Nat.mod_mod, ← Nat.add_mod, Nat.add_assoc]

example : ∃ o b', ({ Fifo.init 4 with data := 2 } : Fifo).read 3 = .ok (o, b') := ⟨_, _, rfl⟩

/-- **C08_fifo_roundtrip.**  Bytes written into an empty-enough ring come back unchanged and in order: after a write of
    `c` accepted bytes behind `d` buffered ones, a `read_offset` at offset `d` returns exactly these bytes. -/
theorem C08_fifo_roundtrip (b b' : Fifo) (src : Array UInt8) (n c cap : Nat) (out : Array UInt8) (hb : FifoOk b)
    (hc : b.buf.size < 2 ^ 64) (hw : b.write src n = .ok (c, b')) (hr : b'.readOffset c b.data cap = .ok out) :
    out.size = c ∧ ∀ j, j < c → out[j]?.getD 0 = src.getD j 0 := by
  have ⟨hcm, hdt, _, hnew⟩ := C08_fifo_write_appends b b' src n c hb hc hw
  have ⟨hb', hsz⟩ := write_ok hb hc hw
  have ⟨hs, hg⟩ := readOffset_content hb' (by rw [hsz]; exact hc) hr
  have hsz' : out.size = c := by rw [hs, hdt]; omega
  refine ⟨hsz', ?_⟩
  intro j hj
  rw [hg j (by omega), hnew j hj]

/-- **C08_sender_payload_from_ring (S).**  Every data packet written by `packet` carries, after its 24-byte header,
    exactly the `len` send-ring bytes at logical offset `offset` — the same bytes whatever was sent or acknowledged
    before, and a retransmission of the same (offset, len) carries the same payload. -/
theorem C08_sender_payload_from_ring (s s' : Sock) (seq : UInt32) (fl : UInt8) (off len now : UInt32) (r : WriteResult)
    (hb : FifoOk s.sbuf) (hc : s.sbuf.buf.size < 2 ^ 64) (hlen : len ≠ 0)
    (h : packet s seq fl off len now = .ok (r, s')) :
    ∃ payload : Array UInt8,
      s'.out = s.out.push (.packet (buildHeader s seq fl (s.rcv_wnd >>> s.rwnd_scale.toUInt32).toUInt16 now ++ payload)) ∧
      payload.size = len.toNat ∧ ∀ j, j < len.toNat → payload[j]?.getD 0 = byteAt s.sbuf (off.toNat + j) := by
  unfold packet at h
  simp only [fault] at h
  split at h
  · cases h
  · split at h
    · cases h
    · have hl : (len != 0) = true := by simpa using hlen
      simp only [hl, if_true, bind, Except.bind] at h
      cases hro : s.sbuf.readOffset len.toNat off.toNat (MAX_PACKET - HEADER_SIZE) with
      | error e => simp [hro] at h
      | ok bytes =>
        simp only [hro] at h
        have ⟨_, hg⟩ := readOffset_content hb hc hro
        by_cases hsz : bytes.size = len.toNat
        · have hne : (bytes.size != len.toNat) = false := by simp [hsz]
          simp only [hne, Bool.false_eq_true, if_false, pure, Except.pure] at h
          refine ⟨bytes, ?_, hsz, fun j hj => hg j (by omega)⟩
          split at h <;> (cases h; rfl)
        · have hne : (bytes.size != len.toNat) = true := by simp [hsz]
          simp [hne] at h

/-- **C08_receiver_store_keeps_committed_partial (R, first half).**  Storing a segment in the receive ring at any offset
    — in order (`off = 0`) or out of order — changes no byte of the data that is already committed (readable), and puts
    the accepted bytes at logical positions `data+off ..`; in-order bytes become readable through
    `consume_write_buffer`, which only moves the `data_length` mark.
    Missing for the full (R) `C08_receiver_prefix`: the ghost stream relating `rcv_nxt`, `rlist` and ring offsets across
    `process` (trimming, rlist insertion / recovery). -/
theorem C08_receiver_store_keeps_committed_partial (b b1 b2 : Fifo) (src : Array UInt8) (so n off c : Nat)
    (hb : FifoOk b) (hc : b.buf.size < 2 ^ 64) (hoff : b.data + off < b.buf.size)
    (hw : b.writeOffset src so n off = .ok (c, b1)) (hcw : b1.consumeWriteBuffer c = .ok b2) (h0 : off = 0) :
    b2.data = b.data + c ∧ (∀ i, i < b.data → byteAt b2 i = byteAt b i) ∧
    (∀ j, j < c → byteAt b2 (b.data + j) = src.getD (so + j) 0) := by
  subst h0
  have ⟨hc1, hbytes⟩ := writeOffset_content hb hc hoff hw
  have ⟨hb1, hsz, hdt, hrp⟩ := writeOffset_ok hb hw
  have ⟨_, hbuf, hd2⟩ := consumeWriteBuffer_ok hb1 (by rw [hsz]; exact hc) hcw
  have hba : ∀ i, byteAt b2 i = byteAt b1 i := by
    intro i
    unfold Fifo.consumeWriteBuffer at hcw
    simp only [fault] at hcw
    split at hcw
    · cases hcw
    · cases hcw; rfl
  have hd := hb.1
  refine ⟨by rw [hd2, hdt], ?_, ?_⟩
  · intro i hi
    rw [hba, hbytes i (by omega)]
    have : ¬ (b.data + 0 ≤ i ∧ i < b.data + 0 + c) := by omega
    simp only [this, if_false]
  · intro j hj
    rw [hba, hbytes (b.data + j) (by omega)]
    have : b.data + 0 ≤ b.data + j ∧ b.data + j < b.data + 0 + c := by omega
    simp only [this, and_self, if_true]
    congr 1; omega

/-- out-of-order store (`off > 0`): committed data is untouched -/
theorem C08_out_of_order_store_keeps_committed (b b1 : Fifo) (src : Array UInt8) (so n off c : Nat)
    (hb : FifoOk b) (hc : b.buf.size < 2 ^ 64) (hoff : b.data + off < b.buf.size)
    (hw : b.writeOffset src so n off = .ok (c, b1)) :
    b1.data = b.data ∧ ∀ i, i < b.data → byteAt b1 i = byteAt b i := by
  have ⟨_, hbytes⟩ := writeOffset_content hb hc hoff hw
  have ⟨_, _, hdt, _⟩ := writeOffset_ok hb hw
  have hd := hb.1
  refine ⟨hdt, fun i hi => ?_⟩
  rw [hbytes i (by omega)]
  have : ¬ (b.data + off ≤ i ∧ i < b.data + off + c) := by omega
  simp only [this, if_false]

example : FifoOk (Fifo.init 8) ∧ (Fifo.init 8).data + 3 < (Fifo.init 8).buf.size :=
  ⟨fifo_init_ok 8 (by decide), by decide⟩

/-- **C08_eos_requires_in_sequence_fin.**  In ESTABLISHED the FIN state machine moves to CLOSE-WAIT (which is what makes
    `recv` return 0 and `is_closed_remotely` true) only for a segment that is exactly in sequence, ends exactly at the
    recorded FIN position and fits the free receive buffer completely. -/
theorem C08_eos_requires_in_sequence_fin (s : Sock) (seg : Segment) :
    (s.rcv_nxt != 0 && seg.seq == s.rcv_nxt && s.rcv_nxt + seg.len == s.rcv_fin &&
      decide (seg.len.toNat ≤ s.rbuf.getWriteRemaining)) = true →
    seg.seq = s.rcv_nxt ∧ s.rcv_nxt + seg.len = s.rcv_fin ∧ seg.len.toNat ≤ s.rbuf.getWriteRemaining := by
  intro h
  simp only [Bool.and_eq_true, beq_iff_eq, decide_eq_true_eq] at h
  exact ⟨h.1.1.2, h.1.2, h.2⟩

end Nice.Props.C08
