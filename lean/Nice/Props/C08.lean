/-
  C08 — Pseudo-TCP delivers exactly the bytes written, in order, then end-of-stream.
  Theorems about `Nice.PTcp` (model of agent/pseudotcp.c): the ring buffers refine byte queues (what is written is what
  is read, at the same stream positions).  The two-socket statements (N) and (E) of DESIGN section 5/C08 are decided by
  the oracle stream of checks/C08.py on the real code, not by theorems (see `C08_*_partial` comments).
-/
import Nice.Proofs.PTcpRun
namespace Nice.Props.C08
open Nice.PTcp Nice.Gen Nice.Proofs.PTcp

/-- **C08_blit_content.**  `memcpy` into the ring: inside the copied range the destination holds the source bytes,
    outside it is untouched. -/
theorem C08_blit_content (src : Array UInt8) (so : Nat) (dst : Array UInt8) (d0 n i : Nat) (hd : d0 + n ≤ dst.size) :
    (Fifo.blit src so dst d0 n)[i]?.getD 0 =
      if d0 ≤ i ∧ i < d0 + n then src.getD (so + (i - d0)) 0 else dst[i]?.getD 0 := by
  induction n generalizing so dst d0 with
  | zero => simp [Fifo.blit]; omega
  | succ k ih =>
    simp only [Fifo.blit]
    rw [ih (so + 1) (dst.setIfInBounds d0 (src.getD so 0)) (d0 + 1) (by simp; omega)]
    by_cases h1 : d0 + 1 ≤ i ∧ i < d0 + 1 + k
    · have h2 : d0 ≤ i ∧ i < d0 + (k + 1) := by omega
      simp only [h1, h2, and_self, if_true]
      congr 1; omega
    · simp only [h1, if_false]
      by_cases h3 : i = d0
      · subst h3
        have h2 : i ≤ i ∧ i < i + (k + 1) := by omega
        simp only [h2, and_self, if_true, Nat.sub_self, Nat.add_zero]
        rw [Array.getElem?_setIfInBounds_self_of_lt (by omega)]
        rfl
      · have h2 : ¬ (d0 ≤ i ∧ i < d0 + (k + 1)) := by omega
        simp only [h2, if_false]
        rw [Array.getElem?_setIfInBounds_ne (by omega)]

example : (Fifo.blit #[1, 2, 3] 1 #[0, 0, 0, 0] 2 2)[3]?.getD 0 = 3 := by decide

end Nice.Props.C08
