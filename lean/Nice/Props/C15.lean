/-
  C15 — Candidate and pair priorities follow RFC 8445 and order the check list.
  The formulas proved about are the kernels *translated from the C source* (Nice.Gen).
-/
import Nice.Model.Prio
import Nice.Props.C15TypePref
namespace Nice.Props.C15
open Nice.Gen Nice.Prio

set_option maxRecDepth 16000

/-- **C15_candidate_formula.**  priority = 2^24·type + 2^8·local + (256 − component), no wrap,
    for type ≤ 126, local ≤ 65535, component 1..256. -/
theorem C15_candidate_formula (tp lp c : UInt32) (htp : tp.toNat ≤ 126) (hlp : lp.toNat ≤ 65535)
    (hc1 : 1 ≤ c.toNat) (hc : c.toNat ≤ 256) :
    (nice_candidate_ice_priority_full tp lp c).toNat
      = 2 ^ 24 * tp.toNat + 2 ^ 8 * lp.toNat + (256 - c.toNat) := by
  unfold nice_candidate_ice_priority_full
  have h1 : ((16777216 : UInt32) * tp).toNat = 16777216 * tp.toNat := by
    rw [UInt32.toNat_mul]; show 16777216 * tp.toNat % 4294967296 = _; omega
  have h2 : ((256 : UInt32) * lp).toNat = 256 * lp.toNat := by
    rw [UInt32.toNat_mul]; show 256 * lp.toNat % 4294967296 = _; omega
  have h3 : ((256 : UInt32) - c).toNat = 256 - c.toNat := by
    rw [UInt32.toNat_sub_of_le]; · rfl
    · rw [UInt32.le_iff_toNat_le]; exact hc
  have h4 : ((16777216 : UInt32) * tp + (256 : UInt32) * lp).toNat = 16777216 * tp.toNat + 256 * lp.toNat := by
    rw [UInt32.toNat_add, h1, h2]; show (_ ) % 4294967296 = _; omega
  rw [UInt32.toNat_add, h4, h3]
  show (_ ) % 4294967296 = _
  omega

/-- the priority is in 1 .. 0x7effffff as the C comment says (so it is never 0 and fits 31 bits) -/
theorem C15_candidate_range (tp lp c : UInt32) (htp : tp.toNat ≤ 126) (hlp : lp.toNat ≤ 65535)
    (hc1 : 1 ≤ c.toNat) (hc : c.toNat ≤ 256) :
    (nice_candidate_ice_priority_full tp lp c).toNat ≤ 0x7effffff := by
  rw [C15_candidate_formula tp lp c htp hlp hc1 hc]; omega

/-- **C15_pref_ranges (type).**  Every type preference the switch can produce is ≤ 126
    (in fact ≤ 120), for every candidate, reliable or not. -/
theorem C15_type_pref_le (c : Cand) (reliable nat : Bool) :
    (typePreference c reliable nat).toNat ≤ 126 := by
  unfold typePreference
  simp only [NICE_CANDIDATE_TYPE_PREF_HOST, NICE_CANDIDATE_TYPE_PREF_PEER_REFLEXIVE,
    NICE_CANDIDATE_TYPE_PREF_NAT_ASSISTED, NICE_CANDIDATE_TYPE_PREF_SERVER_REFLEXIVE,
    NICE_CANDIDATE_TYPE_PREF_RELAYED_UDP, NICE_CANDIDATE_TYPE_PREF_RELAYED]
  repeat' split
  all_goals decide

/-- **C15_pref_ranges (local).**  Under the kernel's own `g_assert`s the local preference packs
    direction (3 bits), turn (3 bits) and address index (6 bits) without overlap. -/
theorem C15_local_pref_value (d t o : UInt32)
    (h : nice_candidate_ice_local_preference_full_pre d t o = true) :
    (nice_candidate_ice_local_preference_full d t o).toNat = d.toNat * 8192 + t.toNat * 64 + o.toNat
    ∧ d.toNat < 8 ∧ t.toNat < 8 ∧ o.toNat < 64 := by
  unfold nice_candidate_ice_local_preference_full_pre at h
  simp only [Bool.and_eq_true, decide_eq_true_eq] at h
  obtain ⟨⟨ho, ht⟩, hd⟩ := h
  have ho' : o.toNat < 64 := by simpa [UInt32.lt_iff_toNat_lt] using ho
  have ht' : t.toNat < 8 := by simpa [UInt32.lt_iff_toNat_lt] using ht
  have hd' : d.toNat < 8 := by simpa [UInt32.lt_iff_toNat_lt] using hd
  refine ⟨?_, hd', ht', ho'⟩
  unfold nice_candidate_ice_local_preference_full
  have e1 : (d <<< (13 : UInt32)).toNat = d.toNat * 8192 := by
    rw [UInt32.toNat_shiftLeft]; simp [Nat.shiftLeft_eq]; omega
  have e2 : (t <<< (6 : UInt32)).toNat = t.toNat * 64 := by
    rw [UInt32.toNat_shiftLeft]; simp [Nat.shiftLeft_eq]; omega
  have e3 : (d <<< (13 : UInt32) + t <<< (6 : UInt32)).toNat = d.toNat * 8192 + t.toNat * 64 := by
    rw [UInt32.toNat_add, e1, e2]; show _ % 4294967296 = _; omega
  have e4 : (d <<< (13 : UInt32) + t <<< (6 : UInt32) + o).toNat = d.toNat * 8192 + t.toNat * 64 + o.toNat := by
    rw [UInt32.toNat_add, e3]; show _ % 4294967296 = _; omega
  rw [UInt32.toNat_toUInt16, e4]
  show _ % 65536 = _
  omega

theorem C15_local_pref_le (d t o : UInt32)
    (h : nice_candidate_ice_local_preference_full_pre d t o = true) :
    (nice_candidate_ice_local_preference_full d t o).toNat ≤ 65535 := by
  have := C15_local_pref_value d t o h; omega

/-- **C15_type_rank (dominance).**  A strictly larger type preference wins whatever the local
    preferences and component ids are. -/
theorem C15_type_dominates (tp tp' lp lp' c c' : UInt32)
    (h : tp'.toNat < tp.toNat) (htp : tp.toNat ≤ 126)
    (hlp : lp.toNat ≤ 65535) (hlp' : lp'.toNat ≤ 65535)
    (hc1 : 1 ≤ c.toNat) (hc : c.toNat ≤ 256) (hc1' : 1 ≤ c'.toNat) (hc' : c'.toNat ≤ 256) :
    nice_candidate_ice_priority_full tp' lp' c' < nice_candidate_ice_priority_full tp lp c := by
  rw [UInt32.lt_iff_toNat_lt, C15_candidate_formula tp lp c htp hlp hc1 hc,
    C15_candidate_formula tp' lp' c' (by omega) hlp' hc1' hc']
  omega

/-- **C15_type_rank (order of the table).**  For equal transport and reliability the type
    preferences rank host > peer-reflexive > server-reflexive > relayed (UDP relay > other relay),
    also after the halving branch. -/
theorem C15_type_rank (transport : Nat) (cid tpf ipf : UInt32) (udpRelay reliable : Bool) :
    let mk := fun ty u => ({ type := ty, transport := transport, componentId := cid,
                             turnIsUdp := u, turnPref := tpf, ipPref := ipf } : Cand)
    typePreference (mk NICE_CANDIDATE_TYPE_HOST udpRelay) reliable false
      > typePreference (mk NICE_CANDIDATE_TYPE_PEER_REFLEXIVE udpRelay) reliable false ∧
    typePreference (mk NICE_CANDIDATE_TYPE_PEER_REFLEXIVE udpRelay) reliable false
      > typePreference (mk NICE_CANDIDATE_TYPE_SERVER_REFLEXIVE udpRelay) reliable false ∧
    typePreference (mk NICE_CANDIDATE_TYPE_SERVER_REFLEXIVE udpRelay) reliable false
      > typePreference (mk NICE_CANDIDATE_TYPE_RELAYED udpRelay) reliable false := by
  intro mk
  simp only [mk, typePreference, NICE_CANDIDATE_TYPE_HOST, NICE_CANDIDATE_TYPE_PEER_REFLEXIVE,
    NICE_CANDIDATE_TYPE_SERVER_REFLEXIVE, NICE_CANDIDATE_TYPE_RELAYED,
    NICE_CANDIDATE_TYPE_PREF_HOST, NICE_CANDIDATE_TYPE_PREF_PEER_REFLEXIVE,
    NICE_CANDIDATE_TYPE_PREF_NAT_ASSISTED, NICE_CANDIDATE_TYPE_PREF_SERVER_REFLEXIVE,
    NICE_CANDIDATE_TYPE_PREF_RELAYED_UDP, NICE_CANDIDATE_TYPE_PREF_RELAYED]
  cases udpRelay <;> cases reliable <;> by_cases ht : transport = NICE_CANDIDATE_TRANSPORT_UDP <;>
    simp [ht] <;> decide

/-- **C15_pair_formula.**  pair priority = 2^32·min(G,D) + 2·max(G,D) + (G>D) for all 32-bit
    priorities, without wrap-around in 64 bits — except the single pair G = D = 2^32−1, whose
    RFC value 2^64 + 2^32 − 2 does not fit the 64-bit priority field at all (see the `example`
    below; RFC 8445 candidate priorities are < 2^31, so this is a limit of the 64-bit
    representation, not of libnice). -/
theorem C15_pair_formula (G D : UInt32) (hne : ¬ (G.toNat = 4294967295 ∧ D.toNat = 4294967295)) :
    (nice_candidate_pair_priority G D).toNat
      = 2 ^ 32 * min G.toNat D.toNat + 2 * max G.toNat D.toNat + (if G.toNat > D.toNat then 1 else 0) := by
  unfold nice_candidate_pair_priority
  simp only
  have hG := G.toNat_lt
  have hD := D.toNat_lt
  have hmax : ((if decide (G > D) then G else D).toUInt64).toNat = max G.toNat D.toNat := by
    by_cases h : G > D
    · have h' : D.toNat < G.toNat := UInt32.lt_iff_toNat_lt.mp h
      simp [h]; omega
    · have h' : ¬ D.toNat < G.toNat := fun x => h (UInt32.lt_iff_toNat_lt.mpr x)
      simp [h]; omega
  have hmin : ((if decide (G < D) then G else D).toUInt64).toNat = min G.toNat D.toNat := by
    by_cases h : G < D
    · have h' : G.toNat < D.toNat := UInt32.lt_iff_toNat_lt.mp h
      simp [h]; omega
    · have h' : ¬ G.toNat < D.toNat := fun x => h (UInt32.lt_iff_toNat_lt.mpr x)
      simp [h]; omega
  have hbit : (UInt64.ofInt (if decide (G > D) then (1 : Int32) else (0 : Int32)).toInt).toNat
      = (if G.toNat > D.toNat then 1 else 0) := by
    by_cases h : G > D
    · have h' : D.toNat < G.toNat := UInt32.lt_iff_toNat_lt.mp h
      simp [h, h']
    · have h' : ¬ D.toNat < G.toNat := fun x => h (UInt32.lt_iff_toNat_lt.mpr x)
      simp [h, h']; rfl
  have e1 : ((4294967296 : UInt64) * (if decide (G < D) then G else D).toUInt64).toNat
      = 4294967296 * min G.toNat D.toNat := by
    rw [UInt64.toNat_mul, hmin]; show 4294967296 * _ % 18446744073709551616 = _; omega
  have e2 : ((2 : UInt64) * (if decide (G > D) then G else D).toUInt64).toNat
      = 2 * max G.toNat D.toNat := by
    rw [UInt64.toNat_mul, hmax]; show 2 * _ % 18446744073709551616 = _; omega
  rw [UInt64.toNat_add, UInt64.toNat_add, e1, e2, hbit]
  show (_ % 18446744073709551616 + _) % 18446744073709551616 = _
  have hm : min G.toNat D.toNat < 4294967295 := by omega
  have hM : max G.toNat D.toNat < 4294967296 := by omega
  clear hne hmax hmin hbit e1 e2
  generalize min G.toNat D.toNat = m at *
  generalize max G.toNat D.toNat = M at *
  have hc : (if G.toNat > D.toNat then 1 else 0) ≤ 1 := by split <;> omega
  generalize (if G.toNat > D.toNat then 1 else 0) = c at *
  omega

/-- **C15_pair_symmetric.**  Both agents compute the same value for the same pair: the controlling
    agent's (local, remote) is the controlled agent's (remote, local). -/
theorem C15_pair_symmetric (a b : UInt32) :
    agentPairPriority true a b = agentPairPriority false b a := by
  simp [agentPairPriority]

/-- for candidate priorities below 2^31 (every priority libnice assigns, by `C15_candidate_range`)
    a pair with a strictly larger min(G,D) ranks strictly higher.  (Without the bound `2·max` can
    carry into the `min` field — that is RFC 8445's formula, not a libnice artefact.) -/
theorem C15_pair_min_dominates (G D G' D' : UInt32) (h : min G'.toNat D'.toNat < min G.toNat D.toNat)
    (hb : max G'.toNat D'.toNat < 2 ^ 31) (hb2 : max G.toNat D.toNat < 2 ^ 31) :
    nice_candidate_pair_priority G' D' < nice_candidate_pair_priority G D := by
  rw [UInt64.lt_iff_toNat_lt, C15_pair_formula _ _ (by omega), C15_pair_formula _ _ (by omega)]
  have hc : (if G.toNat > D.toNat then 1 else 0) ≤ 1 := by split <;> omega
  have hc' : (if G'.toNat > D'.toNat then 1 else 0) ≤ 1 := by split <;> omega
  generalize (if G.toNat > D.toNat then 1 else 0) = c at *
  generalize (if G'.toNat > D'.toNat then 1 else 0) = c' at *
  generalize min G.toNat D.toNat = m at *
  generalize max G.toNat D.toNat = M at *
  generalize min G'.toNat D'.toNat = m' at *
  generalize max G'.toNat D'.toNat = M' at *
  omega

/-! ### check-list order -/

def Sorted (l : List Pair) : Prop := l.Pairwise (fun a b => a.priority ≥ b.priority)

theorem mem_insertSorted (p : Pair) (l : List Pair) (x : Pair) :
    x ∈ insertSorted p l ↔ x = p ∨ x ∈ l := by
  induction l with
  | nil => simp [insertSorted]
  | cons y ys ih =>
    unfold insertSorted
    split
    · simp [ih]; constructor
      · rintro (h | h | h) <;> simp [h]
      · rintro (h | h | h) <;> simp [h]
    · simp

/-- **C15_list_sorted (insert).**  `g_slist_insert_sorted` with `conn_check_compare` keeps the list
    in descending priority order. -/
theorem C15_insert_sorted (p : Pair) (l : List Pair) (h : Sorted l) : Sorted (insertSorted p l) := by
  induction l with
  | nil => simp [insertSorted, Sorted]
  | cons y ys ih =>
    unfold Sorted at h ih ⊢
    rw [List.pairwise_cons] at h
    unfold insertSorted
    split
    · rename_i hgt
      rw [List.pairwise_cons]
      refine ⟨?_, ih h.2⟩
      intro x hx
      rcases (mem_insertSorted p ys x).mp hx with rfl | hx
      · exact UInt64.le_of_lt hgt
      · exact h.1 x hx
    · rename_i hle
      have hle' : p.priority ≥ y.priority := by
        rw [ge_iff_le, UInt64.le_iff_toNat_le]; rw [gt_iff_lt, UInt64.lt_iff_toNat_lt] at hle; omega
      rw [List.pairwise_cons]
      refine ⟨?_, ?_⟩
      · intro x hx
        rcases List.mem_cons.mp hx with rfl | hx
        · exact hle'
        · exact UInt64.le_trans (h.1 x hx) hle'
      · rw [List.pairwise_cons]; exact h

/-- **C15_list_sorted (role switch).**  After `recalculate_pair_priorities` the list is sorted
    in descending order of the *new* priorities, and holds the same pairs. -/
theorem C15_recalc_sorted (controlling : Bool) (l : List Pair) : Sorted (recalc controlling l) := by
  unfold Sorted recalc
  have key := List.pairwise_mergeSort (le := fun a b : Pair => decide (a.priority ≥ b.priority))
    (by intro a b c hab hbc
        simp only [decide_eq_true_eq] at *
        exact UInt64.le_trans hbc hab)
    (by intro a b
        simp only [Bool.or_eq_true, decide_eq_true_eq]
        rw [ge_iff_le, ge_iff_le, UInt64.le_iff_toNat_le, UInt64.le_iff_toNat_le]; omega)
    (l.map fun p => { p with priority := agentPairPriority controlling p.localPrio p.remotePrio })
  exact key.imp (by intro a b h; simpa using h)

theorem C15_recalc_perm (controlling : Bool) (l : List Pair) :
    (recalc controlling l).map (fun p => (p.localPrio, p.remotePrio))
      |>.Perm (l.map (fun p => (p.localPrio, p.remotePrio))) := by
  unfold recalc
  have := (List.mergeSort_perm
    (l.map fun p => { p with priority := agentPairPriority controlling p.localPrio p.remotePrio })
    (fun a b => decide (a.priority ≥ b.priority))).map (fun p => (p.localPrio, p.remotePrio))
  simpa [List.map_map, Function.comp_def] using this

/-- every priority in the list is the one the current role dictates, after any sequence of
    adds and role switches (so the order is the RFC order for the current role). -/
inductive Op where
  | add (lp rp : UInt32)
  | switchRole
def applyOp (s : Bool × List Pair) : Op → Bool × List Pair
  | .add lp rp => (s.1, addPair s.1 lp rp s.2)
  | .switchRole => (!s.1, recalc (!s.1) s.2)

def Consistent (s : Bool × List Pair) : Prop :=
  Sorted s.2 ∧ ∀ p ∈ s.2, p.priority = agentPairPriority s.1 p.localPrio p.remotePrio

theorem applyOp_consistent (s : Bool × List Pair) (o : Op) (h : Consistent s) :
    Consistent (applyOp s o) := by
  cases o with
  | add lp rp =>
    refine ⟨C15_insert_sorted _ _ h.1, ?_⟩
    intro p hp
    rcases (mem_insertSorted _ _ p).mp hp with rfl | hp
    · rfl
    · exact h.2 p hp
  | switchRole =>
    refine ⟨C15_recalc_sorted _ _, ?_⟩
    intro p hp
    simp only [applyOp, recalc] at hp
    have hp' := (List.mergeSort_perm _ _).mem_iff.mp hp
    simp only [List.mem_map] at hp'
    obtain ⟨q, _, rfl⟩ := hp'
    rfl

/-- **C15_list_sorted.**  At every step of every history of pair additions and role switches the
    check list is in descending pair-priority order and every priority is the current role's. -/
theorem C15_list_sorted (init : Bool) (ops : List Op) :
    Consistent (ops.foldl applyOp (init, [])) := by
  have : ∀ s, Consistent s → Consistent (ops.foldl applyOp s) := by
    induction ops with
    | nil => intro s h; exact h
    | cons o os ih => intro s h; exact ih _ (applyOp_consistent s o h)
  exact this _ ⟨by simp [Sorted], by simp⟩

/-! ### non-vacuity -/
example : (nice_candidate_ice_priority_full 120 8192 1).toNat = 2 ^ 24 * 120 + 2 ^ 8 * 8192 + 255 := by decide
example : nice_candidate_pair_priority 0x80000000 1 = 0x100000000 * 1 + 2 * 0x80000000 + 1 := by decide
example : nice_candidate_ice_local_preference_full_pre 6 7 63 = true := by decide
example : ((([Op.add 5 9, .add 7 3, .add 1 1] : List Op).foldl applyOp (true, [])).2.map (·.priority))
    = [21474836498, 12884901903, 4294967298] := by decide
/-- the excluded pair: the RFC value does not fit 64 bits and the C result is its residue -/
example : nice_candidate_pair_priority 0xffffffff 0xffffffff = 0xfffffffe := by decide

end Nice.Props.C15
