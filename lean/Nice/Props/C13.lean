/-
  C13 — consent expiry / keepalive timing kernels.  Full statements about `Nice.Consent`;
  the end-to-end claims (FAILED announced, send API error, 403 on the wire, inter-packet gaps) are
  tied by virtual-time simulation of the real agents.
-/
import Nice.Model.Consent
import Nice.Props.C13Send
import Nice.Props.C13RemoveStream
namespace Nice.Props.C13
open Nice.Consent Nice.Gen

set_option maxRecDepth 16000

/-- **C13_constants.**  The values the property names: 30 s consent timeout, 25 s keepalive period,
    consent checks every 4..6 s (5 s ± 20 %, at least 4 s). A changed constant breaks this. -/
theorem C13_constants :
    NICE_AGENT_TIMER_CONSENT_TIMEOUT = 30000 ∧ NICE_AGENT_TIMER_TR_DEFAULT = 25000 ∧
    NICE_AGENT_TIMER_CONSENT_DEFAULT = 5000 ∧ NICE_AGENT_TIMER_MIN_CONSENT_INTERVAL = 4000 ∧
    timeoutUs true = 30000000 := by decide

/-- **C13_no_early_failure.**  A tick declares the pair failed only if more than the timeout has
    elapsed since the last authenticated answer. -/
theorem C13_no_early_failure (cf : Bool) (p : Pair) (now : Nat) (h : (tick cf p now).2 = .failed) :
    now - p.last > timeoutUs cf := by
  unfold tick at h
  split at h
  · assumption
  · cases h

/-- **C13_failure_when_late.**  A tick later than last + timeout declares failure and closes the
    send gate. -/
theorem C13_failure_when_late (cf : Bool) (p : Pair) (now : Nat) (h : now > p.last + timeoutUs cf) :
    (tick cf p now).2 = .failed ∧ sendDenied true (tick cf p now).1 = true := by
  have : now - p.last > timeoutUs cf := by omega
  simp [tick, this, sendDenied]

/-- a tick before the deadline re-arms the timer for no later than the deadline -/
theorem rearm_due_le (cf : Bool) (p : Pair) (now d : Nat) (hl : p.last ≤ now)
    (h : (tick cf p now).2 = .rearm d) : now + d * 1000 ≤ p.last + timeoutUs cf ∧
      p.last + timeoutUs cf < now + d * 1000 + 1000 := by
  unfold tick at h
  split at h
  · cases h
  · rename_i hle
    simp only [TickOut.rearm.injEq] at h
    subst h
    have := Nat.div_mul_le_self (timeoutUs cf - (now - p.last)) 1000
    have h2 := Nat.lt_div_mul_add (a := timeoutUs cf - (now - p.last)) (b := 1000) (by omega)
    omega

/-- a schedule of tick instants that follows the re-arm rule: each next tick fires no earlier than
    its due time and at most `δ` µs late; no answer arrives (last is constant) -/
inductive Sched (cf : Bool) (p : Pair) (δ : Nat) : List Nat → Prop
  | one (t : Nat) : Sched cf p δ [t]
  | next (t t' d : Nat) (rest : List Nat) :
      (tick cf p t).2 = .rearm d → t + d * 1000 ≤ t' → t' ≤ t + d * 1000 + δ →
      Sched cf p δ (t' :: rest) → Sched cf p δ (t :: t' :: rest)

/-- **C13_consent_expiry.**  If answers stop (last stays `p.last`), then along every timer schedule
    that starts no later than the deadline, every tick instant is ≤ last + timeout + δ; ticks at or
    before the deadline never fail and the first tick after the deadline does: failure is declared in
    the window (last + timeout, last + timeout + δ]. -/
theorem C13_consent_expiry (cf : Bool) (p : Pair) (δ : Nat) (ts : List Nat) (hs : Sched cf p δ ts) :
    ∀ t0, ts.head? = some t0 → p.last ≤ t0 → t0 ≤ p.last + timeoutUs cf + δ →
      ∀ t ∈ ts, t ≤ p.last + timeoutUs cf + δ ∧
        ((tick cf p t).2 = .failed ↔ t > p.last + timeoutUs cf) := by
  induction hs with
  | one t =>
    intro t0 h0 hl hb x hx
    simp at h0 hx; subst h0; subst hx
    refine ⟨hb, ?_⟩
    constructor
    · intro hf; have := C13_no_early_failure cf p x hf; omega
    · intro hgt; exact (C13_failure_when_late cf p x hgt).1
  | next t t' d rest hr h1 h2 _ ih =>
    intro t0 h0 hl hb x hx
    simp at h0; subst h0
    have hdue := rearm_due_le cf p t d hl hr
    have ht' : t' ≤ p.last + timeoutUs cf + δ := by omega
    have hl' : p.last ≤ t' := by omega
    rcases List.mem_cons.mp hx with rfl | hx
    · refine ⟨hb, ?_⟩
      constructor
      · intro hf; rw [hr] at hf; cases hf
      · intro hgt; omega
    · exact ih t' rfl hl' ht' x hx

/-- **C13_answers_keep_alive.**  While authenticated answers keep arriving with gaps of at most the
    timeout, no tick ever fails (the component stays usable indefinitely). -/
theorem C13_answers_keep_alive (cf : Bool) (p : Pair) (now : Nat) (h : now ≤ p.last + timeoutUs cf) :
    (tick cf p now).2 ≠ .failed ∧ (tick cf p now).1 = p := by
  have : ¬ (now - p.last > timeoutUs cf) := by omega
  simp [tick, this]

/-- **C13_403_immediate.**  A 403 closes the send gate at once, whatever the timing state. -/
theorem C13_403_immediate (p : Pair) : sendDenied true (on403 p) = true := by
  simp [sendDenied, on403]

/-- the send gate is open exactly while consent is held (or nothing is selected yet) -/
theorem C13_gate_iff (sel : Bool) (p : Pair) : sendDenied sel p = true ↔ (sel = true ∧ p.have_ = false) := by
  cases sel <;> cases h : p.have_ <;> simp [sendDenied, h]

/-- **C13_consent_interval.**  Consent checks are spaced 4000..6000 ms: for every RNG output
    (modifier in [0.8,1.2) ⇒ scaled in [4000,6000)). -/
theorem C13_consent_interval (scaled : Nat) (h1 : 4000 ≤ scaled) (h2 : scaled < 6000) :
    4000 ≤ consentIntervalMs scaled ∧ consentIntervalMs scaled < 6000 := by
  unfold consentIntervalMs
  have : NICE_AGENT_TIMER_MIN_CONSENT_INTERVAL = 4000 := by decide
  rw [this]; omega

/-! non-vacuity -/
example : (tick true ⟨true, 1000⟩ 30001001).2 = .failed := by decide
example : (tick true ⟨true, 1000⟩ 25001000).2 = .rearm 5000 := by decide
example : Sched true ⟨true, 0⟩ 700 [25000000, 30000000, 30000400] := by
  refine .next _ _ 5000 _ (by decide) (by decide) (by decide) (.next _ _ 0 _ ?_ (by decide) (by decide) (.one _))
  decide

end Nice.Props.C13
