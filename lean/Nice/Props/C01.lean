/-
  C01 — ICE converges: one controller.  Theorems about the role-conflict kernels
  (`Nice.IceRole`, mirroring stun/usages/ice.c create_reply and conncheck.c's 487 handling) in the
  abstract two-agent system over a monotone message history (arbitrary loss, duplication, delay,
  reordering of requests and 487 answers).

  Proved here (full statements):
    * C01_role_stable_when_roles_differ
    * C01_role_resolution  (non-switcher never changes; switcher changes only i → ¬i and never back)
    * C01_role_resolved_by_request / C01_role_resolved_by_487  (any such delivery settles the roles)
  Not proved (see DESIGN.md, C01): convergence of the full check-list engine to READY; that part of
  the property is tied by simulation of the real agents only.
-/
import Nice.Model.IceRole
import Nice.Props.C15
import Nice.Props.C01Select
namespace Nice.Props.C01
open Nice.IceRole

/-! ### small algebra of the system record -/
@[simp] theorem other_other (x : Ag) : x.other.other = x := by cases x <;> rfl
theorem other_ne (x : Ag) : x.other ≠ x := by cases x <;> simp [Ag.other]
theorem eq_other_of_ne {x w : Ag} (h : x ≠ w) : x = w.other := by
  cases x <;> cases w <;> simp_all [Ag.other]
theorem role_setRole (s : Sys) (x z : Ag) (r : Bool) :
    (s.setRole x r).role z = if z = x then r else s.role z := by
  cases x <;> cases z <;> simp [Sys.setRole, Sys.role]
@[simp] theorem tie_setRole (s : Sys) (x y : Ag) (r : Bool) : (s.setRole x r).tie y = s.tie y := by
  cases x <;> cases y <;> rfl
@[simp] theorem reqs_setRole (s : Sys) (x : Ag) (r : Bool) : (s.setRole x r).reqs = s.reqs := by cases x <;> rfl
@[simp] theorem errs_setRole (s : Sys) (x : Ag) (r : Bool) : (s.setRole x r).errs = s.errs := by cases x <;> rfl
@[simp] theorem role_addErr (s : Sys) (m : Msg) (z : Ag) : (s.addErr m).role z = s.role z := by cases z <;> rfl
@[simp] theorem tie_addErr (s : Sys) (m : Msg) (z : Ag) : (s.addErr m).tie z = s.tie z := by cases z <;> rfl
@[simp] theorem reqs_addErr (s : Sys) (m : Msg) : (s.addErr m).reqs = s.reqs := rfl
@[simp] theorem errs_addErr (s : Sys) (m : Msg) : (s.addErr m).errs = m :: s.errs := rfl

/-- the decision taken when request `m` is delivered in state `s` -/
def decision (s : Sys) (m : Msg) : Bool × Reply :=
  onRequest (s.role m.sender.other) (s.tie m.sender.other) (some m.controlling) (s.tie m.sender)

theorem deliverReq_role (s : Sys) (m : Msg) (hm : m ∈ s.reqs) (z : Ag) :
    (step s (.deliverReq m)).role z = if z = m.sender.other then (decision s m).1 else s.role z := by
  simp only [step, hm, if_true, decision]
  split <;> simp [role_setRole]
theorem deliverReq_tie (s : Sys) (m : Msg) (z : Ag) : (step s (.deliverReq m)).tie z = s.tie z := by
  simp only [step]; split
  · split <;> simp
  · rfl
theorem deliverReq_reqs (s : Sys) (m : Msg) : (step s (.deliverReq m)).reqs = s.reqs := by
  simp only [step]; split
  · split <;> simp
  · rfl
theorem deliverReq_errs (s : Sys) (m : Msg) (hm : m ∈ s.reqs) :
    (step s (.deliverReq m)).errs =
      if (decision s m).2 = .err487 then ⟨m.sender, m.controlling⟩ :: s.errs else s.errs := by
  simp only [step, hm, if_true, decision]
  split
  · rename_i h; simp [h]
  · rename_i h; simp [h]
theorem deliverReq_not_mem (s : Sys) (m : Msg) (hm : m ∉ s.reqs) : step s (.deliverReq m) = s := by
  simp [step, hm]

theorem deliver487_role (s : Sys) (e : Msg) (he : e ∈ s.errs) (z : Ag) :
    (step s (.deliver487 e)).role z = if z = e.sender then on487 e.controlling else s.role z := by
  simp [step, he, role_setRole]
theorem deliver487_tie (s : Sys) (e : Msg) (z : Ag) : (step s (.deliver487 e)).tie z = s.tie z := by
  simp only [step]; split <;> simp
theorem deliver487_reqs (s : Sys) (e : Msg) : (step s (.deliver487 e)).reqs = s.reqs := by
  simp only [step]; split <;> simp
theorem deliver487_errs (s : Sys) (e : Msg) : (step s (.deliver487 e)).errs = s.errs := by
  simp only [step]; split <;> simp
theorem deliver487_not_mem (s : Sys) (e : Msg) (he : e ∉ s.errs) : step s (.deliver487 e) = s := by
  simp [step, he]

theorem tie_step (s : Sys) (st : Step) (x : Ag) : (step s st).tie x = s.tie x := by
  cases st with
  | send y => cases x <;> rfl
  | deliverReq m => exact deliverReq_tie s m x
  | deliver487 m => exact deliver487_tie s m x

theorem onRequest_no_conflict (c : Bool) (t q : UInt64) : onRequest c t (some (!c)) q = (c, .success) := by
  cases c <;> simp [onRequest]
theorem onRequest_no_conflict' (c rc : Bool) (t q : UInt64) (h : rc ≠ c) : onRequest c t (some rc) q = (c, .success) := by
  have : rc = !c := by cases rc <;> cases c <;> simp_all
  rw [this]; exact onRequest_no_conflict c t q

/-! ### case 1: the initial roles differ — nothing ever changes -/

def initRole (iA iB : Bool) : Ag → Bool | .a => iA | .b => iB

structure InvD (iA iB : Bool) (s : Sys) : Prop where
  roles : ∀ z, s.role z = initRole iA iB z
  reqs : ∀ m ∈ s.reqs, m.controlling = initRole iA iB m.sender
  errs : s.errs = []

theorem initRole_other_ne (iA iB : Bool) (hne : iA ≠ iB) (x : Ag) : initRole iA iB x ≠ initRole iA iB x.other := by
  cases x <;> simp [initRole, Ag.other] <;> first | exact hne | exact fun e => hne e.symm

theorem invD_step (iA iB : Bool) (hne : iA ≠ iB) (s : Sys) (st : Step) (h : InvD iA iB s) :
    InvD iA iB (step s st) := by
  cases st with
  | send x =>
    refine ⟨fun z => by cases z <;> first | exact h.roles .a | exact h.roles .b, ?_, h.errs⟩
    intro m hm
    simp only [step, List.mem_cons] at hm
    rcases hm with rfl | hm
    · exact h.roles x
    · exact h.reqs m hm
  | deliverReq m =>
    by_cases hm : m ∈ s.reqs
    · have hd : decision s m = (s.role m.sender.other, .success) := by
        unfold decision
        apply onRequest_no_conflict'
        rw [h.reqs m hm, h.roles]
        exact initRole_other_ne iA iB hne m.sender
      refine ⟨?_, ?_, ?_⟩
      · intro z; rw [deliverReq_role s m hm, hd]; split
        · rename_i hz; rw [hz]; exact h.roles _
        · exact h.roles z
      · rw [deliverReq_reqs]; exact h.reqs
      · rw [deliverReq_errs s m hm, hd]; simp [h.errs]
    · rw [deliverReq_not_mem s m hm]; exact h
  | deliver487 m =>
    have : m ∉ s.errs := by simp [h.errs]
    rw [deliver487_not_mem s m this]; exact h

/-- **C01_role_stable_when_roles_differ.**  If the agents start with different roles, no schedule
    of sends, deliveries, duplicates or reorderings ever changes a role or produces a 487. -/
theorem C01_role_stable_when_roles_differ (s : Sys) (hne : s.roleA ≠ s.roleB)
    (h0 : s.reqs = []) (h1 : s.errs = []) (steps : List Step) :
    (run s steps).roleA = s.roleA ∧ (run s steps).roleB = s.roleB ∧ (run s steps).errs = [] := by
  have inv0 : InvD s.roleA s.roleB s := ⟨fun z => by cases z <;> rfl, by simp [h0], h1⟩
  have : ∀ (l : List Step) (t : Sys), InvD s.roleA s.roleB t → InvD s.roleA s.roleB (run t l) := by
    intro l
    induction l with
    | nil => intro t ht; exact ht
    | cons st l ih => intro t ht; exact ih _ (invD_step _ _ hne t st ht)
  have r := this steps s inv0
  exact ⟨r.roles .a, r.roles .b, r.errs⟩

/-! ### case 2: both agents start with the same role `i` -/

/-- the agent that has to switch: the smaller tie-breaker when both are controlling, the larger
    when both are controlled -/
def IsSwitcher (s : Sys) (i : Bool) (w : Ag) : Prop :=
  if i then s.tie w < s.tie w.other else s.tie w > s.tie w.other

structure InvE (i : Bool) (w : Ag) (s : Sys) : Prop where
  sw : IsSwitcher s i w
  keep : s.role w.other = i                                  -- the other agent never changes
  reqsN : ∀ m ∈ s.reqs, m.sender = w.other → m.controlling = i
  errs : ∀ e ∈ s.errs, e.sender = w ∧ e.controlling = i      -- 487s only go to the switcher

theorem isSwitcher_step (s : Sys) (i : Bool) (w : Ag) (st : Step) (h : IsSwitcher s i w) :
    IsSwitcher (step s st) i w := by
  unfold IsSwitcher at *
  simp only [tie_step]; exact h

/-- the receiver decision when the switcher gets a request from the keeper while still in role i -/
theorem onRequest_switcher (s : Sys) (i : Bool) (w : Ag) (h : IsSwitcher s i w) :
    onRequest i (s.tie w) (some i) (s.tie w.other) = (!i, .switched) := by
  unfold IsSwitcher at h
  cases i
  · simp only [Bool.false_eq_true, if_false] at h
    have : s.tie w ≥ s.tie w.other := UInt64.le_of_lt h
    simp [onRequest, Nice.Gen.RoleConflict.switches, this]
  · simp only [if_true] at h
    simp [onRequest, Nice.Gen.RoleConflict.switches, h]

/-- the receiver decision when the keeper gets a request carrying role i from the switcher -/
theorem onRequest_keeper (s : Sys) (i : Bool) (w : Ag) (h : IsSwitcher s i w) :
    onRequest i (s.tie w.other) (some i) (s.tie w) = (i, .err487) := by
  unfold IsSwitcher at h
  cases i
  · simp only [Bool.false_eq_true, if_false] at h
    have : ¬ (s.tie w.other ≥ s.tie w) := by
      intro hge
      rw [ge_iff_le, UInt64.le_iff_toNat_le] at hge
      rw [gt_iff_lt, UInt64.lt_iff_toNat_lt] at h; omega
    simp [onRequest, Nice.Gen.RoleConflict.switches, this]
  · simp only [if_true] at h
    have : ¬ (s.tie w.other < s.tie w) := by
      intro hlt
      rw [UInt64.lt_iff_toNat_lt] at hlt h; omega
    simp [onRequest, Nice.Gen.RoleConflict.switches, this]

/-- what happens when a request of the keeper reaches the switcher -/
theorem decision_at_switcher (i : Bool) (w : Ag) (s : Sys) (h : InvE i w s) (m : Msg)
    (hm : m ∈ s.reqs) (hs : m.sender = w.other) :
    decision s m = (!i, if s.role w = i then .switched else .success) := by
  have hc := h.reqsN m hm hs
  unfold decision
  rw [hs, other_other, hc]
  by_cases hr : s.role w = i
  · rw [hr, onRequest_switcher s i w h.sw]; simp
  · have hr' : s.role w = !i := by cases hrw : s.role w <;> cases i <;> simp_all
    rw [hr']
    have := onRequest_no_conflict (!i) (s.tie w) (s.tie w.other)
    simp only [Bool.not_not] at this
    rw [this]; simp [hr', hr]

/-- what happens when a request of the switcher reaches the keeper -/
theorem decision_at_keeper (i : Bool) (w : Ag) (s : Sys) (h : InvE i w s) (m : Msg) (hs : m.sender = w) :
    decision s m = (i, if m.controlling = i then .err487 else .success) := by
  unfold decision
  rw [hs, h.keep]
  by_cases hc : m.controlling = i
  · rw [hc, onRequest_keeper s i w h.sw]; simp
  · rw [onRequest_no_conflict' i m.controlling _ _ hc]; simp [hc]

theorem invE_step (i : Bool) (w : Ag) (s : Sys) (st : Step) (h : InvE i w s) : InvE i w (step s st) := by
  have hsw := isSwitcher_step s i w st h.sw
  cases st with
  | send x =>
    refine ⟨hsw, h.keep, ?_, h.errs⟩
    intro m hm hs
    simp only [step, List.mem_cons] at hm
    rcases hm with rfl | hm
    · simp only at hs; subst hs; exact h.keep
    · exact h.reqsN m hm hs
  | deliverReq m =>
    by_cases hm : m ∈ s.reqs
    · by_cases hs : m.sender = w
      · have hd := decision_at_keeper i w s h m hs
        refine ⟨hsw, ?_, ?_, ?_⟩
        · rw [deliverReq_role s m hm, hd, hs]; simp [h.keep]
        · rw [deliverReq_reqs]; exact h.reqsN
        · rw [deliverReq_errs s m hm, hd]
          by_cases hc : m.controlling = i
          · simp only [hc, if_true]
            intro e he
            simp only [List.mem_cons] at he
            rcases he with he | he
            · rw [he]; exact ⟨hs, rfl⟩
            · exact h.errs e he
          · simp only [hc, if_false, reduceCtorEq]
            exact h.errs
      · have hs' := eq_other_of_ne hs
        have hd := decision_at_switcher i w s h m hm hs'
        refine ⟨hsw, ?_, ?_, ?_⟩
        · rw [deliverReq_role s m hm, hs', other_other]
          simp [other_ne w, h.keep]
        · rw [deliverReq_reqs]; exact h.reqsN
        · rw [deliverReq_errs s m hm, hd]
          have : (if s.role w = i then Reply.switched else Reply.success) ≠ Reply.err487 := by
            split <;> simp
          simp [this]; exact h.errs
    · rw [deliverReq_not_mem s m hm]; exact h
  | deliver487 e =>
    by_cases he : e ∈ s.errs
    · obtain ⟨hs, _⟩ := h.errs e he
      refine ⟨hsw, ?_, ?_, ?_⟩
      · rw [deliver487_role s e he, hs]; simp [other_ne w, h.keep]
      · rw [deliver487_reqs]; exact h.reqsN
      · rw [deliver487_errs]; exact h.errs
    · rw [deliver487_not_mem s e he]; exact h

theorem invE_run (i : Bool) (w : Ag) (steps : List Step) : ∀ s, InvE i w s → InvE i w (run s steps) := by
  induction steps with
  | nil => intro s h; exact h
  | cons st l ih => intro s h; exact ih _ (invE_step i w s st h)

/-- once the switcher has left role `i` it never comes back -/
theorem switched_stays (i : Bool) (w : Ag) (s : Sys) (st : Step) (h : InvE i w s) (hr : s.role w = !i) :
    (step s st).role w = !i := by
  cases st with
  | send x => cases w <;> exact hr
  | deliverReq m =>
    by_cases hm : m ∈ s.reqs
    · rw [deliverReq_role s m hm]
      by_cases hs : m.sender = w
      · have : w ≠ m.sender.other := by rw [hs]; exact (other_ne w).symm
        simp [this, hr]
      · have hs' := eq_other_of_ne hs
        rw [decision_at_switcher i w s h m hm hs', hs', other_other]; simp
    · rw [deliverReq_not_mem s m hm]; exact hr
  | deliver487 e =>
    by_cases he : e ∈ s.errs
    · obtain ⟨hs, hc⟩ := h.errs e he
      rw [deliver487_role s e he, hs, hc]; simp [on487]
    · rw [deliver487_not_mem s e he]; exact hr

/-- **C01_role_resolution.**  Both agents start in role `i` with distinct tie-breakers; `w` is the
    agent the tie-break designates.  In every reachable state, under every schedule (loss,
    duplication, delay, reordering, stale messages):
      (1) the other agent still has role `i` — it never changes;
      (2) every 487 ever produced is addressed to `w`;
      (3) if `w` has switched at some point of the run it is still switched at the end. -/
theorem C01_role_resolution (i : Bool) (w : Ag) (s : Sys)
    (hA : s.roleA = i) (hB : s.roleB = i) (hsw : IsSwitcher s i w)
    (h0 : s.reqs = []) (h1 : s.errs = []) (pre post : List Step) :
    (run s (pre ++ post)).role w.other = i ∧
    (∀ e ∈ (run s (pre ++ post)).errs, e.sender = w) ∧
    ((run s pre).role w = !i → (run s (pre ++ post)).role w = !i) := by
  have inv0 : InvE i w s := by
    refine ⟨hsw, ?_, by simp [h0], by simp [h1]⟩
    cases w <;> simp [Ag.other, Sys.role, hA, hB]
  have hall := invE_run i w (pre ++ post) s inv0
  refine ⟨hall.keep, fun e he => (hall.errs e he).1, ?_⟩
  intro hpre
  have hinvpre := invE_run i w pre s inv0
  have : ∀ (l : List Step) (t : Sys), InvE i w t → t.role w = !i → (run t l).role w = !i := by
    intro l
    induction l with
    | nil => intro t _ ht; exact ht
    | cons st l ih =>
      intro t hinv ht
      exact ih _ (invE_step i w t st hinv) (switched_stays i w t st hinv ht)
  have := this post (run s pre) hinvpre hpre
  simpa [run, List.foldl_append] using this

/-- **C01_role_resolved_by_request.**  As soon as the designated agent processes ANY request of its
    peer (however old), it has the opposite role. -/
theorem C01_role_resolved_by_request (i : Bool) (w : Ag) (s : Sys) (h : InvE i w s)
    (m : Msg) (hm : m ∈ s.reqs) (hs : m.sender = w.other) :
    (step s (.deliverReq m)).role w = !i := by
  rw [deliverReq_role s m hm, decision_at_switcher i w s h m hm hs, hs, other_other]; simp

/-- **C01_role_resolved_by_487.**  Likewise when any 487 (however old) reaches it. -/
theorem C01_role_resolved_by_487 (i : Bool) (w : Ag) (s : Sys) (h : InvE i w s)
    (e : Msg) (he : e ∈ s.errs) : (step s (.deliver487 e)).role w = !i := by
  obtain ⟨hs, hc⟩ := h.errs e he
  rw [deliver487_role s e he, hs, hc]; simp [on487]

/-- after resolution exactly one agent is controlling -/
theorem C01_one_controller_after_resolution (i : Bool) (w : Ag) (s : Sys) (h : InvE i w s)
    (hr : s.role w = !i) : s.role w ≠ s.role w.other := by
  rw [hr, h.keep]; cases i <;> simp

/-- **C01_mirror (priority part).**  Both agents compute the same priority for the same pair
    (controller's (local,remote) = controlled's (remote,local)), so "highest-priority nominated
    pair" designates mirror-image pairs on the two sides (from C15). -/
theorem C01_mirror_priority (a b : UInt32) :
    Nice.Prio.agentPairPriority true a b = Nice.Prio.agentPairPriority false b a :=
  Nice.Props.C15.C15_pair_symmetric a b

/-! ### non-vacuity -/
def s0 : Sys := { roleA := true, roleB := true, tieA := 5, tieB := 9, reqs := [], errs := [] }
example : IsSwitcher s0 true .a := by unfold IsSwitcher; decide
example : (run s0 [.send .a, .deliverReq ⟨.a, true⟩, .deliver487 ⟨.a, true⟩]).roleA = false := by decide
example : (run s0 [.send .b, .deliverReq ⟨.b, true⟩]).roleA = false ∧
          (run s0 [.send .b, .deliverReq ⟨.b, true⟩]).roleB = true := by decide

end Nice.Props.C01
