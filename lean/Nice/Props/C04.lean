/-
  C04 — STUN validation accepts exactly RFC-correct integrity, fingerprint and transaction id.
  Theorems about `Nice.Stun.validate` (model of stun_agent_validate, stunagent.c) for all packets,
  all four compatibility modes, all usage-flag sets, all agent states and validaters.
  HMAC-SHA1 and MD5 are parameters (`H : Hashes`): nothing is assumed about them.
-/
import Nice.Proofs.StunSafe
import Nice.Props.C06
namespace Nice.Props.C04
open Nice.Stun Nice.Spec.Stun Nice.Gen

/-! ### CRC-32: the table in stuncrc32.c is the standard one -/

/-- one step of the bitwise CRC-32 (reflected polynomial 0xedb88320) -/
def crcBit (c : UInt32) : UInt32 := if c &&& 1 == 1 then (c >>> 1) ^^^ 0xedb88320 else c >>> 1

/-- table entry `i` from the polynomial definition: eight bit steps -/
def crcEntry (i : Nat) : UInt32 :=
  crcBit (crcBit (crcBit (crcBit (crcBit (crcBit (crcBit (crcBit (UInt32.ofNat i))))))))

/-- the 256-entry table regenerated from stun/stuncrc32.c equals the polynomial definition, so
    "CRC-32" in the statements below is the standard CRC-32 -/
theorem crc32_table_correct : crc32_tab = (List.range 256).map crcEntry := by decide +kernel

/-! ### the stages a validation passes through -/

def passed (st : Status) : Prop := st = .success ∨ st = .unknownRequestAttribute ∨ st = .unknownAttribute

/-- a validation that did not stop in the framing stage got a header from `frameCheck` -/
theorem validate_frame {H : Hashes} {ag ag' : Agent} {pkt : Bytes} {v : Validater} {u : Nat} {st : Status}
    {info : MsgInfo} (hval : validate H ag pkt v u = .ok (st, ag', info))
    (hst : st ≠ .notStun ∧ st ≠ .incomplete ∧ st ≠ .badRequest) :
    ∃ h, frameCheck ag pkt = .ok (.inr h) := by
  unfold validate at hval
  simp only at hval
  cases hfc : frameCheck ag pkt with
  | error e => rw [hfc] at hval; cases hval
  | ok r =>
    cases r with
    | inr h => exact ⟨h, rfl⟩
    | inl s =>
      rw [hfc] at hval
      simp only at hval
      injection hval with hval
      have hs : s = st := congrArg Prod.fst hval
      subst hs
      -- frameCheck only ever stops with NOT_STUN, INCOMPLETE or BAD_REQUEST
      exfalso
      unfold frameCheck at hfc
      simp only at hfc
      split at hfc
      · cases hfc
      · injection hfc with h; injection h with h; exact hst.1 h.symm
      · injection hfc with h; injection h with h; exact hst.2.1 h.symm
      · split at hfc
        · injection hfc with h; injection h with h; exact hst.1 h.symm
        · split at hfc
          · cases hfc
          · split at hfc
            · injection hfc with h; injection h with h; exact hst.2.2 h.symm
            · split at hfc
              · split at hfc
                · cases hfc
                · injection hfc with h; injection h with h; exact hst.2.2 h.symm
                · cases hfc
              · cases hfc

/-- Where fingerprints are in use (RFC 5389 / MS-ICE2 agent with USE_FINGERPRINT), any status other
    than NOT_STUN / INCOMPLETE / BAD_REQUEST — success in particular — implies the FINGERPRINT
    attribute equals CRC-32 of the preceding bytes (length field as in the packet) xor 0x5354554e;
    for MS-ICE2 without IMPLEMENTATION-VERSION the documented WLM 2009 typo CRC is accepted too. -/
theorem C04_success_needs_fingerprint (H : Hashes) (ag ag' : Agent) (pkt : Bytes) (v : Validater) (u : Nat)
    (st : Status) (info : MsgInfo) (hval : validate H ag pkt v u = .ok (st, ag', info))
    (hst : st ≠ .notStun ∧ st ≠ .incomplete ∧ st ≠ .badRequest)
    (hcfg : isRfc5389ish ag.cfg = true ∧ ag.cfg.has STUN_AGENT_USAGE_USE_FINGERPRINT = true) :
    ∃ fpr msgLen crc, find32 (some ag.cfg) pkt tFPR = .ok (.success, fpr) ∧
      messageLength pkt = .ok msgLen ∧ fingerprint pkt msgLen.toNat false = .ok crc ∧
      (fpr = crc ∨
        (ag.cfg.compat = STUN_COMPATIBILITY_MSICE2 ∧
          find (some ag.cfg) pkt (UInt16.ofNat STUN_ATTRIBUTE_MS_IMPLEMENTATION_VERSION) = .ok none ∧
          fingerprint pkt msgLen.toNat true = .ok fpr)) := by
  obtain ⟨h, hfc⟩ := validate_frame hval hst
  -- frameCheck returned a header: the fingerprint check said TRUE
  have hcf : checkFingerprint ag pkt = .ok true := by
    unfold frameCheck at hfc
    simp only at hfc
    split at hfc
    · cases hfc
    · cases hfc
    · cases hfc
    · split at hfc
      · cases hfc
      · split at hfc
        · cases hfc
        · split at hfc
          · cases hfc
          · rw [if_pos (by rw [hcfg.1, hcfg.2]; rfl)] at hfc
            split at hfc
            · cases hfc
            · cases hfc
            · assumption
  unfold checkFingerprint at hcf
  simp only at hcf
  split at hcf
  · cases hcf
  · rename_i fpr h32
    split at hcf
    · cases hcf
    · rename_i msgLen hml
      split at hcf
      · cases hcf
      · rename_i crc hcrc
        refine ⟨fpr, msgLen, crc, h32, hml, hcrc, ?_⟩
        split at hcf
        · rename_i hne
          split at hcf
          · rename_i hms
            split at hcf
            · cases hcf
            · cases hcf
            · rename_i himpl
              split at hcf
              · cases hcf
              · rename_i crc2 hcrc2
                right
                refine ⟨by simpa using hms, himpl, ?_⟩
                have hb := Except.ok.inj hcf
                have : fpr = crc2 := eq_of_beq hb
                rw [this]; exact hcrc2
          · cases hcf
        · rename_i heq
          left
          simpa using heq
  · cases hcf

/-- everything a validation that got past framing went through, stage by stage -/
theorem validate_stages {H : Hashes} {ag ag' : Agent} {pkt : Bytes} {v : Validater} {u : Nat} {st : Status}
    {info : MsgInfo} {h : Hdr} (hval : validate H ag pkt v u = .ok (st, ag', info))
    (hfc : frameCheck ag pkt = .ok (.inr h)) :
    (matchResponse ag h = .inl st ∧ ag' = ag) ∨
    ∃ si f, matchResponse ag h = .inr si ∧ readFacts (some ag.cfg) pkt = .ok f ∧
      ((presenceFails ag.cfg h f (slotInfo ag si).1.isNone (ignoreCredOf ag.cfg h f) = true ∧
          st = .unauthorizedBadRequest ∧ ag' = ag) ∨
       (presenceFails ag.cfg h f (slotInfo ag si).1.isNone (ignoreCredOf ag.cfg h f) = false ∧
        ((callValidater ag.cfg pkt v f (slotInfo ag si).1 (ignoreCredOf ag.cfg h f) = .ok none ∧
            st = .unauthorized ∧ ag' = ag) ∨
         ∃ key, callValidater ag.cfg pkt v f (slotInfo ag si).1 (ignoreCredOf ag.cfg h f) = .ok (some key) ∧
           ((∃ i2, miCheck H ag.cfg pkt h f key (ignoreCredOf ag.cfg h f) (slotInfo ag si).2.1 (slotInfo ag si).2.2 =
                .ok (false, i2) ∧ st = .unauthorized ∧ ag' = ag) ∨
            (∃ i2, miCheck H ag.cfg pkt h f key (ignoreCredOf ag.cfg h f) (slotInfo ag si).2.1 (slotInfo ag si).2.2 =
                .ok (true, i2) ∧ validateTail ag pkt h f si i2 u = .ok (st, ag', info)))))) := by
  unfold validate at hval
  simp only at hval
  rw [hfc] at hval
  simp only at hval
  cases hm : matchResponse ag h with
  | inl s =>
    rw [hm] at hval
    simp only at hval
    have e := Except.ok.inj hval
    left
    have e1 : s = st := congrArg Prod.fst e
    exact ⟨by rw [e1], (congrArg (fun x => x.2.1) e).symm⟩
  | inr si =>
    rw [hm] at hval
    simp only at hval
    right
    cases hf : readFacts (some ag.cfg) pkt with
    | error e => rw [hf] at hval; cases hval
    | ok f =>
      rw [hf] at hval
      simp only at hval
      refine ⟨si, f, rfl, rfl, ?_⟩
      by_cases hp : presenceFails ag.cfg h f (slotInfo ag si).1.isNone (ignoreCredOf ag.cfg h f) = true
      · rw [if_pos hp] at hval
        have e := Except.ok.inj hval
        left
        exact ⟨hp, (congrArg Prod.fst e).symm, (congrArg (fun x => x.2.1) e).symm⟩
      · rw [if_neg hp] at hval
        right
        refine ⟨by simpa using hp, ?_⟩
        cases hc : callValidater ag.cfg pkt v f (slotInfo ag si).1 (ignoreCredOf ag.cfg h f) with
        | error e => rw [hc] at hval; cases hval
        | ok kr =>
          rw [hc] at hval
          cases kr with
          | none =>
            simp only at hval
            have e := Except.ok.inj hval
            left
            exact ⟨rfl, (congrArg Prod.fst e).symm, (congrArg (fun x => x.2.1) e).symm⟩
          | some key =>
            simp only at hval
            right
            refine ⟨key, rfl, ?_⟩
            cases hmi : miCheck H ag.cfg pkt h f key (ignoreCredOf ag.cfg h f) (slotInfo ag si).2.1 (slotInfo ag si).2.2 with
            | error e => rw [hmi] at hval; cases hval
            | ok r =>
              rw [hmi] at hval
              obtain ⟨ok, i2⟩ := r
              cases ok
              · simp only at hval
                have e := Except.ok.inj hval
                left
                exact ⟨i2, rfl, (congrArg Prod.fst e).symm, (congrArg (fun x => x.2.1) e).symm⟩
              · simp only at hval
                right
                exact ⟨i2, rfl, hval⟩

theorem validateTail_not_unmatched {ag ag' : Agent} {pkt : Bytes} {h : Hdr} {f : Facts} {si : Option Nat}
    {i2 info : MsgInfo} {u : Nat} {st : Status}
    (ht : validateTail ag pkt h f si i2 u = .ok (st, ag', info)) : st ≠ .unmatchedResponse := by
  unfold validateTail at ht
  simp only at ht
  split at ht
  · have e := congrArg Prod.fst (Except.ok.inj ht); intro hst; rw [hst] at e; cases e
  · split at ht
    · cases ht
    · split at ht
      · cases ht
      · split at ht
        · have e := congrArg Prod.fst (Except.ok.inj ht)
          intro hst; rw [hst] at e
          simp only at e
          split at e <;> cases e
        · have e := congrArg Prod.fst (Except.ok.inj ht); intro hst; rw [hst] at e; cases e

/-- **C04_unmatched_is_response.**  stun_agent_validate reports UNMATCHED_RESPONSE only for a message of class
    response / error response (the assumption `hv` of the regenerated inbound skeleton, Props/C03Flow). -/
theorem C04_unmatched_is_response (H : Hashes) (ag ag' : Agent) (pkt : Bytes) (v : Validater) (u : Nat)
    (info : MsgInfo) (hval : validate H ag pkt v u = .ok (.unmatchedResponse, ag', info)) :
    ∃ h, frameCheck ag pkt = .ok (.inr h) ∧ isResponse h = true := by
  obtain ⟨h, hfc⟩ := validate_frame hval ⟨by decide, by decide, by decide⟩
  refine ⟨h, hfc, ?_⟩
  rcases validate_stages hval hfc with ⟨h1, _⟩ | ⟨si, f, _, _, h2⟩
  · unfold matchResponse at h1
    split at h1
    · assumption
    · cases h1
  · exfalso
    rcases h2 with ⟨_, h3, _⟩ | ⟨_, h3⟩
    · cases h3
    · rcases h3 with ⟨_, h4, _⟩ | ⟨key, _, h4⟩
      · cases h4
      · rcases h4 with ⟨i2, _, h5, _⟩ | ⟨i2, _, h5⟩
        · cases h5
        · exact validateTail_not_unmatched h5 rfl

theorem findSent_some {sent : Array SavedId} {method : Nat} {id : Bytes} {i : Nat}
    (h : findSent sent method id = some i) :
    i < sent.size ∧ (sent.getD i {}).valid = true ∧ (sent.getD i {}).method = method ∧ (sent.getD i {}).id = id := by
  unfold findSent at h
  have h1 := List.find?_some h
  have h2 := List.mem_of_find?_eq_some h
  simp only [Bool.and_eq_true, beq_iff_eq] at h1
  exact ⟨by simpa using h2, h1.1.1, h1.1.2, h1.2⟩

/-- A response or error response is accepted — gets past transaction matching at all — only while a
    request with the same transaction id AND method is outstanding (a valid saved id). -/
theorem C04_response_needs_outstanding (H : Hashes) (ag ag' : Agent) (pkt : Bytes) (v : Validater) (u : Nat)
    (st : Status) (info : MsgInfo) (h : Hdr) (hval : validate H ag pkt v u = .ok (st, ag', info))
    (hfc : frameCheck ag pkt = .ok (.inr h)) (hresp : isResponse h = true)
    (hst : st ≠ .unmatchedResponse) :
    ∃ i, i < ag.sent.size ∧ (ag.sent.getD i {}).valid = true ∧ (ag.sent.getD i {}).method = h.method ∧
      (ag.sent.getD i {}).id = h.msgId := by
  have hcases := validate_stages hval hfc
  have hm : ∃ i, findSent ag.sent h.method h.msgId = some i := by
    cases hfs : findSent ag.sent h.method h.msgId with
    | some i => exact ⟨i, rfl⟩
    | none =>
      exfalso
      have hmr : matchResponse ag h = .inl .unmatchedResponse := by
        unfold matchResponse; rw [if_pos hresp, hfs]
      rcases hcases with ⟨h1, _⟩ | ⟨si, f, h1, _⟩
      · rw [hmr] at h1; injection h1 with h1; exact hst h1.symm
      · rw [hmr] at h1; cases h1
  obtain ⟨i, hi⟩ := hm
  exact ⟨i, findSent_some hi⟩

theorem getD_modify_self (a : Array SavedId) (i : Nat) (g : SavedId → SavedId) (h : i < a.size) :
    (a.modify i g).getD i {} = g (a.getD i {}) := by
  simp only [Array.getD_eq_getD_getElem?, Array.getElem?_modify]
  rw [if_pos trivial, Array.getElem?_eq_getElem h]
  rfl

theorem getD_modify_ne (a : Array SavedId) (i j : Nat) (g : SavedId → SavedId) (h : j ≠ i) :
    (a.modify i g).getD j {} = a.getD j {} := by
  simp only [Array.getD_eq_getD_getElem?, Array.getElem?_modify]
  rw [if_neg (fun hh => h hh.symm)]

theorem frameCheck_cfg (ag ag' : Agent) (pkt : Bytes) (hc : ag'.cfg = ag.cfg) :
    frameCheck ag' pkt = frameCheck ag pkt := by
  unfold frameCheck checkFingerprint
  rw [hc]

/-- what the tail of a passed validation does to the agent: only the matched slot is invalidated
    (and the MS-ICE2 legacy flag may be cleared) -/
theorem validateTail_agent {ag ag' : Agent} {pkt : Bytes} {h : Hdr} {f : Facts} {si : Option Nat}
    {i2 info : MsgInfo} {u : Nat} {st : Status}
    (ht : validateTail ag pkt h f si i2 u = .ok (st, ag', info)) (hp : passed st) :
    ag'.cfg = ag.cfg ∧ ag'.sent = invalidate ag.sent si := by
  unfold validateTail at ht
  simp only at ht
  split at ht
  · have e := Except.ok.inj ht
    have : Status.forbidden = st := congrArg Prod.fst e
    rcases hp with h1 | h1 | h1 <;> rw [h1] at this <;> cases this
  · split at ht
    · cases ht
    · split at ht
      · cases ht
      · split at ht
        · have e := Except.ok.inj ht
          have e2 : _ = ag' := congrArg (fun x => x.2.1) e
          rw [← e2]; exact ⟨rfl, rfl⟩
        · have e := Except.ok.inj ht
          have e2 : _ = ag' := congrArg (fun x => x.2.1) e
          rw [← e2]; exact ⟨rfl, rfl⟩

/-- A response is accepted at most once: after a response has been validated successfully (the
    request it matched being the only outstanding one with that id and method), validating the same
    bytes again — with any validater — yields UNMATCHED_RESPONSE. -/
theorem C04_response_at_most_once (H : Hashes) (ag ag' : Agent) (pkt : Bytes) (v v2 : Validater) (u u2 : Nat)
    (st : Status) (info : MsgInfo) (h : Hdr) (hval : validate H ag pkt v u = .ok (st, ag', info))
    (hfc : frameCheck ag pkt = .ok (.inr h)) (hresp : isResponse h = true) (hp : passed st)
    (huniq : ∀ i j, findSent ag.sent h.method h.msgId = some i → j ≠ i →
      ¬ ((ag.sent.getD j {}).valid = true ∧ (ag.sent.getD j {}).method = h.method ∧
         (ag.sent.getD j {}).id = h.msgId)) :
    validate H ag' pkt v2 u2 = .ok (.unmatchedResponse, ag', {}) := by
  have hcases := validate_stages hval hfc
  -- a passed status can only come out of the tail
  have hne : st ≠ .unmatchedResponse ∧ st ≠ .unauthorizedBadRequest ∧ st ≠ .unauthorized := by
    rcases hp with h1 | h1 | h1 <;> rw [h1] <;> exact ⟨by decide, by decide, by decide⟩
  rcases hcases with ⟨h1, _⟩ | ⟨si, f, hmr, _, hrest⟩
  · exfalso
    unfold matchResponse at h1
    rw [if_pos hresp] at h1
    split at h1
    · cases h1
    · injection h1 with h1; exact hne.1 h1.symm
  · rcases hrest with ⟨_, h2, _⟩ | ⟨_, hrest⟩
    · exact absurd h2 hne.2.1
    · rcases hrest with ⟨_, h2, _⟩ | ⟨key, _, hrest⟩
      · exact absurd h2 hne.2.2
      · rcases hrest with ⟨i2, _, h2, _⟩ | ⟨i2, _, htail⟩
        · exact absurd h2 hne.2.2
        · obtain ⟨hcfg, hsent⟩ := validateTail_agent htail hp
          -- the matched slot
          obtain ⟨i, hi⟩ : ∃ i, findSent ag.sent h.method h.msgId = some i ∧ si = some i := by
            unfold matchResponse at hmr
            rw [if_pos hresp] at hmr
            split at hmr
            · rename_i i hfs
              injection hmr with hmr
              exact ⟨i, hfs, hmr.symm⟩
            · cases hmr
          obtain ⟨hfs, hsi⟩ := hi
          subst hsi
          simp only [invalidate] at hsent
          obtain ⟨hilt, _, _, _⟩ := findSent_some hfs
          -- no slot of ag' matches any more
          have hnone : findSent ag'.sent h.method h.msgId = none := by
            unfold findSent
            apply List.find?_eq_none.mpr
            intro j hj
            rw [hsent]
            by_cases hji : j = i
            · subst hji
              rw [getD_modify_self _ _ _ hilt]
              simp
            · rw [getD_modify_ne _ _ _ _ hji]
              intro hv
              simp only [Bool.and_eq_true, beq_iff_eq] at hv
              exact huniq i j hfs hji ⟨hv.1.1, hv.1.2, hv.2⟩
          unfold validate
          simp only
          rw [frameCheck_cfg ag ag' pkt hcfg, hfc]
          simp only
          have : matchResponse ag' h = .inl .unmatchedResponse := by
            unfold matchResponse; rw [if_pos hresp, hnone]
          rw [this]

/-- the key the MAC check uses for a message: under long-term credentials the MD5 credential hash
    (stored with the request, or derived from USERNAME / REALM of the message), else the key itself -/
def MacKey (H : Hashes) (c : Cfg) (pkt k : Bytes) (ltValid0 : Bool) (ltKey0 : Bytes) (macKey : Bytes) : Prop :=
  if c.has STUN_AGENT_USAGE_LONG_TERM_CREDENTIALS then longTermKey H c pkt k ltValid0 ltKey0 = .ok (some macKey)
  else macKey = k

/-- what "MESSAGE-INTEGRITY is right" means: the attribute is present with 20 bytes and they equal
    HMAC-SHA1, under `macKey`, of the RFC-defined message prefix `macInput` (bytes 0-1, the rewritten
    16-bit length, bytes 4 .. start of M-I, zero padded to 64 for RFC 3489 style agents) -/
def IntegrityOk (H : Hashes) (c : Cfg) (pkt : Bytes) (macKey : Bytes) : Prop :=
  ∃ hoff ml text, find (some c) pkt tMI = .ok (some (hoff, 20)) ∧ macLenOf c pkt hoff = .ok ml ∧
    macInput pkt (hoff + 20) ml (macPadOf c) = .ok text ∧ rdBytes pkt hoff 20 = .ok (H.hmac macKey text)

theorem miCheckKey_true {H : Hashes} {c : Cfg} {pkt : Bytes} {h : Hdr} {f : Facts} {k : Bytes} {lv : Bool}
    {lk : Bytes} {i2 : MsgInfo} (hm : miCheckKey H c pkt h f k lv lk = .ok (true, i2)) :
    (∃ macKey, MacKey H c pkt k lv lk macKey ∧ IntegrityOk H c pkt macKey) ∨
    (find (some c) pkt tMI = .ok none ∧ h.cls = STUN_ERROR ∧ f.errRet = .success ∧
      (f.errCode = STUN_ERROR_BAD_REQUEST ∨ f.errCode = STUN_ERROR_UNAUTHORIZED)) := by
  unfold miCheckKey at hm
  split at hm
  · cases hm
  · rename_i hoff hlen hfind
    left
    split at hm
    · cases hm
    · rename_i h20
      have hl : hlen = 20 := by simpa using h20
      subst hl
      split at hm
      · cases hm
      · rename_i ml hml
        unfold stunSha1 at hm
        split at hm
        · rename_i hlong
          split at hm
          · cases hm
          · cases hm
          · rename_i md5 hlt
            cases hmi : macInput pkt (hoff + 20) ml (macPadOf c) with
            | error e => rw [hmi] at hm; cases hm
            | ok text =>
              rw [hmi] at hm
              simp only at hm
              split at hm
              · rename_i sha hash hsha hhash
                split at hm
                · cases hm
                · rename_i heq
                  have : sha = hash := by simpa using heq
                  have hs : sha = H.hmac md5 text := (Except.ok.inj hsha).symm
                  refine ⟨md5, by unfold MacKey; rw [if_pos hlong]; exact hlt, hoff, ml, text, hfind, hml, hmi, ?_⟩
                  rw [hhash, ← this, hs]
              · cases hm
              · cases hm
        · rename_i hlong
          cases hmi : macInput pkt (hoff + 20) ml (macPadOf c) with
          | error e => rw [hmi] at hm; cases hm
          | ok text =>
            rw [hmi] at hm
            simp only at hm
            split at hm
            · rename_i sha hash hsha hhash
              split at hm
              · cases hm
              · rename_i heq
                have : sha = hash := by simpa using heq
                have hs : sha = H.hmac k text := (Except.ok.inj hsha).symm
                refine ⟨k, by unfold MacKey; rw [if_neg hlong], hoff, ml, text, hfind, hml, hmi, ?_⟩
                rw [hhash, ← this, hs]
            · cases hm
            · cases hm
  · rename_i hfind
    right
    split at hm
    · cases hm
    · rename_i hc
      have : (h.cls == STUN_ERROR && f.errRet == .success &&
          (f.errCode == STUN_ERROR_BAD_REQUEST || f.errCode == STUN_ERROR_UNAUTHORIZED)) = true := by
        cases hb : (h.cls == STUN_ERROR && f.errRet == .success &&
          (f.errCode == STUN_ERROR_BAD_REQUEST || f.errCode == STUN_ERROR_UNAUTHORIZED))
        · rw [hb] at hc; exact absurd rfl hc
        · rfl
      simp only [Bool.and_eq_true, Bool.or_eq_true, beq_iff_eq] at this
      exact ⟨hfind, this.1.1, this.1.2, this.2⟩

/-- A received message is reported as validated (SUCCESS, or UNKNOWN_*ATTRIBUTE, which come after
    every credential check) only if — whenever a non-empty key applies and credentials are not
    exempted (`ignoreCredOf`: IGNORE_CREDENTIALS usage; error responses 300/400/401/438; indications
    under LONG_TERM / NO_INDICATION_AUTH) — its MESSAGE-INTEGRITY equals HMAC-SHA1 of the RFC-defined
    prefix under that key.  (The only other way through: an error response 400/401 without M-I.)
    The key is the one `callValidater` yields: see `C04_key_provenance`. -/
theorem C04_success_needs_integrity (H : Hashes) (ag ag' : Agent) (pkt : Bytes) (v : Validater) (u : Nat)
    (st : Status) (info : MsgInfo) (h : Hdr) (hval : validate H ag pkt v u = .ok (st, ag', info))
    (hfc : frameCheck ag pkt = .ok (.inr h)) (hp : passed st) :
    ∃ si f key, matchResponse ag h = .inr si ∧ readFacts (some ag.cfg) pkt = .ok f ∧
      callValidater ag.cfg pkt v f (slotInfo ag si).1 (ignoreCredOf ag.cfg h f) = .ok (some key) ∧
      ∀ k, key = some k → k.size > 0 → ignoreCredOf ag.cfg h f = false →
        (∃ macKey, MacKey H ag.cfg pkt k (slotInfo ag si).2.1 (slotInfo ag si).2.2 macKey ∧
          IntegrityOk H ag.cfg pkt macKey) ∨
        (find (some ag.cfg) pkt tMI = .ok none ∧ h.cls = STUN_ERROR ∧ f.errRet = .success ∧
          (f.errCode = STUN_ERROR_BAD_REQUEST ∨ f.errCode = STUN_ERROR_UNAUTHORIZED)) := by
  have hne : st ≠ .unmatchedResponse ∧ st ≠ .unauthorizedBadRequest ∧ st ≠ .unauthorized := by
    rcases hp with h1 | h1 | h1 <;> rw [h1] <;> exact ⟨by decide, by decide, by decide⟩
  rcases validate_stages hval hfc with ⟨h1, _⟩ | ⟨si, f, hmr, hrf, hrest⟩
  · exfalso
    unfold matchResponse at h1
    split at h1
    · split at h1
      · cases h1
      · injection h1 with h1; exact hne.1 h1.symm
    · cases h1
  · rcases hrest with ⟨_, h2, _⟩ | ⟨_, hrest⟩
    · exact absurd h2 hne.2.1
    · rcases hrest with ⟨_, h2, _⟩ | ⟨key, hcv, hrest⟩
      · exact absurd h2 hne.2.2
      · rcases hrest with ⟨i2, _, h2, _⟩ | ⟨i2, hmi, _⟩
        · exact absurd h2 hne.2.2
        · refine ⟨si, f, key, hmr, hrf, hcv, ?_⟩
          intro k hk hsz hic
          subst hk
          unfold miCheck at hmi
          simp only at hmi
          rw [if_pos (by rw [hic]; simpa using hsz)] at hmi
          exact miCheckKey_true hmi

/-- where the key comes from: when the validater is consulted (M-I present and no stored key, or
    FORCE_VALIDATER) it is the validater's answer for the bytes of the packet's USERNAME attribute
    (the empty string if absent); otherwise it is the key stored with the matching request -/
theorem C04_key_provenance (c : Cfg) (pkt : Bytes) (v : Validater) (f : Facts) (key0 key : Option Bytes)
    (ic : Bool) (hcv : callValidater c pkt v f key0 ic = .ok (some key)) :
    (∃ g uname, v = some g ∧ g uname = some key ∧
      ((∃ off len, find (some c) pkt tUSERNAME = .ok (some (off, len)) ∧ rdBytes pkt off len.toNat = .ok uname) ∨
       (find (some c) pkt tUSERNAME = .ok none ∧ uname = #[]))) ∨
    key = key0 := by
  unfold callValidater at hcv
  split at hcv
  · left
    split at hcv
    · cases hcv
    · rename_i uo hfind
      simp only at hcv
      cases uo with
      | none =>
        simp only at hcv
        cases v with
        | none => cases hcv
        | some g =>
          simp only at hcv
          cases hg : g #[] with
          | none => rw [hg] at hcv; cases hcv
          | some k =>
            rw [hg] at hcv
            have := Option.some.inj (Except.ok.inj hcv)
            subst this
            exact ⟨g, #[], rfl, hg, Or.inr ⟨hfind, rfl⟩⟩
      | some x =>
        obtain ⟨off, len⟩ := x
        simp only at hcv
        cases hrd : rdBytes pkt off len.toNat with
        | error e => rw [hrd] at hcv; cases hcv
        | ok uname =>
          rw [hrd] at hcv
          simp only at hcv
          cases v with
          | none => cases hcv
          | some g =>
            simp only at hcv
            cases hg : g uname with
            | none => rw [hg] at hcv; cases hcv
            | some k =>
              rw [hg] at hcv
              have := Option.some.inj (Except.ok.inj hcv)
              subst this
              exact ⟨g, uname, rfl, hg, Or.inl ⟨off, len, hfind, hrd⟩⟩
  · right
    exact (Option.some.inj (Except.ok.inj hcv)).symm

/-! ### non-vacuity -/

/-- the framing stage accepts the 20-byte binding request of C06 under an RFC 3489 agent -/
theorem frame_hdr20 : ∃ h, frameCheck (agentInit [] 0 0) C06.hdr20 = .ok (.inr h) := by
  have hv : validateLen C06.hdr20 true = .ok (.len 20) :=
    (C06.C06_length_iff_grammar _ _ _).mpr
      ⟨0, 1, 0, 0, _, rfl, by decide, by decide, fun _ => by decide, by decide, Tiles.nil⟩
  unfold frameCheck
  have e : (!(agentInit [] 0 0).cfg.has STUN_AGENT_USAGE_NO_ALIGNED_ATTRIBUTES) = true := by decide
  simp only [e, hv]
  exact ⟨_, rfl⟩

/-- the two hypotheses shared by the theorems above (`validate … = .ok …` and `frameCheck … = .ok
    (.inr h)`) hold together for that packet -/
example : ∃ st ag' info h, validate ⟨fun _ _ => #[], fun _ => #[]⟩ (agentInit [] 0 0) C06.hdr20 none 0 =
    .ok (st, ag', info) ∧ frameCheck (agentInit [] 0 0) C06.hdr20 = .ok (.inr h) := by
  obtain ⟨r, hr⟩ := validate_no_fault ⟨fun _ _ => #[], fun _ => #[]⟩ (agentInit [] 0 0) C06.hdr20 none 0 (by decide)
  obtain ⟨st, ag', info⟩ := r
  obtain ⟨h, hfc⟩ := frame_hdr20
  exact ⟨st, ag', info, h, hr, hfc⟩

example : passed .success := Or.inl rfl

/-! ### the default validater binds a key to the WHOLE username -/

/-- **the key bound to its USERNAME**: `stun_agent_default_validater` hands out a password only from a table entry whose
    username is exactly the message's USERNAME — never for a name that merely starts with, or extends, a registered one —
    and it is the first such entry. -/
theorem C04_default_validater_exact_name (tab : List (Bytes × Option Bytes)) (uname : Bytes) (k : Option Bytes)
    (h : defaultValidater tab uname = some k) : (uname, k) ∈ tab := by
  unfold defaultValidater at h
  cases hf : tab.find? (·.1 == uname) with
  | none => simp [hf] at h
  | some e =>
    simp only [hf, Option.map_some, Option.some.injEq] at h
    have hm := List.mem_of_find?_eq_some hf
    have he := List.find?_some hf
    have : e.1 = uname := by simpa using he
    cases e; simp_all

/-- an unknown name is refused whatever it starts with -/
theorem C04_default_validater_unknown_name (tab : List (Bytes × Option Bytes)) (uname : Bytes)
    (h : ∀ e ∈ tab, e.1 ≠ uname) : defaultValidater tab uname = none := by
  unfold defaultValidater
  rw [List.find?_eq_none.mpr]
  · rfl
  · intro e he; simpa using h e he

example : defaultValidater [(#[99, 97, 114, 108], some #[1]), (#[99, 97, 114, 108, 58], some #[2])] #[99, 97, 114, 108, 58] = some (some #[2]) ∧
    defaultValidater [(#[99, 97, 114, 108], some #[1])] #[99, 97, 114, 108, 58] = none := by decide

end Nice.Props.C04
