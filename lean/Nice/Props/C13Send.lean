/-
  C13 — the consent gate of the send API, proved about the skeleton of agent/agent.c
  nice_agent_send_messages_nonblocking_internal REGENERATED from the source on every run (`Nice.Gen.SendMessages.prog`,
  tools/extract_flow.py) with the verified analysis of `Nice.Model.Flow`: on every path through the function — datagram
  socket, RFC 4571 framing over ICE-TCP (every frame of every message), pseudo-TCP — application data is handed to a
  transport only while a pair is selected and `selected_pair.remote_consent.have` is set.  (That the flag is cleared by an
  authenticated 403 and by the consent timer is the Consent model + the simulation.)
-/
import Nice.Gen.SendMessages
namespace Nice.Props.C13Send
open Nice.Flow Nice.Gen.SendMessages

/-- a call outside the translator's `pure` list may leave the two memory locations in either state -/
def hv : Havoc := fun _ _ => [0, 1]

/-- event kind 3 = application data handed to a transport -/
def policy : Policy := fun _ kind σ => kind != 3 || (σ.r0 == 1 && σ.r1 == 1)

def init : List St := [0, 1].flatMap fun p => [0, 1].map fun c => { r0 := p, r1 := c }

theorem analysis_ok : (reach hv policy prog init).ok = true := by decide +kernel

/-- **C13_send_needs_consent.** -/
theorem C13_send_needs_consent {σ0 : St} (h0 : σ0 ∈ init) {tr : List Ev} {σ1 : St} {o : Out}
    (hx : Exec hv prog σ0 tr σ1 o) : ∀ e ∈ tr, e.kind = 3 → e.st.r0 = 1 ∧ e.st.r1 = 1 := by
  intro e he hk
  have hp := events_satisfy_policy analysis_ok h0 hx e he
  simp only [policy, hk, bne_self_eq_false, Bool.false_or, Bool.and_eq_true, beq_iff_eq] at hp
  exact hp

/-! non-vacuity: with a pair and consent a send site is reachable; the policy "never send" fails -/
def neverSend : Policy := fun _ kind _ => kind != 3
example : (reach hv neverSend prog [{ r0 := 1, r1 := 1 }]).ok = false := by decide +kernel
/-- and without the gate's second conjunct the analysis would fail: a state with a pair and no consent sends nothing -/
example : (reach hv neverSend prog [{ r0 := 1, r1 := 0 }]).ok = true := by decide +kernel

end Nice.Props.C13Send
