/-
  C01 — the selected pair is the highest-priority nominated pair, whatever the order in which nominations are
  processed, and the two agents give a pair and its mirror image the same priority: so, when both have processed the
  same set of (mirrored) nominations and candidate priorities are agreed, their selected pairs are mirror images.
  The guard and the role-dependent argument order are regenerated from the source (Nice/Gen/Select.lean).
-/
import Nice.Model.Select
namespace Nice.Props.C01
open Nice.Select Nice.Gen

theorem nominate_prio (s : Sel) (x : Nat × Nat) : (nominate s x).prio = max s.prio x.2 := by
  unfold nominate selected_pair_replaces
  by_cases h : x.2 > s.prio
  · simp [h]; omega
  · simp [h]; omega

theorem foldl_prio (l : List (Nat × Nat)) : ∀ s : Sel, (l.foldl nominate s).prio = l.foldl (fun m x => max m x.2) s.prio := by
  induction l with
  | nil => intro s; rfl
  | cons x xs ih => intro s; simp only [List.foldl_cons, ih, nominate_prio]

theorem foldl_max_ge (l : List (Nat × Nat)) : ∀ m : Nat, m ≤ l.foldl (fun m x => max m x.2) m ∧
    ∀ x ∈ l, x.2 ≤ l.foldl (fun m x => max m x.2) m := by
  induction l with
  | nil => intro m; simp
  | cons y ys ih =>
    intro m
    simp only [List.foldl_cons]
    obtain ⟨h1, h2⟩ := ih (max m y.2)
    refine ⟨by omega, ?_⟩
    intro x hx
    simp only [List.mem_cons] at hx
    rcases hx with rfl | hx
    · omega
    · exact h2 x hx

/-- **C01_selected_is_max_nominated.**  After any sequence of nominations the selected priority is the maximum of
    the nominated priorities: the selected pair is only ever replaced by a higher-priority nominated pair. -/
theorem C01_selected_is_max_nominated (l : List (Nat × Nat)) :
    (run l).prio = l.foldl (fun m x => max m x.2) 0 ∧ ∀ x ∈ l, x.2 ≤ (run l).prio := by
  unfold run
  rw [foldl_prio]
  exact ⟨rfl, (foldl_max_ge l 0).2⟩

/-- the selected pair is one of the nominated pairs, and it carries the selected priority -/
theorem foldl_id (l : List (Nat × Nat)) : ∀ s : Sel,
    ((l.foldl nominate s).id = s.id ∧ (l.foldl nominate s).prio = s.prio) ∨
    (∃ i, (l.foldl nominate s).id = some i ∧ (i, (l.foldl nominate s).prio) ∈ l) := by
  induction l with
  | nil => intro s; left; exact ⟨rfl, rfl⟩
  | cons x xs ih =>
    intro s
    simp only [List.foldl_cons]
    by_cases h : selected_pair_replaces x.2 s.prio = true
    · have hn : nominate s x = { prio := x.2, id := some x.1 } := by simp [nominate, h]
      rcases ih (nominate s x) with ⟨h1, h2⟩ | ⟨i, h1, h2⟩
      · right
        refine ⟨x.1, by rw [h1, hn], ?_⟩
        rw [h2, hn]; simp
      · right; exact ⟨i, h1, List.mem_cons_of_mem _ h2⟩
    · have hn : nominate s x = s := by simp [nominate, h]
      rw [hn]
      rcases ih s with h1 | ⟨i, h1, h2⟩
      · left; exact h1
      · right; exact ⟨i, h1, List.mem_cons_of_mem _ h2⟩

theorem C01_selected_was_nominated (l : List (Nat × Nat)) (i : Nat) (h : (run l).id = some i) :
    (i, (run l).prio) ∈ l := by
  unfold run at h ⊢
  rcases foldl_id l {} with ⟨h1, _⟩ | ⟨j, h1, h2⟩
  · rw [h1] at h; cases h
  · rw [h1] at h; cases h; exact h2

/-- with positive, pairwise distinct priorities a pair is selected exactly when something was nominated -/
theorem run_id_some_of_pos (l : List (Nat × Nat)) (x : Nat × Nat) (hx : x ∈ l) (hp : 0 < x.2) :
    ∃ i, (run l).id = some i := by
  have hmax := (C01_selected_is_max_nominated l).2 x hx
  unfold run at hmax ⊢
  rcases foldl_id l {} with ⟨_, h2⟩ | ⟨j, h1, _⟩
  · rw [h2] at hmax; simp at hmax; omega
  · exact ⟨j, h1⟩

/-- **C01_selection_order_independent.**  If distinct nominated pairs have distinct, positive priorities, the
    selected pair does not depend on the order (or multiplicity) in which the nominations were processed: two lists
    with the same members select the same pair.  (This is what lets the two agents, which see the nominations in
    different orders, agree.) -/
theorem C01_selection_order_independent (l l' : List (Nat × Nat))
    (hmem : ∀ x, x ∈ l ↔ x ∈ l')
    (hinj : ∀ x ∈ l, ∀ y ∈ l, x.2 = y.2 → x.1 = y.1)
    (hpos : ∀ x ∈ l, 0 < x.2) :
    run l = run l' := by
  cases l with
  | nil =>
    cases l' with
    | nil => rfl
    | cons y ys => exact absurd ((hmem y).mpr (List.mem_cons_self)) (by simp)
  | cons x0 xs =>
    have hx0 : x0 ∈ x0 :: xs := List.mem_cons_self
    obtain ⟨i, hi⟩ := run_id_some_of_pos (x0 :: xs) x0 hx0 (hpos x0 hx0)
    obtain ⟨j, hj⟩ := run_id_some_of_pos l' x0 ((hmem x0).mp hx0) (hpos x0 hx0)
    have mi := C01_selected_was_nominated _ i hi
    have mj := C01_selected_was_nominated _ j hj
    have mj' := (hmem _).mpr mj
    have mi' := (hmem _).mp mi
    have h1 := (C01_selected_is_max_nominated (x0 :: xs)).2 _ mj'
    have h2 := (C01_selected_is_max_nominated l').2 _ mi'
    simp only at h1 h2
    have hp : (run (x0 :: xs)).prio = (run l').prio := by omega
    have hij : i = j := hinj _ mi _ mj' hp
    have : ∀ a b : Sel, a.prio = b.prio → a.id = b.id → a = b := by
      intro a b h1 h2; cases a; cases b; simp_all
    exact this _ _ hp (by rw [hi, hj, hij])

/-- **C01_mirror_priority_gen.**  The controlling agent's priority for (its local L, remote R) equals the controlled
    agent's priority for the mirror image (its local R, remote L) — provided they agree on the two candidates'
    priorities (peer-reflexive candidates learnt with a different PRIORITY value break exactly this hypothesis: known
    finding C01/K2). -/
theorem C01_mirror_priority_gen (pL pR : UInt32) : pairPrio true pL pR = pairPrio false pR pL := by
  simp [pairPrio, agent_candidate_pair_priority]

/-! non-vacuity -/
example : run [(1, 50), (2, 70), (3, 60)] = { prio := 70, id := some 2 } := by decide
example : run [(3, 60), (2, 70), (1, 50), (2, 70)] = run [(1, 50), (2, 70), (3, 60)] := by decide
example : pairPrio true 2130706431 1694498815 = pairPrio false 1694498815 2130706431 := by decide

end Nice.Props.C01
