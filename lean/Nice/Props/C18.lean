/-
  C18 — SDP and address text forms round-trip and reject garbage safely.

  Part 1: private / link-local classification, proved about the kernels *translated from
  agent/address.c* (Nice.Gen) for ALL 2^32 IPv4 values and all 16-byte IPv6 values (no sampling).
  Part 2: NiceAddress equality laws (Nice.Addr).
  Part 3: SDP candidate-line and credential round trips, totality of the parser (Nice.Sdp).
-/
import Nice.Model.Addr
import Nice.Model.Sdp
namespace Nice.Props.C18
open Nice.Gen Nice.Addr Nice.Sdp

set_option maxRecDepth 16000

/-! ## Part 1 — classification -/

/-! ### mask-and-compare over the whole 32-bit space -/

theorem and_himask (x : BitVec 32) (m : BitVec 32) (k : Nat)
    (hm : ∀ i : Fin 32, m.getLsbD i = decide (k ≤ i.val)) :
    x &&& m = (x >>> k) <<< k := by
  apply BitVec.eq_of_getLsbD_eq
  intro i hi
  rw [BitVec.getLsbD_and, BitVec.getLsbD_shiftLeft, BitVec.getLsbD_ushiftRight, hm ⟨i, hi⟩]
  by_cases h : k ≤ i
  · simp [h, hi]
  · simp [h]

theorem and_himask_toNat (x m : UInt32) (k : Nat)
    (hm : ∀ i : Fin 32, m.toBitVec.getLsbD i = decide (k ≤ i.val)) :
    (x &&& m).toNat = x.toNat / 2 ^ k * 2 ^ k := by
  have h := and_himask x.toBitVec m.toBitVec k hm
  have : (x &&& m).toNat = (x.toBitVec &&& m.toBitVec).toNat := by
    rw [← UInt32.toBitVec_and]; rfl
  rw [this, h, BitVec.toNat_shiftLeft, BitVec.toNat_ushiftRight, Nat.shiftLeft_eq, Nat.shiftRight_eq_div_pow]
  have hx : x.toBitVec.toNat < 2 ^ 32 := x.toBitVec.isLt
  show _ = x.toBitVec.toNat / 2 ^ k * 2 ^ k
  apply Nat.mod_eq_of_lt
  calc x.toBitVec.toNat / 2 ^ k * 2 ^ k ≤ x.toBitVec.toNat := Nat.div_mul_le_self _ _
    _ < 2 ^ 32 := hx

theorem m24 : ∀ i : Fin 32, (4278190080 : UInt32).toBitVec.getLsbD i = decide (24 ≤ i.val) := by decide
theorem m20 : ∀ i : Fin 32, (4293918720 : UInt32).toBitVec.getLsbD i = decide (20 ≤ i.val) := by decide
theorem m16 : ∀ i : Fin 32, (4294901760 : UInt32).toBitVec.getLsbD i = decide (16 ≤ i.val) := by decide

/-- `(x & m) == c` for a high mask `m` = "x lies in the aligned block starting at c" -/
theorem mask_eq_iff (x m c : UInt32) (k : Nat)
    (hm : ∀ i : Fin 32, m.toBitVec.getLsbD i = decide (k ≤ i.val)) :
    ((x &&& m) == c) = true ↔ x.toNat / 2 ^ k * 2 ^ k = c.toNat := by
  rw [beq_iff_eq, ← UInt32.toNat_inj, and_himask_toNat x m k hm]

theorem ite_ne_zero (b : Bool) : (if b then (1 : Int32) else 0) ≠ 0 ↔ b = true := by
  cases b <;> decide

/-- **C18_private_iff_ranges.**  For every one of the 2^32 values of `s_addr`:
    `ipv4_address_is_private` holds exactly when the host-order address lies in
    10/8 ∪ 172.16/12 ∪ 192.168/16 ∪ 169.254/16 ∪ 127/8 (numeric intervals). -/
theorem C18_private_iff_ranges (a : UInt32) :
    ipv4_address_is_private a ≠ 0 ↔
      (167772160 ≤ (bswap32 a).toNat ∧ (bswap32 a).toNat ≤ 184549375) ∨
      (2886729728 ≤ (bswap32 a).toNat ∧ (bswap32 a).toNat ≤ 2887778303) ∨
      (3232235520 ≤ (bswap32 a).toNat ∧ (bswap32 a).toNat ≤ 3232301055) ∨
      (2851995648 ≤ (bswap32 a).toNat ∧ (bswap32 a).toNat ≤ 2852061183) ∨
      (2130706432 ≤ (bswap32 a).toNat ∧ (bswap32 a).toNat ≤ 2147483647) := by
  unfold ipv4_address_is_private
  generalize bswap32 a = x
  show (if _ then (1 : Int32) else 0) ≠ 0 ↔ _
  rw [ite_ne_zero]
  simp only [Bool.or_eq_true]
  rw [mask_eq_iff x 4278190080 167772160 24 m24, mask_eq_iff x 4293918720 2886729728 20 m20,
    mask_eq_iff x 4294901760 3232235520 16 m16, mask_eq_iff x 4294901760 2851995648 16 m16,
    mask_eq_iff x 4278190080 2130706432 24 m24]
  have e1 : (167772160 : UInt32).toNat = 167772160 := rfl
  have e2 : (2886729728 : UInt32).toNat = 2886729728 := rfl
  have e3 : (3232235520 : UInt32).toNat = 3232235520 := rfl
  have e4 : (2851995648 : UInt32).toNat = 2851995648 := rfl
  have e5 : (2130706432 : UInt32).toNat = 2130706432 := rfl
  rw [e1, e2, e3, e4, e5]
  have hx : x.toNat < 4294967296 := x.toBitVec.isLt
  generalize x.toNat = n at *
  omega

/-- **C18_linklocal_iff.**  `ipv4_address_is_linklocal` ⇔ 169.254/16, for all 2^32 values. -/
theorem C18_linklocal_iff (a : UInt32) :
    ipv4_address_is_linklocal a ≠ 0 ↔
      2851995648 ≤ (bswap32 a).toNat ∧ (bswap32 a).toNat ≤ 2852061183 := by
  unfold ipv4_address_is_linklocal
  generalize bswap32 a = x
  show (if _ then (1 : Int32) else 0) ≠ 0 ↔ _
  rw [ite_ne_zero, mask_eq_iff x 4294901760 2851995648 16 m16]
  have e4 : (2851995648 : UInt32).toNat = 2851995648 := rfl
  rw [e4]
  generalize x.toNat = n
  omega

example : ipv4_address_is_private 0x0100000a ≠ 0 := by decide          -- 10.0.0.1 (little-endian s_addr)
example : ¬ ipv4_address_is_private 0x08080808 ≠ 0 := by decide        -- 8.8.8.8
example : ipv4_address_is_linklocal 0x0101fea9 ≠ 0 := by decide        -- 169.254.1.1

/-! ### `ntohl` on dotted quads -/

theorem mFF : ∀ i : Fin 32, (0xff : UInt32).toBitVec.getLsbD i = decide (i.val < 8) := by decide
theorem mFF00 : ∀ i : Fin 32, (0xff00 : UInt32).toBitVec.getLsbD i = decide (8 ≤ i.val ∧ i.val < 16) := by decide

theorem and_ff (x : BitVec 32) (m : BitVec 32) (hm : ∀ i : Fin 32, m.getLsbD i = decide (i.val < 8)) :
    x &&& m = (x <<< 24) >>> 24 := by
  apply BitVec.eq_of_getLsbD_eq
  intro i hi
  rw [BitVec.getLsbD_and, BitVec.getLsbD_ushiftRight, BitVec.getLsbD_shiftLeft, hm ⟨i, hi⟩]
  by_cases h : i < 8
  · have h1 : 24 + i < 32 := by omega
    have h2 : ¬ (24 + i < 24) := by omega
    simp [h, h1, h2]
  · have h1 : ¬ (24 + i < 32) := by omega
    simp [h, h1]

theorem and_ff00 (x : BitVec 32) (m : BitVec 32) (hm : ∀ i : Fin 32, m.getLsbD i = decide (8 ≤ i.val ∧ i.val < 16)) :
    x &&& m = ((x >>> 8) <<< 24) >>> 16 := by
  apply BitVec.eq_of_getLsbD_eq
  intro i hi
  rw [BitVec.getLsbD_and, BitVec.getLsbD_ushiftRight, BitVec.getLsbD_shiftLeft, BitVec.getLsbD_ushiftRight, hm ⟨i, hi⟩]
  by_cases h : 8 ≤ i ∧ i < 16
  · have h1 : 16 + i < 32 := by omega
    have h2 : ¬ (16 + i < 24) := by omega
    have h3 : 8 + (16 + i - 24) = i := by omega
    simp [h, h1, h2, h3]
  · by_cases h4 : i < 8
    · have h2 : (16 + i < 24) := by omega
      simp [h, h2]
    · have h1 : ¬ (16 + i < 32) := by omega
      simp [h, h1]

theorem toNat_and_ff (x : UInt32) : (x &&& 0xff).toNat = x.toNat % 256 := by
  have h := and_ff x.toBitVec (0xff : UInt32).toBitVec mFF
  have e : (x &&& 0xff).toNat = (x.toBitVec &&& (0xff : UInt32).toBitVec).toNat := by
    rw [← UInt32.toBitVec_and]; rfl
  rw [e, h, BitVec.toNat_ushiftRight, BitVec.toNat_shiftLeft, Nat.shiftLeft_eq, Nat.shiftRight_eq_div_pow]
  have hx : x.toBitVec.toNat < 2 ^ 32 := x.toBitVec.isLt
  show _ = x.toBitVec.toNat % 256
  omega

theorem toNat_and_ff00 (x : UInt32) : (x &&& 0xff00).toNat = x.toNat / 256 % 256 * 256 := by
  have h := and_ff00 x.toBitVec (0xff00 : UInt32).toBitVec mFF00
  have e : (x &&& 0xff00).toNat = (x.toBitVec &&& (0xff00 : UInt32).toBitVec).toNat := by
    rw [← UInt32.toBitVec_and]; rfl
  rw [e, h, BitVec.toNat_ushiftRight, BitVec.toNat_shiftLeft, BitVec.toNat_ushiftRight, Nat.shiftLeft_eq,
    Nat.shiftRight_eq_div_pow, Nat.shiftRight_eq_div_pow]
  have hx : x.toBitVec.toNat < 2 ^ 32 := x.toBitVec.isLt
  show _ = x.toBitVec.toNat / 256 % 256 * 256
  omega

theorem or_add (a b p : Nat) (i : Nat) (hp : p = 2 ^ i) (h : b < p) : (a * p) ||| b = a * p + b := by
  subst hp; rw [Nat.mul_comm]; exact (Nat.two_pow_add_eq_or_of_lt h a).symm

theorem lin3 (a b c : Nat) : (a * 256 + b) * 65536 + c * 256 = (a * 65536 + b * 256 + c) * 256 := by omega

theorem bswap32_toNat (x : UInt32) :
    (bswap32 x).toNat = x.toNat % 256 * 16777216 + x.toNat / 256 % 256 * 65536 + x.toNat / 65536 % 256 * 256
      + x.toNat / 16777216 := by
  unfold bswap32
  have hx : x.toNat < 4294967296 := x.toBitVec.isLt
  have t1 : ((x &&& 0xff) <<< (24 : UInt32)).toNat = x.toNat % 256 * 16777216 := by
    rw [UInt32.toNat_shiftLeft, toNat_and_ff, Nat.shiftLeft_eq]
    show x.toNat % 256 * 16777216 % 4294967296 = _
    omega
  have t2 : ((x &&& 0xff00) <<< (8 : UInt32)).toNat = x.toNat / 256 % 256 * 65536 := by
    rw [UInt32.toNat_shiftLeft, toNat_and_ff00, Nat.shiftLeft_eq]
    show x.toNat / 256 % 256 * 256 * 256 % 4294967296 = _
    omega
  have t3 : ((x >>> (8 : UInt32)) &&& 0xff00).toNat = x.toNat / 65536 % 256 * 256 := by
    rw [toNat_and_ff00, UInt32.toNat_shiftRight, Nat.shiftRight_eq_div_pow]
    show x.toNat / 256 / 256 % 256 * 256 = _
    omega
  have t4 : ((x >>> (24 : UInt32)) &&& 0xff).toNat = x.toNat / 16777216 := by
    rw [toNat_and_ff, UInt32.toNat_shiftRight, Nat.shiftRight_eq_div_pow]
    show x.toNat / 16777216 % 256 = _
    omega
  rw [UInt32.toNat_or, UInt32.toNat_or, UInt32.toNat_or, t1, t2, t3, t4]
  have s1 := or_add (x.toNat % 256) (x.toNat / 256 % 256 * 65536) 16777216 24 (by decide) (by omega)
  rw [s1]
  have e2 : x.toNat % 256 * 16777216 + x.toNat / 256 % 256 * 65536 = (x.toNat % 256 * 256 + x.toNat / 256 % 256) * 65536 := by omega
  have s2 := or_add (x.toNat % 256 * 256 + x.toNat / 256 % 256) (x.toNat / 65536 % 256 * 256) 65536 16 (by decide) (by omega)
  rw [e2, s2]
  have e3 : (x.toNat % 256 * 256 + x.toNat / 256 % 256) * 65536 + x.toNat / 65536 % 256 * 256
      = (x.toNat % 256 * 65536 + x.toNat / 256 % 256 * 256 + x.toNat / 65536 % 256) * 256 := lin3 _ _ _
  have s3 := or_add (x.toNat % 256 * 65536 + x.toNat / 256 % 256 * 256 + x.toNat / 65536 % 256) (x.toNat / 16777216) 256 8 (by decide) (by omega)
  rw [e3, s3]

/-- **C18_bswap32_dotted.**  `ntohl` of the little-endian `s_addr` of `b0.b1.b2.b3` is
    `b0·2^24 + b1·2^16 + b2·2^8 + b3`. -/
theorem C18_bswap32_dotted (b0 b1 b2 b3 : Nat) (h0 : b0 < 256) (h1 : b1 < 256) (h2 : b2 < 256) (h3 : b3 < 256) :
    (bswap32 (UInt32.ofNat (b0 + b1 * 2 ^ 8 + b2 * 2 ^ 16 + b3 * 2 ^ 24))).toNat
      = b0 * 2 ^ 24 + b1 * 2 ^ 16 + b2 * 2 ^ 8 + b3 := by
  rw [bswap32_toNat]
  have e : (UInt32.ofNat (b0 + b1 * 2 ^ 8 + b2 * 2 ^ 16 + b3 * 2 ^ 24)).toNat
      = b0 + b1 * 256 + b2 * 65536 + b3 * 16777216 := by
    rw [UInt32.toNat_ofNat']
    show (b0 + b1 * 256 + b2 * 65536 + b3 * 16777216) % 4294967296 = _
    omega
  rw [e]
  show _ = b0 * 16777216 + b1 * 65536 + b2 * 256 + b3
  omega

example : (bswap32 (UInt32.ofNat (10 + 1 * 2 ^ 8 + 2 * 2 ^ 16 + 3 * 2 ^ 24))).toNat = 10 * 2 ^ 24 + 1 * 2 ^ 16 + 2 * 2 ^ 8 + 3 := by
  decide

/-! ### IPv6 -/

theorem byte_c0_80 : ∀ n, n < 256 → ((Int32.ofNat (UInt8.ofNat n).toNat &&& 192) == 128) = decide (128 ≤ n ∧ n ≤ 191) := by decide
theorem byte_fe_fc : ∀ n, n < 256 → ((Int32.ofNat (UInt8.ofNat n).toNat &&& 254) == 252) = decide (n = 252 ∨ n = 253) := by decide
theorem byte_eq_fd : ∀ n, n < 256 → ((Int32.ofNat (UInt8.ofNat n).toNat) == 253) = decide (n = 253) := by decide
theorem byte_eq_fe : ∀ n, n < 256 → ((Int32.ofNat (UInt8.ofNat n).toNat) == 254) = decide (n = 254) := by decide

theorem go_zero (p : Nat → UInt8) (lit : List UInt8) (i : Nat) :
    memcmp_lit.go p i lit = 0 ↔ ∀ j, (h : j < lit.length) → p (i + j) = lit[j] := by
  induction lit generalizing i with
  | nil => simp [memcmp_lit.go]
  | cons b bs ih =>
    unfold memcmp_lit.go
    by_cases hb : p i = b
    · simp only [hb, beq_self_eq_true, if_true]
      rw [ih]
      constructor
      · intro h j hj
        cases j with
        | zero => simpa using hb
        | succ j => have := h j (by simpa using hj); simpa [Nat.add_assoc, Nat.add_comm 1 j] using this
      · intro h j hj
        have := h (j + 1) (by simpa using hj)
        simpa [Nat.add_assoc, Nat.add_comm 1 j] using this
    · have hb' : (p i == b) = false := by simpa using hb
      simp only [hb', Bool.false_eq_true, ↓reduceIte]
      constructor
      · intro h; exfalso; split at h
        · exact absurd h (by decide)
        · exact absurd h (by decide)
      · intro h; exact absurd (h 0 (by simp)) hb

theorem byte_eq_fe' (b : UInt8) : ((Int32.ofNat b.toNat) == 254) = decide (b.toNat = 254) := by
  have := byte_eq_fe b.toNat (UInt8.toNat_lt b); rwa [UInt8.ofNat_toNat] at this
theorem byte_c0_80' (b : UInt8) : ((Int32.ofNat b.toNat &&& 192) == 128) = decide (128 ≤ b.toNat ∧ b.toNat ≤ 191) := by
  have := byte_c0_80 b.toNat (UInt8.toNat_lt b); rwa [UInt8.ofNat_toNat] at this
theorem byte_fe_fc' (b : UInt8) : ((Int32.ofNat b.toNat &&& 254) == 252) = decide (b.toNat = 252 ∨ b.toNat = 253) := by
  have := byte_fe_fc b.toNat (UInt8.toNat_lt b); rwa [UInt8.ofNat_toNat] at this

/-- **C18_linklocal6_iff.**  `ipv6_address_is_linklocal` ⇔ fe80::/10, for all 16-byte inputs. -/
theorem C18_linklocal6_iff (p : Nat → UInt8) :
    ipv6_address_is_linklocal p ≠ 0 ↔ (p 0).toNat = 254 ∧ 128 ≤ (p 1).toNat ∧ (p 1).toNat ≤ 191 := by
  unfold ipv6_address_is_linklocal
  show (if _ then (1 : Int32) else 0) ≠ 0 ↔ _
  rw [ite_ne_zero, Bool.and_eq_true, byte_eq_fe', byte_c0_80']
  simp only [decide_eq_true_eq]

theorem lit_loopback : ∀ j : Fin 16,
    ([0, 0, 0, 0, 0, 0, 0, 0, 0, 0, 0, 0, 0, 0, 0, 1] : List UInt8)[j.val]'(by simp) = if j.val = 15 then 1 else 0 := by
  decide

theorem memcmp_loopback (p : Nat → UInt8) :
    (memcmp_lit p [0, 0, 0, 0, 0, 0, 0, 0, 0, 0, 0, 0, 0, 0, 0, 1] == (0 : Int32)) = true ↔
      ∀ j, j < 16 → p j = if j = 15 then 1 else 0 := by
  rw [beq_iff_eq]
  unfold memcmp_lit
  rw [go_zero]
  constructor
  · intro h j hj
    have := h j (by simpa using hj)
    rw [Nat.zero_add] at this
    rw [this]; exact lit_loopback ⟨j, hj⟩
  · intro h j hj
    have hj' : j < 16 := by simpa using hj
    rw [Nat.zero_add, h j hj']; exact (lit_loopback ⟨j, hj'⟩).symm

/-- **C18_private6_iff.**  `ipv6_address_is_private` ⇔ fe80::/10 ∨ fd00::/8 ∨ fc00::/7 ∨ ::1 on the
    16 bytes (RFC 4291 link-local, RFC 4193 unique-local, loopback). -/
theorem C18_private6_iff (p : Nat → UInt8) :
    ipv6_address_is_private p ≠ 0 ↔
      ((p 0).toNat = 254 ∧ 128 ≤ (p 1).toNat ∧ (p 1).toNat ≤ 191) ∨      -- fe80::/10
      (p 0).toNat = 253 ∨                                                  -- fd00::/8
      ((p 0).toNat = 252 ∨ (p 0).toNat = 253) ∨                            -- fc00::/7
      (∀ j, j < 16 → p j = if j = 15 then 1 else 0) := by                  -- ::1
  unfold ipv6_address_is_private
  show (if _ then (1 : Int32) else 0) ≠ 0 ↔ _
  rw [ite_ne_zero]
  simp only [Bool.or_eq_true, Bool.and_eq_true]
  rw [memcmp_loopback, byte_eq_fe', byte_c0_80', byte_fe_fc']
  have e : ((Int32.ofNat (p 0).toNat) == 253) = decide ((p 0).toNat = 253) := by
    have := byte_eq_fd (p 0).toNat (UInt8.toNat_lt _); rwa [UInt8.ofNat_toNat] at this
  rw [e]
  simp only [decide_eq_true_eq]
  constructor
  · rintro (((h | h) | h) | h)
    · exact Or.inl h
    · exact Or.inr (Or.inl h)
    · exact Or.inr (Or.inr (Or.inl h))
    · exact Or.inr (Or.inr (Or.inr h))
  · rintro (h | h | h | h)
    · exact Or.inl (Or.inl (Or.inl h))
    · exact Or.inl (Or.inl (Or.inr h))
    · exact Or.inl (Or.inr h)
    · exact Or.inr h

example : ipv6_address_is_private (fun i => if i = 15 then 1 else 0) ≠ 0 := by decide                  -- ::1
example : ipv6_address_is_private (fun i => if i = 0 then 0xfe else if i = 1 then 0x80 else 7) ≠ 0 := by decide
example : ¬ ipv6_address_is_private (fun i => if i = 0 then 0x20 else 1) ≠ 0 := by decide             -- 2001:…
example : ipv6_address_is_linklocal (fun i => if i = 0 then 0xfe else if i = 1 then 0xbf else 0) ≠ 0 := by decide

/-! ### the model's `nice_address_is_private` on dotted quads -/

theorem sAddr_toNat (b0 b1 b2 b3 : UInt8) :
    (sAddr [b0, b1, b2, b3]).toNat = b0.toNat + b1.toNat * 256 + b2.toNat * 65536 + b3.toNat * 16777216 := by
  show (b0.toUInt32 ||| b1.toUInt32 <<< 8 ||| b2.toUInt32 <<< 16 ||| b3.toUInt32 <<< 24).toNat = _
  have h0 := UInt8.toNat_lt b0
  have h1 := UInt8.toNat_lt b1
  have h2 := UInt8.toNat_lt b2
  have h3 := UInt8.toNat_lt b3
  have t1 : (b1.toUInt32 <<< 8).toNat = b1.toNat * 256 := by
    rw [UInt32.toNat_shiftLeft, UInt8.toNat_toUInt32, Nat.shiftLeft_eq]
    show b1.toNat * 256 % 4294967296 = _
    omega
  have t2 : (b2.toUInt32 <<< 16).toNat = b2.toNat * 65536 := by
    rw [UInt32.toNat_shiftLeft, UInt8.toNat_toUInt32, Nat.shiftLeft_eq]
    show b2.toNat * 65536 % 4294967296 = _
    omega
  have t3 : (b3.toUInt32 <<< 24).toNat = b3.toNat * 16777216 := by
    rw [UInt32.toNat_shiftLeft, UInt8.toNat_toUInt32, Nat.shiftLeft_eq]
    show b3.toNat * 16777216 % 4294967296 = _
    omega
  rw [UInt32.toNat_or, UInt32.toNat_or, UInt32.toNat_or, t1, t2, t3, UInt8.toNat_toUInt32]
  generalize b0.toNat = x0 at *
  generalize b1.toNat = x1 at *
  generalize b2.toNat = x2 at *
  generalize b3.toNat = x3 at *
  clear t1 t2 t3
  have s1 := or_add x1 x0 256 8 (by decide) (by omega)
  rw [Nat.or_comm x0, s1]
  have s2 := or_add x2 (x1 * 256 + x0) 65536 16 (by decide) (by omega)
  rw [Nat.or_comm _ (x2 * 65536), s2]
  have s3 := or_add x3 (x2 * 65536 + (x1 * 256 + x0)) 16777216 24 (by decide) (by omega)
  rw [Nat.or_comm _ (x3 * 16777216), s3]
  omega

theorem bswap_sAddr (b0 b1 b2 b3 : UInt8) :
    (bswap32 (sAddr [b0, b1, b2, b3])).toNat = b0.toNat * 16777216 + b1.toNat * 65536 + b2.toNat * 256 + b3.toNat := by
  rw [bswap32_toNat, sAddr_toNat]
  have h0 := UInt8.toNat_lt b0
  have h1 := UInt8.toNat_lt b1
  have h2 := UInt8.toNat_lt b2
  have h3 := UInt8.toNat_lt b3
  generalize b0.toNat = x0 at *
  generalize b1.toNat = x1 at *
  generalize b2.toNat = x2 at *
  generalize b3.toNat = x3 at *
  have e0 : (x0 + x1 * 256 + x2 * 65536 + x3 * 16777216) % 256 = x0 := by omega
  have e1 : (x0 + x1 * 256 + x2 * 65536 + x3 * 16777216) / 256 % 256 = x1 := by omega
  have e2 : (x0 + x1 * 256 + x2 * 65536 + x3 * 16777216) / 65536 % 256 = x2 := by omega
  have e3 : (x0 + x1 * 256 + x2 * 65536 + x3 * 16777216) / 16777216 = x3 := by omega
  rw [e0, e1, e2, e3]

/-- **C18_private_dotted.**  The classification restated on the dotted quad `b0.b1.b2.b3` of a
    model address (through `sAddr`, `ntohl` and the translated kernel). -/
theorem C18_private_dotted (b0 b1 b2 b3 : UInt8) (port : UInt16) :
    isPrivate { family := .v4, bytes := [b0, b1, b2, b3], port := port } = true ↔
      b0.toNat = 10 ∨ (b0.toNat = 172 ∧ 16 ≤ b1.toNat ∧ b1.toNat ≤ 31) ∨ (b0.toNat = 192 ∧ b1.toNat = 168) ∨
      (b0.toNat = 169 ∧ b1.toNat = 254) ∨ b0.toNat = 127 := by
  show (ipv4_address_is_private (sAddr [b0, b1, b2, b3]) != 0) = true ↔ _
  rw [bne_iff_ne, C18_private_iff_ranges, bswap_sAddr]
  have h0 := UInt8.toNat_lt b0
  have h1 := UInt8.toNat_lt b1
  have h2 := UInt8.toNat_lt b2
  have h3 := UInt8.toNat_lt b3
  generalize b0.toNat = x0 at *
  generalize b1.toNat = x1 at *
  generalize b2.toNat = x2 at *
  generalize b3.toNat = x3 at *
  omega

theorem C18_linklocal_dotted (b0 b1 b2 b3 : UInt8) (port : UInt16) :
    isLinklocal { family := .v4, bytes := [b0, b1, b2, b3], port := port } = true ↔
      b0.toNat = 169 ∧ b1.toNat = 254 := by
  show (ipv4_address_is_linklocal (sAddr [b0, b1, b2, b3]) != 0) = true ↔ _
  rw [bne_iff_ne, C18_linklocal_iff, bswap_sAddr]
  have h0 := UInt8.toNat_lt b0
  have h1 := UInt8.toNat_lt b1
  have h2 := UInt8.toNat_lt b2
  have h3 := UInt8.toNat_lt b3
  generalize b0.toNat = x0 at *
  generalize b1.toNat = x1 at *
  generalize b2.toNat = x2 at *
  generalize b3.toNat = x3 at *
  omega

example : isPrivate { family := .v4, bytes := [192, 168, 1, 7] } = true := by decide
example : isPrivate { family := .v4, bytes := [172, 32, 0, 1] } = false := by decide

/-! ## Part 2 — NiceAddress equality -/

/-- **C18_equal_refl.**  Reflexive on every valid address (for AF_UNSPEC the C code returns FALSE
    through `g_return_val_if_reached`). -/
theorem C18_equal_refl (a : Address) (h : isValid a = true) : equal a a = true := by
  unfold equal
  cases hf : a.family <;> simp_all [isValid]

theorem C18_equal_symm (a b : Address) : equal a b = equal b a := by
  unfold equal
  by_cases hfam : a.family = b.family
  · rw [hfam]
    cases hf : b.family <;> simp only [bne_self_eq_false, Bool.false_eq_true, if_false]
    · rw [Bool.eq_iff_iff]; simp only [Bool.and_eq_true, beq_iff_eq]
      constructor <;> (rintro ⟨h1, h2⟩; exact ⟨h1.symm, h2.symm⟩)
    · rw [Bool.eq_iff_iff]; simp only [Bool.and_eq_true, Bool.or_eq_true, beq_iff_eq]
      constructor <;> (rintro ⟨⟨h1, h2⟩, h3⟩; refine ⟨⟨h1.symm, h2.symm⟩, ?_⟩; rcases h3 with (h | h) | h
                       · exact Or.inl (Or.inr h)
                       · exact Or.inl (Or.inl h)
                       · exact Or.inr h.symm)
  · have h1 : (a.family != b.family) = true := by simpa using hfam
    have h2 : (b.family != a.family) = true := by simpa using fun h => hfam h.symm
    simp [h1, h2]

/-- **C18_equal_trans_partial.**  Transitive whenever the two outer scope ids are equal or the
    middle one is not the wildcard — in particular when all scope ids are equal or all zero.
    (Not transitive in general: `C18_equal_not_trans`.) -/
theorem C18_equal_trans_partial (a b c : Address)
    (hs : a.scope = c.scope ∨ b.scope ≠ 0 ∨ a.scope = 0 ∨ c.scope = 0)
    (hab : equal a b = true) (hbc : equal b c = true) : equal a c = true := by
  unfold equal at *
  by_cases h1 : a.family = b.family
  · by_cases h2 : b.family = c.family
    · rw [h1] at hab; rw [h1, h2]; rw [h2] at hab hbc
      cases hf : c.family <;> rw [hf] at hab hbc
      · simp at hab
      · simp only [bne_self_eq_false, Bool.false_eq_true, if_false, Bool.and_eq_true, beq_iff_eq] at *
        exact ⟨hab.1.trans hbc.1, hab.2.trans hbc.2⟩
      · simp only [bne_self_eq_false, Bool.false_eq_true, if_false, Bool.and_eq_true, Bool.or_eq_true,
          beq_iff_eq] at *
        obtain ⟨⟨hb1, hp1⟩, hs1⟩ := hab
        obtain ⟨⟨hb2, hp2⟩, hs2⟩ := hbc
        refine ⟨⟨hb1.trans hb2, hp1.trans hp2⟩, ?_⟩
        rcases hs with h | h | h | h
        · exact Or.inr h
        · rcases hs1 with (h' | h') | h'
          · exact Or.inl (Or.inl h')
          · exact absurd h' h
          · rcases hs2 with (h'' | h'') | h''
            · exact absurd h'' h
            · exact Or.inl (Or.inr h'')
            · exact Or.inr (h'.trans h'')
        · exact Or.inl (Or.inl h)
        · exact Or.inl (Or.inr h)
    · have : (b.family != c.family) = true := by simpa using h2
      simp [this] at hbc
  · have : (a.family != b.family) = true := by simpa using h1
    simp [this] at hab

/-- the three addresses of the recorded finding: fe80::1 port 5 with scope ids 1, 0, 2 -/
def ll1 (scope : UInt32) : Address :=
  { family := .v6, bytes := [0xfe, 0x80, 0, 0, 0, 0, 0, 0, 0, 0, 0, 0, 0, 0, 0, 1], port := 5, scope := scope }

/-- **C18_equal_not_trans.**  `nice_address_equal` is NOT transitive: scope id 0 is a wildcard, so
    scope 1 = scope 0 and scope 0 = scope 2 but scope 1 ≠ scope 2 (recorded as a known finding;
    reproduced on the real code by corpus/C18/scope_not_transitive.ops). -/
theorem C18_equal_not_trans :
    equal (ll1 1) (ll1 0) = true ∧ equal (ll1 0) (ll1 2) = true ∧ equal (ll1 1) (ll1 2) = false := by
  decide

example : ∃ a b c : Address, equal a b = true ∧ equal b c = true ∧ (a.scope = c.scope ∨ b.scope ≠ 0 ∨ a.scope = 0 ∨ c.scope = 0) :=
  ⟨ll1 1, ll1 1, ll1 1, by decide, by decide, Or.inl rfl⟩

/-- equal addresses are equal without the port -/
theorem C18_equal_noport_of_equal (a b : Address) (h : equal a b = true) : equalNoPort a b = true := by
  unfold equal at h; unfold equalNoPort
  by_cases h1 : a.family = b.family
  · have : (a.family != b.family) = false := by simpa using h1
    rw [this] at h ⊢
    cases hf : a.family <;> rw [hf] at h <;> simp_all
  · have : (a.family != b.family) = true := by simpa using h1
    simp [this] at h

/-- **C18_equal_text_consistent.**  Addresses that are equal (ports aside) have the same text form,
    and valid addresses of one family with the same bytes and compatible scope ids are equal:
    the text depends on family and address bytes only. -/
theorem C18_equal_text_consistent (a b : Address) (h : equalNoPort a b = true) :
    Addr.toString a = Addr.toString b := by
  unfold equalNoPort at h; unfold Addr.toString
  by_cases h1 : a.family = b.family
  · have : (a.family != b.family) = false := by simpa using h1
    rw [this] at h
    rw [← h1]
    cases hf : a.family <;> rw [hf] at h <;> simp_all
  · have : (a.family != b.family) = true := by simpa using h1
    simp [this] at h

example : equalNoPort (ll1 1) (ll1 0) = true := by decide
example : isValid (ll1 0) = true := by decide

/-- the converse on the address itself: valid addresses of one family with the same bytes and
    compatible scope ids are equal up to the port (that equal *texts* give equal bytes is the libc
    hypothesis `LibcOK.roundtrip`, validated by the `addr rt` stream) -/
theorem C18_equal_of_same_bytes (a b : Address) (hv : isValid a = true) (hf : a.family = b.family)
    (hb : a.bytes = b.bytes) (hs : a.scope = 0 ∨ b.scope = 0 ∨ a.scope = b.scope) : equalNoPort a b = true := by
  unfold equalNoPort
  have : (a.family != b.family) = false := by simpa using hf
  rw [this]
  unfold isValid at hv
  cases hfa : a.family <;> rw [hfa] at hv
  · exact absurd hv (by decide)
  · simp [hb]
  · simp only [Bool.false_eq_true, if_false, Bool.and_eq_true, Bool.or_eq_true, beq_iff_eq]
    refine ⟨hb, ?_⟩
    rcases hs with h | h | h
    · exact Or.inl (Or.inl h)
    · exact Or.inl (Or.inr h)
    · exact Or.inr h

/-! ## Part 3 — SDP text -/

/-! ### numbers: printf `%d` and `g_ascii_strtoull` -/

/-- value of a digit string read left to right from an initial value -/
def valFrom (v : Nat) (ds : Text) : Nat := ds.foldl (fun a d => a * 10 + (d.toNat - 48)) v

def isDig (d : UInt8) : Prop := 48 ≤ d.toNat ∧ d.toNat ≤ 57

theorem digit_toNat (n : Nat) (h : n < 10) : (digit n).toNat = 48 + n := by
  unfold digit
  show (UInt8.ofNat (48 + n)).toNat = _
  rw [UInt8.toNat_ofNat']; omega

theorem decAux_spec : ∀ (f n : Nat) (acc : Text), n < 10 ^ f → 0 < f →
    ∃ ds : Text, decAux f n acc = ds ++ acc ∧ ds ≠ [] ∧ (∀ d ∈ ds, isDig d) ∧
      ∀ v, valFrom v ds = v * 10 ^ ds.length + n := by
  intro f
  induction f with
  | zero => intro n acc _ h0; omega
  | succ f ih =>
    intro n acc h _
    unfold decAux
    by_cases hn : n < 10
    · simp only [hn, if_true]
      refine ⟨[digit n], rfl, by simp, ?_, ?_⟩
      · intro d hd
        simp at hd; subst hd
        unfold isDig; rw [digit_toNat n hn]; omega
      · intro v
        simp [valFrom, digit_toNat n hn]
    · simp only [hn, if_false]
      have h10 : n / 10 < 10 ^ f := by
        rw [Nat.pow_succ] at h; omega
      have hf : 0 < f := by
        rcases Nat.eq_zero_or_pos f with h0 | h0
        · subst h0; simp at h; omega
        · exact h0
      obtain ⟨ds, e, hne, hdig, hval⟩ := ih (n / 10) (digit (n % 10) :: acc) h10 hf
      refine ⟨ds ++ [digit (n % 10)], ?_, by simp, ?_, ?_⟩
      · rw [e]; simp
      · intro d hd
        rw [List.mem_append] at hd
        rcases hd with hd | hd
        · exact hdig d hd
        · simp at hd; subst hd
          unfold isDig; rw [digit_toNat _ (Nat.mod_lt _ (by decide))]; omega
      · intro v
        have : valFrom v (ds ++ [digit (n % 10)]) = valFrom v ds * 10 + ((digit (n % 10)).toNat - 48) := by
          simp [valFrom, List.foldl_append]
        rw [this, hval v, digit_toNat _ (Nat.mod_lt _ (by decide))]
        simp only [List.length_append, List.length_cons, List.length_nil, Nat.zero_add, Nat.pow_succ]
        have : 48 + n % 10 - 48 = n % 10 := by omega
        rw [this, Nat.add_mul, Nat.mul_assoc]
        omega

theorem lt_pow_succ (n : Nat) : n < 10 ^ (n + 1) := by
  induction n with
  | zero => decide
  | succ k ih => rw [Nat.pow_succ]; omega

theorem decDigits_spec (n : Nat) :
    ∃ ds : Text, decDigits n = ds ∧ ds ≠ [] ∧ (∀ d ∈ ds, isDig d) ∧ ∀ v, valFrom v ds = v * 10 ^ ds.length + n := by
  obtain ⟨ds, e, h1, h2, h3⟩ := decAux_spec (n + 1) n [] (lt_pow_succ n) (Nat.succ_pos n)
  exact ⟨ds, by rw [decDigits, e, List.append_nil], h1, h2, h3⟩

theorem valFrom_ge (ds : Text) : ∀ v, v ≤ valFrom v ds := by
  induction ds with
  | nil => intro v; exact Nat.le_refl _
  | cons d ds ih =>
    intro v
    show v ≤ valFrom (v * 10 + (d.toNat - 48)) ds
    have := ih (v * 10 + (d.toNat - 48))
    omega

/-- the digit loop of strtoull computes the value as long as it fits in 64 bits -/
theorem ullDigits_spec (ds : Text) : ∀ (v : Nat) (o : Bool), (∀ d ∈ ds, isDig d) →
    valFrom v ds ≤ 18446744073709551615 → ullDigits ds v o = (valFrom v ds, o) := by
  induction ds with
  | nil => intro v o _ _; rfl
  | cons d ds ih =>
    intro v o hd hv
    have hdd := hd d (by simp)
    unfold isDig at hdd
    have h1 : (48 ≤ d && d ≤ 57) = true := by
      simp only [Bool.and_eq_true, decide_eq_true_eq, UInt8.le_iff_toNat_le]
      exact hdd
    have hv' : valFrom (v * 10 + (d.toNat - 48)) ds ≤ 18446744073709551615 := hv
    have hge := valFrom_ge ds (v * 10 + (d.toNat - 48))
    unfold ullDigits
    simp only [h1, if_true]
    have h2 : (decide (v > 1844674407370955161) || (v == 1844674407370955161 && decide (d.toNat - 48 > 5))) = false := by
      rw [Bool.or_eq_false_iff]
      constructor
      · simp only [decide_eq_false_iff_not]; omega
      · rw [Bool.and_eq_false_iff]
        by_cases hv2 : v = 1844674407370955161
        · right; simp only [decide_eq_false_iff_not]; omega
        · left; simpa using hv2
    simp only [h2]
    exact ih _ o (fun x hx => hd x (by simp [hx])) hv'

theorem isSpace_dig (d : UInt8) (h : isDig d) : isSpace d = false := by
  unfold isDig at h
  unfold isSpace
  simp only [Bool.or_eq_false_iff, beq_eq_false_iff_ne, ne_eq]
  have : ∀ k : UInt8, k.toNat < 48 → d ≠ k := by
    intro k hk e; subst e; omega
  refine ⟨⟨⟨⟨⟨this 32 (by decide), this 12 (by decide)⟩, this 10 (by decide)⟩, this 13 (by decide)⟩, this 9 (by decide)⟩, this 11 (by decide)⟩

theorem strtoull_digits (ds : Text) (hne : ds ≠ []) (hd : ∀ d ∈ ds, isDig d)
    (hv : valFrom 0 ds ≤ 18446744073709551615) : strtoull ds = UInt64.ofNat (valFrom 0 ds) := by
  match ds, hne with
  | d :: r, _ =>
    have hdd := hd d (by simp)
    have hsp := isSpace_dig d hdd
    unfold isDig at hdd
    have h45 : d ≠ 45 := by intro e; subst e; revert hdd; decide
    have h43 : d ≠ 43 := by intro e; subst e; revert hdd; decide
    unfold strtoull
    rw [List.dropWhile_cons]
    simp only [hsp, Bool.false_eq_true, if_false]
    split
    · rename_i heq; simp at heq; exact absurd heq.1 h45
    · rename_i heq; simp at heq; exact absurd heq.1 h43
    · rw [ullDigits_spec (d :: r) 0 false hd hv]
      simp

theorem strtoull_neg_digits (ds : Text) (hd : ∀ d ∈ ds, isDig d)
    (hv : valFrom 0 ds ≤ 18446744073709551615) : strtoull (45 :: ds) = 0 - UInt64.ofNat (valFrom 0 ds) := by
  unfold strtoull
  rw [List.dropWhile_cons]
  have : isSpace 45 = false := by decide
  simp only [this, Bool.false_eq_true, if_false]
  rw [ullDigits_spec ds 0 false hd hv]
  simp

theorem strtoull_fmtD_nonneg (n : Nat) (h : n ≤ 18446744073709551615) :
    strtoull (fmtD (n : Int)) = UInt64.ofNat n := by
  obtain ⟨ds, e, hne, hdig, hval⟩ := decDigits_spec n
  have hv : valFrom 0 ds = n := by rw [hval 0]; omega
  unfold fmtD
  have : ¬ ((n : Int) < 0) := by omega
  simp only [this, if_false, Int.toNat_natCast]
  rw [e, strtoull_digits ds hne hdig (by omega), hv]

theorem strtoull_fmtD_neg (m : Nat) (hm : 0 < m) (h : m ≤ 18446744073709551615) :
    strtoull (fmtD (-(m : Int))) = 0 - UInt64.ofNat m := by
  obtain ⟨ds, e, hne, hdig, hval⟩ := decDigits_spec m
  have hv : valFrom 0 ds = m := by rw [hval 0]; omega
  unfold fmtD
  have : (-(m : Int) < 0) := by omega
  simp only [this, if_true, Int.natAbs_neg, Int.natAbs_natCast]
  rw [e, strtoull_neg_digits ds hdig (by omega), hv]

/-- **C18_strtoull_fmtD.**  `%d` of a `guint32` (printed as the `int` with the same bits, negative
    from 2^31 on) read back by `g_ascii_strtoull` and cast to `guint32` is the identity; the same for
    a non-negative value below 65536 and the `guint16` cast (ports). -/
theorem C18_strtoull_fmtD :
    (∀ x : UInt32, (strtoull (fmtU32 x)).toUInt32 = x) ∧
    (∀ n : Nat, n < 65536 → (strtoull (fmtD (n : Int))).toUInt16 = UInt16.ofNat n) := by
  constructor
  · intro x
    unfold fmtU32
    have hx : x.toNat < 4294967296 := x.toBitVec.isLt
    have hi : x.toInt32.toInt = if 2 * x.toNat < 4294967296 then (x.toNat : Int) else (x.toNat : Int) - 4294967296 := by
      show x.toBitVec.toInt = _
      rw [BitVec.toInt_eq_toNat_cond]; rfl
    rw [hi]
    apply UInt32.toNat_inj.mp
    rw [UInt64.toNat_toUInt32]
    split
    · rw [strtoull_fmtD_nonneg _ (by omega), UInt64.toNat_ofNat']
      omega
    · have e : (x.toNat : Int) - 4294967296 = -((4294967296 - x.toNat : Nat) : Int) := by omega
      rw [e, strtoull_fmtD_neg _ (by omega) (by omega), UInt64.toNat_sub, UInt64.toNat_ofNat']
      show (2 ^ 64 - (4294967296 - x.toNat) % 2 ^ 64 + 0) % 2 ^ 64 % 2 ^ 32 = x.toNat
      omega
  · intro n hn
    rw [strtoull_fmtD_nonneg n (by omega)]
    apply UInt16.toNat_inj.mp
    rw [UInt64.toNat_toUInt16, UInt64.toNat_ofNat', UInt16.toNat_ofNat']
    omega

example : strtoull (fmtU32 4294967295) = 18446744073709551615 := by decide   -- "-1"
example : fmtU32 2147483648 = [45, 50, 49, 52, 55, 52, 56, 51, 54, 52, 56] := by decide   -- "-2147483648"

/-- `%d` output consists of digits and possibly a leading '-' -/
theorem fmtD_avoid (d : UInt8) (hd : d.toNat < 45) (x : Int) : d ∉ fmtD x := by
  have hdd : ∀ n, d ∉ decDigits n := by
    intro n hm
    obtain ⟨ds, e, _, hdig, _⟩ := decDigits_spec n
    rw [e] at hm
    have := hdig d hm
    unfold isDig at this
    omega
  unfold fmtD
  split
  · intro hm
    rcases List.mem_cons.mp hm with h | h
    · subst h; revert hd; decide
    · exact hdd _ h
  · exact hdd _

theorem fmtD_nospace (x : Int) : (32 : UInt8) ∉ fmtD x := fmtD_avoid 32 (by decide) x

/-! ### `g_strsplit` -/

theorem splitOn_nosep (d : UInt8) (t : Text) (h : d ∉ t) : splitOn d t = [t] := by
  induction t with
  | nil => rfl
  | cons c r ih =>
    have hc : (c == d) = false := by
      simp only [beq_eq_false_iff_ne, ne_eq]; intro e; exact h (by simp [e])
    have hr : d ∉ r := fun hm => h (by simp [hm])
    rw [splitOn]
    simp only [hc, Bool.false_eq_true, if_false, ih hr]

theorem splitOn_append (d : UInt8) (t rest : Text) (h : d ∉ t) :
    splitOn d (t ++ d :: rest) = t :: splitOn d rest := by
  induction t with
  | nil => simp [splitOn]
  | cons c r ih =>
    have hc : (c == d) = false := by
      simp only [beq_eq_false_iff_ne, ne_eq]; intro e; exact h (by simp [e])
    have hr : d ∉ r := fun hm => h (by simp [hm])
    show splitOn d (c :: (r ++ d :: rest)) = _
    rw [splitOn]
    simp only [hc, Bool.false_eq_true, if_false, ih hr]

theorem splitOn_joinSp : ∀ (ts : List Text), ts ≠ [] → (∀ t ∈ ts, (32 : UInt8) ∉ t) →
    splitOn 32 (joinSp ts) = ts
  | [], h, _ => absurd rfl h
  | [t], _, h => by simpa [joinSp] using splitOn_nosep 32 t (h t (by simp))
  | t :: t' :: ts, _, h => by
    show splitOn 32 (t ++ 32 :: joinSp (t' :: ts)) = _
    rw [splitOn_append 32 t _ (h t (by simp)), splitOn_joinSp (t' :: ts) (by simp) (fun x hx => h x (by simp [hx]))]

/-- **C18_split_join.**  `g_strsplit (s, " ", 0)` undoes the single-space join of tokens that contain
    no space (the joined string must be non-empty: `g_strsplit ("")` is the empty vector). -/
theorem C18_split_join (ts : List Text) (hne : joinSp ts ≠ []) (h : ∀ t ∈ ts, (32 : UInt8) ∉ t) :
    strsplit 32 (joinSp ts) = ts := by
  unfold strsplit
  have : (joinSp ts).isEmpty = false := by
    cases hj : joinSp ts with
    | nil => exact absurd hj hne
    | cons _ _ => rfl
  rw [this]
  simp only [Bool.false_eq_true, if_false]
  apply splitOn_joinSp ts _ h
  intro e; subst e; exact hne rfl

example : strsplit 32 (joinSp [[97], [], [98, 99]]) = [[97], [], [98, 99]] := by decide

/-! ### candidate lines -/

theorem keyLoop_gen (ty x y z : Text) (B T : Bool) :
    keyLoop ([sTyp, ty] ++ (if B then [sRaddr, x, sRport, y] else []) ++ (if T then [sTcptype, z] else [])) {} =
      some { type := some ty, raddr := if B then some x else none,
             rport := if B then (strtoull y).toUInt16 else 0, tcptype := if T then some z else none } := by
  have e1 : (sRaddr == sTyp) = false := by decide
  have e2 : (sRport == sTyp) = false := by decide
  have e3 : (sRport == sRaddr) = false := by decide
  have e4 : (sTcptype == sTyp) = false := by decide
  have e5 : (sTcptype == sRaddr) = false := by decide
  have e6 : (sTcptype == sRport) = false := by decide
  cases B <;> cases T <;> simp [keyLoop, e1, e2, e3, e4, e5, e6]

theorem lookupType_gen : ∀ t, t < 4 → lookupType (typeToSdp t) = some t := by decide

theorem lookupTransport_gen : ∀ t, t < 4 →
    lookupTransport (transportToSdp t)
      (if (t != NICE_CANDIDATE_TRANSPORT_UDP) = true then some (tcptypeToSdp t) else none) = (some t, false) := by
  decide

/-- what survives the trip through text: the port is printed separately, the scope id not at all -/
def img (a : Address) : Address := { a with port := 0, scope := 0 }

/-- the port as written: an unset port becomes the discard port 9 -/
def portVal (a : Address) : UInt16 := if a.port == 0 then 9 else a.port

/-- the candidate the property expects back -/
def canon (c : Cand) (sid : UInt32) : Cand :=
  { type := c.type, transport := c.transport,
    addr := setPort (img c.addr) (portVal c.addr).toUInt32,
    base := if isValid c.base && !equal c.addr c.base then setPort (img c.base) (portVal c.base).toUInt32 else {},
    priority := c.priority, streamId := sid, componentId := c.componentId, foundation := c.foundation }

structure WellFormed (c : Cand) : Prop where
  type_lt : c.type < 4
  transport_lt : c.transport < 4
  addr_valid : isValid c.addr = true
  comp : 1 ≤ c.componentId.toNat ∧ c.componentId.toNat ≤ 256
  flen : c.foundation.length ≤ 32
  fnosp : (32 : UInt8) ∉ c.foundation

/-- the assumption on libc (validated by the `addr rt` stream on every run) -/
structure LibcOK (L : Libc) : Prop where
  roundtrip : ∀ a, isValid a = true → L.pton (L.ntop a) = some (img a)
  nospace : ∀ a, isValid a = true → (32 : UInt8) ∉ L.ntop a

theorem sdpPort_rt (a : Address) (h : isValid a = true) : (strtoull (sdpPort a)).toUInt16 = portVal a := by
  have hp : (getPort a).toUInt16 = a.port := by
    unfold getPort
    cases hf : a.family <;> simp_all [isValid] <;>
      (apply UInt16.toNat_inj.mp; rw [UInt32.toNat_toUInt16, UInt16.toNat_toUInt32]; have := a.port.toBitVec.isLt; omega)
  unfold sdpPort portVal
  simp only [hp]
  by_cases h0 : a.port = 0
  · simp only [h0, beq_self_eq_true, if_true]
    exact C18_strtoull_fmtD.2 9 (by decide)
  · have : (a.port == 0) = false := by simpa using h0
    simp only [this, Bool.false_eq_true, if_false]
    rw [C18_strtoull_fmtD.2 a.port.toNat a.port.toBitVec.isLt]
    exact UInt16.ofNat_toNat

theorem portVal_ne_zero (a : Address) : portVal a ≠ 0 := by
  unfold portVal
  by_cases h0 : a.port = 0
  · simp [h0]
  · have : (a.port == 0) = false := by simpa using h0
    simpa [this] using h0

theorem C18_tokensX_roundtrip (L : Libc) (hL : LibcOK L) (c : Cand) (hc : WellFormed c) (sid : UInt32) :
    parseTokensX L sid (genTokens L c) = { cand := some (canon c sid), crit := 0 } := by
  unfold parseTokensX genTokens
  simp only [List.cons_append, List.nil_append]
  have hk := keyLoop_gen (typeToSdp c.type) (L.ntop c.base) (sdpPort c.base) (tcptypeToSdp c.transport)
    (isValid c.base && !equal c.addr c.base) (c.transport != NICE_CANDIDATE_TRANSPORT_UDP)
  simp only [List.cons_append, List.nil_append] at hk
  rw [hk]
  simp only [lookupType_gen c.type hc.type_lt, lookupTransport_gen c.transport hc.transport_lt,
    hL.roundtrip c.addr hc.addr_valid, sdpPort_rt c.addr hc.addr_valid, C18_strtoull_fmtD.1]
  have hf : strlcpy (List.take NICE_CANDIDATE_MAX_FOUNDATION c.foundation) NICE_CANDIDATE_MAX_FOUNDATION = c.foundation := by
    unfold strlcpy
    show List.take 32 (List.take 33 c.foundation) = c.foundation
    rw [List.take_take]
    exact List.take_of_length_le (by have := hc.flen; omega)
  by_cases hb : (isValid c.base && !equal c.addr c.base) = true
  · have hv : isValid c.base = true := by
      rw [Bool.and_eq_true] at hb; exact hb.1
    simp only [hb, if_true, hL.roundtrip c.base hv, sdpPort_rt c.base hv, hf]
    simp [canon, hb, portVal_ne_zero]
  · have hb' : (isValid c.base && !equal c.addr c.base) = false := by simpa using hb
    simp only [hb', Bool.false_eq_true, if_false, hf]
    simp [canon, hb']

theorem C18_tokens_roundtrip (L : Libc) (hL : LibcOK L) (c : Cand) (hc : WellFormed c) (sid : UInt32) :
    parseTokens L sid (genTokens L c) = some (canon c sid) := by
  unfold parseTokens; rw [C18_tokensX_roundtrip L hL c hc sid]

/-- every fixed word the generator can print -/
def sdpLiterals : List Text :=
  [sTyp, sRaddr, sRport, sTcptype, sUDP, sTCP, sUnk, sHost, sSrflx, sPrflx, sRelay, sActive, sPassive, sSo, []]

/-- a byte below '-' that occurs in no fixed word, not in the foundation and not in libc's address
    text occurs in no generated token (used for ' ' and for '\n') -/
theorem genTokens_avoid (d : UInt8) (hd : d.toNat < 45) (hlit : ∀ t ∈ sdpLiterals, d ∉ t) (L : Libc)
    (hn : ∀ a, isValid a = true → d ∉ L.ntop a) (c : Cand) (hv : isValid c.addr = true) (hf : d ∉ c.foundation) :
    ∀ t ∈ genTokens L c, d ∉ t := by
  have hfo : d ∉ List.take NICE_CANDIDATE_MAX_FOUNDATION c.foundation := fun hm => hf (List.mem_of_mem_take hm)
  have htr : d ∉ transportToSdp c.transport := by
    apply hlit; unfold transportToSdp; split
    · decide
    · split <;> decide
  have hty : d ∉ typeToSdp c.type := by
    apply hlit; unfold typeToSdp; split
    · decide
    · split
      · decide
      · split <;> decide
  have htt : d ∉ tcptypeToSdp c.transport := by
    apply hlit; unfold tcptypeToSdp; split
    · decide
    · split
      · decide
      · split <;> decide
  have l1 : d ∉ sTyp := hlit _ (by decide)
  have l2 : d ∉ sRaddr := hlit _ (by decide)
  have l3 : d ∉ sRport := hlit _ (by decide)
  have l4 : d ∉ sTcptype := hlit _ (by decide)
  have hnum := fmtD_avoid d hd
  have hlast : ∀ x ∈ ([] : List Text), d ∉ x := by simp
  unfold genTokens
  cases hb : (isValid c.base && !equal c.addr c.base) <;> cases hu : (c.transport != NICE_CANDIDATE_TRANSPORT_UDP) <;>
    simp only [Bool.false_eq_true, if_true, if_false, List.cons_append, List.nil_append, List.append_nil,
      List.forall_mem_cons]
  · exact ⟨hfo, hnum _, htr, hnum _, hn _ hv, hnum _, l1, hty, hlast⟩
  · exact ⟨hfo, hnum _, htr, hnum _, hn _ hv, hnum _, l1, hty, l4, htt, hlast⟩
  · have hvb : isValid c.base = true := by rw [Bool.and_eq_true] at hb; exact hb.1
    exact ⟨hfo, hnum _, htr, hnum _, hn _ hv, hnum _, l1, hty, l2, hn _ hvb, l3, hnum _, hlast⟩
  · have hvb : isValid c.base = true := by rw [Bool.and_eq_true] at hb; exact hb.1
    exact ⟨hfo, hnum _, htr, hnum _, hn _ hv, hnum _, l1, hty, l2, hn _ hvb, l3, hnum _, l4, htt, hlast⟩

theorem genTokens_nospace (L : Libc) (hL : LibcOK L) (c : Cand) (hc : WellFormed c) :
    ∀ t ∈ genTokens L c, (32 : UInt8) ∉ t :=
  genTokens_avoid 32 (by decide) (by decide) L hL.nospace c hc.addr_valid hc.fnosp

theorem C18_sdpX_roundtrip (L : Libc) (hL : LibcOK L) (c : Cand) (hc : WellFormed c) (sid : UInt32)
    (hsid : sid ≠ 0) : parseCandidateX L sid (genCandidate L c) = { cand := some (canon c sid), crit := 0 } := by
  unfold parseCandidateX genCandidate
  have h0 : (sid == 0) = false := by simpa using hsid
  have hp : hasPrefix (pCandidate ++ joinSp (genTokens L c)) pCandidate = true := by
    unfold hasPrefix
    rw [List.isPrefixOf_iff_prefix]
    exact List.prefix_append _ _
  have hd : List.drop 12 (pCandidate ++ joinSp (genTokens L c)) = joinSp (genTokens L c) :=
    List.drop_left' (by decide)
  have hne : joinSp (genTokens L c) ≠ [] := by
    unfold genTokens
    simp only [List.cons_append, joinSp]
    intro h
    have := congrArg List.length h
    simp at this
  simp only [h0, hp, hd, Bool.false_eq_true, if_false, Bool.not_true]
  rw [C18_split_join _ hne (genTokens_nospace L hL c hc)]
  exact C18_tokensX_roundtrip L hL c hc sid

/-- **C18_sdp_roundtrip.**  For every well-formed candidate `c` — any type, transport, priority
    (including ≥ 2^31, printed negative), component, port, IPv4/IPv6 address, with or without a base
    address, foundation of at most 32 bytes without a space — parsing the line generated for `c` gives
    back `canon c`: the same fields, port 0 written and read as 9, the base address kept exactly when it
    is valid and differs from the address.  Hypothesis on libc (`LibcOK`): `from_string (to_string a)`
    is `a` without port/scope and the text has no space. -/
theorem C18_sdp_roundtrip (L : Libc) (hL : LibcOK L) (c : Cand) (hc : WellFormed c) (sid : UInt32)
    (hsid : sid ≠ 0) : parseCandidate L sid (genCandidate L c) = some (canon c sid) := by
  unfold parseCandidate; rw [C18_sdpX_roundtrip L hL c hc sid hsid]

def encB (b : UInt8) : List UInt8 := [b / 16 + 65, b % 16 + 65]
def enc (bs : List UInt8) : Text := bs.flatMap encB
def dec : Text → List UInt8
  | x :: y :: r => ((x - 65) * 16 + (y - 65)) :: dec r
  | _ => []

/-- a toy libc (family digit followed by two letters per byte) that satisfies `LibcOK` and avoids
    '\n': the hypotheses of the round-trip theorems are satisfiable -/
def toyLibc : Libc :=
  { ntop := fun a => (if a.family == .v4 then 52 else 54) :: enc a.bytes,
    pton := fun t => match t with
      | f :: r => some { family := if f == 52 then .v4 else .v6, bytes := dec r, port := 0, scope := 0 }
      | [] => none }

theorem encB_ok : ∀ n, n < 256 →
    ((UInt8.ofNat n / 16 + 65 - 65) * 16 + (UInt8.ofNat n % 16 + 65 - 65) = UInt8.ofNat n) ∧
    64 < (UInt8.ofNat n / 16 + 65).toNat ∧ 64 < (UInt8.ofNat n % 16 + 65).toNat := by decide

theorem dec_enc (bs : List UInt8) : dec (enc bs) = bs := by
  induction bs with
  | nil => rfl
  | cons b r ih =>
    show dec ((b / 16 + 65) :: (b % 16 + 65) :: enc r) = _
    unfold dec
    have := (encB_ok b.toNat (UInt8.toNat_lt b)).1
    rw [UInt8.ofNat_toNat] at this
    rw [this, ih]

theorem enc_big (bs : List UInt8) : ∀ x ∈ enc bs, 64 < x.toNat := by
  induction bs with
  | nil => intro x hx; simp [enc] at hx
  | cons b r ih =>
    intro x hx
    have hx' : x = b / 16 + 65 ∨ x = b % 16 + 65 ∨ x ∈ enc r := by
      simpa [enc, encB] using hx
    have h := encB_ok b.toNat (UInt8.toNat_lt b)
    rw [UInt8.ofNat_toNat] at h
    rcases hx' with h1 | h1 | h1
    · rw [h1]; exact h.2.1
    · rw [h1]; exact h.2.2
    · exact ih x h1

theorem toyLibc_ok : LibcOK toyLibc ∧ ∀ a, isValid a = true → (10 : UInt8) ∉ toyLibc.ntop a := by
  have havoid : ∀ (d : UInt8) (a : Address), d.toNat < 50 → d ∉ toyLibc.ntop a := by
    intro d a hd hm
    have hm' : d = (if a.family == .v4 then 52 else 54) ∨ d ∈ enc a.bytes := by simpa [toyLibc] using hm
    rcases hm' with h | h
    · rw [h] at hd; split at hd <;> simp at hd
    · have := enc_big _ d h; omega
  refine ⟨⟨?_, fun a _ => havoid 32 a (by decide)⟩, fun a _ => havoid 10 a (by decide)⟩
  intro a hv
  show some _ = some _
  congr 1
  unfold img
  cases a with
  | mk family bytes port scope =>
    cases family <;> simp_all [isValid, dec_enc]

example : ∃ L, LibcOK L := ⟨toyLibc, toyLibc_ok.1⟩

/-- non-vacuity on the REAL model of libc: a TCP-passive server-reflexive IPv6 candidate with
    priority ≥ 2^31, port 0 and an IPv4 base round-trips through the executable model -/
def exCand : Cand :=
  { type := 1, transport := 2, priority := 4294967295, componentId := 256, foundation := [49, 50, 51],
    addr := { family := .v6, bytes := [0x20, 1, 0x0d, 0xb8, 0, 0, 0, 0, 0, 1, 0, 0, 0, 0, 0, 1], port := 0, scope := 7 },
    base := { family := .v4, bytes := [10, 0, 0, 1], port := 5000 } }

example : parseCandidate Libc.model 1 (genCandidate Libc.model exCand) = some (canon exCand 1) := by decide
example : WellFormed exCand := ⟨by decide, by decide, by decide, by decide, by decide, by decide⟩
example : Libc.model.pton (Libc.model.ntop exCand.addr) = some (img exCand.addr) ∧
    Libc.model.pton (Libc.model.ntop exCand.base) = some (img exCand.base) := by decide

/-! ### totality of the parser -/

/-- **C18_parse_total.**  For EVERY token list the parser (a total function: no fault value, no
    out-of-range token access — the `tokens[i+1] == NULL` rule is the `[_]` case of `keyLoop`) returns
    nothing, or a candidate whose address is the result of a successful `from_string` on one of the
    tokens, with the port set afterwards. -/
theorem C18_parse_total (L : Libc) (sid : UInt32) (toks : List Text) :
    parseTokens L sid toks = none ∨
      ∃ c t a p, parseTokens L sid toks = some c ∧ t ∈ toks ∧ L.pton t = some a ∧ c.addr = setPort a p := by
  unfold parseTokens parseTokensX
  repeat' split
  all_goals first
    | (left; rfl)
    | (right; refine ⟨_, _, _, _, rfl, ?_, ‹_›, rfl⟩; simp)

/-- the same for every byte string given to `nice_agent_parse_remote_candidate_sdp` -/
theorem C18_parse_total_string (L : Libc) (sid : UInt32) (s : Text) :
    parseCandidate L sid s = none ∨
      ∃ c t a p, parseCandidate L sid s = some c ∧ L.pton t = some a ∧ c.addr = setPort a p := by
  unfold parseCandidate parseCandidateX
  split
  · left; rfl
  · split
    · left; rfl
    · rcases C18_parse_total L sid (strsplit 32 (List.drop 12 s)) with h | ⟨c, t, a, p, h, _, h2, h3⟩
      · left; exact h
      · right; exact ⟨c, t, a, p, h, h2, h3⟩

theorem setPort_valid (a : Address) (p : UInt32) : isValid (setPort a p) = isValid a := by
  unfold setPort isValid
  cases hf : a.family <;> simp [hf]

/-- the modelled `nice_address_set_from_string` only ever produces IPv4 / IPv6 addresses -/
theorem fromString_valid (s : Text) (a : Address) (h : fromString s = some a) : isValid a = true := by
  unfold fromString at h
  repeat' split at h
  all_goals first
    | (injection h with h; subst h; rfl)
    | (exact absurd h (by simp))

/-- **C18_parse_valid_address.**  Whatever the text, a candidate that comes out of the parser has a
    valid (IPv4 or IPv6) address — given that `from_string` only succeeds with valid addresses, which
    holds for the modelled libc. -/
theorem C18_parse_valid_address (L : Libc) (hv : ∀ t a, L.pton t = some a → isValid a = true)
    (sid : UInt32) (s : Text) (c : Cand) (h : parseCandidate L sid s = some c) : isValid c.addr = true := by
  rcases C18_parse_total_string L sid s with h0 | ⟨c', t, a, p, h1, h2, h3⟩
  · rw [h0] at h; exact absurd h (by simp)
  · rw [h1] at h; injection h with h; subst h
    rw [h3, setPort_valid]; exact hv t a h2

theorem C18_parse_valid_address_model (sid : UInt32) (s : Text) (c : Cand)
    (h : parseCandidate Libc.model sid s = some c) : isValid c.addr = true :=
  C18_parse_valid_address Libc.model (fun t a h => fromString_valid t a h) sid s c h

example : parseCandidate Libc.model 1 [97, 61, 99, 97, 110, 100, 105, 100, 97, 116, 101, 58, 32, 32, 32] = none := by decide

/-! ### stream level -/

theorem splitOn_lines (g : Cand → Text) (ls : List Cand) (h : ∀ l ∈ ls, (10 : UInt8) ∉ g l) :
    splitOn 10 (ls.flatMap fun l => g l ++ [10]) = ls.map g ++ [[]] := by
  induction ls with
  | nil => rfl
  | cons l r ih =>
    show splitOn 10 ((g l ++ [10]) ++ r.flatMap fun l => g l ++ [10]) = _
    rw [List.append_assoc, List.singleton_append, splitOn_append 10 _ _ (h l (by simp)),
      ih (fun x hx => h x (by simp [hx]))]
    rfl

theorem notPrefix_cand_ufrag (x : Text) : hasPrefix (pCandidate ++ x) pUfrag = false := by
  simp [hasPrefix, pCandidate, pUfrag, List.isPrefixOf]
theorem notPrefix_cand_pwd (x : Text) : hasPrefix (pCandidate ++ x) pPwd = false := by
  simp [hasPrefix, pCandidate, pPwd, List.isPrefixOf]
theorem notPrefix_pwd_ufrag (x : Text) : hasPrefix (pPwd ++ x) pUfrag = false := by
  simp [hasPrefix, pPwd, pUfrag, List.isPrefixOf]
theorem prefix_self (p x : Text) : hasPrefix (p ++ x) p = true := by
  unfold hasPrefix; rw [List.isPrefixOf_iff_prefix]; exact List.prefix_append _ _

theorem parseStreamLines_cands (L : Libc) (hL : LibcOK L) (sid : UInt32) (hsid : sid ≠ 0) (ls : List Cand)
    (hwf : ∀ l ∈ ls, WellFormed l) (r : SResult) :
    parseStreamLines L sid (ls.map (genCandidate L) ++ [[]]) r =
      { r with cands := (ls.map (canon · sid)).reverse ++ r.cands } := by
  induction ls generalizing r with
  | nil =>
    show parseStreamLines L sid [[]] r = _
    simp [parseStreamLines, hasPrefix, pUfrag, pPwd, pCandidate]
  | cons l rest ih =>
    show parseStreamLines L sid (genCandidate L l :: (rest.map (genCandidate L) ++ [[]])) r = _
    rw [parseStreamLines]
    have e : genCandidate L l = pCandidate ++ joinSp (genTokens L l) := rfl
    rw [e, notPrefix_cand_ufrag, notPrefix_cand_pwd, prefix_self, ← e,
      C18_sdpX_roundtrip L hL l (hwf l (by simp)) sid hsid]
    simp only [Bool.false_eq_true, if_false, if_true, Nat.add_zero]
    rw [ih (fun x hx => hwf x (by simp [hx]))]
    simp

theorem joinSp_avoid (d : UInt8) (hd : d ≠ 32) : ∀ (ts : List Text), (∀ t ∈ ts, d ∉ t) → d ∉ joinSp ts
  | [], _ => by simp [joinSp]
  | [t], h => by simpa [joinSp] using h t (by simp)
  | t :: t' :: ts, h => by
    show d ∉ t ++ 32 :: joinSp (t' :: ts)
    intro hm
    rcases List.mem_append.mp hm with h1 | h1
    · exact h t (by simp) h1
    · rcases List.mem_cons.mp h1 with h2 | h2
      · exact hd h2
      · exact joinSp_avoid d hd (t' :: ts) (fun x hx => h x (by simp [hx])) h2

theorem genCandidate_nonl (L : Libc) (hnl : ∀ a, isValid a = true → (10 : UInt8) ∉ L.ntop a) (c : Cand)
    (hv : isValid c.addr = true) (hf : (10 : UInt8) ∉ c.foundation) : (10 : UInt8) ∉ genCandidate L c := by
  unfold genCandidate
  intro hm
  rcases List.mem_append.mp hm with h | h
  · revert h; decide
  · exact joinSp_avoid 10 (by decide) _ (genTokens_avoid 10 (by decide) (by decide) L hnl c hv hf) h

/-- all local candidates of a stream, in the order `_generate_stream_sdp` prints them -/
def allLocals (s : Stream) : List Cand := s.comps.flatMap (·.locals)

/-- **C18_stream_roundtrip_partial.**  The SDP generated for one stream
    (`nice_agent_generate_local_stream_sdp`, ICE lines only) and parsed by
    `nice_agent_parse_remote_stream_sdp` on another agent reproduces the credentials exactly and every
    local candidate in canonical form (list reversed: `g_slist_prepend`), with no GLib critical —
    for credentials and foundations without a newline and well-formed candidates.
    PARTIAL: the multi-stream path `nice_agent_generate_local_sdp` → `nice_agent_parse_remote_sdp`
    (the `m=`/`c=` lines, positional stream matching for 1..4 streams, `priv_add_remote_candidate`
    bookkeeping that drops prflx / priority-0 candidates and updates duplicates) and `force-relay`
    are modelled and tied by the differential run only, not proved here. -/
theorem C18_stream_roundtrip_partial (L : Libc) (hL : LibcOK L)
    (hnl : ∀ a, isValid a = true → (10 : UInt8) ∉ L.ntop a)
    (A B : Agent) (sid : UInt32) (hsid : sid ≠ 0) (s : Stream) (hs : findStream A sid = some s)
    (hB : (findStream B sid).isSome = true) (hfr : A.forceRelay = false)
    (hu : (10 : UInt8) ∉ s.localUfrag) (hp : (10 : UInt8) ∉ s.localPwd)
    (hwf : ∀ l ∈ allLocals s, WellFormed l ∧ (10 : UInt8) ∉ l.foundation) :
    ∃ t r, genStreamSdp L A sid false = some t ∧ parseRemoteStreamSdp L B sid t = some r ∧
      r.ufrag = some s.localUfrag ∧ r.pwd = some s.localPwd ∧
      r.cands = ((allLocals s).map (canon · sid)).reverse ∧ r.crit = 0 := by
  have h0 : (sid == 0) = false := by simpa using hsid
  -- the generated text
  have hgen : genStream L A s false =
      (pUfrag ++ s.localUfrag) ++ 10 :: ((pPwd ++ s.localPwd) ++ 10 ::
        ((allLocals s).flatMap fun l => genCandidate L l ++ [10])) := by
    unfold genStream allLocals
    simp only [hfr, Bool.false_and, Bool.false_eq_true, if_false, List.nil_append, List.append_assoc,
      List.flatMap_assoc, List.cons_append]
  -- B's stream
  obtain ⟨sb, hsb⟩ := Option.isSome_iff_exists.mp hB
  have hsbid : sb.id = sid := by
    have := List.find?_some (by unfold findStream at hsb; exact hsb)
    simpa using this
  have hlines : strsplit 10 (genStream L A s false) =
      (pUfrag ++ s.localUfrag) :: (pPwd ++ s.localPwd) :: ((allLocals s).map (genCandidate L) ++ [[]]) := by
    rw [hgen]
    unfold strsplit
    have hne : ((pUfrag ++ s.localUfrag) ++ 10 :: ((pPwd ++ s.localPwd) ++ 10 ::
        ((allLocals s).flatMap fun l => genCandidate L l ++ [10]))).isEmpty = false := by
      simp [pUfrag]
    rw [hne]
    simp only [Bool.false_eq_true, if_false]
    have n1 : (10 : UInt8) ∉ pUfrag ++ s.localUfrag := by
      intro hm; rcases List.mem_append.mp hm with h | h
      · revert h; decide
      · exact hu h
    have n2 : (10 : UInt8) ∉ pPwd ++ s.localPwd := by
      intro hm; rcases List.mem_append.mp hm with h | h
      · revert h; decide
      · exact hp h
    rw [splitOn_append 10 _ _ n1, splitOn_append 10 _ _ n2,
      splitOn_lines (genCandidate L) (allLocals s)
        (fun l hl => genCandidate_nonl L hnl l (hwf l hl).1.addr_valid (hwf l hl).2)]
  refine ⟨genStream L A s false, parseStreamLines L sid (strsplit 10 (genStream L A s false)) {}, ?_, ?_, ?_⟩
  · unfold genStreamSdp; simp only [h0, Bool.false_eq_true, if_false, hs]
  · unfold parseRemoteStreamSdp
    simp only [h0, Bool.false_eq_true, if_false, hsb, hsbid]
  · rw [hlines, parseStreamLines, prefix_self]
    simp only [if_true]
    rw [parseStreamLines, notPrefix_pwd_ufrag, prefix_self]
    simp only [Bool.false_eq_true, if_false, if_true]
    rw [parseStreamLines_cands L hL sid hsid (allLocals s) (fun l hl => (hwf l hl).1)]
    have d1 : List.drop 12 (pUfrag ++ s.localUfrag) = s.localUfrag := List.drop_left' (by decide)
    have d2 : List.drop 10 (pPwd ++ s.localPwd) = s.localPwd := List.drop_left' (by decide)
    simp [d1, d2]

/-- non-vacuity: a one-stream agent holding `exCand`, with the toy libc -/
def exStream : Stream :=
  { id := 1, localUfrag := [117, 102], localPwd := [112, 119], comps := [{ id := 1 }, { id := 2, locals := [exCand] }] }
def exAgent : Agent := { streams := [exStream] }

example : ∃ t r, genStreamSdp toyLibc exAgent 1 false = some t ∧ parseRemoteStreamSdp toyLibc exAgent 1 t = some r ∧
    r.ufrag = some [117, 102] ∧ r.pwd = some [112, 119] ∧ r.cands = [canon exCand 1] ∧ r.crit = 0 :=
  C18_stream_roundtrip_partial toyLibc toyLibc_ok.1 toyLibc_ok.2 exAgent exAgent 1 (by decide) exStream rfl rfl rfl
    (by decide) (by decide)
    (by intro l hl
        have : l = exCand := by simpa [allLocals, exStream] using hl
        subst this
        exact ⟨⟨by decide, by decide, by decide, by decide, by decide, by decide⟩, by decide⟩)

end Nice.Props.C18
