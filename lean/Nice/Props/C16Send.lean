/-
  C16 — "data addressed to a peer without a permission is held": proved about the skeleton of socket/udp-turn.c
  socket_send_message REGENERATED from the source on every run (`Nice.Gen.TurnSend.prog`): on an RFC 5766 TURN socket, on every
  path — ChannelData for a bound channel, Send indication, every early exit — a wrapped message leaves towards the relay only
  if priv_has_permission_for_peer answers yes for that destination; otherwise it is queued.  (What the queue does when the
  permission answer arrives or times out is the Turn model + the scripted-relay differential.)
-/
import Nice.Gen.TurnSend
namespace Nice.Props.C16Send
open Nice.Flow Nice.Gen.TurnSend

def hv : Havoc := fun _ _ => [0, 1]

/-- kind 3 = a wrapped message leaves towards the relay -/
def policy : Policy := fun _ kind σ =>
  kind != 3 || σ.r0 != NICE_TURN_SOCKET_COMPATIBILITY_RFC5766 || σ.r1 == 1

def init : List St := compatValues.map fun c => { r0 := c, r1 := 2 }

theorem analysis_ok : (reach hv policy prog init).ok = true := by decide +kernel

/-- **C16_no_send_without_permission.** -/
theorem C16_no_send_without_permission {σ0 : St} (h0 : σ0 ∈ init) {tr : List Ev} {σ1 : St} {o : Out}
    (hx : Exec hv prog σ0 tr σ1 o) :
    ∀ e ∈ tr, e.kind = 3 → e.st.r0 = NICE_TURN_SOCKET_COMPATIBILITY_RFC5766 → e.st.r1 = 1 := by
  intro e he hk hc
  have hp := events_satisfy_policy analysis_ok h0 hx e he
  simpa [policy, hk, hc] using hp

/-! non-vacuity: with a permission the RFC 5766 socket does send; without one it queues (kind 9) -/
def never3 : Policy := fun _ kind _ => kind != 3
def never9 : Policy := fun _ kind _ => kind != 9
example : (reach hv never3 prog [{ r0 := NICE_TURN_SOCKET_COMPATIBILITY_RFC5766, r1 := 2 }]).ok = false := by decide +kernel
example : (reach hv never9 prog [{ r0 := NICE_TURN_SOCKET_COMPATIBILITY_RFC5766, r1 := 2 }]).ok = false := by decide +kernel

end Nice.Props.C16Send
