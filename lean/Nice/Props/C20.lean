/-
  C20 — gathering completes and reports what the servers confirmed (kernels).
-/
import Nice.Model.Gather
import Nice.Props.C20Tick
import Nice.Props.C20Relay
import Nice.Props.C19
namespace Nice.Props.C20
open Nice.Gather

theorem round_done_stays (s : St) (b : Beh) (h : s.item.done = true) : round s b = s := by
  simp [round, h]

theorem run_done_stays (bs : List Beh) : ∀ s : St, s.item.done = true → run s bs = s := by
  induction bs with
  | nil => intro s _; rfl
  | cons b bs ih => intro s h; simp only [run, List.foldl_cons]; rw [round_done_stays s b h]; exact ih s h

/-- a behaviour that ends the item's transaction -/
def Terminal : Beh → Prop
  | .reauth | .alternate => False
  | _ => True

/-- **C20_time_bound_partial (rounds).**  If the server answers at most `K` re-authentication /
    redirect rounds before a terminal behaviour, the item is done after at most `K+1` rounds — each
    of which lasts at most one pacing slot plus the full retransmission schedule of C19. -/
theorem C20_bounded_rounds (pre : List Beh) (b : Beh) (post : List Beh)
    (hpre : ∀ x ∈ pre, ¬ Terminal x) (hb : Terminal b) :
    (run {} (pre ++ b :: post)).item.done = true ∧
    (run {} (pre ++ b :: post)).item.rounds = pre.length + 1 := by
  have hrun : ∀ (l : List Beh) (s : St), s.item.done = false → (∀ x ∈ l, ¬ Terminal x) →
      (run s l).item.done = false ∧ (run s l).item.rounds = s.item.rounds + l.length ∧ (run s l).cands = s.cands := by
    intro l
    induction l with
    | nil => intro s h _; simp [run, h]
    | cons x xs ih =>
      intro s h hx
      have hxx : ¬ Terminal x := hx x (by simp)
      have hstep : (round s x).item.done = false ∧ (round s x).item.rounds = s.item.rounds + 1 ∧ (round s x).cands = s.cands := by
        cases x <;> simp [Terminal] at hxx <;> simp [round, h]
      obtain ⟨h1, h2, h3⟩ := ih (round s x) hstep.1 (fun y hy => hx y (by simp [hy]))
      simp only [run, List.foldl_cons] at *
      refine ⟨h1, ?_, ?_⟩
      · rw [h2, hstep.2.1]; simp; omega
      · rw [h3, hstep.2.2]
  obtain ⟨h1, h2, _⟩ := hrun pre {} rfl hpre
  have hsplit : run {} (pre ++ b :: post) = run (round (run {} pre) b) post := by
    simp [run, List.foldl_append]
  have hb' : (round (run {} pre) b).item.done = true ∧ (round (run {} pre) b).item.rounds = pre.length + 1 := by
    cases b <;> simp [Terminal] at hb <;> simp [round, h1, h2] <;> rfl
  rw [hsplit, run_done_stays post _ hb'.1]
  exact hb'

/-- **C20_unbounded_reauth.**  Nothing bounds the re-authentication rounds: for every `n` a server
    that keeps answering 438 (or 300) leaves the item not done after `n` rounds — the unrestricted
    time bound of the property does NOT hold for this code (recorded as a known finding). -/
theorem C20_unbounded_reauth (n : Nat) :
    (run {} (List.replicate n Beh.reauth)).item.done = false ∧
    (run {} (List.replicate n Beh.reauth)).item.rounds = n := by
  induction n with
  | zero => simp [run]
  | succ k ih =>
    rw [List.replicate_succ']
    simp only [run, List.foldl_append, List.foldl_cons, List.foldl_nil] at *
    obtain ⟨h1, h2⟩ := ih
    simp [round, h1, h2]

/-- **C20_candidates_sound.**  Every candidate address in the list was carried by a success answer
    of the script, and no address appears twice. -/
theorem C20_candidates_sound (bs : List Beh) :
    ∀ s : St, s.cands.Nodup → (∀ a ∈ (run s bs).cands, a ∈ s.cands ∨ Beh.success a ∈ bs) ∧ (run s bs).cands.Nodup := by
  induction bs with
  | nil => intro s h; exact ⟨fun a ha => Or.inl ha, h⟩
  | cons b bs ih =>
    intro s hnd
    have hstep : (∀ a ∈ (round s b).cands, a ∈ s.cands ∨ b = Beh.success a) ∧ (round s b).cands.Nodup := by
      unfold round
      split
      · exact ⟨fun a ha => Or.inl ha, hnd⟩
      · cases b <;> simp only <;> try exact ⟨fun a ha => Or.inl ha, hnd⟩
        rename_i addr
        split
        · exact ⟨fun a ha => Or.inl ha, hnd⟩
        · rename_i hc
          refine ⟨?_, ?_⟩
          · intro a ha
            rcases List.mem_append.mp ha with h | h
            · exact Or.inl h
            · simp at h; exact Or.inr (by rw [h])
          · rw [List.nodup_append]
            refine ⟨hnd, by simp, ?_⟩
            intro x hx y hy
            simp at hy; subst hy
            intro hxy; subst hxy
            apply hc; simpa using hx
    obtain ⟨h1, h2⟩ := ih (round s b) hstep.2
    simp only [run, List.foldl_cons] at *
    refine ⟨?_, h2⟩
    intro a ha
    rcases h1 a ha with h | h
    · rcases hstep.1 a h with h' | h'
      · exact Or.inl h'
      · exact Or.inr (by simp [h'])
    · exact Or.inr (by simp [h])

/-- **C20_done_once.**  The completion signal is emitted for exactly the streams whose gathering
    flag was set, and a second call emits nothing. -/
theorem C20_done_once (flags : List Bool) :
    (gatheringDone (gatheringDone flags).1).2 = [] := by
  simp [gatheringDone]
  intro a h
  have := List.mem_zipIdx h
  simp [List.getElem?_map] at this

/-- the silent-server case lasts exactly the STUN timer's N transmissions (C19) -/
theorem C20_silent_item_transmissions (now : Nat) (T N : UInt32) (hno : Nice.Props.C19.NoOverflow T N)
    (ps : List Nat) : Nice.Props.C19.countRetr (Nice.Props.C19.run (Nice.Timer.start now T N) ps).2
      ≤ Nice.Props.C19.nEff N - 1 :=
  Nice.Props.C19.C19_retransmit_count_le now T N hno ps

/-! non-vacuity -/
example : (run {} [.reauth, .success 7, .success 9]).cands = [7] := by decide
example : (run {} [.reauth, .reauth, .hardError]).item = { done := true, rounds := 3 } := by decide
example : gatheringDone [true, false, true] = ([false, false, false], [0, 2]) := by decide

end Nice.Props.C20
