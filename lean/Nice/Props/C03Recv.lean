/-
  C03 / C02 — the receive path agent/agent.c agent_recv_message_unlocked, proved about the skeleton REGENERATED from the
  source on every run (`Nice.Gen.RecvMessage.prog`, tools/extract_flow.py) with the verified analysis of `Nice.Model.Flow`:
  for every outcome of every untracked condition and call,

  * the function reports RECV_SUCCESS — "one message for the application" — only if, for this datagram,
    nice_component_verify_remote_candidate was asked and said yes (the source address completed an authenticated check)
    and the STUN handler did not claim the datagram;
  * the vectored pre-check and the contiguous length check are asked with the same padding rule (source text of the two
    argument expressions, compared by the kernel).
-/
import Nice.Gen.RecvMessage
namespace Nice.Props.C03Recv
open Nice.Flow Nice.Gen.RecvMessage

/-- what a tracked store may receive: a gboolean at the listed sites, any RecvStatus elsewhere -/
def hv : Havoc := fun site _ => if boolSites.elem site then [0, 1] else statusValues

/-- event kind 5 = the payload is handed on as the peer's data without being returned to the caller (queued until a pair is
    selected, or fed to the pseudo-TCP socket): only after the source gate said yes -/
def anyEvent : Policy := fun _ kind σ => kind != 5 || σ.r1 == 1

/-- `retval` is uninitialised; the gate has not been asked; the handler has not been asked -/
def init : List St := statusValues.map fun v => { r0 := v, r1 := 2, r2 := 2, r3 := 0 }

def outOk (p : St × Out) : Bool :=
  match p.2 with
  | .ret _ => p.1.r0 != RECV_SUCCESS || (p.1.r1 == 1 && p.1.r2 != 1)
  | .abort => true          -- g_assert (retval != RECV_OOB): nothing is claimed after an assertion failure
  | _ => false

theorem summary_ok : (reach hv anyEvent prog init).ok = true ∧ ((reach hv anyEvent prog init).outs.all outOk) = true := by
  decide +kernel

/-- **C03_data_only_from_validated_source.** -/
theorem C03_data_only_from_validated_source {σ0 : St} (h0 : σ0 ∈ init) {tr : List Ev} {σ1 : St} {v : Nat}
    (hx : Exec hv prog σ0 tr σ1 (.ret v)) (hs : σ1.r0 = RECV_SUCCESS) : σ1.r1 = 1 ∧ σ1.r2 ≠ 1 := by
  have h := outcomes_computed summary_ok.1 h0 hx
  have := List.all_eq_true.mp summary_ok.2 _ h
  simp only [outOk, hs, bne_self_eq_false, Bool.false_or, Bool.and_eq_true, beq_iff_eq, bne_iff_ne, ne_eq] at this
  exact this

/-- **C03_reliable_data_only_from_validated_source.**  In reliable mode the payload is queued for / fed to pseudo-TCP only after
    nice_component_verify_remote_candidate said yes for this datagram. -/
theorem C03_reliable_data_only_from_validated_source {σ0 : St} (h0 : σ0 ∈ init) {tr : List Ev} {σ1 : St} {o : Out}
    (hx : Exec hv prog σ0 tr σ1 o) : ∀ e ∈ tr, e.kind = 5 → e.st.r1 = 1 := by
  intro e he hk
  have hp := events_satisfy_policy summary_ok.1 h0 hx e he
  simpa [anyEvent, hk] using hp

/-- **C02/C06_demux_same_padding.** -/
theorem demux_same_padding : fastPadArg = fullPadArg := by decide

/-! non-vacuity: SUCCESS is reachable (with the gate passed), and so is the drop of an unknown source -/
example : ((reach hv anyEvent prog init).outs.any fun p => p.1.r0 == RECV_SUCCESS && p.1.r1 == 1) = true := by decide +kernel
example : ((reach hv anyEvent prog init).outs.any fun p => p.1.r0 == RECV_OOB && p.1.r1 == 0) = true := by decide +kernel

end Nice.Props.C03Recv
