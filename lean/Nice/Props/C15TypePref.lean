import Nice.Model.Prio
/-! # C15: the candidate type-preference switch of the model IS the code's

`nice_candidate_ice_type_preference` (agent/candidate.c) is REGENERATED on every run as `Nice.Gen.ice_type_preference`
(`tools/extract.py` FIELD_KERNELS + FIELD_SUBST: `candidate->type`, `candidate->transport` and the test
`c->turn->type == NICE_RELAY_TYPE_TURN_UDP` become parameters; each substitution must match the current source exactly
or the extraction fails closed).  The hand-written `Nice.Prio.typePreference`, which all C15 ranking theorems are stated
about, is proved equal to it for every candidate and every flag combination. -/
namespace Nice.Props.C15TypePref
open Nice.Gen Nice.Prio

def b2i (b : Bool) : Int32 := if b then 1 else 0

private theorem ofNat_beq (n k : Nat) (hn : n < 2 ^ 32) (hk : k < 2 ^ 32) :
    (UInt32.ofNat n == UInt32.ofNat k) = decide (n = k) := by
  by_cases h : n = k
  · subst h; simp
  · have : UInt32.ofNat n ≠ UInt32.ofNat k := by
      intro e
      have := congrArg UInt32.toNat e
      rw [UInt32.toNat_ofNat_of_lt' hn, UInt32.toNat_ofNat_of_lt' hk] at this
      exact h this
    simp [h, this]

/-- **the model's switch is the regenerated one** -/
theorem C15_model_type_preference_is_code (c : Cand) (reliable nat : Bool)
    (ht : c.type < 2 ^ 32) (htr : c.transport < 2 ^ 32) :
    ice_type_preference (UInt32.ofNat c.type) (UInt32.ofNat c.transport) (b2i reliable) (b2i nat) (b2i c.turnIsUdp)
      = typePreference c reliable nat := by
  have e0 := ofNat_beq c.type 0 ht (by decide)
  have e1 := ofNat_beq c.type 1 ht (by decide)
  have e2 := ofNat_beq c.type 2 ht (by decide)
  have e3 := ofNat_beq c.type 3 ht (by decide)
  have t0 := ofNat_beq c.transport 0 htr (by decide)
  have t0' : (UInt32.ofNat c.transport != UInt32.ofNat 0) = !decide (c.transport = 0) := by
    simp only [bne, t0]
  change (UInt32.ofNat c.type == (0 : UInt32)) = _ at e0
  change (UInt32.ofNat c.type == (1 : UInt32)) = _ at e1
  change (UInt32.ofNat c.type == (2 : UInt32)) = _ at e2
  change (UInt32.ofNat c.type == (3 : UInt32)) = _ at e3
  change (UInt32.ofNat c.transport == (0 : UInt32)) = _ at t0
  change (UInt32.ofNat c.transport != (0 : UInt32)) = _ at t0'
  unfold ice_type_preference typePreference
  simp only [e0, e1, e2, e3, t0, t0', NICE_CANDIDATE_TYPE_HOST, NICE_CANDIDATE_TYPE_PEER_REFLEXIVE,
    NICE_CANDIDATE_TYPE_SERVER_REFLEXIVE, NICE_CANDIDATE_TYPE_RELAYED, NICE_CANDIDATE_TRANSPORT_UDP,
    NICE_CANDIDATE_TYPE_PREF_HOST, NICE_CANDIDATE_TYPE_PREF_PEER_REFLEXIVE,
    NICE_CANDIDATE_TYPE_PREF_NAT_ASSISTED, NICE_CANDIDATE_TYPE_PREF_SERVER_REFLEXIVE,
    NICE_CANDIDATE_TYPE_PREF_RELAYED_UDP, NICE_CANDIDATE_TYPE_PREF_RELAYED, b2i]
  by_cases h0 : c.type = 0 <;> by_cases h2 : c.type = 2 <;> by_cases h1 : c.type = 1 <;> by_cases h3 : c.type = 3 <;>
    by_cases htp : c.transport = 0 <;> cases reliable <;> cases nat <;> cases c.turnIsUdp <;>
    simp [h0, h1, h2, h3, htp] <;> first | decide | omega

end Nice.Props.C15TypePref
