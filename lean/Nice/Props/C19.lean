/-
  C19 — STUN retransmission timers follow the configured schedule exactly.
  Theorems about `Nice.Timer` (model of stun/usages/timer.c).  Core Lean only.
-/
import Nice.Model.Timer
import Nice.Props.C19Tick
namespace Nice.Props.C19
open Nice.Timer

-- omega on the µs/ms conversions (coefficients 10^6) needs a deeper recursion limit
set_option maxRecDepth 16000

/-- run a timer over an arbitrary sequence of poll instants (µs); results oldest first -/
def run (t : Timer) : List Nat → Timer × List Ret
  | [] => (t, [])
  | p :: ps => let (t', r) := refresh t p
               let (t'', rs) := run t' ps
               (t'', r :: rs)

def nEff (N : UInt32) : Nat := max N.toNat 1

/-- the wait in force after the k-th transmission (k ≥ 1), per timer.h -/
def specDelay (T : Nat) (N : Nat) (k : Nat) : Nat :=
  if k < N then T * 2 ^ (k - 1) else if 2 ≤ N then T * 2 ^ (N - 2) / 2 else T

/-- reachable-state invariant of a timer started with (T, N) -/
structure Inv (T N : UInt32) (t : Timer) : Prop where
  max_eq : t.maxRetrans = N
  lo : 1 ≤ t.retrans.toNat
  hi : t.retrans.toNat ≤ nEff N
  delay_eq : t.delay.toNat = specDelay T.toNat (nEff N) t.retrans.toNat

def deadlineUs (t : Timer) : Nat := t.dlSec * 1000000 + t.dlUsec

theorem setDelay_value (now : Nat) (d : UInt32) :
    (setDelay now d).1 * 1000000 + (setDelay now d).2 = now + d.toNat * 1000 := by
  unfold setDelay
  simp only
  split <;> simp only <;> omega

theorem setDelay_usec_le (now : Nat) (d : UInt32) : (setDelay now d).2 ≤ 1000000 := by
  unfold setDelay
  simp only
  split <;> simp only <;> omega

/-- hypothesis under which `delay * 2` never wraps: T·2^(N-1) < 2^32 -/
def NoOverflow (T N : UInt32) : Prop := T.toNat * 2 ^ (nEff N - 1) < 2 ^ 32

theorem start_inv (now : Nat) (T N : UInt32) : Inv T N (start now T N) := by
  refine ⟨rfl, ?_, ?_, ?_⟩
  · simp [start]
  · simp [start, nEff]; omega
  · show T.toNat = specDelay T.toNat (nEff N) 1
    unfold specDelay nEff
    split
    · simp
    · split
      · omega
      · rfl

theorem pow_mono_le {a b : Nat} (h : a ≤ b) : 2 ^ a ≤ 2 ^ b := Nat.pow_le_pow_right (by omega) h

theorem refresh_inv (T N : UInt32) (hno : NoOverflow T N) (t : Timer) (now : Nat) (h : Inv T N t) :
    Inv T N (refresh t now).1 := by
  unfold refresh
  split
  · split
    · exact h
    · rename_i hlt
      have hmax := h.max_eq
      have hlt' : t.retrans.toNat < N.toNat := by
        rw [hmax] at hlt
        simpa [UInt32.le_iff_toNat_le] using hlt
      have hN1 : nEff N = N.toNat := by unfold nEff; omega
      have hr1 : (t.retrans + 1).toNat = t.retrans.toNat + 1 := by
        rw [UInt32.toNat_add]
        have : N.toNat < 2 ^ 32 := N.toNat_lt
        simp; omega
      refine ⟨hmax, ?_, ?_, ?_⟩
      · simp only; rw [hr1]; omega
      · simp only; rw [hr1, hN1]; omega
      · simp only
        rw [hr1]
        have hd := h.delay_eq
        rw [hN1] at hd ⊢
        have hsd : specDelay T.toNat N.toNat t.retrans.toNat = T.toNat * 2 ^ (t.retrans.toNat - 1) := by
          unfold specDelay; simp [hlt']
        rw [hsd] at hd
        have hlo := h.lo
        unfold NoOverflow at hno
        rw [hN1] at hno
        have hNsub : (N - 1).toNat = N.toNat - 1 := by
          rw [UInt32.toNat_sub_of_le]; · rfl
          · rw [UInt32.le_iff_toNat_le]; show 1 ≤ N.toNat; omega
        split
        · -- last retransmission: halve
          rename_i heq
          have heq' : t.retrans.toNat = N.toNat - 1 := by
            have := congrArg UInt32.toNat (eq_of_beq heq)
            rw [hmax, hNsub] at this; exact this
          have : (t.delay / 2).toNat = t.delay.toNat / 2 := by
            rw [UInt32.toNat_div]; rfl
          rw [this, hd]
          unfold specDelay
          have h1 : ¬ (t.retrans.toNat + 1 < N.toNat) := by omega
          have h2 : 2 ≤ N.toNat := by omega
          simp only [h1, h2, if_true, if_false]
          have : t.retrans.toNat - 1 = N.toNat - 2 := by omega
          rw [this]
        · -- double
          rename_i hne
          have hne' : t.retrans.toNat ≠ N.toNat - 1 := by
            intro hc
            apply hne
            apply beq_iff_eq.mpr
            apply UInt32.toNat_inj.mp
            rw [hmax, hNsub]; exact hc
          have hk : t.retrans.toNat + 1 < N.toNat := by omega
          have hpow : 2 ^ (t.retrans.toNat - 1) * 2 = 2 ^ (t.retrans.toNat + 1 - 1) := by
            have : t.retrans.toNat + 1 - 1 = (t.retrans.toNat - 1) + 1 := by omega
            rw [this, Nat.pow_succ]
          have hbound : T.toNat * 2 ^ (t.retrans.toNat + 1 - 1) < 2 ^ 32 := by
            have : 2 ^ (t.retrans.toNat + 1 - 1) ≤ 2 ^ (N.toNat - 1) := pow_mono_le (by omega)
            calc T.toNat * 2 ^ (t.retrans.toNat + 1 - 1) ≤ T.toNat * 2 ^ (N.toNat - 1) :=
                  Nat.mul_le_mul_left _ this
              _ < 2 ^ 32 := hno
          have : (t.delay * 2).toNat = t.delay.toNat * 2 := by
            rw [UInt32.toNat_mul]
            have h2 : (2 : UInt32).toNat = 2 := rfl
            rw [h2, hd, Nat.mul_assoc, hpow]
            exact Nat.mod_eq_of_lt hbound
          rw [this, hd, Nat.mul_assoc, hpow]
          unfold specDelay
          simp [hk]
  · exact h

theorem run_inv (T N : UInt32) (hno : NoOverflow T N) (ps : List Nat) :
    ∀ t, Inv T N t → Inv T N (run t ps).1 := by
  induction ps with
  | nil => intro t h; exact h
  | cons p ps ih => intro t h; simp only [run]; exact ih _ (refresh_inv T N hno t p h)

/-! ### which results are possible in which state -/

theorem refresh_retransmit (t : Timer) (now : Nat) (h : (refresh t now).2 = .retransmit) :
    t.retrans.toNat < t.maxRetrans.toNat ∧ (refresh t now).1.retrans = t.retrans + 1 ∧
    remainder t now = 0 := by
  unfold refresh at h ⊢
  split at h
  · rename_i hz
    split at h
    · cases h
    · rename_i hlt
      refine ⟨?_, ?_, eq_of_beq hz⟩
      · simpa [UInt32.le_iff_toNat_le] using hlt
      · simp [hz, hlt]
  · cases h

theorem refresh_timeout (t : Timer) (now : Nat) (h : (refresh t now).2 = .timeout) :
    t.maxRetrans.toNat ≤ t.retrans.toNat ∧ (refresh t now).1 = t ∧ remainder t now = 0 := by
  unfold refresh at h ⊢
  split at h
  · rename_i hz
    split at h
    · rename_i hge
      refine ⟨by simpa [UInt32.le_iff_toNat_le] using hge, by simp [hz, hge], eq_of_beq hz⟩
    · cases h
  · cases h

theorem refresh_success (t : Timer) (now : Nat) (h : (refresh t now).2 = .success) :
    (refresh t now).1 = t ∧ remainder t now ≠ 0 := by
  unfold refresh at h ⊢
  split at h
  · split at h <;> cases h
  · rename_i hz
    refine ⟨by simp [hz], ?_⟩
    intro h0; apply hz; simp [h0]

/-- a poll whose remainder is 0 never answers `success` -/
theorem refresh_expired (t : Timer) (now : Nat) (h : remainder t now = 0) :
    (refresh t now).2 ≠ .success := by
  intro hs; exact (refresh_success t now hs).2 h

def countRetr (rs : List Ret) : Nat := rs.count .retransmit

theorem refresh_retrans_step (T N : UInt32) (t : Timer) (now : Nat) (h : Inv T N t) :
    (refresh t now).1.retrans.toNat =
      t.retrans.toNat + (if (refresh t now).2 = .retransmit then 1 else 0) := by
  cases hr : (refresh t now).2 with
  | retransmit =>
    obtain ⟨hlt, he, _⟩ := refresh_retransmit t now hr
    rw [he, UInt32.toNat_add]
    have : t.maxRetrans.toNat < 2 ^ 32 := t.maxRetrans.toNat_lt
    simp; omega
  | timeout => rw [(refresh_timeout t now hr).2.1]; simp
  | success => rw [(refresh_success t now hr).1]; simp

theorem run_count (T N : UInt32) (hno : NoOverflow T N) (ps : List Nat) :
    ∀ t, Inv T N t → (run t ps).1.retrans.toNat = t.retrans.toNat + countRetr (run t ps).2 := by
  induction ps with
  | nil => intro t _; simp [run, countRetr]
  | cons p ps ih =>
    intro t h
    simp only [run]
    rw [ih _ (refresh_inv T N hno t p h), refresh_retrans_step T N t p h]
    unfold countRetr
    rw [List.count_cons]
    split <;> rename_i hc
    · have : ((refresh t p).2 == Ret.retransmit) = true := by simp [hc]
      simp [this]; omega
    · have : ((refresh t p).2 == Ret.retransmit) = false := by simp [hc]
      simp [this]

/-- **C19_retransmit_count (a).**  However often, early or late the timer is polled, it asks for at
    most `max N 1 - 1` retransmissions. -/
theorem C19_retransmit_count_le (now : Nat) (T N : UInt32) (hno : NoOverflow T N) (ps : List Nat) :
    countRetr (run (start now T N) ps).2 ≤ nEff N - 1 := by
  have hi := start_inv now T N
  have h1 := run_count T N hno ps _ hi
  have h2 := (run_inv T N hno ps _ hi).hi
  have : (start now T N).retrans.toNat = 1 := rfl
  omega

/-- **C19_retransmit_count (b).**  `timeout` is reported only after exactly `max N 1 - 1`
    retransmissions have been requested, whatever the polling pattern. -/
theorem C19_timeout_after_exact_count (now : Nat) (T N : UInt32) (hno : NoOverflow T N)
    (pre : List Nat) (p : Nat)
    (h : (refresh (run (start now T N) pre).1 p).2 = .timeout) :
    countRetr (run (start now T N) pre).2 = nEff N - 1 := by
  have hi := start_inv now T N
  have h1 := run_count T N hno pre _ hi
  have hinv := run_inv T N hno pre _ hi
  have h3 := (refresh_timeout _ p h).1
  rw [hinv.max_eq] at h3
  have h2 := hinv.hi
  have hlo := hinv.lo
  have : (start now T N).retrans.toNat = 1 := rfl
  unfold nEff at *
  omega

/-- **C19_retransmit_count (c).**  Once `timeout` has been reported no retransmission is ever
    requested again, and the timer state no longer changes. -/
theorem C19_no_retransmit_after_timeout (T N : UInt32) (t : Timer) (p : Nat) (ps : List Nat)
    (h : (refresh t p).2 = .timeout) :
    (run t (p :: ps)).1 = t ∧ countRetr (run t (p :: ps)).2 = 0 := by
  have hge := (refresh_timeout t p h).1
  have key : ∀ qs, (run t qs).1 = t ∧ countRetr (run t qs).2 = 0 := by
    intro qs
    induction qs with
    | nil => simp [run, countRetr]
    | cons q qs ih =>
      simp only [run]
      have hq : (refresh t q).1 = t ∧ (refresh t q).2 ≠ .retransmit := by
        cases hr : (refresh t q).2 with
        | retransmit => have := (refresh_retransmit t q hr).1; omega
        | timeout => exact ⟨(refresh_timeout t q hr).2.1, by simp⟩
        | success => exact ⟨(refresh_success t q hr).1, by simp⟩
      rw [hq.1]
      refine ⟨ih.1, ?_⟩
      unfold countRetr at *
      rw [List.count_cons, ih.2]
      have : ((refresh t q).2 == Ret.retransmit) = false := by simpa using hq.2
      simp [this]
  exact key (p :: ps)

/-! ### the deadline and the reported remainder -/

/-- **C19_remainder_zero_from_deadline.** -/
theorem C19_remainder_zero_from_deadline (t : Timer) (now : Nat) (h : deadlineUs t ≤ now) :
    remainder t now = 0 := by
  unfold deadlineUs at h
  unfold remainder
  simp only
  split
  · rfl
  · rename_i hns
    have hsec : t.dlSec - now / 1000000 = 0 := by omega
    have husec : now % 1000000 ≥ t.dlUsec := by omega
    simp [hsec, husec]

/-- **C19_timeout_reached.**  Any poll at or after the deadline of a timer that has used up its
    transmissions reports `timeout`; before that budget is used up it reports `retransmit`. -/
theorem C19_timeout_reached (t : Timer) (now : Nat) (h : deadlineUs t ≤ now) :
    (refresh t now).2 = (if t.retrans ≥ t.maxRetrans then .timeout else .retransmit) := by
  have hz := C19_remainder_zero_from_deadline t now h
  unfold refresh
  simp [hz]
  split <;> simp

theorem start_deadline (now : Nat) (T N : UInt32) :
    deadlineUs (start now T N) = now + T.toNat * 1000 := by
  unfold deadlineUs start; exact setDelay_value now T

theorem refresh_deadline (t : Timer) (now : Nat) (h : (refresh t now).2 = .retransmit) :
    deadlineUs (refresh t now).1 = now + (refresh t now).1.delay.toNat * 1000 := by
  have ⟨hlt, _, hz⟩ := refresh_retransmit t now h
  have hlt' : ¬ (t.retrans ≥ t.maxRetrans) := by
    simp [UInt32.le_iff_toNat_le]; omega
  unfold refresh deadlineUs
  simp only [hz, beq_self_eq_true, if_true, hlt', if_false]
  exact setDelay_value now _

/-- every reachable deadline has `tv_usec ≤ 10^6` -/
theorem start_usec_le (now : Nat) (T N : UInt32) : (start now T N).dlUsec ≤ 1000000 :=
  setDelay_usec_le now T

theorem refresh_usec_le (t : Timer) (now : Nat) (h : t.dlUsec ≤ 1000000) :
    (refresh t now).1.dlUsec ≤ 1000000 := by
  unfold refresh
  split
  · split
    · exact h
    · exact setDelay_usec_le now _
  · exact h

/-- **C19_remainder_le_delay (general form).**  If the deadline is at most `D` ms away, the
    reported remainder is at most `D` ms (no wrap: `D + 1000 < 2^32`). -/
theorem remainder_le (t : Timer) (now D : Nat) (hu : t.dlUsec ≤ 1000000)
    (hd : deadlineUs t ≤ now + D * 1000) (hD : D + 1000 < 2 ^ 32) :
    (remainder t now).toNat ≤ D := by
  unfold deadlineUs at hd
  unfold remainder
  simp only
  split
  · simp
  · rename_i hns
    split
    · simp
    · rename_i hnz
      have hds : (t.dlSec - now / 1000000) * 1000 ≤ D + 1000 := by omega
      have hdsl : t.dlSec - now / 1000000 < 2 ^ 32 := by omega
      have h1 : (UInt32.ofNat (t.dlSec - now / 1000000)).toNat = t.dlSec - now / 1000000 := by
        rw [UInt32.toNat_ofNat']; exact Nat.mod_eq_of_lt hdsl
      have h2 : (UInt32.ofNat (t.dlSec - now / 1000000) * 1000).toNat
          = (t.dlSec - now / 1000000) * 1000 := by
        rw [UInt32.toNat_mul, h1]
        have : (1000 : UInt32).toNat = 1000 := rfl
        rw [this]; apply Nat.mod_eq_of_lt; omega
      unfold addUsecDiffMs
      split
      · rename_i hle
        have h3 : (UInt32.ofNat ((t.dlUsec - now % 1000000) / 1000)).toNat
            = (t.dlUsec - now % 1000000) / 1000 := by
          rw [UInt32.toNat_ofNat']; apply Nat.mod_eq_of_lt; omega
        rw [UInt32.toNat_add, h2, h3]
        have : ((t.dlSec - now / 1000000) * 1000 + (t.dlUsec - now % 1000000) / 1000) < 2 ^ 32 := by
          omega
        rw [Nat.mod_eq_of_lt this]
        omega
      · rename_i hgt
        have h3 : (UInt32.ofNat ((now % 1000000 - t.dlUsec) / 1000)).toNat
            = (now % 1000000 - t.dlUsec) / 1000 := by
          rw [UInt32.toNat_ofNat']; apply Nat.mod_eq_of_lt; omega
        -- here dlSec > nowSec, otherwise the early `return 0` was taken
        have hpos : 1 ≤ t.dlSec - now / 1000000 := by
          rcases Nat.eq_zero_or_pos (t.dlSec - now / 1000000) with h0 | h0
          · exfalso; apply hnz
            simp [h0]; omega
          · exact h0
        rw [UInt32.toNat_sub_of_le]
        · rw [h2, h3]; omega
        · rw [UInt32.le_iff_toNat_le, h2, h3]; omega

/-- **C19_remainder_le_delay.**  Right after `start`, and at any later instant, the remainder
    never exceeds the wait in force. -/
theorem C19_remainder_le_delay_start (now later : Nat) (T N : UInt32) (hl : now ≤ later)
    (hT : T.toNat + 1000 < 2 ^ 32) :
    (remainder (start now T N) later).toNat ≤ (start now T N).delay.toNat := by
  apply remainder_le _ _ _ (start_usec_le now T N) _ hT
  rw [start_deadline]; show now + T.toNat * 1000 ≤ later + T.toNat * 1000; omega

theorem C19_remainder_le_delay_refresh (t : Timer) (now later : Nat) (hl : now ≤ later)
    (h : (refresh t now).2 = .retransmit)
    (hT : (refresh t now).1.delay.toNat + 1000 < 2 ^ 32) :
    (remainder (refresh t now).1 later).toNat ≤ (refresh t now).1.delay.toNat := by
  have hu : (refresh t now).1.dlUsec ≤ 1000000 := by
    have ⟨hlt, _, hz⟩ := refresh_retransmit t now h
    have hlt' : ¬ (t.retrans ≥ t.maxRetrans) := by
      simp [UInt32.le_iff_toNat_le]; omega
    unfold refresh
    simp only [hz, beq_self_eq_true, if_true, hlt', if_false]
    exact setDelay_usec_le now _
  apply remainder_le _ _ _ hu _ hT
  rw [refresh_deadline t now h]; omega

/-- **C19_wait_schedule.**  In every reachable state the wait in force after the k-th
    transmission is `T·2^(k-1)` for `k < N'`, and half the previous one after the last
    (`T, 2T, T` for N = 3). -/
theorem C19_wait_schedule (now : Nat) (T N : UInt32) (hno : NoOverflow T N) (ps : List Nat) :
    let t := (run (start now T N) ps).1
    t.delay.toNat = specDelay T.toNat (nEff N) t.retrans.toNat ∧
    1 ≤ t.retrans.toNat ∧ t.retrans.toNat ≤ nEff N := by
  have h := run_inv T N hno ps _ (start_inv now T N)
  exact ⟨h.delay_eq, h.lo, h.hi⟩

/-- polling at or after every deadline ("arbitrarily late") -/
def LatePolls : Timer → List Nat → Prop
  | _, [] => True
  | t, p :: ps => deadlineUs t ≤ p ∧ LatePolls (refresh t p).1 ps

/-- **C19_exact_sequence.**  Polled at or after each deadline, a timer with `k` transmissions
    left answers `retransmit` exactly `k` times and `timeout` from then on. -/
theorem late_sequence (T N : UInt32) (hno : NoOverflow T N) (ps : List Nat) :
    ∀ t, Inv T N t → LatePolls t ps →
      (run t ps).2 = List.replicate (min (nEff N - t.retrans.toNat) ps.length) .retransmit ++
        List.replicate (ps.length - (nEff N - t.retrans.toNat)) .timeout := by
  induction ps with
  | nil => intro t _ _; simp [run]
  | cons p ps ih =>
    intro t hinv hl
    obtain ⟨hd, hl'⟩ := hl
    have hr := C19_timeout_reached t p hd
    have hinv' := refresh_inv T N hno t p hinv
    simp only [run]
    rw [ih _ hinv' hl']
    have hstep := refresh_retrans_step T N t p hinv
    have hmax := hinv.max_eq
    have hhi := hinv.hi
    have hlo := hinv.lo
    by_cases hge : t.retrans ≥ t.maxRetrans
    · -- exhausted: timeout, state unchanged
      rw [if_pos hge] at hr
      rw [hr] at hstep ⊢
      have hge' : N.toNat ≤ t.retrans.toNat := by
        rw [hmax] at hge; simpa [UInt32.le_iff_toNat_le] using hge
      have hz : nEff N - t.retrans.toNat = 0 := by unfold nEff at *; omega
      simp at hstep
      rw [hstep, hz]
      simp [List.replicate_succ]
    · rw [if_neg hge] at hr
      rw [hr] at hstep ⊢
      have hlt : t.retrans.toNat < N.toNat := by
        rw [hmax] at hge; simpa [UInt32.le_iff_toNat_le] using hge
      have hN : nEff N = N.toNat := by unfold nEff; omega
      simp at hstep
      rw [hstep, hN]
      have e1 : min (N.toNat - t.retrans.toNat) (ps.length + 1)
          = min (N.toNat - (t.retrans.toNat + 1)) ps.length + 1 := by omega
      have e2 : ps.length + 1 - (N.toNat - t.retrans.toNat)
          = ps.length - (N.toNat - (t.retrans.toNat + 1)) := by omega
      simp only [List.length_cons]
      rw [e1, e2, List.replicate_succ]
      rfl

/-- **C19_exact_sequence** from `start`: N'−1 retransmissions, then timeout for ever. -/
theorem C19_exact_sequence (now : Nat) (T N : UInt32) (hno : NoOverflow T N) (ps : List Nat)
    (hl : LatePolls (start now T N) ps) :
    (run (start now T N) ps).2 = List.replicate (min (nEff N - 1) ps.length) .retransmit ++
        List.replicate (ps.length - (nEff N - 1)) .timeout :=
  late_sequence T N hno ps _ (start_inv now T N) hl

/-- the property's parameter range satisfies the no-overflow hypothesis: T ≤ 10000, N ≤ 16 -/
theorem C19_range_no_overflow (T N : UInt32) (hT : T.toNat ≤ 10000) (hN : N.toNat ≤ 16) :
    NoOverflow T N := by
  unfold NoOverflow nEff
  have : 2 ^ (max N.toNat 1 - 1) ≤ 2 ^ 15 := pow_mono_le (by omega)
  calc T.toNat * 2 ^ (max N.toNat 1 - 1) ≤ 10000 * 2 ^ 15 := Nat.mul_le_mul hT this
    _ < 2 ^ 32 := by decide

/-! ### non-vacuity: the documented example T = 500 ms, N = 3 → waits 500, 1000, 500 -/
example : (run (start 0 500 3) [500000, 1500000, 2000000, 2000001]).2
    = [.retransmit, .retransmit, .timeout, .timeout] := by decide
example : LatePolls (start 0 500 3) [500000, 1500000, 2000000] := by
  refine ⟨by decide, by decide, by decide, trivial⟩
example : ((run (start 0 500 3) [500000]).1.delay, (run (start 0 500 3) [500000, 1500000]).1.delay)
    = (1000, 500) := by decide
example : (run (start 7 500 0) [500007, 600000]).2 = [.timeout, .timeout] := by decide
example : NoOverflow 500 3 := by unfold NoOverflow; decide

end Nice.Props.C19
