/-
  C07, usage-level builders: they propagate lack of space.  (Separate module because the lemmas live in
  Nice/Proofs/StunFinish.lean, which builds on Nice/Props/C07.lean; the C07 check audits this module,
  which re-exports everything of Nice.Props.C07.)
-/
import Nice.Props.C07
import Nice.Proofs.StunFinish
namespace Nice.Props.C07
open Nice.Stun Nice.Spec.Stun Nice.Gen

/-- The usage-level builders (binding request, binding keepalive, ICE connectivity check) propagate
    NOT_ENOUGH_SPACE: whatever they return is 0 — some append, the initialisation or the finish did
    not fit; the buffer keeps its size — or the length, within the caller's buffer, of a finished
    message in a well-formed builder state (which passes the library's validation and the independent
    parser, `built_wellformed`).  Capacities 0..65535; HMAC returns 20 bytes; SOFTWARE valid UTF-8. -/
theorem C07_usage_builders_propagate (H : Hashes) (hH : ∀ k t, (H.hmac k t).size = 20) (ag ag' : Agent)
    (buf id : Bytes) (r : Nat) (m : Msg) (hsw : SoftwareOk ag) (hcap : buf.size ≤ 65535) :
    (bindCreate H ag buf id = .ok (r, ag', m) → BuilderResult ag buf.size r m) ∧
    (bindKeepalive H ag buf id = .ok (r, ag', m) → BuilderResult ag buf.size r m) ∧
    (∀ username password candUse controlling priority tie candidateId compat,
      (∀ u, username = some u → u.size < 2 ^ 63) → (∀ c, candidateId = some c → c.size < 2 ^ 62) →
      iceConncheckCreate H ag buf id username password candUse controlling priority tie candidateId compat =
        .ok (r, ag', m) → BuilderResult ag buf.size r m) :=
  ⟨bindCreate_result H hH ag ag' buf id r m hsw hcap, bindKeepalive_result H hH ag ag' buf id r m hcap,
   fun username password candUse controlling priority tie candidateId compat hu hc h =>
     (iceConncheckCreate_good H hH ag buf id username password candUse controlling priority tie candidateId compat
       hsw hcap hu hc).2 r ag' m h⟩

/-- non-vacuity: the default agent (no SOFTWARE string set: PACKAGE_STRING is used) satisfies `SoftwareOk` -/
example : SoftwareOk (agentInit [] 1 0) := ⟨7, by rfl, by decide, by decide⟩

end Nice.Props.C07
