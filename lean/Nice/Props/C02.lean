/-
  C02 — application data arrives intact (kernels): copy helpers and the ICE-TCP frame split.
  Demultiplexing (control vs data) is in Nice.Props.C03 (C03_control_only_if_stun, C03_lookalike_delivered);
  reliable-mode byte stream = C08; RFC 4571 reassembly = C17.
-/
import Nice.Model.Copy
import Nice.Props.C03
import Nice.Props.C02Iter
namespace Nice.Props.C02
open Nice.Copy

theorem totalSize_eq (m : List Buf) : totalSize m = m.flatten.length := by
  induction m with
  | nil => rfl
  | cons b bs ih => simp [totalSize, List.length_flatten] at *

/-- **C02_copy_exact (compact).**  Compacting the first `n` bytes of a scatter message gives exactly
    the first `n` bytes of the concatenated buffers, for every buffer layout (empty buffers included). -/
theorem C02_compact_exact (m : List Buf) : ∀ n, compact m n = m.flatten.take n := by
  induction m with
  | nil => intro n; simp [compact]
  | cons b bs ih =>
    intro n
    simp only [compact, List.flatten_cons, ih]
    by_cases h : n ≤ b.length
    · have : min n b.length = n := by omega
      rw [this, List.take_append_of_le_length h]; simp
    · have hm : min n b.length = b.length := by omega
      rw [hm, List.take_append, List.take_of_length_le (by omega : b.length ≤ n),
        List.take_of_length_le (by omega : b.length ≤ b.length)]

/-- **C02_copy_exact (scatter).**  Copying `data` into a message with the given buffer sizes writes a
    prefix of `data`, reports its exact length, and loses nothing while space is left. -/
theorem C02_scatter_exact (sizes : List Nat) : ∀ data : Buf,
    (scatter sizes data).1.flatten = data.take (scatter sizes data).2 ∧
    (scatter sizes data).2 = min sizes.sum data.length := by
  induction sizes with
  | nil => intro data; simp [scatter]
  | cons sz szs ih =>
    intro data
    by_cases he : data.isEmpty = true
    · have : data = [] := List.isEmpty_iff.mp he
      subst this; simp [scatter]
    · obtain ⟨h1, h2⟩ := ih (data.drop (min sz data.length))
      have hs : scatter (sz :: szs) data =
          (data.take (min sz data.length) :: (scatter szs (data.drop (min sz data.length))).1,
           min sz data.length + (scatter szs (data.drop (min sz data.length))).2) := by
        simp [scatter, he]
      rw [hs]
      simp only [List.flatten_cons, h1, h2, List.length_drop, List.sum_cons]
      constructor
      · rw [List.take_add]
      · omega

/-- receive-side round trip: what `compact` reads back from the scattered buffers is the data -/
theorem C02_scatter_compact_roundtrip (sizes : List Nat) (data : Buf) (h : data.length ≤ sizes.sum) :
    compact (scatter sizes data).1 (scatter sizes data).2 = data := by
  obtain ⟨h1, h2⟩ := C02_scatter_exact sizes data
  rw [C02_compact_exact, h1, h2]
  have : min sizes.sum data.length = data.length := by omega
  rw [this]; simp

/-- one frame is exactly the next `n` bytes of the concatenated message from `o` -/
theorem gather_eq (m : List Buf) : ∀ o n, gather m o n = (m.flatten.drop o).take n := by
  induction m with
  | nil => intro o n; simp [gather]
  | cons b bs ih =>
    intro o n
    unfold gather
    split
    · rename_i h
      rw [ih, List.flatten_cons, List.drop_append]
      simp [List.drop_eq_nil_of_le h]
    · rename_i h
      have hlt : o < b.length := by omega
      simp only [ih, List.drop_zero, List.flatten_cons]
      rw [List.drop_append_of_le_length (by omega : o ≤ b.length)]
      by_cases hn : n ≤ b.length - o
      · have hm : min (b.length - o) n = n := by omega
        rw [hm, List.take_append_of_le_length (by simp; omega)]; simp
      · have hm : min (b.length - o) n = b.length - o := by omega
        rw [hm, List.take_append]
        simp only [List.length_drop]
        rw [List.take_of_length_le (by simp : (b.drop o).length ≤ b.length - o),
          List.take_of_length_le (by simp; omega : (b.drop o).length ≤ n)]

theorem splitLoop_flatten (m : List Buf) : ∀ fuel offset remaining, remaining < fuel →
    offset + remaining = m.flatten.length →
    (splitLoop m fuel offset remaining).flatten = m.flatten.drop offset ∧
    (∀ f ∈ splitLoop m fuel offset remaining, f.length ≤ frameLimit ∧ 0 < f.length) := by
  intro fuel
  induction fuel with
  | zero => intro o r h; omega
  | succ k ih =>
    intro o r hlt htot
    unfold splitLoop
    by_cases hr : r = 0
    · have : m.flatten.drop o = [] := List.drop_eq_nil_of_le (by omega)
      simp [hr, this]
    · simp only [hr, if_false]
      have hp : 0 < min r frameLimit := by unfold frameLimit; omega
      obtain ⟨h1, h2⟩ := ih (o + min r frameLimit) (r - min r frameLimit) (by omega) (by omega)
      refine ⟨?_, ?_⟩
      · rw [List.flatten_cons, h1, gather_eq]
        rw [← List.drop_drop]
        exact List.take_append_drop _ _
      · intro f hf
        rcases List.mem_cons.mp hf with rfl | hf
        · rw [gather_eq]
          simp only [List.length_take, List.length_drop]
          constructor <;> omega
        · exact h2 f hf

/-- **C02_tcp_frames_roundtrip (send side).**  For every message and every split of it over buffers
    (zero-length buffers included) the frames handed to the socket are non-empty, at most 0xF800 bytes
    each, and their concatenation in order is the message: nothing dropped, duplicated or reordered. -/
theorem C02_frames_concat (m : List Buf) :
    (splitFrames m).flatten = m.flatten ∧ ∀ f ∈ splitFrames m, f.length ≤ 0xF800 ∧ 0 < f.length := by
  unfold splitFrames
  have := splitLoop_flatten m (totalSize m + 1) 0 (totalSize m) (by omega) (by rw [totalSize_eq]; omega)
  simpa [frameLimit] using this

/-- control-vs-data demultiplexing (re-exported): lookalike payloads are delivered -/
theorem C02_demux (len : Nat) (fast full : Int) (status : Nat)
    (h : ¬ (fast = len ∧ full = len ∧ Nice.Gate.handled (Nice.Gate.gate status) = true)) :
    Nice.Gate.demux len fast full status true = .deliver :=
  Nice.Props.C03.C03_lookalike_delivered len fast full status h

/-! non-vacuity -/
example : gather [[1, 2, 3], [], [4, 5]] 2 3 = [3, 4, 5] := by decide
example : (scatter [2, 0, 5] [9, 8, 7, 6]) = ([[9, 8], [], [7, 6]], 4) := by decide
example : compact [[1, 2], [], [3]] 3 = [1, 2, 3] := by decide

end Nice.Props.C02
