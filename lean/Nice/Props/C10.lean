/-
  C10 — Hostile or foreign segments cannot corrupt, crash or overrun a pseudo-TCP socket.
  Theorems about `Nice.PTcp` (model of agent/pseudotcp.c).  The model is tied to the source by the ptcp_drv
  correspondence stream (checks/C10.py); constants, PACKET_MAXIMUMS, the set_state whitelist and the sequence-comparison
  kernels come from `Nice.Gen` (regenerated from the source on every run).
-/
import Nice.Proofs.PTcpRun
import Nice.Props.C10Kernels
namespace Nice.Props.C10
open Nice.PTcp Nice.Gen Nice.Proofs.PTcp

/-! ### entry checks: foreign, truncated and over-long packets -/

/-- big-endian 32-bit word at offset `o` (what `ntohl (*(guint32 *) (buf + o))` reads) -/
def be32 (p : Array UInt8) (o : Nat) : UInt32 :=
  ((p.getD o 0).toUInt32 <<< 24) ||| ((p.getD (o + 1) 0).toUInt32 <<< 16) |||
  ((p.getD (o + 2) 0).toUInt32 <<< 8) ||| (p.getD (o + 3) 0).toUInt32

theorem rd_ok (p : Array UInt8) (i : Nat) (h : i < p.size) : rd p i = .ok (p.getD i 0) := by
  unfold rd
  simp [h, pure, Except.pure, Array.getD]

theorem rd32_ok (p : Array UInt8) (o : Nat) (h : o + 3 < p.size) : rd32 p o = .ok (be32 p o) := by
  unfold rd32
  simp only [bind, Except.bind, rd_ok p o (by omega), rd_ok p (o + 1) (by omega), rd_ok p (o + 2) (by omega),
    rd_ok p (o + 3) (by omega), pure, Except.pure, be32]

theorem rd16_ok (p : Array UInt8) (o : Nat) (h : o + 1 < p.size) :
    rd16 p o = .ok (((p.getD o 0).toUInt16 <<< 8) ||| (p.getD (o + 1) 0).toUInt16) := by
  unfold rd16
  simp only [bind, Except.bind, rd_ok p o (by omega), rd_ok p (o + 1) (by omega), pure, Except.pure]

/-- **C10_wrong_conv_noop.**  For every byte string of acceptable length whose conversation number differs from the
    socket's, `notify_packet` returns FALSE, leaves every field of the socket unchanged and emits nothing (the event
    list `out` is a field of the state) — in every state, at every clock value. -/
theorem C10_wrong_conv_noop (s : Sock) (p : Array UInt8) (clk : UInt32)
    (hlo : HEADER_SIZE ≤ p.size) (hhi : p.size ≤ MAX_PACKET) (hconv : be32 p 0 ≠ s.conv) :
    notifyPacket s p clk = .ok (false, s) := by
  have h24 : HEADER_SIZE = 24 := rfl
  unfold notifyPacket
  have h1 : ¬ p.size > MAX_PACKET := by omega
  have h2 : ¬ p.size < HEADER_SIZE := by omega
  simp only [h1, h2, if_false]
  unfold parse
  simp only [bind, Except.bind, rd32_ok p 0 (by omega), rd32_ok p 4 (by omega), rd32_ok p 8 (by omega),
    rd_ok p 13 (by omega), rd16_ok p 14 (by omega), rd32_ok p 16 (by omega), rd32_ok p 20 (by omega)]
  unfold process
  simp [hconv, pure, Except.pure]

/-- non-vacuity: a 24-byte packet for conversation 1 at a fresh socket of conversation 0 -/
example : notifyPacket (Sock.init 0) (#[0, 0, 0, 1] ++ Array.replicate 20 (0 : UInt8)) 5 = .ok (false, Sock.init 0) :=
  C10_wrong_conv_noop (Sock.init 0) (#[0, 0, 0, 1] ++ Array.replicate 20 (0 : UInt8)) 5 (by decide) (by decide) (by decide)

/-- **C10_short_packet_noop.**  Every byte string shorter than the header is refused: FALSE, nothing emitted, the only
    field that changes is the errno (`EINVAL`). -/
theorem C10_short_packet_noop (s : Sock) (p : Array UInt8) (clk : UInt32) (h : p.size < HEADER_SIZE) :
    notifyPacket s p clk = .ok (false, { s with error := .EINVAL }) := by
  have h24 : HEADER_SIZE = 24 := rfl
  have hm : MAX_PACKET = 65532 := rfl
  unfold notifyPacket
  have h1 : ¬ p.size > MAX_PACKET := by omega
  simp [h1, h, pure, Except.pure]

example : notifyPacket (Sock.init 0) #[1, 2, 3] 5 = .ok (false, { Sock.init 0 with error := .EINVAL }) :=
  C10_short_packet_noop _ _ _ (by decide)

/-- **C10_long_packet_noop.**  Every byte string longer than MAX_PACKET is refused: FALSE, nothing emitted, errno
    `EMSGSIZE`. -/
theorem C10_long_packet_noop (s : Sock) (p : Array UInt8) (clk : UInt32) (h : p.size > MAX_PACKET) :
    notifyPacket s p clk = .ok (false, { s with error := .EMSGSIZE }) := by
  unfold notifyPacket
  simp [h, pure, Except.pure]

example : ∃ p : Array UInt8, p.size > MAX_PACKET := ⟨Array.replicate 65533 0, by simp; decide⟩

/-! ### option parsing never faults -/

theorem applyOption_total (s : Sock) (k : UInt8) (p : Array UInt8) (off len : Nat) (h : off + len ≤ p.size) :
    ∃ s', applyOption s k p off len = .ok s' := by
  unfold applyOption
  split
  · exact ⟨_, rfl⟩
  · split
    · split
      · exact ⟨_, rfl⟩
      · rename_i hl
        have : len = 1 := by omega
        simp only [bind, Except.bind, rd_ok p off (by omega), pure, Except.pure]
        exact ⟨_, rfl⟩
    · split <;> exact ⟨_, rfl⟩

/-- **C10_parse_options_no_fault.**  The option parser terminates (its `termination_by` is the remaining length) and
    never reads outside `p[base, base+len)` nor faults, for every byte string, every start position and every state. -/
theorem C10_parse_options_no_fault (p : Array UInt8) (base len : Nat) (hb : base + len ≤ p.size) :
    ∀ (pos : Nat) (s : Sock) (w f : Bool), ∃ r, parseOptionsLoop s p base len pos w f = .ok r := by
  intro pos
  induction hn : len - pos using Nat.strongRecOn generalizing pos with
  | _ n ih =>
    intro s w f
    unfold parseOptionsLoop
    by_cases h1 : pos < len
    · simp only [h1, dite_true]
      have h2 : ¬ len < pos + 1 := by omega
      simp only [h2, if_false, bind, Except.bind, rd_ok p (base + pos) (by omega)]
      split
      · exact ⟨_, rfl⟩
      · split
        · exact ih _ (by omega) (pos + 1) rfl s w f
        · split
          · exact ⟨_, rfl⟩
          · rename_i h3
            simp only [rd_ok p (base + (pos + 1)) (by omega)]
            split
            · exact ⟨_, rfl⟩
            · rename_i h4
              split
              · obtain ⟨s1, hs1⟩ := applyOption_total s (p.getD (base + pos) 0) p (base + (pos + 1 + 1))
                  (p.getD (base + (pos + 1)) 0).toNat (by omega)
                simp only [hs1]
                exact ih _ (by omega) _ rfl s1 _ _
              · exact ⟨_, rfl⟩
    · simp only [h1, dite_false, pure, Except.pure]
      exact ⟨_, rfl⟩

example : ∃ r, parseOptionsLoop (Sock.init 0) #[0, 3, 1, 200, 254, 1, 0] 1 6 0 false false = .ok r :=
  C10_parse_options_no_fault _ 1 6 (by decide) 0 _ _ _

/-- **only a well-formed window-scale option changes the peer's scale factor**: every other option kind (the unsupported
    MSS option included, whatever its length) and a window-scale option of the wrong length leave `swnd_scale` as it was. -/
theorem C10_only_window_scale_option_sets_scale (s s' : Sock) (kind : UInt8) (p : Array UInt8) (off len : Nat)
    (h : applyOption s kind p off len = .ok s') (hk : kind.toNat ≠ TCP_OPT_WND_SCALE ∨ len ≠ 1) :
    s'.swnd_scale = s.swnd_scale := by
  unfold applyOption at h
  split at h
  · cases h; rfl
  · split at h
    · rename_i hws
      split at h
      · cases h; rfl
      · rename_i hl; rcases hk with hk | hk
        · exact absurd hws hk
        · exact absurd (by simpa using hl) hk
    · split at h <;> (cases h; rfl)

/-! ### window scale: the shifts are always defined -/

/-- **C10_shift_no_fault.**  With a scale factor of at most 14 the C expression `seg->wnd << swnd_scale` (an `int`
    shift of a 16-bit value) is defined for every window value. -/
theorem C10_shift_no_fault (wnd : UInt16) (scale : UInt8) (h : scale ≤ 14) : ∃ v, shiftWnd wnd scale = .ok v := by
  unfold shiftWnd
  have hs : scale.toNat ≤ 14 := by
    have := UInt8.le_iff_toNat_le.mp h
    simpa using this
  have hw : wnd.toNat < 65536 := wnd.toNat_lt
  have hp : 2 ^ scale.toNat ≤ 2 ^ 14 := Nat.pow_le_pow_right (by omega) hs
  have : wnd.toNat * 2 ^ scale.toNat < 2 ^ 31 := by
    calc wnd.toNat * 2 ^ scale.toNat ≤ 65535 * 2 ^ 14 := Nat.mul_le_mul (by omega) hp
      _ < 2 ^ 31 := by decide
  have h1 : ¬ (scale.toNat ≥ 32 ∨ wnd.toNat * 2 ^ scale.toNat ≥ 2 ^ 31) := by omega
  simp only [h1, if_false]
  exact ⟨_, rfl⟩

/-- **C10_swnd_scale_le_14.**  After every history of public operations — arbitrary packets (any option list, scale
    factors up to 255), clock values, `WritePacket` results — the peer's scale factor kept by the socket is at most 14 and
    the local one is below 32; so by `C10_shift_no_fault` neither window shift is ever undefined. -/
theorem C10_swnd_scale_le_14 (conv : UInt32) (ops : List (UInt32 × Op)) (s' : Sock)
    (h : run (Sock.init conv) ops = .ok s') : s'.swnd_scale ≤ 14 ∧ s'.rwnd_scale < 32 :=
  let i := run_inv0 ops _ s' (init_inv0 conv) h
  ⟨i.sws, i.rws⟩

example : run (Sock.init 7) [(5, .setTime 9), (5, .setWres .fail)] = .ok (setTime { Sock.init 7 with wres := .fail } 9) := rfl

/-! ### fifo bounds -/

/-- **C10_fifo_ok_preserved.**  Every PseudoTcpFifo operation keeps `data_length <= buffer_length` and
    `read_position < buffer_length` (piece 1 of the invariant), whatever its arguments. -/
theorem C10_fifo_ok_preserved (b : Fifo) (hb : FifoOk b) (hc : b.buf.size < 2 ^ 64) :
    (∀ n b', b.consumeReadData n = .ok b' → FifoOk b') ∧
    (∀ n b', b.consumeWriteBuffer n = .ok b' → FifoOk b') ∧
    (∀ src so n off c b', b.writeOffset src so n off = .ok (c, b') → FifoOk b') ∧
    (∀ src n c b', b.write src n = .ok (c, b') → FifoOk b') ∧
    (∀ n out b', b.read n = .ok (out, b') → FifoOk b') ∧
    (∀ n r b', b.setCapacity n = .ok (r, b') → FifoOk b') :=
  ⟨fun _ _ h => (consumeReadData_ok hb h).1, fun _ _ h => (consumeWriteBuffer_ok hb hc h).1,
   fun _ _ _ _ _ _ h => (writeOffset_ok hb h).1, fun _ _ _ _ h => (write_ok hb hc h).1,
   fun _ _ _ h => (read_ok hb hc h).1, fun _ _ _ h => (setCapacity_ok hb h).1⟩

example : FifoOk (Fifo.init 8) := fifo_init_ok 8 (by decide)

/-- **C10_rbuf_bounded.**  After every history of public operations the undelivered data never exceeds the receive
    ring: `get_available_bytes <= buffer_length` (and the same for the send ring). -/
theorem C10_rbuf_bounded (conv : UInt32) (ops : List (UInt32 × Op)) (s' : Sock)
    (h : run (Sock.init conv) ops = .ok s') :
    getAvailableBytes s' ≤ s'.rbuf.buf.size ∧ s'.sbuf.data ≤ s'.sbuf.buf.size :=
  let i := run_inv0 ops _ s' (init_inv0 conv) h
  ⟨i.rb.1.1, i.sb.1.1⟩

/-! ### the send window -/

/-- an ESTABLISHED socket with 4 never-sent bytes queued whose peer advertised a window of 1 byte -/
def windowWitness : Sock :=
  { Sock.init 1 with
    state := .established, current_time := 1000, lastsend := 1000,
    sbuf := { buf := #[1, 2, 3, 4, 0, 0, 0, 0], data := 4, rpos := 0 },
    rbuf := Fifo.init 8, rbuf_len := 8, rcv_wnd := 8,
    slist := [{ seq := 0, len := 4, xmit := 0, flags := 0, unsent := true }],
    snd_wnd := 1, mss := 1284, cwnd := 2568 }

/-- "after the call more sequence space is in flight than the advertised window + 1 (the FIN's sequence number)" -/
def newDataBeyondWindow (s : Sock) (r : R Sock) : Bool :=
  match r with
  | .ok s' => decide ((s'.snd_nxt - s'.snd_una).toNat > s.snd_wnd.toNat + 1)
  | .error _ => false

/-- **C10_respects_window is FALSE for the code as it is** (KNOWN finding C10-fin-rst-flush): `shutdown (WR)` on the
    witness transmits all 4 queued bytes although the peer's window is 1 — `attempt_send (sfFin)` (and `sfRst`) skips
    the window test and loops until `unsent_slist` is empty.  Checked by kernel evaluation of the model; the same
    schedule on the real code is corpus/C10/fin_flush_beyond_window.ops. -/
theorem C10_respects_window_counterexample :
    newDataBeyondWindow windowWitness (shutdown windowWitness .wr 1000) = true := by decide +kernel

theorem u32_sub_toNat {a b : UInt32} (h : b < a) : (a - b).toNat = a.toNat - b.toNat :=
  UInt32.toNat_sub_of_le _ _ (UInt32.le_of_lt h)

/-- **C10_respects_window_partial.**  Outside the FIN / RST flush the number of new bytes `attempt_send` is prepared to
    hand to `transmit` in one round (`nAvailable`; the segment is split to this length right before the call, and
    `transmit` advances `snd_nxt` by at most the segment length) never exceeds what the window most recently advertised
    by the peer leaves open: `nAvailable = 0`, or `in flight + nAvailable <= snd_wnd` — for every state.
    Missing for the full statement: the composition over the whole `attempt_send` loop and `process` (needs a spec of
    `transmit`'s effect on `snd_nxt`), and it is false for `sfFin` / `sfRst` (see the counterexample above). -/
theorem C10_respects_window_partial (s : Sock) :
    nAvailableOf s = 0 ∨ (s.snd_nxt - s.snd_una).toNat + (nAvailableOf s).toNat ≤ s.snd_wnd.toNat := by
  unfold nAvailableOf
  simp only
  generalize hcw : (if (s.dup_acks == 1 || s.dup_acks == 2) = true then s.cwnd + s.dup_acks.toUInt32 * s.mss else s.cwnd) = cw
  generalize hfl : s.snd_nxt - s.snd_una = fl
  generalize hav : (if s.sbuf.getBuffered < fl.toNat then (0 : UInt32)
      else UInt32.ofNat (min (gsub s.sbuf.getBuffered fl.toNat) s.mss.toNat)) = av
  have hmin : (min s.snd_wnd cw).toNat ≤ s.snd_wnd.toNat := by
    have : min s.snd_wnd cw = if s.snd_wnd ≤ cw then s.snd_wnd else cw := rfl
    rw [this]; split
    · exact Nat.le_refl _
    · rename_i h; rw [UInt32.le_iff_toNat_le] at h; omega
  by_cases h1 : fl < min s.snd_wnd cw
  · simp only [h1, if_true]
    have hs := u32_sub_toNat h1
    have h1' := UInt32.lt_iff_toNat_lt.mp h1
    split
    · split
      · left; rfl
      · right; rw [hs]; omega
    · rename_i h2
      right
      have : av.toNat ≤ (min s.snd_wnd cw - fl).toNat := by
        have := UInt32.not_lt.mp h2
        exact UInt32.le_iff_toNat_le.mp this
      rw [hs] at this; omega
  · simp only [h1, if_false]
    split
    · split
      · left; rfl
      · left; rfl
    · rename_i h2
      left
      have := UInt32.not_lt.mp h2
      have h0 : av.toNat ≤ (0 : UInt32).toNat := UInt32.le_iff_toNat_le.mp this
      have : av.toNat = 0 := by simpa using h0
      exact UInt32.toNat_inj.mp (by simpa using this)

example : nAvailableOf windowWitness = 1 ∧ windowWitness.snd_wnd = 1 := by decide +kernel

/-! ### the invariant -/

/-- **C10_inv_preserved_partial.**  The part of the invariant of DESIGN section 5a that is proved for ALL histories of
    ALL public operations with arbitrary arguments (notify_packet over all byte strings): fifo bounds of both rings
    (piece 1), `MIN_RTO <= rx_rto <= MAX_RTO` (piece 6) and the window-scale bounds.
    Missing for the full `C10_inv_preserved`: SendTiling (piece 2), RecvWindow (3), RlistOk (4), StateOk (5), the
    `rto_base` half of TimerOk (6) and therefore `C10_no_fault` (absence of `Fault` in every operation) and
    `C10_respects_window`; these are checked by the correspondence and oracle streams of checks/C10.py only. -/
theorem C10_inv_preserved_partial (conv : UInt32) (ops : List (UInt32 × Op)) (s' : Sock)
    (h : run (Sock.init conv) ops = .ok s') : Inv0 s' :=
  run_inv0 ops _ s' (init_inv0 conv) h

example : Inv0 (Sock.init 3) := init_inv0 3

end Nice.Props.C10
