import Nice.Gen.Kernels
import Nice.Model.PTcp
/-! # C08/C09/C10: the pseudo-TCP model's state predicates and ring accounting ARE the code's

The hand-written segment-level model (`Nice.Model.PTcp`) decides "has this socket sent / received a FIN / a FIN-ACK"
with `hasSentFin`, `hasReceivedFin`, `hasReceivedFinAck`, and computes send/receive room with `Fifo.getBuffered` /
`Fifo.getWriteRemaining`.  The C functions they stand for — `pseudo_tcp_state_has_sent_fin`,
`pseudo_tcp_state_has_received_fin`, `pseudo_tcp_state_has_received_fin_ack`, `pseudo_tcp_fifo_get_buffered`,
`pseudo_tcp_fifo_get_write_remaining` — are REGENERATED from agent/pseudotcp.c on every run (`tools/extract.py`
KERNELS / FIELD_KERNELS).  The theorems below prove, for every state and every ring, that the model's definitions
equal the regenerated ones, so an edit of one of those switch tables or of the ring arithmetic breaks a proof
obligation here (in addition to the differential tie), and they state the facts about them that the stream /
progress theorems rely on. -/
namespace Nice.Props.C10Kernels
open Nice.Gen Nice.PTcp

/-- the model's `hasSentFin` is the regenerated `pseudo_tcp_state_has_sent_fin`, for every state -/
theorem C10_model_has_sent_fin_is_code (st : TcpState) :
    (pseudo_tcp_state_has_sent_fin (UInt32.ofNat st.toNat) != 0) = hasSentFin st := by
  cases st <;> decide

/-- the model's `hasReceivedFin` is the regenerated `pseudo_tcp_state_has_received_fin` -/
theorem C10_model_has_received_fin_is_code (st : TcpState) :
    (pseudo_tcp_state_has_received_fin (UInt32.ofNat st.toNat) != 0) = hasReceivedFin st := by
  cases st <;> decide

/-- the model's `hasReceivedFinAck` is the regenerated `pseudo_tcp_state_has_received_fin_ack` -/
theorem C10_model_has_received_fin_ack_is_code (st : TcpState) :
    (pseudo_tcp_state_has_received_fin_ack (UInt32.ofNat st.toNat) != 0) = hasReceivedFinAck st := by
  cases st <;> decide

/-- **on the regenerated code, for every 32-bit value of the state field** (not only the eleven enumerators):
    a socket that has seen the peer's FIN-ACK has both sent its own FIN and received the peer's — the order the
    end-of-stream theorems of C08 (`recv()==0` only after everything was read) and the give-up rule of C09 build on. -/
theorem C10_fin_ack_implies_both_fins (state : UInt32)
    (h : pseudo_tcp_state_has_received_fin_ack state ≠ 0) :
    pseudo_tcp_state_has_sent_fin state ≠ 0 ∧ pseudo_tcp_state_has_received_fin state ≠ 0 := by
  unfold pseudo_tcp_state_has_received_fin_ack at h
  split at h
  · exact absurd rfl h
  · split at h
    · rename_i h4
      simp only [Bool.or_eq_true, beq_iff_eq] at h4
      rcases h4 with h4 | h4 <;> subst h4 <;> decide
    · exact absurd rfl h

/-- a state in which no FIN has been sent or received is one of the five pre-close states: the predicates never
    answer TRUE for LISTEN, SYN-SENT, SYN-RECEIVED or ESTABLISHED (so data transfer is never mistaken for closing) -/
theorem C10_open_states_have_no_fin (st : TcpState)
    (h : st = .listen ∨ st = .synSent ∨ st = .synReceived ∨ st = .established) :
    pseudo_tcp_state_has_sent_fin (UInt32.ofNat st.toNat) = 0 ∧
    pseudo_tcp_state_has_received_fin (UInt32.ofNat st.toNat) = 0 ∧
    pseudo_tcp_state_has_received_fin_ack (UInt32.ofNat st.toNat) = 0 := by
  rcases h with h | h | h | h <;> subst h <;> decide

/-- the model's ring accounting (`gsub`, arithmetic modulo 2^64 on `Nat`) is the regenerated `gsize` arithmetic -/
theorem C10_model_write_remaining_is_code (b : Fifo) (hc : b.cap < 2 ^ 64) (hd : b.data < 2 ^ 64) :
    (fifo_get_write_remaining (UInt64.ofNat b.cap) (UInt64.ofNat b.data)).toNat = b.getWriteRemaining := by
  unfold fifo_get_write_remaining Fifo.getWriteRemaining gsub
  rw [UInt64.toNat_sub, UInt64.toNat_ofNat_of_lt' hc, UInt64.toNat_ofNat_of_lt' hd]
  show (18446744073709551616 - b.data + b.cap) % 18446744073709551616 = _
  have : b.data % 2 ^ 64 = b.data := Nat.mod_eq_of_lt hd
  rw [this]
  show _ = (b.cap + 18446744073709551616 - b.data) % 18446744073709551616
  omega

theorem C10_model_buffered_is_code (b : Fifo) (hd : b.data < 2 ^ 64) :
    (fifo_get_buffered (UInt64.ofNat b.data)).toNat = b.getBuffered := by
  unfold fifo_get_buffered Fifo.getBuffered
  exact UInt64.toNat_ofNat_of_lt' hd

/-- **no wrap under the ring invariant**: while `data_length ≤ buffer_length` (part of `Inv0`, proved for every
    history in `Props/C10`), buffered + room = capacity exactly, on the regenerated arithmetic -/
theorem C10_buffered_plus_room_is_capacity (cap data : UInt64) (h : data ≤ cap) :
    (fifo_get_buffered data).toNat + (fifo_get_write_remaining cap data).toNat = cap.toNat := by
  unfold fifo_get_buffered fifo_get_write_remaining
  rw [UInt64.toNat_sub_of_le _ _ h]
  have := UInt64.le_iff_toNat_le.mp h
  omega

/-- `pseudo_tcp_socket_is_closed_remotely` in the model answers what the regenerated predicate answers on the state field -/
theorem C10_is_closed_remotely_is_code (s : Sock) :
    isClosedRemotely s = (pseudo_tcp_state_has_received_fin (UInt32.ofNat s.state.toNat) != 0) := by
  unfold isClosedRemotely
  exact (C10_model_has_received_fin_is_code s.state).symm

/-- `pseudo_tcp_socket_get_available_send_space` in the model, written with the regenerated kernels only: no room is
    offered once our FIN is out, otherwise exactly the ring's room -/
theorem C10_available_send_space_is_code (s : Sock) (hc : s.sbuf.cap < 2 ^ 64) (hd : s.sbuf.data < 2 ^ 64) :
    (getAvailableSendSpace s).1 =
      (if pseudo_tcp_state_has_sent_fin (UInt32.ofNat s.state.toNat) != 0 then 0
       else (fifo_get_write_remaining (UInt64.ofNat s.sbuf.cap) (UInt64.ofNat s.sbuf.data)).toNat) := by
  unfold getAvailableSendSpace
  rw [C10_model_has_sent_fin_is_code, C10_model_write_remaining_is_code _ hc hd]
  cases hasSentFin s.state <;> simp

/-- a socket that reports "closed remotely" never reports it while still in a data-transfer state, and a socket whose
    FIN is out offers no send space (the two public answers applications use to stop reading / writing) -/
theorem C10_no_send_space_after_fin (s : Sock) (h : hasSentFin s.state = true) :
    (getAvailableSendSpace s).1 = 0 ∧ (canSend s).1 = false := by
  unfold canSend getAvailableSendSpace
  simp [h]

/-- … and without the invariant the room wraps to a huge value (why the invariant matters): kernel-checked witness -/
example : (fifo_get_write_remaining 4 5).toNat = 2 ^ 64 - 1 := by decide

-- non-vacuity: the eleven enumerators, as the code numbers them
example : pseudo_tcp_state_has_received_fin_ack 4 = 1 ∧ pseudo_tcp_state_has_received_fin_ack 8 = 1
    ∧ pseudo_tcp_state_has_sent_fin 9 = 0 ∧ pseudo_tcp_state_has_received_fin 9 = 1 := by decide

end Nice.Props.C10Kernels
