/-
  C17 — Stream-based socket layers are independent of how TCP segments the bytes.

  Machines (Nice/Model/*): TurnTcp (udp-turn-over-tcp.c), Rfc4571 (agent.c ICE-TCP framing), Http,
  Socks5, PseudoSsl, SendQueue (tcp-bsd.c + socket.c), over `Nice.Sock.Base` (tcp-bsd.c receive over a
  kernel stream).  `Nice.Sock.feed` is the receive loop the driver executes and the harness runs against
  the real code; `feedAll m _ s b chunks` delivers the stream `chunks.flatten` cut as `chunks`.

  What is proved here
    * TurnTcp: segmentation independence at FULL strength (every mode / stream / cut list; frames
      without payload included since f7890e0), no buffer fault for ANY input and any base state;
    * Rfc4571: segmentation independence at FULL strength, delivered messages = reference frame parser,
      no fault; send side (a5ed163): every packet is the next <= 0xF800 bytes of the message, read inside
      the buffers, for any number of buffers (= Nice.Copy.gather of Props/C02);
    * Socks5 / PseudoSsl / Http: NOT segmentation independent on the unchanged tree — witnesses;
      per-call independence when the reply is whole (`_partial`); tunnel identity once connected,
      for every cut list; HTTP additionally loses coalesced payload (witness) and its receive window
      stays inside the ring;
    * SendQueue (2caa19c): accepted-bytes ++ backlog = concatenation of accepted frames for every
      partial-write pattern and messages of any number of buffers, flush lemma.
  Helper lemmas: Nice/Proofs/C17*.lean.
-/
import Nice.Proofs.C17SendQueue
import Nice.Proofs.C17Tunnel
import Nice.Proofs.C17TurnTcp
import Nice.Proofs.C17Handshake
import Nice.Proofs.C17Rfc4571
import Nice.Props.C02
set_option maxRecDepth 100000
namespace Nice.Props.C17
open Nice.Sock Nice.Drv

/-! ## TURN-over-TCP framing (socket/udp-turn-over-tcp.c) -/
section TurnTcp
open Nice.TurnTcp

/-- **C17, TURN-over-TCP, no fault**: for every compatibility mode, every byte stream, every way
    of cutting it into reads, and any state of the TCP socket below (error, shut down), no index
    computed by `socket_recv_message` leaves the 65536-byte `recv_buf` and no unsigned size wraps. -/
theorem C17_turntcp_no_fault (c : Compat) (b : Base) (chunks : List Bytes) :
    (feedAll turnTcpM (fun _ => 0) { compat := c } b chunks).1.fault = false := by
  have key : ∀ (x : St × Base × Obs), WInv x.1 → WInv (chunks.foldl (feed turnTcpM (fun _ => 0)) x).1 := by
    induction chunks with
    | nil => intro x h; exact h
    | cons ch cs ih =>
      intro x h
      simp only [List.foldl_cons]
      apply ih
      exact pump_winv _ _ _ _ h
  have h0 : WInv ({ compat := c } : St) := by
    refine ⟨rfl, fun _ hl hh => by simp, fun h => by simp at h⟩
  exact (key ({ compat := c }, b, {}) h0).1

/-- non-vacuity: the maximum-length header (`00 01 ff ff`, RFC 5766 mode) is refused, not stored -/
example : (feedAll turnTcpM (fun _ => 0) { compat := .rfc5766 } {} [[0, 1, 0xff, 0xff], [0, 0]]).2.2.rets = [-1, -1] := by
  decide
/-- **C17, TURN-over-TCP, segmentation independence** (full strength): for every compatibility mode,
    every byte stream `s` and EVERY way `cs` of cutting it into at least one read (any number of
    cuts, empty reads allowed), the final layer state, the messages delivered upward with their
    boundaries, the bytes written downward and the error outcome are the same as when `s` arrives in
    one read.  Frames without payload are covered: since f7890e0 no zero-size read is issued. -/
theorem C17_turntcp_split_independent (c : Compat) (s : Bytes) (cs : List Bytes)
    (hs : cs.flatten = s) (hne : cs ≠ []) :
    tOut (feedAll turnTcpM (fun _ => 0) { compat := c } {} cs) =
    tOut (feedAll turnTcpM (fun _ => 0) { compat := c } {} [s]) := by
  cases hh : headerLen c with
  | none =>
    have hc : c = .msn := by cases c <;> simp [headerLen] at hh; rfl
    subst hc
    obtain ⟨a1, a2, a3, a4, _⟩ := msn_feedAll cs (({ compat := .msn } : St), ({} : Base), ({} : Obs)) rfl rfl
    obtain ⟨b1, b2, b3, b4, _⟩ := msn_feedAll [s] (({ compat := .msn } : St), ({} : Base), ({} : Obs)) rfl rfl
    simp only [feedAll, tOut, TOut.mk.injEq, Obs.wire]
    refine ⟨by rw [a1, b1], by rw [a2, b2], by rw [a3, b3], by rw [a4 hne, b4 (by simp)]⟩
  | some hl =>
    have i1 := feedAll_inv hl c cs [] _ (init_inv hl c hh)
    have i2 := feedAll_inv hl c [s] [] _ (init_inv hl c hh)
    simp only [List.nil_append, hs] at i1
    simp only [List.nil_append, List.flatten_cons, List.flatten_nil, List.append_nil] at i2
    simp only [feedAll]
    rw [tOut_of_inv hl c s _ i1, tOut_of_inv hl c s _ i2]

/-- non-vacuity: two frames + a partial third, cut inside a header and inside a payload -/
example : (tOut (feedAll turnTcpM (fun _ => 0) { compat := .rfc5766 } {}
    [[0x40, 0, 0], [1, 0xaa, 0, 0, 0, 0x40, 1, 0, 2, 0xbb], [0xcc, 0, 0, 0x40]])).msgs =
    [[0x40, 0, 0, 1, 0xaa, 0, 0, 0], [0x40, 1, 0, 2, 0xbb, 0xcc, 0, 0]] := by decide

/-- the former counter-example (ChannelData with an empty payload followed by a second frame,
    corpus/C17/turntcp_zero_frame.ops): both deliveries now hand up both frames -/
example :
    (tOut (feedAll turnTcpM (fun _ => 0) { compat := .rfc5766 } {} [[0x40, 0, 0, 0], [0x40, 0, 0, 2, 0xbb, 0xcc, 0, 0]])).msgs =
      [[0x40, 0, 0, 0], [0x40, 0, 0, 2, 0xbb, 0xcc, 0, 0]] ∧
    (tOut (feedAll turnTcpM (fun _ => 0) { compat := .rfc5766 } {} [[0x40, 0, 0, 0, 0x40, 0, 0, 2, 0xbb, 0xcc, 0, 0]])).msgs =
      [[0x40, 0, 0, 0], [0x40, 0, 0, 2, 0xbb, 0xcc, 0, 0]] := by decide

end TurnTcp

/-- **C17, tunnels**: once the SOCKS5 / pseudo-SSL / HTTP handshake is over, for EVERY sequence of
    reads the bytes delivered upward are exactly the bytes received, in order. -/
theorem C17_socks5_tunnel_identity (s : Nice.Socks5.St) (h : s.state = .connected) (b : Base)
    (hb : Base.Healthy b) (hp : b.pend = []) (chunks : List Bytes) :
    (feedAll socks5M (fun _ => 0) s b chunks).2.2.stream = chunks.flatten ∧
    (feedAll socks5M (fun _ => 0) s b chunks).1 = s :=
  let t := tunnel_feedAll socks5M (fun _ => 0) s (socks5_isTunnel s h) b hb hp chunks
  ⟨t.2.2.1, t.1⟩

theorem C17_pseudossl_tunnel_identity (s : Nice.PseudoSsl.St) (h : s.handshaken = true) (b : Base)
    (hb : Base.Healthy b) (hp : b.pend = []) (chunks : List Bytes) :
    (feedAll psslM (fun _ => 0) s b chunks).2.2.stream = chunks.flatten ∧
    (feedAll psslM (fun _ => 0) s b chunks).1 = s :=
  let t := tunnel_feedAll psslM (fun _ => 0) s (pssl_isTunnel s h) b hb hp chunks
  ⟨t.2.2.1, t.1⟩

theorem C17_http_tunnel_identity (s : Nice.Http.St) (h : s.state = .connected) (b : Base)
    (hb : Base.Healthy b) (hp : b.pend = []) (chunks : List Bytes) :
    (feedAll httpM (fun _ => 0) s b chunks).2.2.stream = chunks.flatten ∧
    (feedAll httpM (fun _ => 0) s b chunks).1 = s :=
  let t := tunnel_feedAll httpM (fun _ => 0) s (http_isTunnel s h) b hb hp chunks
  ⟨t.2.2.1, t.1⟩

/-- non-vacuity of the tunnel hypotheses -/
example : Base.Healthy {} ∧ ({} : Base).pend = [] := ⟨⟨rfl, rfl, rfl⟩, rfl⟩

/-! ## SOCKS5 (socket/socks5.c) -/

def socks5Init : Nice.Socks5.St := (Nice.Socks5.new none none false [1, 2, 3, 4] 5678 {}).2
/-- method reply `05 00`, connect reply `05 00 00 01` + IPv4 address/port, then `hi` -/
def s5stream : Bytes := [5, 0, 5, 0, 0, 1, 10, 11, 12, 13, 0x11, 0x22, 0x68, 0x69]

/-- **SOCKS5 is not segmentation independent**: the replies delivered whole connect and tunnel `hi`;
    delivered one byte per read the handshake fails (the code tests the capacity it passed in, not the
    number of bytes received, and parses the never-written tail of its reply array).
    Same input as corpus/C17/socks5_split.ops. -/
theorem C17_socks5_split_dependent :
    ∃ (s : Bytes) (cs : List Bytes), cs.flatten = s ∧ (∀ c ∈ cs, c ≠ []) ∧
      (feedAll socks5M (fun _ => 0) socks5Init {} cs).1.state ≠ (feedAll socks5M (fun _ => 0) socks5Init {} [s]).1.state :=
  ⟨s5stream, s5stream.map (fun x => [x]), by decide, by decide, by decide⟩

example : (feedAll socks5M (fun _ => 0) socks5Init {} [s5stream]).1.state = .connected ∧
          (feedAll socks5M (fun _ => 0) socks5Init {} [s5stream]).2.2.stream = [0x68, 0x69] := by decide

/-- the complete reply the client reads in one call of a handshake state: 2 bytes (method / auth), or
    a 4-byte CONNECT head that is refused (the accepted head continues with a second read for the
    bound address, which must already be pending — `C17_socks5_split_dependent`) -/
def Socks5.WholeReply (s : Nice.Socks5.St) (r : Bytes) : Prop :=
  (s.state = .init ∧ r.length = 2) ∨ (s.state = .auth ∧ r.length = 2) ∨
  (s.state = .connect ∧ r.length = 4 ∧
    ¬ (r.getD 0 0 = 5 ∧ r.getD 1 0 = 0 ∧ r.getD 2 0 = 0 ∧ (r.getD 3 0 = 1 ∨ r.getD 3 0 = 4)))

/-- **C17, SOCKS5, each reply arrives whole** (`_partial`, per-call form): in every handshake state,
    when the complete reply is pending, the result of the receive call, the next state and the bytes
    written to the proxy are the same whatever follows the reply in the stream, and exactly the reply
    is consumed — a read boundary AT a reply boundary is harmless.  Missing for the full statement:
    iteration over the session, and CONNECT replies carrying a bound address (two reads). -/
theorem C17_socks5_whole_replies_partial (s : Nice.Socks5.St) (b : Base) (hb : Base.Healthy b) (r rest rest' : Bytes)
    (hw : Socks5.WholeReply s r) :
    (Nice.Socks5.recv s { b with pend := r ++ rest }).1 = (Nice.Socks5.recv s { b with pend := r ++ rest' }).1 ∧
    (Nice.Socks5.recv s { b with pend := r ++ rest }).2.1 = (Nice.Socks5.recv s { b with pend := r ++ rest' }).2.1 ∧
    (Nice.Socks5.recv s { b with pend := r ++ rest }).2.2.pend = rest ∧
    (Nice.Socks5.recv s { b with pend := r ++ rest' }).2.2.pend = rest' := by
  have hne : r ≠ [] := by
    intro h; subst h
    rcases hw with ⟨_, h⟩ | ⟨_, h⟩ | ⟨_, h, _⟩ <;> simp at h
  have hcap : ∃ cap, r.length = cap ∧ ((s.state = .init ∧ cap = 2) ∨ (s.state = .auth ∧ cap = 2) ∨
      (s.state = .connect ∧ cap = 4 ∧ ¬ (r.getD 0 0 = 5 ∧ r.getD 1 0 = 0 ∧ r.getD 2 0 = 0 ∧ (r.getD 3 0 = 1 ∨ r.getD 3 0 = 4)))) := by
    rcases hw with ⟨h1, h2⟩ | ⟨h1, h2⟩ | ⟨h1, h2, h3⟩
    · exact ⟨2, h2, Or.inl ⟨h1, rfl⟩⟩
    · exact ⟨2, h2, Or.inr (Or.inl ⟨h1, rfl⟩)⟩
    · exact ⟨4, h2, Or.inr (Or.inr ⟨h1, rfl, h3⟩)⟩
  obtain ⟨cap, hl, hst⟩ := hcap
  have e1 := read_exact { b with pend := r ++ rest } hb r rest rfl hne
  have e2 := read_exact { b with pend := r ++ rest' } hb r rest' rfl hne
  rw [hl] at e1 e2
  have := socks5_step_indep s { b with pend := r ++ rest } { b with pend := r ++ rest' } { b with pend := rest }
    { b with pend := rest' } r cap hst hb.2.2 hb.2.2 hl e1 e2 hb.1 hb.1
  obtain ⟨h1, h2, h3⟩ := this
  refine ⟨h1, h2, ?_⟩
  rcases h3 with ⟨a, b'⟩ | ⟨a, b'⟩ <;> rw [a, b'] <;> exact ⟨rfl, rfl⟩

example : Socks5.WholeReply {} [5, 0] := Or.inl ⟨rfl, rfl⟩
example : Socks5.WholeReply { state := .connect } [5, 2, 0, 1] := by
  refine Or.inr (Or.inr ⟨rfl, rfl, ?_⟩); decide

/-! ## HTTP CONNECT -/

/-- `HTTP/1.0 200 OK\r\nContent-Length: 5` -/
def httpA : Bytes := [72, 84, 84, 80, 47, 49, 46, 48, 32, 50, 48, 48, 32, 79, 75, 13, 10, 67, 111, 110, 116, 101, 110, 116, 45, 76, 101, 110, 103, 116, 104, 58, 32, 53]
/-- `\r\n\r\nhello` -/
def httpB : Bytes := [13, 10, 13, 10, 104, 101, 108, 108, 111]
/-- `HTTP/1.0 200 OK\r\n\r\n` -/
def httpOk : Bytes := [72, 84, 84, 80, 47, 49, 46, 48, 32, 50, 48, 48, 32, 79, 75, 13, 10, 13, 10]

/-- **HTTP is not segmentation independent** (Content-Length value cut before its CR): the reply
    `HTTP/1.0 200 OK / Content-Length: 5 / (blank) / hello` connects when it arrives in one read and
    fails when the read boundary falls right after the digit `5` (the parser then reads one byte past
    the data received so far).  Same input as corpus/C17/http_cl_split.ops, which reproduces it on the
    real code with the real 1024-byte ring; here the machine is instantiated with a 64-byte initial
    ring (`httpM' 64`, the reply is 43 bytes) only to keep kernel evaluation cheap. -/
theorem C17_http_split_dependent :
    ∃ (s : Bytes) (cs : List Bytes), cs.flatten = s ∧ (∀ c ∈ cs, c ≠ []) ∧
      (feedAll (httpM' 64) (fun _ => 0) {} {} cs).1.state ≠ (feedAll (httpM' 64) (fun _ => 0) {} {} [s]).1.state :=
  ⟨httpA ++ httpB, [httpA, httpB], by decide, by decide, by decide +kernel⟩

example : (feedAll (httpM' 64) (fun _ => 0) {} {} [httpA ++ httpB]).1.state = .connected := by decide +kernel
example : (feedAll (httpM' 64) (fun _ => 0) {} {} [httpA, httpB]).1.state = .error := by decide +kernel

/-- **tunnelled bytes read together with the end of the reply are lost**: `… 200 OK\r\n\r\nhi` in one
    read reports one message of length 0 (the two bytes are copied into the caller's buffer but only
    `buffers[0].size` is overwritten); with a read boundary after the reply `hi` is delivered.
    Same input as corpus/C17/http_payload_coalesced.ops (32-byte initial ring, see above). -/
theorem C17_http_payload_lost :
    (feedAll (httpM' 32) (fun _ => 0) {} {} [httpOk ++ [104, 105]]).2.2.stream = [] ∧
    (feedAll (httpM' 32) (fun _ => 0) {} {} [httpOk ++ [104, 105]]).2.2.ups.map (·.clob) = [some [104, 105]] ∧
    (feedAll (httpM' 32) (fun _ => 0) {} {} [httpOk, [104, 105]]).2.2.stream = [104, 105] := by
  refine ⟨by decide +kernel, by decide +kernel, by decide +kernel⟩

/-- **HTTP receive window** (`_partial` no-fault: the only place the ring is written): whenever the
    ring-buffer assertions of `assert_ring_buffer_valid` hold, the two vectors handed to the base
    socket lie inside the ring, do not overlap the unread bytes, and together are exactly the free
    space.  (The parse loop only reads through `GET_BYTE`, which is reduced modulo the ring size.) -/
theorem C17_http_no_fault_step (s : Nice.Http.St) (hv : Nice.Http.ringValid s = true) (hsz : 0 < s.ring.size) :
    (Nice.Http.window s).1 + (Nice.Http.window s).2.1 ≤ s.ring.size ∧
    (Nice.Http.window s).2.2 ≤ s.pos ∧
    (Nice.Http.window s).2.1 + (Nice.Http.window s).2.2 = s.ring.size - s.fill ∧
    (s.pos + s.fill ≤ s.ring.size → (Nice.Http.window s).1 = s.pos + s.fill) ∧
    (s.pos + s.fill > s.ring.size → (Nice.Http.window s).1 = s.pos + s.fill - s.ring.size ∧
       (Nice.Http.window s).1 + (Nice.Http.window s).2.1 = s.pos) := by
  simp only [Nice.Http.ringValid, Bool.and_eq_true, decide_eq_true_eq, Bool.or_eq_true, beq_iff_eq] at hv
  obtain ⟨hf, hp⟩ := hv
  have hpos : s.pos < s.ring.size := by omega
  unfold Nice.Http.window
  by_cases hw : s.pos + s.fill > s.ring.size
  · have hmod : (s.pos + s.fill) % s.ring.size = s.pos + s.fill - s.ring.size := by
      rw [Nat.mod_eq_sub_mod (by omega), Nat.mod_eq_of_lt (by omega)]
    simp only [hw, ↓reduceIte, hmod]
    and_intros
    all_goals first | omega | trivial | (intro h; first | omega | trivial | (constructor <;> first | omega | trivial))
  · simp only [hw, ↓reduceIte]
    and_intros
    all_goals first | omega | trivial | (intro h; first | omega | trivial | (constructor <;> first | omega | trivial))

example : Nice.Http.ringValid { ring := Array.replicate 8 0, pos := 6, fill := 5 } = true ∧
          Nice.Http.window { ring := Array.replicate 8 0, pos := 6, fill := 5 } = (3, 3, 0) := by decide

/-! ## pseudo-SSL -/

/-- the Google-compatible server hello -/
def psslHello : Bytes := [22, 3, 1, 0, 74, 2, 0, 0, 70, 3, 1, 66, 133, 69, 167, 39, 169, 93, 160, 179, 197, 231, 83, 218, 72, 43, 63, 198, 90, 202, 137, 193, 88, 82, 161, 120, 60, 91, 23, 70, 0, 133, 63, 32, 14, 211, 6, 114, 91, 91, 27, 95, 21, 172, 19, 249, 136, 83, 157, 155, 232, 61, 123, 12, 48, 50, 110, 56, 77, 162, 117, 87, 65, 108, 52, 92, 0, 4, 0]

/-- **pseudo-SSL is not segmentation independent**: the exact server hello followed by `hi`
    handshakes in one read and fails when the hello is cut after 10 bytes (same input as
    corpus/C17/pseudossl_split.ops). -/
theorem C17_pseudossl_split_dependent :
    ∃ (s : Bytes) (cs : List Bytes), cs.flatten = s ∧ (∀ c ∈ cs, c ≠ []) ∧
      (feedAll psslM (fun _ => 0) { compat := .google } {} cs).1.handshaken ≠
      (feedAll psslM (fun _ => 0) { compat := .google } {} [s]).1.handshaken :=
  ⟨psslHello ++ [104, 105], [psslHello.take 10, psslHello.drop 10 ++ [104, 105]], by decide, by decide, by decide⟩

example : (feedAll psslM (fun _ => 0) { compat := .google } {} [psslHello ++ [104, 105]]).2.2.stream = [104, 105] := by decide

/-- **pseudo-SSL, the hello arrives whole** (`_partial`, per-call form): when the complete server
    hello is pending, the outcome of the handshake call and the bytes flushed downward do not depend
    on what follows it, and exactly the hello is consumed. -/
theorem C17_pseudossl_whole_hello_partial (s : Nice.PseudoSsl.St) (hs : s.handshaken = false) (b : Base)
    (hb : Base.Healthy b) (r rest rest' : Bytes) (hr : r.length = (Nice.PseudoSsl.serverHello s.compat).length) :
    (Nice.PseudoSsl.recv s { b with pend := r ++ rest }).1 = (Nice.PseudoSsl.recv s { b with pend := r ++ rest' }).1 ∧
    (Nice.PseudoSsl.recv s { b with pend := r ++ rest }).2.1 = (Nice.PseudoSsl.recv s { b with pend := r ++ rest' }).2.1 ∧
    (Nice.PseudoSsl.recv s { b with pend := r ++ rest }).2.2.pend = rest ∧
    (Nice.PseudoSsl.recv s { b with pend := r ++ rest' }).2.2.pend = rest' := by
  have hne : r ≠ [] := by
    intro h; subst h
    cases hc : s.compat <;> simp [hc, Nice.PseudoSsl.serverHello, Nice.PseudoSsl.SSL_SERVER_GOOGLE_HANDSHAKE,
      Nice.PseudoSsl.SSL_SERVER_MSOC_HANDSHAKE] at hr
  have e1 := read_exact { b with pend := r ++ rest } hb r rest rfl hne
  have e2 := read_exact { b with pend := r ++ rest' } hb r rest' rfl hne
  rw [hr] at e1 e2
  generalize hB1 : ({ b with pend := r ++ rest } : Base) = B1 at e1
  generalize hB2 : ({ b with pend := r ++ rest' } : Base) = B2 at e2
  have hf1 : B1.freed = false := by rw [← hB1]; exact hb.2.2
  have hf2 : B2.freed = false := by rw [← hB2]; exact hb.2.2
  have he1 : B1.err = false := by rw [← hB1]; exact hb.1
  have he2 : B2.err = false := by rw [← hB2]; exact hb.1
  simp only [Nice.PseudoSsl.recv, hs, Bool.false_eq_true, ↓reduceIte, hf1, hf2, e1, e2, show ¬ ((1 : Int) ≤ 0) by decide]
  split <;> simp [flushDown, he1, he2]

/-! ## agent-level ICE-TCP framing, RFC 4571 (agent/agent.c) -/
section Rfc4571
open Nice.Rfc4571

/-- **C17, RFC 4571 reassembly, segmentation independence** (full strength): for every byte stream
    `s`, EVERY way `cs` of cutting it into reads (any cuts, empty reads allowed) and every out-of-band
    classification `handled` of extracted frames, the messages handed to the application (with their
    boundaries), the unconsumed buffered bytes, the frame bookkeeping (`frame_size`, `consumed_size`),
    the bytes written and the error outcome are the same as when `s` arrives in one read.
    (Raw `rfc4571_buffer_offset` / `frame_offset` are history dependent — the buffer is compacted on
    refill — and are compared through the bytes between them.) -/
theorem C17_rfc4571_split_independent (handled : Bytes → Bool) (s : Bytes) (cs : List Bytes) (hs : cs.flatten = s) :
    rOut (feedAll (rfc4571M handled) (fun s => s.buf.length) {} {} cs) =
    rOut (feedAll (rfc4571M handled) (fun s => s.buf.length) {} {} [s]) := by
  have i1 := rfeedAll_inv handled cs [] _ (rinit_inv handled)
  have i2 := rfeedAll_inv handled [s] [] _ (rinit_inv handled)
  simp only [List.nil_append, hs] at i1
  simp only [List.nil_append, List.flatten_cons, List.flatten_nil, List.append_nil] at i2
  simp only [feedAll]
  rw [rOut_of_inv handled s _ i1, rOut_of_inv handled s _ i2]

/-- … and what is delivered is what an independent frame parser finds in the stream: the non-empty,
    not out-of-band payloads of the complete frames, in order; the incomplete tail stays buffered. -/
theorem C17_rfc4571_delivers_frames (handled : Bytes → Bool) (cs : List Bytes) :
    (feedAll (rfc4571M handled) (fun s => s.buf.length) {} {} cs).2.2.msgs =
      (parse cs.flatten.length cs.flatten).1.filter (deliverable handled) ∧
    (feedAll (rfc4571M handled) (fun s => s.buf.length) {} {} cs).1.buf.drop
      (feedAll (rfc4571M handled) (fun s => s.buf.length) {} {} cs).1.fo = (parse cs.flatten.length cs.flatten).2 := by
  have i1 := rfeedAll_inv handled cs [] _ (rinit_inv handled)
  simp only [List.nil_append] at i1
  exact ⟨i1.2.2.2.2.1, i1.2.2.2.1⟩

/-- **C17, RFC 4571 reassembly, no fault**: for every stream and every cut list (socket not shut
    down) no offset leaves the 65537-byte `rfc4571_buffer`: `frame_offset ≤ buffer_offset ≤ size`,
    the fault flag of the model (every bounds check and unsigned subtraction) stays clear. -/
theorem C17_rfc4571_no_fault (handled : Bytes → Bool) (cs : List Bytes) :
    (feedAll (rfc4571M handled) (fun s => s.buf.length) {} {} cs).1.fault = false ∧
    (feedAll (rfc4571M handled) (fun s => s.buf.length) {} {} cs).1.fo ≤
      (feedAll (rfc4571M handled) (fun s => s.buf.length) {} {} cs).1.buf.length ∧
    (feedAll (rfc4571M handled) (fun s => s.buf.length) {} {} cs).1.buf.length ≤ BUFSIZE := by
  have i1 := rfeedAll_inv handled cs [] _ (rinit_inv handled)
  obtain ⟨⟨a, b, c, _, _⟩, _⟩ := i1
  exact ⟨a, b, c⟩

/-- non-vacuity: three frames (one empty), cut in the middle of a length prefix and of a payload -/
example : (feedAll (rfc4571M fun _ => false) (fun s => s.buf.length) {} {}
    [[0, 3, 0x41, 0x42], [0x43, 0, 0, 0], [1, 0x44, 0, 5, 0x45]]).2.2.msgs = [[0x41, 0x42, 0x43], [0x44]] := by decide
example : (rOut (feedAll (rfc4571M fun _ => false) (fun s => s.buf.length) {} {}
    [[0, 3, 0x41, 0x42], [0x43, 0, 0, 0], [1, 0x44, 0, 5, 0x45]])).leftover = [0, 5, 0x45] := by decide

/-- the scatter entries built for one packet, from the buffer the packet starts in: they are the next
    `n` bytes of the concatenated buffers, no entry leaves its buffer, `offset` advances by what was taken -/
theorem gather_flat : ∀ (bufs : List Bytes) (oib n : Nat), (∀ b rest, bufs = b :: rest → oib ≤ b.length) →
    (gather bufs oib n).1.flatten = (bufs.flatten.drop oib).take n ∧ (gather bufs oib n).2.1 = false ∧
    (gather bufs oib n).2.2 = min n (bufs.flatten.length - oib) := by
  intro bufs
  induction bufs with
  | nil => intro oib n _; simp [gather]
  | cons b rest ih =>
    intro oib n h
    have hoib := h b rest rfl
    obtain ⟨i1, i2, i3⟩ := ih 0 (n - min (b.length - oib) n) (fun _ _ _ => Nat.zero_le _)
    simp only [gather, List.flatten_cons, i1, i2, i3, List.drop_zero, List.length_append]
    refine ⟨?_, ?_, by omega⟩
    · rw [List.drop_append_of_le_length hoib, List.take_append]
      simp only [List.length_drop]
      by_cases hc : n ≤ b.length - oib
      · have h1 : min (b.length - oib) n = n := by omega
        have h2 : n - (b.length - oib) = 0 := by omega
        simp [h1, h2]
      · have h1 : min (b.length - oib) n = b.length - oib := by omega
        rw [h1, List.take_of_length_le (by simp), List.take_of_length_le (l := b.drop oib) (by simp; omega)]
    · simp only [Bool.or_false, decide_eq_false_iff_not]; omega

theorem findStart_gather : ∀ (bufs : List Bytes) (j cur offset n : Nat), cur ≤ offset →
    (gather (bufs.drop ((findStart bufs j offset cur).1 - j)) (findStart bufs j offset cur).2.1 n).1.flatten =
      (bufs.flatten.drop (offset - cur)).take n ∧
    (gather (bufs.drop ((findStart bufs j offset cur).1 - j)) (findStart bufs j offset cur).2.1 n).2.1 = false ∧
    (gather (bufs.drop ((findStart bufs j offset cur).1 - j)) (findStart bufs j offset cur).2.1 n).2.2 =
      min n (bufs.flatten.length - (offset - cur)) ∧
    j ≤ (findStart bufs j offset cur).1 := by
  intro bufs
  induction bufs with
  | nil => intro j cur offset n _; simp [findStart, gather]
  | cons b rest ih =>
    intro j cur offset n hcur
    by_cases hskip : b.length ≤ offset - cur
    · obtain ⟨i1, i2, i3, i4⟩ := ih (j + 1) (cur + b.length) offset n (by omega)
      simp only [findStart, hskip, ↓reduceIte]
      have hj : (findStart rest (j + 1) offset (cur + b.length)).1 - j =
          ((findStart rest (j + 1) offset (cur + b.length)).1 - (j + 1)) + 1 := by omega
      rw [hj, List.drop_succ_cons, i1, i2, i3]
      refine ⟨?_, rfl, ?_, by omega⟩
      · rw [List.flatten_cons, List.drop_append, List.drop_eq_nil_of_le hskip, List.nil_append]
        congr 2; omega
      · simp only [List.flatten_cons, List.length_append]; omega
    · simp only [findStart, hskip, ↓reduceIte, Nat.sub_self, List.drop_zero]
      obtain ⟨g1, g2, g3⟩ := gather_flat (b :: rest) (offset - cur) n
        (fun b' rest' h => by obtain ⟨rfl, _⟩ := List.cons.inj h; omega)
      exact ⟨g1, g2, g3, Nat.le_refl _⟩

/-- **C17, ICE-TCP send framing** (full strength, a5ed163): for a message made of ANY number of
    buffers and every packet start `offset`, the scatter entries handed to the TCP socket behind the
    2-byte length are exactly the next `n` bytes of the message (the same bytes as `Nice.Copy.gather`,
    the kernel proved in C02), no entry reads outside its buffer, and the offset advances by `n`. -/
theorem C17_rfc4571_send_frames (bufs : List Bytes) (offset n : Nat) (h : offset + n ≤ bufs.flatten.length) :
    (gather (bufs.drop (findStart bufs 0 offset 0).1) (findStart bufs 0 offset 0).2.1 n).1.flatten =
      Nice.Copy.gather bufs offset n ∧
    (gather (bufs.drop (findStart bufs 0 offset 0).1) (findStart bufs 0 offset 0).2.1 n).1.flatten =
      (bufs.flatten.drop offset).take n ∧
    (gather (bufs.drop (findStart bufs 0 offset 0).1) (findStart bufs 0 offset 0).2.1 n).2.1 = false ∧
    (gather (bufs.drop (findStart bufs 0 offset 0).1) (findStart bufs 0 offset 0).2.1 n).2.2 = n := by
  obtain ⟨f1, f2, f3, _⟩ := findStart_gather bufs 0 0 offset n (Nat.zero_le _)
  simp only [Nat.sub_zero] at f1 f2 f3
  exact ⟨by rw [f1, Nice.Props.C02.gather_eq], f1, f2, by rw [f3]; omega⟩

/-- the former over-read (0xF900 + 0x1000 bytes in two buffers, corpus/C17/rfc4571_send_overread.ops):
    the second packet now takes the 256 bytes left in the first buffer and continues in the second -/
example (b0 b1 : Bytes) (h0 : b0.length = 0xF900) (h1 : b1.length = 0x1000) :
    (gather ([b0, b1].drop (findStart [b0, b1] 0 0xF800 0).1) (findStart [b0, b1] 0 0xF800 0).2.1 0x1100).2.1 = false :=
  (C17_rfc4571_send_frames [b0, b1] 0xF800 0x1100 (by simp [h0, h1])).2.2.1

example : (Rfc4571.send {} [[1, 2, 3], [4]]).1.down = [[0, 4, 1, 2, 3, 4]] := by decide

end Rfc4571

/-! ## tcp-bsd send queue (socket/tcp-bsd.c, socket/socket.c) -/
section SendQueue
open Nice.SendQueue

/-- `nice_socket_flush_send_queue_to_socket` moves bytes from the front of the backlog to the wire,
    nothing else, for every acceptance pattern of the kernel; when it reports the queue emptied it is. -/
theorem C17_flush_contiguous (fuel : Nat) (q : List Bytes) (k : Kernel) (w : List Bytes) :
    (flush fuel q k w).2.1.flatten ++ (flush fuel q k w).2.2.1.flatten = w.flatten ++ q.flatten ∧
    ((flush fuel q k w).1 = true → (flush fuel q k w).2.2.1 = []) :=
  flush_contiguous fuel q k w

example : (flush 3 [[1, 2, 3], [4]] { acc := [2] } []).2.1 = [[1, 2]] ∧ (flush 3 [[1, 2, 3], [4]] { acc := [2] } []).2.2.1 = [[3], [4]] := by
  decide

/-- **C17 (output side)** (full strength, 2caa19c): for every sequence of sends of messages made of
    ANY number of buffers, kernel acceptance patterns (0..len bytes per write, EAGAIN) and writable
    events, the bytes accepted by the descriptor followed by the queued backlog are exactly the
    concatenation of the frames the socket accepted, in order — so what is on the wire is always a
    prefix of that concatenation: a frame is never interleaved with another, reordered, duplicated
    or altered, and it is either queued whole behind the accepted bytes or not at all. -/
theorem C17_frames_contiguous (ops : List Op) (r : Run) (h : Inv r) : Inv (runOps r ops) := by
  induction ops generalizing r with
  | nil => exact h
  | cons op ops ih =>
    apply ih
    unfold Inv at h ⊢
    cases op with
    | send d =>
      have hm := send_inv r.st r.k d
      simp only [stepOp, List.append_assoc, hm]
      split <;> simp [← h]
    | sendr d =>
      have hm := sendReliable_inv r.st r.k d
      simp only [stepOp, List.append_assoc, hm]
      split <;> simp [← h]
    | writable =>
      have hm := writable_inv r.st r.k
      simp only [stepOp, List.append_assoc, hm]
      exact h
    | script acc => simpa [stepOp, backlog] using h

/-- non-vacuity: the invariant holds initially, and a session with partial writes really queues -/
example : Inv {} := rfl
example : (runOps {} [.script [2], .sendr [[1, 2], [3]], .sendr [[4, 5]], .script [1, 0], .writable]).wire
    = [1, 2, 3] ∧ backlog (runOps {} [.script [2], .sendr [[1, 2], [3]], .sendr [[4, 5]], .script [1, 0], .writable]).st = [4, 5] := by
  decide

/-- the former counter-example (two 10-byte buffers, the kernel accepts 6 bytes,
    corpus/C17/sendqueue_partial_multibuf.ops): the queued remainder is now the rest of the message -/
example :
    let b0 : Bytes := [0, 1, 2, 3, 4, 5, 6, 7, 8, 9]
    let b1 : Bytes := [16, 17, 18, 19, 20, 21, 22, 23, 24, 25]
    let r := sendMessage {} { acc := [6] } [b0, b1] true
    r.1 = 20 ∧ r.2.1.flatten ++ backlog r.2.2.1 = b0 ++ b1 := by
  decide
end SendQueue

end Nice.Props.C17
