/-
  C14 — what a restart has done by the time it returns, proved about obligation skeletons REGENERATED from agent/stream.c on
  every run (tools/extract_flow.py, `Nice.Model.Flow`): a register is set when an obliged call / store executes; every return
  is reached with all of them set.

  * nice_stream_initialize_credentials: a fresh local ufrag AND password were generated and the remote ufrag AND password were
    cleared (so a check authenticated with pre-restart credentials cannot match — clause (a)/(b) of C14);
  * nice_stream_restart: the stream's checks were pruned and its credentials re-initialised; and every iteration of its loop
    over the components restarts the component AND announces it GATHERING (clause (c)).
-/
import Nice.Gen.InitCredentials
import Nice.Gen.StreamRestart
namespace Nice.Props.C14Restart
open Nice.Flow

def hv : Havoc := fun _ _ => [0, 1]
def anyEvent : Policy := fun _ _ _ => true
def fresh : List St := [{}]

def allSet (n : Nat) (σ : St) : Bool := (List.range n).all fun k => σ.get k == 1

def retAll (n : Nat) (p : St × Out) : Bool := match p.2 with | .ret _ | .norm => allSet n p.1 | _ => false

theorem creds_ok : (reach hv anyEvent Nice.Gen.InitCredentials.prog fresh).ok = true ∧
    ((reach hv anyEvent Nice.Gen.InitCredentials.prog fresh).outs.all (retAll 4)) = true := by decide +kernel

theorem restart_ok : (reach hv anyEvent Nice.Gen.StreamRestart.prog fresh).ok = true ∧
    ((reach hv anyEvent Nice.Gen.StreamRestart.prog fresh).outs.all (retAll 2)) = true := by decide +kernel

theorem restart_body_ok : (reach hv anyEvent Nice.Gen.StreamRestart.loopBody fresh).ok = true ∧
    ((reach hv anyEvent Nice.Gen.StreamRestart.loopBody fresh).outs.all
      fun p => (p.2 == .norm || p.2 == .cont) && p.1.r2 == 1 && p.1.r3 == 1) = true := by decide +kernel

/-- **C14_credentials_reinitialised.**  Every way nice_stream_initialize_credentials ends has generated a new local
    ufrag (r0) and password (r1) and cleared the remote ufrag (r2) and password (r3). -/
theorem C14_credentials_reinitialised {tr : List Ev} {σ1 : St} {o : Out}
    (hx : Exec hv Nice.Gen.InitCredentials.prog {} tr σ1 o) :
    σ1.r0 = 1 ∧ σ1.r1 = 1 ∧ σ1.r2 = 1 ∧ σ1.r3 = 1 := by
  have h := outcomes_computed creds_ok.1 (List.mem_singleton.mpr rfl) hx
  have := List.all_eq_true.mp creds_ok.2 _ h
  cases o <;> simp [retAll, allSet, St.get, List.range, List.range.loop] at this <;> exact this

/-- **C14_restart_prunes_and_reinitialises.** -/
theorem C14_restart_prunes_and_reinitialises {tr : List Ev} {σ1 : St} {o : Out}
    (hx : Exec hv Nice.Gen.StreamRestart.prog {} tr σ1 o) : σ1.r0 = 1 ∧ σ1.r1 = 1 := by
  have h := outcomes_computed restart_ok.1 (List.mem_singleton.mpr rfl) hx
  have := List.all_eq_true.mp restart_ok.2 _ h
  cases o <;> simp [retAll, allSet, St.get, List.range, List.range.loop] at this <;> exact this

/-- **C14_every_component_restarted_and_announced.**  One iteration of the loop over the components always completes
    (no early exit) having called nice_component_restart (r2) and announced GATHERING (r3). -/
theorem C14_every_component_restarted_and_announced {tr : List Ev} {σ1 : St} {o : Out}
    (hx : Exec hv Nice.Gen.StreamRestart.loopBody {} tr σ1 o) :
    (o = .norm ∨ o = .cont) ∧ σ1.r2 = 1 ∧ σ1.r3 = 1 := by
  have h := outcomes_computed restart_body_ok.1 (List.mem_singleton.mpr rfl) hx
  have := List.all_eq_true.mp restart_body_ok.2 _ h
  simp only [Bool.and_eq_true, Bool.or_eq_true, beq_iff_eq] at this
  exact ⟨this.1.1, this.1.2, this.2⟩

end Nice.Props.C14Restart
