/-
  C19 / C01 — the pacing (Ta) timer callback agent/conncheck.c priv_conn_check_tick_agent_locked, proved about the
  skeleton REGENERATED from the source on every run (`Nice.Gen.ConnCheckTick.prog`): for any number of streams and any answers
  of the per-stream functions, the timer source is destroyed (conn_check_stop) and the callback returns FALSE only in a tick in
  which no STUN request was sent and priv_conn_check_tick_stream_nominate reported work for NO stream.  While a stream has a
  transaction in flight (its nominate step answers TRUE) the retransmission timers of every stream keep being polled, so a
  black-holed check is given up after its configured number of transmissions — not left in progress because the LAST stream
  happened to be idle (seeded change C19d).
-/
import Nice.Gen.ConnCheckTick
namespace Nice.Props.C19Tick
open Nice.Flow Nice.Gen.ConnCheckTick

def hv : Havoc := fun _ _ => [0, 1]

/-- event kind 4 = conn_check_stop -/
def policy : Policy := fun _ kind σ => kind != 4 || (σ.r1 == 0 && σ.r3 == 0)

def init : List St := [0, 1].flatMap fun a => [0, 1].map fun b => { r0 := a, r1 := b, r2 := 2, r3 := 0 }

def outOk (p : St × Out) : Bool :=
  match p.2 with
  | .ret v => v != 0 || (p.1.r1 == 0 && p.1.r3 == 0)
  | _ => false

theorem summary_ok : (reach hv policy prog init).ok = true ∧ ((reach hv policy prog init).outs.all outOk) = true := by
  decide +kernel

/-- **C19_timer_stops_only_without_work.** -/
theorem C19_timer_stops_only_without_work {σ0 : St} (h0 : σ0 ∈ init) {tr : List Ev} {σ1 : St} {o : Out}
    (hx : Exec hv prog σ0 tr σ1 o) :
    (∀ e ∈ tr, e.kind = 4 → e.st.r1 = 0 ∧ e.st.r3 = 0) ∧ (o = .ret 0 → σ1.r1 = 0 ∧ σ1.r3 = 0) := by
  constructor
  · intro e he hk
    have hp := events_satisfy_policy summary_ok.1 h0 hx e he
    simp only [policy, hk, bne_self_eq_false, Bool.false_or, Bool.and_eq_true, beq_iff_eq] at hp
    exact hp
  · intro ho
    subst ho
    have h := outcomes_computed summary_ok.1 h0 hx
    have := List.all_eq_true.mp summary_ok.2 _ h
    simpa [outOk] using this

/-! non-vacuity: the timer CAN be stopped (idle tick), and a tick with work returns TRUE -/
example : ((reach hv policy prog init).outs.any fun p => p.2 == .ret 0) = true := by decide +kernel
example : ((reach hv policy prog init).outs.any fun p => p.2 == .ret 1 && p.1.r3 == 1) = true := by decide +kernel

end Nice.Props.C19Tick
