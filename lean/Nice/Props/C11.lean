/-
  C11 — Component states follow the documented machine (choke-point part).
-/
import Nice.Model.CompState
import Nice.Props.C11GatheringDone
namespace Nice.Props.C11
open Nice.CompState Nice.Gen

/-- **C11_whitelist_is_documented.**  The transitions the code's assertion admits (regenerated from
    the current source) are exactly the documented ones (states.gv, regenerated, plus the two
    families documented in the assertion's comments).  Widening or narrowing either side breaks this. -/
theorem C11_whitelist_is_documented :
    ∀ o n : Fin 6, o ≠ n → (allowed o.val n.val = documented o.val n.val) := by decide

theorem signal_state (cur new : State) :
    (signal cur new).1 = (match (signal cur new).2 with
                          | .announced s => s | _ => cur) := by
  unfold signal; split
  · rfl
  · split <;> rfl

/-- chain: every consecutive pair of `prev :: l` is an allowed transition between distinct states -/
def Chain (prev : State) : List State → Prop
  | [] => True
  | s :: l => prev ≠ s ∧ allowed prev s = true ∧ Chain s l

def lastOr (prev : State) : List State → State
  | [] => prev
  | s :: l => lastOr s l

/-- **C11_announced_sequence.**  For EVERY sequence of requested states: the announced sequence
    never repeats a state, every step is in the whitelist, and the component's state (what the
    getter returns) is the last announced state — or the run stopped on the assertion; never a
    silent bad transition. -/
theorem C11_announced_sequence (reqs : List State) :
    ∀ cur, Chain cur (run cur reqs).2.1 ∧
      ((run cur reqs).2.2 = false → (run cur reqs).1 = lastOr cur (run cur reqs).2.1) := by
  induction reqs with
  | nil => intro cur; simp [run, Chain, lastOr]
  | cons n ns ih =>
    intro cur
    unfold run
    unfold signal
    by_cases h1 : n = cur
    · simp only [h1, if_true]; exact ih cur
    · simp only [h1, if_false]
      by_cases h2 : allowed cur n = true
      · simp only [h2, if_true]
        obtain ⟨hc, hl⟩ := ih n
        refine ⟨⟨fun e => h1 e.symm, h2, hc⟩, ?_⟩
        intro hb
        exact hl hb
      · simp only [h2]
        simp [Chain]

/-- an announced transition is a documented one -/
theorem C11_announced_is_documented (o n : Fin 6) (h : o ≠ n) (ha : allowed o.val n.val = true) :
    documented o.val n.val = true := by
  rw [← C11_whitelist_is_documented o n h]; exact ha

/-! non-vacuity -/
example : (run 0 [1, 1, 2, 3, 4, 4, 3, 4]).2.1 = [1, 2, 3, 4, 3, 4] := by decide
example : (run 4 [1]).2.1 = [1] := by decide            -- restart from READY
example : (run 1 [4]).2.2 = true := by decide           -- GATHERING → READY is not allowed: assertion

end Nice.Props.C11
