import Nice.Gen.Kernels
/-! # C02: the receive iterator's bookkeeping (regenerated kernels)

`nice_input_message_iter_get_n_valid_messages` and `nice_input_message_iter_is_at_end` are REGENERATED from
agent/agent.c on every run (`tools/extract.py` FIELD_KERNELS: the function's own body with the fields of `*iter`
as parameters).  Both receive paths — `pseudo_tcp_socket_recv_messages` and
`nice_agent_recv_messages_blocking_or_nonblocking` — report to the caller how many messages hold data through the
first one; a message that is counted as empty is handed back as "would block" although its bytes have already
been taken off the stream (seeded change C02g). -/
namespace Nice.Props.C02Iter
open Nice.Gen

/-- **a message that holds any byte is counted**: once the iterator has moved off the start of message `m`
    (a whole buffer was filled, `buffer > 0`, or the current buffer is partly filled, `offset > 0`) the number of
    valid messages includes it. -/
theorem C02_partly_filled_message_counts (m b : UInt32) (o : UInt64) (h : b ≠ 0 ∨ o ≠ 0) :
    iter_n_valid_messages m b o = m + 1 := by
  unfold iter_n_valid_messages
  rcases h with h | h <;> simp [h]

/-- … and an untouched one is not -/
theorem C02_untouched_message_not_counted (m : UInt32) : iter_n_valid_messages m 0 0 = m := by
  simp [iter_n_valid_messages]

/-- when the iterator reports "every buffer of every message is full", every message is counted -/
theorem C02_full_means_all_counted (m b : UInt32) (o : UInt64) (n : UInt32) (h : iter_is_at_end m b o n ≠ 0) :
    iter_n_valid_messages m b o = n := by
  unfold iter_is_at_end at h
  unfold iter_n_valid_messages
  by_cases hc : (((m == n) && (b == (0 : UInt32))) && (o == (0 : UInt64))) = true
  · simp only [Bool.and_eq_true, beq_iff_eq] at hc
    obtain ⟨⟨hm, hb⟩, ho⟩ := hc
    simp [hm, hb, ho]
  · simp [hc] at h

-- the boundary the seeded change got wrong: one whole buffer filled, the next one untouched
example : iter_n_valid_messages 0 1 0 = 1 := by decide
example : iter_is_at_end 2 0 0 2 = 1 ∧ iter_is_at_end 1 1 0 2 = 0 := by decide

end Nice.Props.C02Iter
