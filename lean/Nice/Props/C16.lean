/-
  C16 — TURN relaying is transparent: payload and peer address survive wrap/unwrap.

  Client model: Nice/Model/Turn.lean (socket/udp-turn.c, DRAFT9 / RFC5766, unreliable base), tied to the
  real code by the `sock turn` differential stream.  Reference relay: Nice/Spec/Relay.lean.
  Proved here: what the client writes decodes at the relay to exactly (peer, payload) for both
  encodings; what the relay forwards is handed up with exactly the payload and the peer; data held
  for a peer without permission is appended in order and flushed completely in FIFO order;
  the unwrap path reads inside the received packet for every datagram (55a791e).
-/
import Nice.Spec.Relay
import Nice.Props.C16Send
set_option maxRecDepth 8000
namespace Nice.Props.C16
open Nice.Sock Nice.Turn Nice.Relay

/-! ### byte helpers -/

theorem be16b_length (n : Nat) : (be16b n).length = 2 := rfl

theorem be16_be16b (n : Nat) (h : n < 65536) : be16 ((be16b n).getD 0 0) ((be16b n).getD 1 0) = n := by
  simp only [be16b, List.getD_cons_zero, List.getD_cons_succ, be16, UInt8.toNat_ofNat']
  omega

theorem be16_be16b_append (n : Nat) (h : n < 65536) (rest : Bytes) :
    be16 ((be16b n ++ rest).getD 0 0) ((be16b n ++ rest).getD 1 0) = n := by
  have := be16_be16b n h
  simpa [be16b] using this

theorem xorBytes_length (a k : Bytes) : (xorBytes a k).length = a.length := by
  induction a generalizing k with
  | nil => cases k <;> simp [xorBytes]
  | cons x xs ih => cases k with
    | nil => simp [xorBytes]
    | cons y ys => simp [xorBytes, ih]

theorem xorBytes_invol (a k : Bytes) (h : a.length ≤ k.length) : xorBytes (xorBytes a k) k = a := by
  induction a generalizing k with
  | nil => cases k <;> simp [xorBytes]
  | cons x xs ih => cases k with
    | nil => simp at h
    | cons y ys =>
      simp only [xorBytes, List.cons.injEq]
      refine ⟨?_, ih ys (by simpa using h)⟩
      rw [UInt8.xor_assoc, UInt8.xor_self, UInt8.xor_zero]

/-! ### Send indication / Data indication -/

/-- well-formed peer address: 4 or 16 address bytes according to the family, 16-bit port -/
def PeerAddr.WF (p : PeerAddr) : Prop := p.addr.length = (if p.ipv6 then 16 else 4) ∧ p.port < 65536

def padOf (n : Nat) : Nat := (4 - n % 4) % 4

theorem attr_eq (t : Nat) (v : Bytes) : attr t v = be16b t ++ (be16b v.length ++ (v ++ List.replicate (padOf v.length) 0)) := by
  simp [attr, padOf]

theorem attr_length (t : Nat) (v : Bytes) : (attr t v).length = 4 + v.length + padOf v.length := by
  simp [attr_eq, be16b]; omega

/-- the relay's attribute walker reads back one attribute written by the client's `attr` -/
theorem attrs_attr (fuel t : Nat) (v rest : Bytes) (ht : t < 65536) (hv : v.length < 65536) :
    attrs (fuel + 1) (attr t v ++ rest) = (attrs fuel rest).map fun r => (t, v) :: r := by
  have hne : (attr t v ++ rest).isEmpty = false := by simp [attr_eq, be16b]
  have hl : (attr t v ++ rest).length = 4 + v.length + padOf v.length + rest.length := by
    simp [attr_length]
  have h0 : be16 ((attr t v ++ rest).getD 0 0) ((attr t v ++ rest).getD 1 0) = t := by
    rw [attr_eq]; simp only [List.append_assoc]; exact be16_be16b_append t ht _
  have h2 : be16 ((attr t v ++ rest).getD 2 0) ((attr t v ++ rest).getD 3 0) = v.length := by
    have := be16_be16b v.length hv
    rw [attr_eq]; simpa [be16b] using this
  have hdrop : (attr t v ++ rest).drop (4 + (v.length + padOf v.length)) = rest := by
    have : 4 + (v.length + padOf v.length) = (attr t v).length := by rw [attr_length]; omega
    rw [this, List.drop_left]
  have htake : ((attr t v ++ rest).drop 4).take v.length = v := by
    rw [attr_eq]; simp [be16b]
  simp only [attrs, hne, Bool.false_eq_true, ↓reduceIte, hl, h0, h2]
  have c1 : ¬ (4 + v.length + padOf v.length + rest.length < 4) := by omega
  have c2 : ¬ (4 + v.length + padOf v.length + rest.length < 4 + (v.length + (4 - v.length % 4) % 4)) := by
    simp only [padOf]; omega
  simp only [c1, c2, ↓reduceIte]
  have : (4 - v.length % 4) % 4 = padOf v.length := rfl
  rw [this, hdrop, htake]

theorem attrs_two (f t1 t2 : Nat) (v1 v2 : Bytes) (h1 : t1 < 65536) (h2 : t2 < 65536) (hv1 : v1.length < 65536)
    (hv2 : v2.length < 65536) : attrs (f + 3) (attr t1 v1 ++ attr t2 v2) = some [(t1, v1), (t2, v2)] := by
  rw [attrs_attr (f + 2) t1 v1 (attr t2 v2) h1 hv1]
  have e2 := attrs_attr (f + 1) t2 v2 [] h2 hv2
  simp only [List.append_nil] at e2
  rw [e2]
  simp [attrs]

theorem unxor_xorPeerValue (p : PeerAddr) (txid : Bytes) (hp : PeerAddr.WF p) (ht : txid.length = 12) :
    unxorPeer (xorPeerValue p txid) txid = some p := by
  obtain ⟨ha, hport⟩ := hp
  have hk : (STUN_MAGIC_COOKIE ++ txid).length = 16 := by simp [STUN_MAGIC_COOKIE, ht]
  have hpl : (xorBytes (be16b p.port) STUN_MAGIC_COOKIE).length = 2 := by rw [xorBytes_length]; rfl
  have hal : (xorBytes p.addr (STUN_MAGIC_COOKIE ++ txid)).length = p.addr.length := xorBytes_length _ _
  have hvl : (xorPeerValue p txid).length = 4 + p.addr.length := by
    simp only [xorPeerValue, List.length_append, List.length_cons, List.length_nil, hpl, hal]
  have hfam : (xorPeerValue p txid).getD 1 0 = (if p.ipv6 then 2 else 1) := by simp [xorPeerValue]
  have hport2 : ((xorPeerValue p txid).drop 2).take 2 = xorBytes (be16b p.port) STUN_MAGIC_COOKIE := by
    simp only [xorPeerValue, List.append_assoc, List.cons_append, List.nil_append, List.drop_succ_cons, List.drop_zero]
    rw [List.take_left' hpl]
  have haddr : (xorPeerValue p txid).drop 4 = xorBytes p.addr (STUN_MAGIC_COOKIE ++ txid) := by
    have : (xorPeerValue p txid) = ([0, if p.ipv6 then 2 else 1] ++ xorBytes (be16b p.port) STUN_MAGIC_COOKIE) ++
        xorBytes p.addr (STUN_MAGIC_COOKIE ++ txid) := by simp [xorPeerValue]
    rw [this, List.drop_left' (by simp [hpl])]
  have hpi : xorBytes (xorBytes (be16b p.port) STUN_MAGIC_COOKIE) cookie = be16b p.port :=
    xorBytes_invol _ _ (by simp [be16b, STUN_MAGIC_COOKIE])
  have hai : xorBytes (xorBytes p.addr (STUN_MAGIC_COOKIE ++ txid)) (cookie ++ txid) = p.addr :=
    xorBytes_invol _ _ (by rw [hk, ha]; split <;> omega)
  simp only [unxorPeer, hvl, hfam, hport2, haddr, hpi, hai, be16_be16b p.port hport]
  cases hv6 : p.ipv6
  · simp only [hv6, Bool.false_eq_true, ↓reduceIte] at ha
    simp [ha]
    cases p; simp_all
  · simp only [hv6, ↓reduceIte] at ha
    simp [ha]
    cases p; simp_all

/-- **the Send indication reaches the relay intact**: for every well-formed peer (IPv4 / IPv6),
    every payload the 65552-byte send buffer accepts and every transaction id, a standards-following
    relay decodes what the client wrote to exactly that peer address and that payload. -/
theorem C16_wrap_decodes (p : PeerAddr) (data txid m : Bytes) (hp : PeerAddr.WF p) (ht : txid.length = 12)
    (h : sendIndication p data txid = some m) : decodeSend m = some (p, data) := by
  have hvl : (xorPeerValue p txid).length = 4 + p.addr.length := by
    simp only [xorPeerValue, List.length_append, List.length_cons, List.length_nil, xorBytes_length]; rfl
  have ha := hp.1
  have hv65 : (xorPeerValue p txid).length < 65536 := by rw [hvl, ha]; split <;> omega
  simp only [sendIndication] at h
  split at h
  · cases h
  · rename_i hfit
    have hm := (Option.some.inj h).symm
    have hd65 : data.length < 65536 := by
      simp only [attr_length, STUN_MAX_MESSAGE_SIZE] at hfit; omega
    generalize hbody : attr 0x0012 (xorPeerValue p txid) ++ attr 0x0013 data = body at hm
    have hbl : body.length < 65536 := by
      rw [← hbody]
      simp only [List.length_append, attr_length, STUN_MAX_MESSAGE_SIZE, padOf] at hfit ⊢; omega
    have hml : m.length = 20 + body.length := by
      rw [hm]; simp [be16b, STUN_MAGIC_COOKIE, ht]; omega
    have h1 : m.take 2 = [0x00, 0x16] := by rw [hm]; rfl
    have h2 : (m.drop 4).take 4 = cookie := by rw [hm]; simp [be16b, STUN_MAGIC_COOKIE, cookie]
    have h3 : be16 (m.getD 2 0) (m.getD 3 0) = body.length := by
      have := be16_be16b body.length hbl
      rw [hm]; simpa [be16b] using this
    have h4 : (m.drop 8).take 12 = txid := by
      rw [hm]; simp [be16b, STUN_MAGIC_COOKIE]
      rw [List.take_left' ht]
    have h5 : m.drop 20 = body := by
      have : m = ([0x00, 0x16] ++ be16b body.length ++ STUN_MAGIC_COOKIE ++ txid) ++ body := by rw [hm]
      rw [this, List.drop_left' (by simp [be16b, STUN_MAGIC_COOKIE, ht])]
    have hat : attrs (20 + body.length + 1) body = some [(0x0012, xorPeerValue p txid), (0x0013, data)] := by
      have : 20 + body.length + 1 = (18 + body.length) + 3 := by omega
      rw [this, ← hbody]
      exact attrs_two _ 0x0012 0x0013 _ _ (by decide) (by decide) hv65 hd65
    have c1 : ¬ (m.length < 20) := by omega
    simp only [decodeSend, h1, h2, h3, h4, h5, hml, hat]
    have c2 : ¬ (20 + body.length < 20) := by omega
    simp [c2, lookup, unxor_xorPeerValue p txid hp ht]

/-- non-vacuity: an IPv6 peer and a 5-byte payload -/
example : PeerAddr.WF { ipv6 := true, addr := [0x20, 0x01, 0x0d, 0xb8, 0, 0, 0, 0, 0, 0, 0, 0, 0, 0, 0, 2], port := 3333 } := by
  simp [PeerAddr.WF]
example : decodeSend ((sendIndication { ipv6 := false, addr := [10, 1, 1, 1], port := 1111 } [104, 101, 108, 108, 111]
    (List.replicate 12 7)).getD []) = some ({ ipv6 := false, addr := [10, 1, 1, 1], port := 1111 }, [104, 101, 108, 108, 111]) := by
  decide

theorem be16b_inj (a b : Nat) (ha : a < 65536) (hb : b < 65536) (h : be16b a = be16b b) : a = b := by
  have h1 := be16_be16b a ha
  have h2 := be16_be16b b hb
  rw [h] at h1; omega

theorem xorBytes_cancel (a b k : Bytes) (ha : a.length ≤ k.length) (hb : b.length ≤ k.length)
    (h : xorBytes a k = xorBytes b k) : a = b := by
  have := congrArg (fun x => xorBytes x k) h
  simp only [xorBytes_invol a k ha, xorBytes_invol b k hb] at this
  exact this

/-- different well-formed peer addresses have different XOR-PEER-ADDRESS encodings -/
theorem xorPeerValue_inj (p q : PeerAddr) (txid : Bytes) (hp : PeerAddr.WF p) (hq : PeerAddr.WF q) (ht : txid.length = 12)
    (h : xorPeerValue p txid = xorPeerValue q txid) : p = q := by
  obtain ⟨pa, pp⟩ := hp
  obtain ⟨qa, qp⟩ := hq
  simp only [xorPeerValue, List.cons_append, List.nil_append, List.cons.injEq, true_and] at h
  obtain ⟨hfam, hrest⟩ := h
  have hv6 : p.ipv6 = q.ipv6 := by
    cases hp6 : p.ipv6 <;> cases hq6 : q.ipv6 <;> simp [hp6, hq6] at hfam <;> rfl
  have hl1 : (xorBytes (be16b p.port) STUN_MAGIC_COOKIE).length = 2 := by rw [xorBytes_length]; rfl
  have hl2 : (xorBytes (be16b q.port) STUN_MAGIC_COOKIE).length = 2 := by rw [xorBytes_length]; rfl
  have hsplit := List.append_inj hrest (by rw [hl1, hl2])
  have hport : p.port = q.port :=
    be16b_inj _ _ pp qp (xorBytes_cancel _ _ _ (by simp [be16b, STUN_MAGIC_COOKIE]) (by simp [be16b, STUN_MAGIC_COOKIE]) hsplit.1)
  have hk : (STUN_MAGIC_COOKIE ++ txid).length = 16 := by simp [STUN_MAGIC_COOKIE, ht]
  have haddr : p.addr = q.addr :=
    xorBytes_cancel _ _ _ (by rw [hk, pa]; split <;> omega) (by rw [hk, qa]; split <;> omega) hsplit.2
  cases p; cases q; simp_all

theorem findSome_range_first {β : Type} (f : Nat → Option β) (n i : Nat) (y : β) (hi : i < n) (hfi : f i = some y)
    (hbefore : ∀ j, j < i → f j = none) : (List.range n).findSome? f = some y := by
  induction n with
  | zero => omega
  | succ n ih =>
    rw [List.range_succ, List.findSome?_append]
    by_cases hin : i < n
    · rw [ih hin]; rfl
    · have : i = n := by omega
      subst this
      have hnone : (List.range i).findSome? f = none := by
        rw [List.findSome?_eq_none_iff]
        intro x hx
        exact hbefore x (List.mem_range.mp hx)
      simp [hnone, hfi]

/-- **what the relay forwards is handed up intact** (full strength): for any table of well-formed
    peers, the Data indication a standards-following relay builds for a datagram from the peer at index
    `i` (its first occurrence in the table) parses back, in the client, to that index and exactly the
    payload — IPv4 / IPv6, every payload up to 65000 bytes, every transaction id. -/
theorem C16_unwrap_inverse (peers : List PeerAddr) (i : Nat) (p : PeerAddr) (data txid : Bytes)
    (hi : peers[i]? = some p) (hwf : ∀ q ∈ peers, PeerAddr.WF q) (hfirst : ∀ j, j < i → peers[j]? ≠ some p)
    (ht : txid.length = 12) (hd : data.length ≤ 65000) :
    parseDataIndication peers (forwardData p data txid) = some (i, data) := by
  have hp : PeerAddr.WF p := hwf p (List.mem_of_getElem? hi)
  have hvl : ∀ q, PeerAddr.WF q → (xorPeerValue q txid).length = 4 + q.addr.length ∧ (xorPeerValue q txid).length < 65536 := by
    intro q hq
    have h1 : (xorPeerValue q txid).length = 4 + q.addr.length := by
      simp only [xorPeerValue, List.length_append, List.length_cons, List.length_nil, xorBytes_length]; rfl
    refine ⟨h1, ?_⟩
    rw [h1, hq.1]; split <;> omega
  generalize hm : forwardData p data txid = m
  generalize hbody : attr 0x0012 (xorPeerValue p txid) ++ attr 0x0013 data = body at *
  have hm' : m = [0x00, 0x17] ++ be16b body.length ++ cookie ++ txid ++ body := by
    rw [← hm, ← hbody]; rfl
  have hbl : body.length < 65536 := by
    have := (hvl p hp).1
    rw [← hbody]; simp only [List.length_append, attr_length, padOf, this, hp.1]; split <;> omega
  have h1 : m.take 2 = [0x00, 0x17] := by rw [hm']; rfl
  have h2 : (m.drop 4).take 4 = STUN_MAGIC_COOKIE := by rw [hm']; simp [be16b, STUN_MAGIC_COOKIE, cookie]
  have h3 : be16 (m.getD 2 0) (m.getD 3 0) = body.length := by
    have := be16_be16b body.length hbl
    rw [hm']; simpa [be16b] using this
  have h4 : (m.drop 8).take 12 = txid := by
    rw [hm']; simp [be16b, cookie]
    rw [List.take_left' ht]
  have h5 : m.drop 20 = body := by
    have : m = ([0x00, 0x17] ++ be16b body.length ++ cookie ++ txid) ++ body := by rw [hm']
    rw [this, List.drop_left' (by simp [be16b, cookie, ht])]
  have h8 : (attr 0x0013 data).take 2 = [0x00, 0x13] := by simp [attr_eq, be16b]
  have h9 : be16 ((attr 0x0013 data).getD 2 0) ((attr 0x0013 data).getD 3 0) = data.length := by
    have := be16_be16b data.length (by omega)
    rw [attr_eq]; simpa [be16b] using this
  have h10 : ((attr 0x0013 data).drop 4).take data.length = data := by
    rw [attr_eq]; simp [be16b]
  simp only [parseDataIndication, h1, h2, h3, h4, h5, bne_self_eq_false, Bool.false_eq_true, Bool.or_self, ↓reduceIte]
  have hilt : i < peers.length := by
    rcases Nat.lt_or_ge i peers.length with h | h
    · exact h
    · rw [List.getElem?_eq_none h] at hi; cases hi
  apply findSome_range_first _ peers.length i (i, data) hilt
  · -- the entry itself matches
    have h6 : body.take (attr 0x0012 (xorPeerValue p txid)).length = attr 0x0012 (xorPeerValue p txid) := by
      rw [← hbody, List.take_left' rfl]
    have h7 : body.drop (attr 0x0012 (xorPeerValue p txid)).length = attr 0x0013 data := by
      rw [← hbody, List.drop_left' rfl]
    simp only [hi, h6, h7, h8, h9, h10, bne_self_eq_false, Bool.false_eq_true, ↓reduceIte, beq_self_eq_true, Bool.and_self]
  · -- no earlier entry matches
    intro j hj
    cases hpj : peers[j]? with
    | none => rfl
    | some q =>
      simp only
      have hq : PeerAddr.WF q := hwf q (List.mem_of_getElem? hpj)
      by_cases hpre : body.take (attr 0x0012 (xorPeerValue q txid)).length = attr 0x0012 (xorPeerValue q txid)
      · exfalso
        -- equal prefixes => equal length fields => equal attributes => equal addresses
        have hlq := hvl q hq
        have hlp := hvl p hp
        have e2 : be16 (body.getD 2 0) (body.getD 3 0) = (xorPeerValue p txid).length := by
          have := be16_be16b (xorPeerValue p txid).length hlp.2
          rw [← hbody, attr_eq]; simpa [be16b] using this
        have e2q : be16 ((attr 0x0012 (xorPeerValue q txid)).getD 2 0) ((attr 0x0012 (xorPeerValue q txid)).getD 3 0) =
            (xorPeerValue q txid).length := by
          have := be16_be16b (xorPeerValue q txid).length hlq.2
          rw [attr_eq]; simpa [be16b] using this
        have hqlen4 : 4 ≤ (attr 0x0012 (xorPeerValue q txid)).length := by rw [attr_length]; omega
        have hg : ∀ k, k < 4 → (attr 0x0012 (xorPeerValue q txid)).getD k 0 = body.getD k 0 := by
          intro k hk
          rw [← hpre]
          simp only [List.getD_eq_getElem?_getD]
          rw [List.getElem?_take_of_lt (by omega)]
        rw [hg 2 (by omega), hg 3 (by omega), e2] at e2q
        have hlen_eq : (attr 0x0012 (xorPeerValue q txid)).length = (attr 0x0012 (xorPeerValue p txid)).length := by
          rw [attr_length, attr_length, ← e2q]
        have hattr : attr 0x0012 (xorPeerValue q txid) = attr 0x0012 (xorPeerValue p txid) := by
          rw [← hpre, hlen_eq, ← hbody, List.take_left' rfl]
        have hval : xorPeerValue q txid = xorPeerValue p txid := by
          have := congrArg (fun l => (l.drop 4).take (xorPeerValue p txid).length) hattr
          simp only [attr_eq] at this
          have t1 : ∀ (v : Bytes) (n : Nat), n = v.length →
              ((be16b 0x0012 ++ (be16b v.length ++ (v ++ List.replicate (padOf v.length) 0))).drop 4).take n = v := by
            intro v n hn; subst hn; simp [be16b]
          rw [t1 _ _ e2q, t1 _ _ rfl] at this
          exact this
        exact hfirst j hj (by rw [hpj, xorPeerValue_inj q p txid hq hp ht hval])
      · simp [hpre]

/-- the driver's table (IPv4, IPv4, IPv6, IPv4 with another port): the third peer is recognised -/
example :
    let peers : List PeerAddr := [{ ipv6 := false, addr := [10, 1, 1, 1], port := 1111 }, { ipv6 := false, addr := [10, 1, 1, 2], port := 2222 },
      { ipv6 := true, addr := [0x20, 0x01, 0x0d, 0xb8, 0, 0, 0, 0, 0, 0, 0, 0, 0, 0, 0, 2], port := 3333 },
      { ipv6 := false, addr := [10, 1, 1, 1], port := 1112 }]
    parseDataIndication peers (forwardData { ipv6 := true, addr := [0x20, 0x01, 0x0d, 0xb8, 0, 0, 0, 0, 0, 0, 0, 0, 0, 0, 0, 2], port := 3333 }
      [1, 2, 3] (List.replicate 12 9)) = some (2, [1, 2, 3]) := by decide

/-! ### ChannelData -/

/-- **ChannelData reaches the relay intact**: for every channel in the TURN range and every payload
    a 16-bit length can describe, the relay reads back exactly (channel, payload). -/
theorem C16_channeldata_decodes (chan : Nat) (data : Bytes) (hc : 0x4000 ≤ chan ∧ chan ≤ 0x7FFF) (hd : data.length < 65536) :
    decodeChannelData (channelData chan data) = some (chan, data) := by
  have hcd : channelData chan data = be16b chan ++ be16b data.length ++ data := by
    simp [channelData, Nat.mod_eq_of_lt hd]
  rw [hcd]
  have h1 : be16 ((be16b chan ++ be16b data.length ++ data).getD 0 0) ((be16b chan ++ be16b data.length ++ data).getD 1 0) = chan := by
    simp only [List.append_assoc]; exact be16_be16b_append chan (by omega) _
  have h2 : be16 ((be16b chan ++ be16b data.length ++ data).getD 2 0) ((be16b chan ++ be16b data.length ++ data).getD 3 0) = data.length := by
    have := be16_be16b data.length hd
    simpa [be16b] using this
  have hl : (be16b chan ++ be16b data.length ++ data).length = 4 + data.length := by simp [be16b]; omega
  simp only [decodeChannelData, h1, h2, hl]
  have c1 : ¬ (4 + data.length < 4) := by omega
  have c3 : (decide (chan < 0x4000) || decide (chan > 0x7FFF) || decide (4 + data.length < 4 + data.length)) = false := by
    simp; omega
  simp only [c1, ↓reduceIte, c3, Bool.false_eq_true, Option.some.injEq, Prod.mk.injEq, true_and]
  simp [be16b]

/-- **ChannelData from the relay is handed up intact**: on a bound channel, payload and peer come
    back exactly and no read leaves the packet. -/
theorem C16_unwrap_channeldata (s : St) (chan peer : Nat) (data : Bytes) (src : Option Nat) (hf : s.fault = false)
    (hstd : s.compat ≠ .google)
    (hb : s.channels.find? (·.2 == chan) = some (peer, chan)) (hc : chan < 65536) (hd : data.length < 65536) :
    unwrapData s (forwardChannel chan data) src = ((some peer, data), s) := by
  have hne : s.channels ≠ [] := by intro h; rw [h] at hb; simp at hb
  have h1 : be16 ((forwardChannel chan data).getD 0 0) ((forwardChannel chan data).getD 1 0) = chan := by
    simp only [forwardChannel, List.append_assoc]; exact be16_be16b_append chan hc _
  have h2 : be16 ((forwardChannel chan data).getD 2 0) ((forwardChannel chan data).getD 3 0) = data.length := by
    have := be16_be16b data.length hd
    simpa [forwardChannel, be16b] using this
  have hl : (forwardChannel chan data).length = 4 + data.length := by simp [forwardChannel, be16b]; omega
  have hie : s.channels.isEmpty = false := by
    cases hcs : s.channels with
    | nil => exact absurd hcs hne
    | cons c0 cs => rfl
  have c2 : ¬ (4 + data.length < 4) := by omega
  have c3 : min data.length (4 + data.length - 4) = data.length := by omega
  have c4 : ¬ (4 + data.length > 4 + data.length) := by omega
  have hng : (s.compat == Compat.google) = false := by simpa using hstd
  simp only [unwrapData, hng, hie, Bool.false_eq_true, Bool.false_or, decide_eq_true_eq, ↓reduceIte, hl, h1, h2, hb, c2, c3, c4]
  simp [forwardChannel, be16b]

/-! ### held data -/

/-- **FIFO**: what is held for a peer is appended at the tail of that peer's queue; other queues
    are untouched. -/
theorem C16_queue_fifo (q : List (Nat × List (Bytes × Bool))) (peer : Nat) (m : Bytes) (rel : Bool)
    (items : List (Bytes × Bool)) (h : q.find? (·.1 == peer) = some (peer, items)) :
    (enqueue q peer m rel).find? (·.1 == peer) = some (peer, items ++ [(m, rel)]) := by
  have hany : q.any (·.1 == peer) = true := by
    rw [List.any_eq_true]
    exact ⟨(peer, items), List.mem_of_find?_eq_some h, by simp⟩
  simp only [enqueue, hany, ↓reduceIte]
  induction q with
  | nil => simp at h
  | cons e es ih =>
    simp only [List.find?_cons] at h
    by_cases he : (e.1 == peer) = true
    · simp only [he, ↓reduceIte] at h ⊢
      have : e = (peer, items) := by simpa using h
      subst this
      simp [List.find?_cons]
    · have he' : (e.1 == peer) = false := by simpa using he
      simp only [he', Bool.false_eq_true, ↓reduceIte] at h
      simp only [List.map_cons, he', Bool.false_eq_true, ↓reduceIte, List.find?_cons]
      by_cases hq : es.any (·.1 == peer) = true
      · exact ih h hq
      · exfalso
        apply hq
        rw [List.any_eq_true]
        exact ⟨(peer, items), List.mem_of_find?_eq_some h, by simp⟩

theorem flush_unreliable (items : List (Bytes × Bool)) (hu : ∀ it ∈ items, it.2 = false) :
    (items.map fun (x : Bytes × Bool) => (baseSend x.1 x.2).2).flatten = items.map (fun it => Down.raw it.1) := by
  induction items with
  | nil => rfl
  | cons it rest ih =>
    have h1 : it.2 = false := hu it (by simp)
    have h2 := ih (fun x hx => hu x (by simp [hx]))
    simp only [List.map_cons, List.flatten_cons, baseSend, h1, Bool.false_eq_true, ↓reduceIte, List.cons_append,
      List.nil_append, List.cons.injEq, true_and]
    simpa [baseSend] using h2

/-- **held, not lost**: when the permission is installed the whole queue of that peer goes to the
    base socket, every element, in the order it was queued, and the queue is gone. -/
theorem C16_held_not_lost (s : St) (peer : Nat) (items : List (Bytes × Bool))
    (h : s.queues.find? (·.1 == peer) = some (peer, items)) (hu : ∀ it ∈ items, it.2 = false) :
    (dequeueAll s peer).2 = items.map (fun it => Down.raw it.1) ∧
    (dequeueAll s peer).1.queues.find? (·.1 == peer) = none := by
  simp only [dequeueAll, h]
  constructor
  · exact flush_unreliable items hu
  · rw [List.find?_eq_none]
    intro x hx
    simp only [List.mem_filter, bne_iff_ne, ne_eq] at hx
    simp [hx.2]

/-- … **or timed out**: when the CreatePermission request runs out of retransmissions
    (`priv_retransmissions_create_permission_tick_unlocked`, TIMEOUT branch) the permission is assumed
    and the same complete, in-order flush happens. -/
theorem C16_timeout_flushes (s : St) (seq peer : Nat) (items : List (Bytes × Bool))
    (h : s.queues.find? (·.1 == peer) = some (peer, items)) (hu : ∀ it ∈ items, it.2 = false) :
    (cpTimeout s seq peer).2 = items.map (fun it => Down.raw it.1) ∧
    (cpTimeout s seq peer).1.queues.find? (·.1 == peer) = none ∧
    peer ∈ (cpTimeout s seq peer).1.perms := by
  have := C16_held_not_lost { s with cpReqs := markUsed s.cpReqs seq, sentPerms := s.sentPerms.filter (· != peer), pendPerms := s.pendPerms.filter (· != seq), perms := s.perms ++ [peer] } peer items h hu
  refine ⟨this.1, this.2, ?_⟩
  simp [cpTimeout, dequeueAll, h]

/-- non-vacuity of the time-out path on the clock: 500 + 1000 + 500 ms after the request, the held
    payload goes out -/
example :
    let s0 : St := { compat := .rfc5766, peers := [{ ipv6 := false, addr := [10, 1, 1, 1], port := 1111 }] }
    let s1 := (send s0 0 [[1, 2]] false).2
    let s2 := (advance (advance (advance s1 500).2 1000).2 499).2
    (s2.queues.map fun e => e.2.length) = [1] ∧ (advance s2 1).1.down.length = 1 ∧ (advance s2 1).2.perms = [0] := by
  decide

/-- non-vacuity: two sends without permission are held in order and flushed in order -/
example :
    let s0 : St := { compat := .rfc5766, peers := [{ ipv6 := false, addr := [10, 1, 1, 1], port := 1111 }] }
    let s1 := (send s0 0 [[1, 2]] false).2
    let s2 := (send s1 0 [[3]] false).2
    (s2.queues.map fun e => e.2.length) = [2] ∧ ((replyCp { s2 with cached := true } 0 .e400).1.down.length = 2) := by
  decide

/-! ### 438 Stale Nonce is a re-authentication round, never an answer -/

theorem sendCreatePermission_down (s : St) (p : Nat) :
    ∃ a d, (sendCreatePermission s p).2.2 = Down.cp s.cpReqs.length p a :: d := by
  unfold sendCreatePermission
  split <;> exact ⟨_, _, rfl⟩

theorem markUsed_length (rs : List Req) (seq : Nat) : (markUsed rs seq).length = rs.length := by
  simp [markUsed]

/-- **438 never counts as "answered"**: whatever the request carried (REALM or not), a 438 Stale
    Nonce answer to a live CreatePermission request makes the socket repeat the request for the same
    peer (a fresh transaction, first thing written), instead of pretending the permission exists
    (`nice_udp_turn_socket_parse_recv`, `code == STUN_ERROR_STALE_NONCE || (401 && other realm)`). -/
theorem C16_stale_nonce_reauthenticates (s : St) (seq : Nat) (r : Req)
    (hr : s.cpReqs.find? (·.seq == seq) = some r) (hv : r.valid = true) (hp : s.pendPerms.contains seq = true) :
    ∃ a d, (replyCp s seq .e438).1.down = Down.cp s.cpReqs.length r.peer a :: d := by
  obtain ⟨a, d, h⟩ := sendCreatePermission_down
    { s with cpReqs := markUsed s.cpReqs seq, pendPerms := s.pendPerms.filter (· != seq), cached := true } r.peer
  refine ⟨a, d, ?_⟩
  simp only [markUsed_length] at h
  simp only [replyCp, hr, validates, hv, retryWithAuth]
  have hp' : seq ∈ s.pendPerms := by simpa using hp
  simpa [hp'] using h

/-- non-vacuity, and the data stays held: an authenticated request answered 438 → one new request,
    nothing released, the two payloads still queued; the next success releases both -/
example :
    let s0 : St := { compat := .rfc5766, peers := [{ ipv6 := false, addr := [10, 1, 1, 1], port := 1111 }], cached := true }
    let s1 := (send s0 0 [[1, 2]] false).2
    let s2 := (send s1 0 [[3]] false).2
    let r := replyCp s2 0 .e438
    r.1.down = [Down.cp 1 0 true] ∧ (r.2.queues.map fun e => e.2.length) = [2] ∧ r.2.perms = [] ∧
      (replyCp r.2 1 .ok).1.down.length = 2 := by
  decide

/-! ### the receive path and the packet boundary -/

/-- **no relay datagram makes the socket read outside the received packet** (full strength,
    55a791e): for every packet `b` from any source, any set of bound channels — runts and lying
    length fields included — the ChannelData / pass-through path of `nice_udp_turn_socket_parse_recv`
    raises no fault, and what it hands up is a sub-range of the packet. -/
theorem C16_recv_no_fault (s : St) (b : Bytes) (src : Option Nat) (hf : s.fault = false) :
    (unwrapData s b src).2.fault = false ∧
    ((unwrapData s b src).1.2 = b ∨
      ∃ n, 4 + n ≤ b.length ∧ (unwrapData s b src).1.2 = (b.drop 4).take n) := by
  by_cases hg : (s.compat == Compat.google) = true
  · simp only [unwrapData, hg, ↓reduceIte]
    cases s.channels with
    | nil => exact ⟨hf, Or.inl rfl⟩
    | cons c cs => exact ⟨hf, Or.inl rfl⟩
  have hng : (s.compat == Compat.google) = false := by simpa using hg
  by_cases hie : (s.channels.isEmpty || decide (b.length < 4)) = true
  · simp [unwrapData, hng, hie, hf]
  · have hie' : (s.channels.isEmpty || decide (b.length < 4)) = false := by simpa using hie
    simp only [unwrapData, hng, hie', Bool.false_eq_true, ↓reduceIte]
    have h4 : 4 ≤ b.length := by
      simp only [Bool.or_eq_false_iff, decide_eq_false_iff_not] at hie'; omega
    cases hfind : List.find? (fun x => x.2 == be16 (b.getD 0 0) (b.getD 1 0)) s.channels with
    | none => exact ⟨hf, Or.inl rfl⟩
    | some pc =>
      have c3 : ¬ (4 + min (be16 (b.getD 2 0) (b.getD 3 0)) (b.length - 4) > b.length) := by omega
      simp only [c3, ↓reduceIte]
      exact ⟨hf, Or.inr ⟨min (be16 (b.getD 2 0) (b.getD 3 0)) (b.length - 4), by omega, rfl⟩⟩

/-- the former fault (channel 0x4000 bound, the 6-byte packet `40 00 ff ff 61 62`,
    corpus/C16/channeldata_len.ops): the two bytes that are there are handed up, nothing else is read -/
example :
    unwrapData { compat := .rfc5766, peers := [], channels := [(0, 0x4000)] } [0x40, 0, 0xff, 0xff, 0x61, 0x62] none =
      ((some 0, [0x61, 0x62]), { compat := .rfc5766, peers := [], channels := [(0, 0x4000)] }) := by
  decide

end Nice.Props.C16
