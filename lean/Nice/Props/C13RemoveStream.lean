/-
  C13 / C12 — the agent-wide keepalive timer (it drives the STUN keepalives AND the consent checks of every selected pair of every
  stream) is removed by nice_agent_remove_stream only when no stream is left: proved about the skeleton REGENERATED from
  agent/agent.c on every run (`Nice.Gen.RemoveStream.prog`).  (Seeded C13e added "or the pacing timer is not running" to the
  condition: the surviving streams then lose consent 30 s later although the peer keeps answering.)
-/
import Nice.Gen.RemoveStream
namespace Nice.Props.C13RemoveStream
open Nice.Flow Nice.Gen.RemoveStream

def hv : Havoc := fun _ _ => [0, 1]

/-- event kind 6 = priv_remove_keepalive_timer -/
def policy : Policy := fun _ kind σ => kind != 6 || σ.r0 == 0

def init : List St := [{ r0 := 0 }, { r0 := 1 }]

theorem analysis_ok : (reach hv policy prog init).ok = true := by decide +kernel

/-- **C13_keepalive_timer_goes_with_last_stream.** -/
theorem C13_keepalive_timer_goes_with_last_stream {σ0 : St} (h0 : σ0 ∈ init) {tr : List Ev} {σ1 : St} {o : Out}
    (hx : Exec hv prog σ0 tr σ1 o) : ∀ e ∈ tr, e.kind = 6 → e.st.r0 = 0 := by
  intro e he hk
  have hp := events_satisfy_policy analysis_ok h0 hx e he
  simpa [policy, hk] using hp

/-! non-vacuity: the timer IS removed on some path (last stream) -/
def never6 : Policy := fun _ kind _ => kind != 6
example : (reach hv never6 prog init).ok = false := by decide +kernel

end Nice.Props.C13RemoveStream
