/-
  C03 — the gate of agent/conncheck.c conn_check_handle_inbound_stun, proved about the skeleton REGENERATED from the
  source on every run (`Nice.Gen.InboundStun.prog`, tools/extract_flow.py) with the verified reachability analysis
  of `Nice.Model.Flow`: for every outcome of every untracked condition, every loop count and every status the
  validation calls may return,

  * a call or store that may change agent state happens only while the last validation status is SUCCESS or
    FORBIDDEN — the two statuses stun_agent_validate returns only after the MESSAGE-INTEGRITY comparison
    succeeded (C04) — so no message of an unauthenticated party creates a candidate, triggers a check, touches the
    role, a pair, a transaction or the component state; such messages cause at most an error reply;
  * when that status was produced by a discovery or refresh STUN agent (which do not hold the stream's
    credentials), the message is a response or an error response, never a request or an indication;
  * "not STUN, hand it to the data path" (return FALSE) is never reached after a state-changing event.

  The one assumption about the untracked code is `hv`: stun_agent_validate returns UNMATCHED_RESPONSE only for
  messages of class response / error (theorem `C04_unmatched_is_response` about the validation model).
-/
import Nice.Gen.InboundStun
import Nice.Gen.Consts
namespace Nice.Props.C03Flow
open Nice.Flow Nice.Gen Nice.Gen.InboundStun

def isResp (c : Nat) : Bool := c == STUN_RESPONSE || c == STUN_ERROR

/-- what a validation call may return in tracked state `σ` (r3 = class of the message) -/
def hv : Havoc := fun _ σ =>
  statusValues.filter fun v => v != STUN_VALIDATION_UNMATCHED_RESPONSE || isResp σ.r3

/-- the policy every event must satisfy -/
def policy : Policy := fun _ kind σ =>
  kind == 1 ||
  ((σ.r0 == STUN_VALIDATION_SUCCESS || σ.r0 == STUN_VALIDATION_FORBIDDEN) && (σ.r1 == 0 || isResp σ.r3))

/-- the function starts with an uninitialised status and any message class -/
def init : List St :=
  statusValues.flatMap fun v => classValues.map fun c => { r0 := v, r1 := 0, r2 := 0, r3 := c }

/-- `return FALSE` ("not STUN: hand the datagram to the data path") is allowed with these statuses only -/
def notConsumedOk (σ : St) : Bool :=
  σ.r0 == STUN_VALIDATION_NOT_STUN || σ.r0 == STUN_VALIDATION_INCOMPLETE_STUN ||
  σ.r0 == STUN_VALIDATION_BAD_REQUEST || σ.r0 == STUN_VALIDATION_UNKNOWN_ATTRIBUTE ||
  (σ.r0 == STUN_VALIDATION_SUCCESS && σ.r3 == STUN_REQUEST)

def outOk (p : St × Out) : Bool :=
  match p.2 with
  | .ret v => v != 0 || notConsumedOk p.1
  | _ => false

/-- the analysis, evaluated by the kernel -/
theorem summary_ok : (reach hv policy prog init).ok = true ∧ ((reach hv policy prog init).outs.all outOk) = true := by
  decide +kernel

theorem analysis_ok : (reach hv policy prog init).ok = true := summary_ok.1
theorem outcomes_ok : ((reach hv policy prog init).outs.all outOk) = true := summary_ok.2

/-- **C03_inbound_effects_need_auth.** -/
theorem C03_inbound_effects_need_auth {σ0 : St} (h0 : σ0 ∈ init) {tr : List Ev} {σ1 : St} {o : Out}
    (hx : Exec hv prog σ0 tr σ1 o) :
    ∀ e ∈ tr, e.kind = 0 →
      (e.st.r0 = STUN_VALIDATION_SUCCESS ∨ e.st.r0 = STUN_VALIDATION_FORBIDDEN) := by
  intro e he hk
  have hp := events_satisfy_policy analysis_ok h0 hx e he
  simp only [policy, hk, Bool.or_eq_true, Bool.and_eq_true, beq_iff_eq] at hp
  rcases hp with hp | hp
  · cases hp
  · exact hp.1

/-- **C03_discovery_agents_only_validate_responses.** -/
theorem C03_discovery_agents_only_validate_responses {σ0 : St} (h0 : σ0 ∈ init) {tr : List Ev} {σ1 : St} {o : Out}
    (hx : Exec hv prog σ0 tr σ1 o) :
    ∀ e ∈ tr, e.kind = 0 → e.st.r1 ≠ 0 → (e.st.r3 = STUN_RESPONSE ∨ e.st.r3 = STUN_ERROR) := by
  intro e he hk hw
  have hp := events_satisfy_policy analysis_ok h0 hx e he
  simp only [policy, hk, Bool.or_eq_true, Bool.and_eq_true, beq_iff_eq, isResp] at hp
  rcases hp with hp | hp
  · cases hp
  · rcases hp.2 with h | h
    · exact absurd h hw
    · exact h

/-- **C03_inbound_consumes_control_traffic.**  The function always ends by `return`; it returns FALSE ("not
    control traffic", the datagram goes on to the source-address gate and the application) only with a status
    NOT_STUN / INCOMPLETE / BAD_REQUEST / UNKNOWN_ATTRIBUTE, or for an authenticated request whose reply could not
    be built.  In particular an unmatched (duplicate, late) response, an unauthorised message and a 403 are
    consumed: ICE control traffic is not handed to the application (C02). -/
theorem C03_inbound_consumes_control_traffic {σ0 : St} (h0 : σ0 ∈ init) {tr : List Ev} {σ1 : St} {o : Out}
    (hx : Exec hv prog σ0 tr σ1 o) : ∃ v, o = .ret v ∧ (v = 0 → notConsumedOk σ1 = true) := by
  have h := outcomes_computed analysis_ok h0 hx
  have := List.all_eq_true.mp outcomes_ok _ h
  cases o with
  | ret v =>
    refine ⟨v, rfl, ?_⟩
    intro hv0
    simpa [outOk, hv0] using this
  | _ => simp [outOk] at this

/-! non-vacuity: the gate is passable (an execution with a state-changing event exists), and the analysis
    distinguishes: without the early return for cookie-less non-responses (commit 3a7093e) the policy fails -/
example : ∃ tr σ1 o, Exec hv (.seq (.seq (.set 1 0) (.havoc 0 1)) (.seq (.ite (.not (.eq 0 0)) (.ret 0) .skip) (.ev 34 0)))
    {} tr σ1 o ∧ ∃ e ∈ tr, e.kind = 0 := by
  refine ⟨_, _, _, .seqN (.seqN (.set 1 0 _) (.havoc (v := 0) (by decide))) (.seqN (.iteF (by decide) (.skip _)) (.ev 34 0 _)), ?_⟩
  exact ⟨_, List.mem_cons_self .., rfl⟩

def weakPolicy : Policy := fun _ kind σ => kind == 1 || σ.r0 == STUN_VALIDATION_SUCCESS
example : (reach hv weakPolicy prog [{ r3 := STUN_ERROR }]).ok = false := by decide +kernel   -- the 403 block acts under FORBIDDEN

end Nice.Props.C03Flow
