/-
  C08 — Pseudo-TCP delivers exactly the bytes written, in order, then end-of-stream: the END-TO-END receive-side theorems
  (N-recv) and (E) over the executable model `Nice.PTcp` with a ghost stream.

  Ghost stream.  `W : List UInt8` is what the peer's application wrote before closing; the peer's connect message
  occupies sequence numbers `[0, D)` (ISN is 0 in this code), `W[k]` has sequence number `D + k`, the FIN sits at
  `D + |W|`.  `SegOk W D seg p` (in `Nice.Proofs.PTcpStream`) says an incoming segment is one such a peer can emit (payload
  = slice of `W` at its sequence number; control segment = the connect message; FIN at the end of the stream) — the
  sender-side fact behind it is `C08_sender_payload_from_ring`.  `PktOk W D p` is `SegOk` of the packet as `parse`
  decodes it, `OpOk W D op` asks it of every `notify_packet` operation and nothing of any other operation.

  Histories.  `runG s got ops` is `Nice.Proofs.PTcp.run` (every public entry point, any arguments, any clock values,
  any `WritePacket` results) that also accumulates the bytes `recv` returned; `runG_erase` says it is `run` on the socket.
  Segments may arrive in any order, any number of times, or never: a history is just a list of operations.

  Invariant.  `RInv W D n s`: (`n` = number of bytes returned so far) the committed ring bytes are `W[n ..]`, `rcv_nxt`
  is the sequence number after them (+1 once the FIN is consumed), every out-of-order range recorded in `rlist` is
  stored in the ring at its own position and equals `W` there, and in a FIN-received state all of `W` is committed.

  What is proved: from ANY socket state satisfying `RInv` (in particular the state right after the peer's connect message
  has been consumed, see the examples), for EVERY history of `OpOk` operations, with `D + |W| + 2 < 2^31`
  (32-bit sequence numbers cannot tell arbitrarily delayed duplicates apart beyond that).
  What is not covered: the handshake phase itself (LISTEN / SYN-SENT up to the consumption of the connect message); see
  the note at `C08_recv_stream_prefix_partial`.
-/
import Nice.Proofs.PTcpStreamRecv
namespace Nice.Props.C08
open Nice.PTcp Nice.Gen Nice.Proofs.PTcp Nice.Proofs.PTcpStream

/-- **C08_recv_stream_prefix_partial (N-recv).**  For every history of operations in which every delivered packet is an
    honest segment of the stream `W` (any order, duplicates, losses, any `recv` sizes, clocks, window / buffer / MTU
    operations, shutdown, close), starting from a socket that satisfies the stream invariant with `n0` bytes already
    read: everything `recv` has returned is a prefix of `W` (exactly `W.take n`), the read count only grows, and the
    invariant still holds — so every committed byte at stream position `k` is `W[k]`.
    `_partial`: the start state must satisfy `RInv` (true right after the handshake: `rcv_nxt = D`, empty ring, empty
    `rlist`, see the example below); LISTEN / SYN-SENT histories before the peer's connect message is consumed are not
    covered, because there the property needs hypotheses on the environment that `SegOk` does not express (a receive
    buffer smaller than the connect message, or a connect message dropped by the `rtt < 0` test after the state has
    already moved to ESTABLISHED, leave `rcv_nxt` below `D` with out-of-order data stored at offsets relative to it). -/
theorem C08_recv_stream_prefix_partial (W : List UInt8) (D : Nat) (hB : D + W.length + 2 < 2 ^ 31)
    (s0 : Sock) (n0 : Nat) (h0 : RInv W D n0 s0) (hn0 : n0 ≤ W.length)
    (ops : List (UInt32 × Op)) (hops : ∀ x, x ∈ ops → OpOk W D x.2)
    (s : Sock) (got : List UInt8) (h : runG s0 (W.take n0) ops = .ok (s, got)) :
    got <+: W ∧ ∃ n, n0 ≤ n ∧ n ≤ W.length ∧ got = W.take n ∧ RInv W D n s := by
  obtain ⟨n, a1, a2, a3, a4⟩ := runG_rinv W D hB ops s0 n0 s got h0 hn0 hops h
  exact ⟨a3 ▸ List.take_prefix _ _, n, a1, a2, a3, a4⟩

/-- what the invariant says about the bytes still buffered: committed ring byte `i` is stream byte `n + i` -/
theorem C08_committed_bytes_are_stream (W : List UInt8) (D n : Nat) (s : Sock) (h : RInv W D n s) :
    n + s.rbuf.data ≤ W.length ∧ ∀ i, i < s.rbuf.data → byteAt s.rbuf i = W.getD (n + i) 0 :=
  ⟨h.toS.core.pre, h.toS.core.com⟩

/-- **C08_eos_after_all_data_partial (E).**  Along every such history: whenever the socket is in a FIN-received state
    (CLOSING, TIME-WAIT, CLOSE-WAIT, LAST-ACK — the states in which `recv` answers 0 instead of EWOULDBLOCK once the ring
    is empty, and `is_closed_remotely` is true), `rcv_nxt` is one past the FIN position `D + |W|` and every byte of `W`
    has been committed: what has not been returned yet is exactly what is still in the ring.
    `_partial`: CLOSED is excluded (it is also the result of every local close, RST and timeout), and the start state
    must satisfy `RInv` as in (N-recv). -/
theorem C08_eos_after_all_data_partial (W : List UInt8) (D : Nat) (hB : D + W.length + 2 < 2 ^ 31)
    (s0 : Sock) (n0 : Nat) (h0 : RInv W D n0 s0) (hn0 : n0 ≤ W.length)
    (ops : List (UInt32 × Op)) (hops : ∀ x, x ∈ ops → OpOk W D x.2)
    (s : Sock) (got : List UInt8) (h : runG s0 (W.take n0) ops = .ok (s, got)) (hF : Fin4 s.state) :
    s.rcv_nxt.toNat = D + W.length + 1 ∧ got.length + s.rbuf.data = W.length := by
  obtain ⟨n, _, a2, a3, a4⟩ := runG_rinv W D hB ops s0 n0 s got h0 hn0 hops h
  have ⟨b1, b2⟩ := fin4_all_committed W D n s a4 hF
  refine ⟨b1, ?_⟩
  rw [a3, List.length_take, Nat.min_eq_left a2]; exact b2

/-- **C08_recv_eos_means_all_read_partial (E, `recv` form).**  If, after such a history, a `recv` of a non-zero length on
    a socket in a FIN-received state whose read side has not been shut down locally returns 0 (end-of-stream), then
    everything the peer wrote has been returned: `got = W`. -/
theorem C08_recv_eos_means_all_read_partial (W : List UInt8) (D : Nat) (hB : D + W.length + 2 < 2 ^ 31)
    (s0 : Sock) (n0 : Nat) (h0 : RInv W D n0 s0) (hn0 : n0 ≤ W.length)
    (ops : List (UInt32 × Op)) (hops : ∀ x, x ∈ ops → OpOk W D x.2)
    (s : Sock) (got : List UInt8) (h : runG s0 (W.take n0) ops = .ok (s, got)) (hF : Fin4 s.state)
    (len : Nat) (clk : UInt32) (bytes : Array UInt8) (s' : Sock) (hlen : len ≠ 0) (hsr : s.shutdown_reads = false)
    (hr : recv s len clk = .ok (0, bytes, s')) : got = W := by
  obtain ⟨n, _, a2, a3, a4⟩ := runG_rinv W D hB ops s0 n0 s got h0 hn0 hops h
  have ⟨_, b2⟩ := fin4_all_committed W D n s a4 hF
  have hfa := (a4.toS.fin4 hF).1
  -- the call goes through the ring read, which returns `min len data` bytes
  have hd : s.rbuf.data = 0 := by
    unfold recv at hr
    rw [if_neg (by rw [hsr]; simp)] at hr
    rw [if_neg (by rw [hfa]; simp)] at hr
    rw [if_neg (by rw [hfa]; simp)] at hr
    rw [if_neg (by simpa using hlen)] at hr
    obtain ⟨⟨bs, rb⟩, hrd, hr⟩ := bind_ok hr
    have ⟨_, _, _, hsz⟩ := read_rcore W D n s len bs rb a4.toS.core hrd
    simp only at hr
    have hrf : hasReceivedFin s.state = true := by
      revert hF; cases s.state <;> simp [Fin4, hasReceivedFin]
    rw [if_neg (by rw [hrf]; simp)] at hr
    have hz : (bs.size : Int) = 0 := by
      split at hr
      · obtain ⟨s3, _, hr⟩ := bind_ok hr
        simp only [pure, Except.pure] at hr
        exact (Prod.mk.inj (Except.ok.inj hr)).1
      · simp only [pure, Except.pure] at hr
        exact (Prod.mk.inj (Except.ok.inj hr)).1
    have : bs.size = 0 := by omega
    omega
  rw [a3]
  have : n = W.length := by omega
  rw [this, List.take_length]

/-! ### non-vacuity: the hypotheses are satisfiable, on states the model really reaches -/

/-- the state right after the peer's connect message has been consumed satisfies the invariant, for every stream -/
theorem rinv_after_handshake (W : List UInt8) (D : Nat) (s : Sock) (hf : FOk s.rbuf) (hd : s.rbuf.data = 0)
    (hl : s.rlist = []) (hn : s.rcv_nxt.toNat = D) (hfin : s.rcv_fin = 0)
    (hst : s.state ≠ .listen ∧ s.state ≠ .synSent) (hF : ¬ Fin4 s.state) : RInv W D 0 s := by
  refine ⟨⟨hf, by rw [hd]; exact Nat.zero_le _, fun i hi => absurd hi (by rw [hd]; exact Nat.not_lt_zero _), Or.inr ⟨Or.inl ?_, ?_⟩,
    Or.inl hfin⟩, hst, fun h => absurd h hF, Or.inl rfl⟩
  · rw [hn, hd]; omega
  · intro r hr; rw [hl] at hr; cases hr

namespace Example

deriving instance DecidableEq for Except

/-- a 24-byte header: conv 0, the given sequence number and flags, ack 0, window 100, timestamps 0 -/
def hdr (seq : UInt32) (flags : UInt8) : Array UInt8 :=
  push32 (push32 (push16 ((push32 (push32 (push32 #[] 0) seq) 0).push 0 |>.push flags) 100) 0) 0

/-- the peer's connect message (`CTL_CONNECT`, window-scale option, FIN-ACK option): sequence numbers `[0, 7)` -/
def ctlPkt : Array UInt8 := hdr 0 2 ++ #[0, 3, 1, 0, 254, 1, 0]
/-- the peer's data `abc` at sequence number 7 -/
def dataPkt : Array UInt8 := hdr 7 0 ++ #[97, 98, 99]
/-- the second half `c` alone (an out-of-order segment when it arrives first) -/
def tailPkt : Array UInt8 := hdr 9 0 ++ #[99]
/-- the peer's FIN at sequence number 10 -/
def finPkt : Array UInt8 := hdr 10 1

def W : List UInt8 := [97, 98, 99]

/-- a passive socket that has processed the peer's connect message -/
def s1 : Sock := match notifyPacket (Sock.init 0) ctlPkt 5 with
  | .ok (_, s) => s
  | .error _ => Sock.init 0

set_option maxRecDepth 100000 in
theorem s1_facts : s1.state = .synReceived ∧ s1.rcv_nxt = 7 ∧ s1.rbuf.data = 0 ∧ s1.rlist = [] ∧
    s1.rbuf.buf.size = 61440 ∧ s1.rbuf.rpos = 0 ∧ s1.rcv_fin = 0 := by decide +kernel

/-- the invariant holds on the state the model reaches from `Sock.init` by the handshake -/
theorem s1_rinv : RInv W 7 0 s1 := by
  have ⟨a1, a2, a3, a4, a5, a6, a7⟩ := s1_facts
  refine rinv_after_handshake W 7 s1 ⟨⟨by rw [a3, a5]; decide, by rw [a6, a5]; decide⟩, by rw [a5]; decide⟩ a3 a4
    (by rw [a2]; rfl) a7 (by rw [a1]; exact ⟨by decide, by decide⟩) (by rw [a1]; unfold Fin4; simp)

theorem pktOk_of_hdr (W : List UInt8) (D : Nat) (p : Array UInt8) (seg : Segment) (h : hdrOf p = .ok seg)
    (hs : SegOk W D seg p) : PktOk W D p := by
  intro seg' h'; rw [h] at h'; cases h'; exact hs

theorem dataPkt_ok : PktOk W 7 dataPkt := by
  refine pktOk_of_hdr W 7 dataPkt
    { conv := 0, seq := 7, ack := 0, flags := 0, wnd := 100, dataOff := 24, len := 3, tsval := 0, tsecr := 0 }
    (by decide +kernel) ⟨fun h => absurd rfl h, fun _ _ => ⟨by decide, by decide, by decide⟩, fun h => absurd rfl h⟩

theorem tailPkt_ok : PktOk W 7 tailPkt := by
  refine pktOk_of_hdr W 7 tailPkt
    { conv := 0, seq := 9, ack := 0, flags := 0, wnd := 100, dataOff := 24, len := 1, tsval := 0, tsecr := 0 }
    (by decide +kernel) ⟨fun h => absurd rfl h, fun _ _ => ⟨by decide, by decide, by decide⟩, fun h => absurd rfl h⟩

theorem finPkt_ok : PktOk W 7 finPkt := by
  refine pktOk_of_hdr W 7 finPkt
    { conv := 0, seq := 10, ack := 0, flags := 1, wnd := 100, dataOff := 24, len := 0, tsval := 0, tsecr := 0 }
    (by decide +kernel) ⟨fun h => absurd rfl h, fun _ h => absurd rfl h, fun _ => by decide⟩

/-- a lossy, reordered, duplicating schedule: the tail arrives first (out of order), then the FIN (out of order), a
    premature `recv`, then the full data twice, then `recv`s -/
def ops : List (UInt32 × Op) :=
  [(6, .packet tailPkt), (7, .packet finPkt), (8, .recv 10), (9, .packet dataPkt), (10, .packet dataPkt),
   (11, .recv 2), (12, .clock), (13, .recv 10), (14, .recv 10)]

theorem ops_ok : ∀ x, x ∈ ops → OpOk W 7 x.2 := by
  intro x hx
  unfold ops at hx
  rcases List.mem_cons.mp hx with rfl | hx; exact tailPkt_ok
  rcases List.mem_cons.mp hx with rfl | hx; exact finPkt_ok
  rcases List.mem_cons.mp hx with rfl | hx; exact True.intro
  rcases List.mem_cons.mp hx with rfl | hx; exact dataPkt_ok
  rcases List.mem_cons.mp hx with rfl | hx; exact dataPkt_ok
  rcases List.mem_cons.mp hx with rfl | hx; exact True.intro
  rcases List.mem_cons.mp hx with rfl | hx; exact True.intro
  rcases List.mem_cons.mp hx with rfl | hx; exact True.intro
  rcases List.mem_cons.mp hx with rfl | hx; exact True.intro
  cases hx

set_option maxRecDepth 100000 in
/-- the schedule runs without a fault in the model, returns exactly `abc`, and ends in CLOSE-WAIT (FIN received) -/
theorem ops_run : (match runG s1 [] ops with
    | .ok (s, got) => got == W && decide (s.state = .closeWait)
    | .error _ => false) = true := by decide +kernel

/-- (N-recv) and (E) instantiated: all hypotheses hold for this history -/
example : ∃ s got, runG s1 (W.take 0) ops = .ok (s, got) ∧ got <+: W ∧ Fin4 s.state ∧
    got.length + s.rbuf.data = W.length := by
  have hr := ops_run
  cases h : runG s1 [] ops with
  | error e => rw [h] at hr; cases hr
  | ok v =>
    obtain ⟨s, got⟩ := v
    rw [h] at hr
    simp only [Bool.and_eq_true, decide_eq_true_eq] at hr
    have hF : Fin4 s.state := by rw [hr.2]; trivial
    have hB : 7 + W.length + 2 < 2 ^ 31 := by decide
    exact ⟨s, got, h, (C08_recv_stream_prefix_partial W 7 hB s1 0 s1_rinv (Nat.zero_le _) ops ops_ok s got h).1, hF,
      (C08_eos_after_all_data_partial W 7 hB s1 0 s1_rinv (Nat.zero_le _) ops ops_ok s got h hF).2⟩

end Example

end Nice.Props.C08
