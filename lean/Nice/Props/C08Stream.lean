/-
  C08 — Pseudo-TCP delivers exactly the bytes written, in order, then end-of-stream: the END-TO-END receive-side theorems
  (N-recv) and (E) over the executable model `Nice.PTcp` with a ghost stream.

  Ghost stream.  `W : List UInt8` is what the peer's application wrote before closing; the peer's connect message
  occupies sequence numbers `[0, D)` (ISN is 0 in this code), `W[k]` has sequence number `D + k`, the FIN sits at
  `D + |W|`.  `SegOk W D seg p` (in `Nice.Proofs.PTcpStream`) says an incoming segment is one such a peer can emit (payload
  = slice of `W` at its sequence number; control segment = the connect message; FIN at the end of the stream) — the
  sender-side fact behind it is `C08_sender_payload_from_ring`.  `PktOk W D p` is `SegOk` of the packet as `parse`
  decodes it, `OpOk W D op` asks it of every `notify_packet` operation and nothing of any other operation.

  Histories.  `runG s got ops` is `Nice.Proofs.PTcp.run` (every public entry point, any arguments, any clock values,
  any `WritePacket` results) that also accumulates the bytes `recv` returned; `runG_erase` says it is `run` on the socket.
  Segments may arrive in any order, any number of times, or never: a history is just a list of operations.

  Invariant.  `RInv W D n s`: (`n` = number of bytes returned so far) the committed ring bytes are `W[n ..]`, `rcv_nxt`
  is the sequence number after them (+1 once the FIN is consumed), every out-of-order range recorded in `rlist` is
  stored in the ring at its own position and equals `W` there, and in a FIN-received state all of `W` is committed.

  What is proved: from ANY socket state satisfying `RInv` (in particular the state right after the peer's connect message
  has been consumed, see the examples), for EVERY history of `OpOk` operations, with `D + |W| + 2 < 2^31`
  (32-bit sequence numbers cannot tell arbitrarily delayed duplicates apart beyond that).
  Send side (N-send): `runS` accumulates the bytes `send` reported as accepted; `C08_sender_segments_from_stream` says
  every packet ever written, from `Sock.init` on and for EVERY history (hostile incoming packets included), carries the
  slice of `ctl ++ sent` at an absolute position congruent to its sequence number (`ctl` = the connect message).
  Handshake: `C08_handshake_establishes_invariant` (a packet on an untouched LISTEN / SYN-SENT socket leaves it untouched
  or establishes `RInv`), and `C08_recv_stream_prefix_from_init_partial`: (N-recv)+(E) for every history from
  `Sock.init`, under the execution hypothesis `GoodRun` (see there for why it is needed).
-/
import Nice.Proofs.PTcpStreamRecv
import Nice.Proofs.PTcpStreamSnd5
import Nice.Proofs.PTcpStreamHs
import Nice.Proofs.PTcpStreamPre
namespace Nice.Props.C08
open Nice.PTcp Nice.Gen Nice.Proofs.PTcp Nice.Proofs.PTcpStream

/-- **C08_recv_stream_prefix_partial (N-recv).**  For every history of operations in which every delivered packet is an
    honest segment of the stream `W` (any order, duplicates, losses, any `recv` sizes, clocks, window / buffer / MTU
    operations, shutdown, close), starting from a socket that satisfies the stream invariant with `n0` bytes already
    read: everything `recv` has returned is a prefix of `W` (exactly `W.take n`), the read count only grows, and the
    invariant still holds — so every committed byte at stream position `k` is `W[k]`.
    `_partial`: the start state must satisfy `RInv` (true right after the handshake: `rcv_nxt = D`, empty ring, empty
    `rlist`, see the example below); LISTEN / SYN-SENT histories before the peer's connect message is consumed are not
    covered, because there the property needs hypotheses on the environment that `SegOk` does not express (a receive
    buffer smaller than the connect message, or a connect message dropped by the `rtt < 0` test after the state has
    already moved to ESTABLISHED, leave `rcv_nxt` below `D` with out-of-order data stored at offsets relative to it). -/
theorem C08_recv_stream_prefix_partial (W : List UInt8) (D : Nat) (hB : D + W.length + 2 < 2 ^ 31)
    (s0 : Sock) (n0 : Nat) (h0 : RInv W D n0 s0) (hn0 : n0 ≤ W.length)
    (ops : List (UInt32 × Op)) (hops : ∀ x, x ∈ ops → OpOk W D x.2)
    (s : Sock) (got : List UInt8) (h : runG s0 (W.take n0) ops = .ok (s, got)) :
    got <+: W ∧ ∃ n, n0 ≤ n ∧ n ≤ W.length ∧ got = W.take n ∧ RInv W D n s := by
  obtain ⟨n, a1, a2, a3, a4⟩ := runG_rinv W D hB ops s0 n0 s got h0 hn0 hops h
  exact ⟨a3 ▸ List.take_prefix _ _, n, a1, a2, a3, a4⟩

/-- what the invariant says about the bytes still buffered: committed ring byte `i` is stream byte `n + i` -/
theorem C08_committed_bytes_are_stream (W : List UInt8) (D n : Nat) (s : Sock) (h : RInv W D n s) :
    n + s.rbuf.data ≤ W.length ∧ ∀ i, i < s.rbuf.data → byteAt s.rbuf i = W.getD (n + i) 0 :=
  ⟨h.toS.core.pre, h.toS.core.com⟩

/-- **C08_eos_after_all_data_partial (E).**  Along every such history: whenever the socket is in a FIN-received state
    (CLOSING, TIME-WAIT, CLOSE-WAIT, LAST-ACK — the states in which `recv` answers 0 instead of EWOULDBLOCK once the ring
    is empty, and `is_closed_remotely` is true), `rcv_nxt` is one past the FIN position `D + |W|` and every byte of `W`
    has been committed: what has not been returned yet is exactly what is still in the ring.
    `_partial`: CLOSED is excluded (it is also the result of every local close, RST and timeout), and the start state
    must satisfy `RInv` as in (N-recv). -/
theorem C08_eos_after_all_data_partial (W : List UInt8) (D : Nat) (hB : D + W.length + 2 < 2 ^ 31)
    (s0 : Sock) (n0 : Nat) (h0 : RInv W D n0 s0) (hn0 : n0 ≤ W.length)
    (ops : List (UInt32 × Op)) (hops : ∀ x, x ∈ ops → OpOk W D x.2)
    (s : Sock) (got : List UInt8) (h : runG s0 (W.take n0) ops = .ok (s, got)) (hF : Fin4 s.state) :
    s.rcv_nxt.toNat = D + W.length + 1 ∧ got.length + s.rbuf.data = W.length := by
  obtain ⟨n, _, a2, a3, a4⟩ := runG_rinv W D hB ops s0 n0 s got h0 hn0 hops h
  have ⟨b1, b2⟩ := fin4_all_committed W D n s a4 hF
  refine ⟨b1, ?_⟩
  rw [a3, List.length_take, Nat.min_eq_left a2]; exact b2

/-- **C08_recv_eos_means_all_read_partial (E, `recv` form).**  If, after such a history, a `recv` of a non-zero length on
    a socket in a FIN-received state whose read side has not been shut down locally returns 0 (end-of-stream), then
    everything the peer wrote has been returned: `got = W`. -/
theorem C08_recv_eos_means_all_read_partial (W : List UInt8) (D : Nat) (hB : D + W.length + 2 < 2 ^ 31)
    (s0 : Sock) (n0 : Nat) (h0 : RInv W D n0 s0) (hn0 : n0 ≤ W.length)
    (ops : List (UInt32 × Op)) (hops : ∀ x, x ∈ ops → OpOk W D x.2)
    (s : Sock) (got : List UInt8) (h : runG s0 (W.take n0) ops = .ok (s, got)) (hF : Fin4 s.state)
    (len : Nat) (clk : UInt32) (bytes : Array UInt8) (s' : Sock) (hlen : len ≠ 0) (hsr : s.shutdown_reads = false)
    (hr : recv s len clk = .ok (0, bytes, s')) : got = W := by
  obtain ⟨n, _, a2, a3, a4⟩ := runG_rinv W D hB ops s0 n0 s got h0 hn0 hops h
  have ⟨_, b2⟩ := fin4_all_committed W D n s a4 hF
  have hfa := (a4.toS.fin4 hF).1
  -- the call goes through the ring read, which returns `min len data` bytes
  have hd : s.rbuf.data = 0 := by
    unfold recv at hr
    rw [if_neg (by rw [hsr]; simp)] at hr
    rw [if_neg (by rw [hfa]; simp)] at hr
    rw [if_neg (by rw [hfa]; simp)] at hr
    rw [if_neg (by simpa using hlen)] at hr
    obtain ⟨⟨bs, rb⟩, hrd, hr⟩ := bind_ok hr
    have ⟨_, _, _, hsz⟩ := read_rcore W D n s len bs rb a4.toS.core hrd
    simp only at hr
    have hrf : hasReceivedFin s.state = true := by
      revert hF; cases s.state <;> simp [Fin4, hasReceivedFin]
    rw [if_neg (by rw [hrf]; simp)] at hr
    have hz : (bs.size : Int) = 0 := by
      split at hr
      · obtain ⟨s3, _, hr⟩ := bind_ok hr
        simp only [pure, Except.pure] at hr
        exact (Prod.mk.inj (Except.ok.inj hr)).1
      · simp only [pure, Except.pure] at hr
        exact (Prod.mk.inj (Except.ok.inj hr)).1
    have : bs.size = 0 := by omega
    omega
  rw [a3]
  have : n = W.length := by omega
  rw [this, List.take_length]

/-- **C08_handshake_establishes_invariant.**  The handshake step: on a socket in LISTEN or SYN-SENT whose receive side is
    untouched (nothing committed, nothing stored out of order, receive ring at least as large as the peer's connect
    message), every honest packet either leaves `rcv_nxt = 0` or — the peer's connect message, when its data stage is
    reached — establishes the stream invariant with nothing read yet.  (`D ≤ DEFAULT_RCV_BUF_SIZE`: `parse_options` may
    fall back to the default ring.) -/
theorem C08_handshake_establishes_invariant (W : List UInt8) (D : Nat) (hD : D ≤ DEFAULT_RCV_BUF_SIZE) (s : Sock)
    (hst : s.state = .listen ∨ s.state = .synSent) (hfok : FOk s.rbuf) (hnx : s.rcv_nxt = 0)
    (hdz : s.rbuf.data = 0) (hrl : s.rlist = []) (hcap : D ≤ s.rbuf.buf.size)
    (hfin : s.rcv_fin = 0 ∨ s.rcv_fin.toNat = D + W.length)
    (p : Array UInt8) (hp : PktOk W D p) (clk : UInt32) (r : Bool × Sock) (h : notifyPacket s p clk = .ok r) :
    r.2.rcv_nxt = 0 ∨ RInv W D 0 r.2 :=
  handshake_establishes_rinv W D hD s hst hfok hnx hdz hrl hcap hfin p hp clk r h

/-- Boolean form of `GoodRun`, for concrete histories -/
def goodRunB (s : Sock) : List (UInt32 × Op) → Bool
  | [] => true
  | (clk, op) :: rest =>
    match stepG s clk op with
    | .ok (s', _) =>
      (s'.rcv_nxt != 0 || decide (s'.state = .listen) || decide (s'.state = .synSent) || decide (s'.state = .closed)) &&
        goodRunB s' rest
    | .error _ => true

theorem goodRunB_sound (ops : List (UInt32 × Op)) : ∀ s, goodRunB s ops = true → GoodRun s ops := by
  induction ops with
  | nil => intro _ _; trivial
  | cons x rest ih =>
    intro s h
    obtain ⟨clk, op⟩ := x
    intro s' b hs
    simp only [goodRunB, hs, Bool.and_eq_true, Bool.or_eq_true, bne_iff_ne, ne_eq, decide_eq_true_eq] at h
    refine ⟨?_, ih s' h.2⟩
    intro h0
    rcases h.1 with ((h1 | h1) | h1) | h1
    · exact absurd h0 h1
    · exact Or.inl h1
    · exact Or.inr (Or.inl h1)
    · exact Or.inr (Or.inr h1)

/-- **C08_recv_stream_prefix_from_init_partial (N-recv and E from a fresh socket).**  For every history of operations on
    `Sock.init conv` — handshake included: `connect`, clocks, `recv`, buffer / MTU settings, `shutdown`, `close`, honest
    packets in any order with duplicates and losses — everything `recv` has returned is a prefix of `W`, and in a
    FIN-received state all of `W` has been committed.
    `_partial`, with exactly these hypotheses: `D + |W| + 2 < 2^31`; `D ≤ DEFAULT_RCV_BUF_SIZE` and every `setRcvBuf`
    keeps the ring at least `D` bytes (`OpOk0`); and `GoodRun`: after every step, a socket that is no longer in
    LISTEN / SYN-SENT / CLOSED has consumed the peer's connect message (`rcv_nxt ≠ 0`).  `GoodRun` fails only when a
    connect message is dropped after the state change it causes (the `rtt < 0` test, a FIN-flagged connect message, a
    failed retransmission); without it the model does deliver wrong bytes (see the report). -/
theorem C08_recv_stream_prefix_from_init_partial (W : List UInt8) (D : Nat) (hB : D + W.length + 2 < 2 ^ 31)
    (hD : D ≤ DEFAULT_RCV_BUF_SIZE) (conv : UInt32) (ops : List (UInt32 × Op))
    (hops : ∀ x, x ∈ ops → OpOk0 W D x.2) (hgr : GoodRun (Sock.init conv) ops)
    (s : Sock) (got : List UInt8) (h : runG (Sock.init conv) [] ops = .ok (s, got)) :
    got <+: W ∧ (Fin4 s.state → s.rcv_nxt.toNat = D + W.length + 1 ∧ got.length + s.rbuf.data = W.length) := by
  obtain ⟨n, _, a2, a3, a4⟩ := runG_tot W D hB hD ops (Sock.init conv) 0 s got
    (Or.inl ⟨rfl, init_pre W D hD conv⟩) (Nat.zero_le _) hops hgr h
  refine ⟨a3 ▸ List.take_prefix _ _, fun hF => ?_⟩
  rcases a4 with ⟨_, hm⟩ | a4
  · exfalso
    have := hm.stk
    revert hF
    rcases this with e | e | e <;> rw [e] <;> (unfold Fin4; simp)
  · have ⟨b1, b2⟩ := fin4_all_committed W D n s a4 hF
    refine ⟨b1, ?_⟩
    rw [a3, List.length_take, Nat.min_eq_left a2]; exact b2

/-- **C08_sender_segments_from_stream (N-send).**  From a fresh socket, for EVERY history of public operations (any
    incoming packets, honest or not, any clocks, any `WritePacket` results; each `send` of fewer than 2^31 bytes): there
    is one byte string `ctl` (the connect message, queued at most once and before any data) such that every packet the
    socket has written so far — all of them are in `s.out`, which is append-only — is a 24-byte header for some sequence
    number `seq` followed by a payload that is empty or equals the slice of `ctl ++ sent` at an absolute position
    `k ≡ seq (mod 2^32)`, where `sent` is exactly the concatenation of the bytes `send` reported as accepted.  In
    particular a retransmission or a re-segmentation can never carry a byte that was not written at that position. -/
theorem C08_sender_segments_from_stream (conv : UInt32) (ops : List (UInt32 × Op))
    (hops : ∀ x, x ∈ ops → OpOkS x.2) (s : Sock) (sent : List UInt8)
    (h : runS (Sock.init conv) [] ops = .ok (s, sent)) :
    ∃ ctl : List UInt8, ∀ b, Event.packet b ∈ s.out →
      ∃ (s0 : Sock) (seq : UInt32) (fl : UInt8) (wnd : UInt16) (now : UInt32) (payload : Array UInt8),
        b = buildHeader s0 seq fl wnd now ++ payload ∧ PktSlice (ctl ++ sent) seq payload := by
  obtain ⟨⟨ctl, a, f, hi⟩, _⟩ := runS_sg ops (Sock.init conv) [] s sent (init_sg conv) hops h
  exact ⟨ctl, fun b hb => hi.out _ hb⟩

/-- the same, as an invariant of the send ring: the ring holds `(ctl ++ sent)[a ..]`, `snd_una ≡ a + f` where `a` bytes
    and `f` FIN positions have been acknowledged -/
theorem C08_send_ring_is_stream_suffix (conv : UInt32) (ops : List (UInt32 × Op))
    (hops : ∀ x, x ∈ ops → OpOkS x.2) (s : Sock) (sent : List UInt8)
    (h : runS (Sock.init conv) [] ops = .ok (s, sent)) :
    ∃ (ctl : List UInt8) (a f : Nat), a + s.sbuf.data = (ctl ++ sent).length ∧
      (∀ i, i < s.sbuf.data → byteAt s.sbuf i = (ctl ++ sent).getD (a + i) 0) ∧
      s.snd_una.toNat = (a + f) % 2 ^ 32 := by
  obtain ⟨⟨ctl, a, f, hi⟩, _⟩ := runS_sg ops (Sock.init conv) [] s sent (init_sg conv) hops h
  exact ⟨ctl, a, f, hi.len, hi.com, hi.una⟩

/-- bridge to the receiver's hypothesis: while the stream is shorter than 2^32, a non-empty `PktSlice` payload at a
    sequence number at or after the connect message is exactly the `data` clause of `SegOk` with `D = |ctl|` -/
theorem C08_pktSlice_is_segOk_data (ctl W : List UInt8) (seq : UInt32) (payload : Array UInt8)
    (h : PktSlice (ctl ++ W) seq payload) (hne : payload.size ≠ 0) (hlen : (ctl ++ W).length < 2 ^ 32)
    (hseq : ctl.length ≤ seq.toNat) :
    seq.toNat + payload.size ≤ ctl.length + W.length ∧
      ∀ j, j < payload.size → payload[j]?.getD 0 = W.getD (seq.toNat - ctl.length + j) 0 := by
  rcases h with h | ⟨k, h1, h2, h3⟩
  · exact absurd h hne
  · have hk : k = seq.toNat := by
      have : k < 2 ^ 32 := by omega
      omega
    subst hk
    rw [List.length_append] at h2
    refine ⟨h2, fun j hj => ?_⟩
    rw [h3 j hj, List.getD_eq_getElem?_getD, List.getD_eq_getElem?_getD, List.getElem?_append_right (by omega)]
    congr 2; omega

/-! ### non-vacuity: the hypotheses are satisfiable, on states the model really reaches -/

/-- the state right after the peer's connect message has been consumed satisfies the invariant, for every stream -/
theorem rinv_after_handshake (W : List UInt8) (D : Nat) (s : Sock) (hf : FOk s.rbuf) (hd : s.rbuf.data = 0)
    (hl : s.rlist = []) (hn : s.rcv_nxt.toNat = D) (hfin : s.rcv_fin = 0)
    (hst : s.state ≠ .listen ∧ s.state ≠ .synSent) (hF : ¬ Fin4 s.state) : RInv W D 0 s := by
  refine ⟨⟨hf, by rw [hd]; exact Nat.zero_le _, fun i hi => absurd hi (by rw [hd]; exact Nat.not_lt_zero _), Or.inr ⟨Or.inl ?_, ?_⟩,
    Or.inl hfin⟩, hst, fun h => absurd h hF, Or.inl rfl⟩
  · rw [hn, hd]; omega
  · intro r hr; rw [hl] at hr; cases hr

namespace Example

deriving instance DecidableEq for Except

/-- a 24-byte header: conv 0, the given sequence number and flags, ack 0, window 100, timestamps 0 -/
def hdr (seq : UInt32) (flags : UInt8) : Array UInt8 :=
  push32 (push32 (push16 ((push32 (push32 (push32 #[] 0) seq) 0).push 0 |>.push flags) 100) 0) 0

/-- the peer's connect message (`CTL_CONNECT`, window-scale option, FIN-ACK option): sequence numbers `[0, 7)` -/
def ctlPkt : Array UInt8 := hdr 0 2 ++ #[0, 3, 1, 0, 254, 1, 0]
/-- the peer's data `abc` at sequence number 7 -/
def dataPkt : Array UInt8 := hdr 7 0 ++ #[97, 98, 99]
/-- the second half `c` alone (an out-of-order segment when it arrives first) -/
def tailPkt : Array UInt8 := hdr 9 0 ++ #[99]
/-- the peer's FIN at sequence number 10 -/
def finPkt : Array UInt8 := hdr 10 1

def W : List UInt8 := [97, 98, 99]

/-- a passive socket that has processed the peer's connect message -/
def s1 : Sock := match notifyPacket (Sock.init 0) ctlPkt 5 with
  | .ok (_, s) => s
  | .error _ => Sock.init 0

set_option maxRecDepth 100000 in
theorem s1_facts : s1.state = .synReceived ∧ s1.rcv_nxt = 7 ∧ s1.rbuf.data = 0 ∧ s1.rlist = [] ∧
    s1.rbuf.buf.size = 61440 ∧ s1.rbuf.rpos = 0 ∧ s1.rcv_fin = 0 := by decide +kernel

/-- the invariant holds on the state the model reaches from `Sock.init` by the handshake -/
theorem s1_rinv : RInv W 7 0 s1 := by
  have ⟨a1, a2, a3, a4, a5, a6, a7⟩ := s1_facts
  refine rinv_after_handshake W 7 s1 ⟨⟨by rw [a3, a5]; decide, by rw [a6, a5]; decide⟩, by rw [a5]; decide⟩ a3 a4
    (by rw [a2]; rfl) a7 (by rw [a1]; exact ⟨by decide, by decide⟩) (by rw [a1]; unfold Fin4; simp)

theorem pktOk_of_hdr (W : List UInt8) (D : Nat) (p : Array UInt8) (seg : Segment) (h : hdrOf p = .ok seg)
    (hs : SegOk W D seg p) : PktOk W D p := by
  intro seg' h'; rw [h] at h'; cases h'; exact hs

theorem dataPkt_ok : PktOk W 7 dataPkt := by
  refine pktOk_of_hdr W 7 dataPkt
    { conv := 0, seq := 7, ack := 0, flags := 0, wnd := 100, dataOff := 24, len := 3, tsval := 0, tsecr := 0 }
    (by decide +kernel) ⟨fun h => absurd rfl h, fun _ _ => ⟨by decide, by decide, by decide⟩, fun h => absurd rfl h⟩

theorem tailPkt_ok : PktOk W 7 tailPkt := by
  refine pktOk_of_hdr W 7 tailPkt
    { conv := 0, seq := 9, ack := 0, flags := 0, wnd := 100, dataOff := 24, len := 1, tsval := 0, tsecr := 0 }
    (by decide +kernel) ⟨fun h => absurd rfl h, fun _ _ => ⟨by decide, by decide, by decide⟩, fun h => absurd rfl h⟩

theorem finPkt_ok : PktOk W 7 finPkt := by
  refine pktOk_of_hdr W 7 finPkt
    { conv := 0, seq := 10, ack := 0, flags := 1, wnd := 100, dataOff := 24, len := 0, tsval := 0, tsecr := 0 }
    (by decide +kernel) ⟨fun h => absurd rfl h, fun _ h => absurd rfl h, fun _ => by decide⟩

/-- a lossy, reordered, duplicating schedule: the tail arrives first (out of order), then the FIN (out of order), a
    premature `recv`, then the full data twice, then `recv`s -/
def ops : List (UInt32 × Op) :=
  [(6, .packet tailPkt), (7, .packet finPkt), (8, .recv 10), (9, .packet dataPkt), (10, .packet dataPkt),
   (11, .recv 2), (12, .clock), (13, .recv 10), (14, .recv 10)]

theorem ops_ok : ∀ x, x ∈ ops → OpOk W 7 x.2 := by
  intro x hx
  unfold ops at hx
  rcases List.mem_cons.mp hx with rfl | hx; exact tailPkt_ok
  rcases List.mem_cons.mp hx with rfl | hx; exact finPkt_ok
  rcases List.mem_cons.mp hx with rfl | hx; exact True.intro
  rcases List.mem_cons.mp hx with rfl | hx; exact dataPkt_ok
  rcases List.mem_cons.mp hx with rfl | hx; exact dataPkt_ok
  rcases List.mem_cons.mp hx with rfl | hx; exact True.intro
  rcases List.mem_cons.mp hx with rfl | hx; exact True.intro
  rcases List.mem_cons.mp hx with rfl | hx; exact True.intro
  rcases List.mem_cons.mp hx with rfl | hx; exact True.intro
  cases hx

set_option maxRecDepth 100000 in
/-- the schedule runs without a fault in the model, returns exactly `abc`, and ends in CLOSE-WAIT (FIN received) -/
theorem ops_run : (match runG s1 [] ops with
    | .ok (s, got) => got == W && decide (s.state = .closeWait)
    | .error _ => false) = true := by decide +kernel

/-- (N-recv) and (E) instantiated: all hypotheses hold for this history -/
example : ∃ s got, runG s1 (W.take 0) ops = .ok (s, got) ∧ got <+: W ∧ Fin4 s.state ∧
    got.length + s.rbuf.data = W.length := by
  have hr := ops_run
  cases h : runG s1 [] ops with
  | error e => rw [h] at hr; cases hr
  | ok v =>
    obtain ⟨s, got⟩ := v
    rw [h] at hr
    simp only [Bool.and_eq_true, decide_eq_true_eq] at hr
    have hF : Fin4 s.state := by rw [hr.2]; trivial
    have hB : 7 + W.length + 2 < 2 ^ 31 := by decide
    exact ⟨s, got, h, (C08_recv_stream_prefix_partial W 7 hB s1 0 s1_rinv (Nat.zero_le _) ops ops_ok s got h).1, hF,
      (C08_eos_after_all_data_partial W 7 hB s1 0 s1_rinv (Nat.zero_le _) ops ops_ok s got h hF).2⟩

theorem ctlPkt_ok : PktOk W 7 ctlPkt :=
  pktOk_of_hdr W 7 ctlPkt
    { conv := 0, seq := 0, ack := 0, flags := 2, wnd := 100, dataOff := 24, len := 7, tsval := 0, tsecr := 0 }
    (by decide +kernel) ⟨fun _ => Or.inr ⟨rfl, rfl⟩, fun h => absurd h (by decide), fun h => absurd rfl h⟩

/-- the same schedule from a fresh socket: a premature `recv` and a clock tick, the peer's connect message, then `ops` -/
def ops0 : List (UInt32 × Op) := (3, .recv 10) :: (4, .clock) :: (5, .packet ctlPkt) :: ops

theorem ops0_ok : ∀ x, x ∈ ops0 → OpOk0 W 7 x.2 := by
  intro x hx
  unfold ops0 at hx
  rcases List.mem_cons.mp hx with rfl | hx; exact True.intro
  rcases List.mem_cons.mp hx with rfl | hx; exact True.intro
  rcases List.mem_cons.mp hx with rfl | hx; exact ctlPkt_ok
  unfold ops at hx
  rcases List.mem_cons.mp hx with rfl | hx; exact tailPkt_ok
  rcases List.mem_cons.mp hx with rfl | hx; exact finPkt_ok
  rcases List.mem_cons.mp hx with rfl | hx; exact True.intro
  rcases List.mem_cons.mp hx with rfl | hx; exact dataPkt_ok
  rcases List.mem_cons.mp hx with rfl | hx; exact dataPkt_ok
  rcases List.mem_cons.mp hx with rfl | hx; exact True.intro
  rcases List.mem_cons.mp hx with rfl | hx; exact True.intro
  rcases List.mem_cons.mp hx with rfl | hx; exact True.intro
  rcases List.mem_cons.mp hx with rfl | hx; exact True.intro
  cases hx

set_option maxRecDepth 100000 in
/-- the handshake hypothesis holds along this history, which runs without a fault and returns `abc` -/
theorem ops0_run : (goodRunB (Sock.init 0) ops0 && match runG (Sock.init 0) [] ops0 with
    | .ok (_, got) => got == W
    | .error _ => false) = true := by decide +kernel

/-- (N-recv from `Sock.init`) instantiated: all hypotheses hold for this history -/
example : ∃ s got, runG (Sock.init 0) [] ops0 = .ok (s, got) ∧ got = W ∧ got <+: W := by
  have hr := ops0_run
  rw [Bool.and_eq_true] at hr
  cases h : runG (Sock.init 0) [] ops0 with
  | error e => rw [h] at hr; cases hr.2
  | ok v =>
    obtain ⟨s, got⟩ := v
    rw [h] at hr
    have hg : got = W := by simpa using hr.2
    exact ⟨s, got, rfl, hg, (C08_recv_stream_prefix_from_init_partial W 7 (by decide) (by decide) 0 ops0 ops0_ok
      (goodRunB_sound ops0 _ hr.1) s got h).1⟩

/-- header with an acknowledgement number -/
def hdrA (seq ack : UInt32) (flags : UInt8) : Array UInt8 :=
  push32 (push32 (push16 ((push32 (push32 (push32 #[] 0) seq) ack).push 0 |>.push flags) 100) 0) 0

/-- the peer's connect message acknowledging ours -/
def replyPkt : Array UInt8 := hdrA 0 7 2 ++ #[0, 3, 1, 0, 254, 1, 0]

/-- active open, handshake, two `send`s -/
def opsS : List (UInt32 × Op) :=
  [(5, .connect), (6, .packet replyPkt), (7, .send #[97, 98, 99]), (8, .send #[100])]

theorem opsS_ok : ∀ x, x ∈ opsS → OpOkS x.2 := by
  intro x hx
  unfold opsS at hx
  rcases List.mem_cons.mp hx with rfl | hx; exact True.intro
  rcases List.mem_cons.mp hx with rfl | hx; exact True.intro
  rcases List.mem_cons.mp hx with rfl | hx; exact (by decide : (3 : Nat) < 2 ^ 31)
  rcases List.mem_cons.mp hx with rfl | hx; exact (by decide : (1 : Nat) < 2 ^ 31)
  cases hx

set_option maxRecDepth 100000 in
/-- the history runs in the model, `send` accepted `abcd`, and four events were logged (connect message, `opened`
    callback, two data packets) -/
theorem opsS_run : (match runS (Sock.init 0) [] opsS with
    | .ok (s, sent) => sent == [97, 98, 99, 100] && s.out.size == 4 && decide (s.state = .established)
    | .error _ => false) = true := by decide +kernel

/-- (N-send) instantiated: all hypotheses hold for this history -/
example : ∃ s sent, runS (Sock.init 0) [] opsS = .ok (s, sent) ∧ sent = [97, 98, 99, 100] ∧
    ∃ ctl : List UInt8, ∀ b, Event.packet b ∈ s.out →
      ∃ (s0 : Sock) (seq : UInt32) (fl : UInt8) (wnd : UInt16) (now : UInt32) (payload : Array UInt8),
        b = buildHeader s0 seq fl wnd now ++ payload ∧ PktSlice (ctl ++ sent) seq payload := by
  have hr := opsS_run
  cases h : runS (Sock.init 0) [] opsS with
  | error e => rw [h] at hr; cases hr
  | ok v =>
    obtain ⟨s, sent⟩ := v
    rw [h] at hr
    simp only [Bool.and_eq_true, beq_iff_eq, decide_eq_true_eq] at hr
    exact ⟨s, sent, rfl, hr.1.1, C08_sender_segments_from_stream 0 opsS opsS_ok s sent h⟩

/-! #### why `GoodRun` is needed: a kernel-checked counterexample without it

  Active open; the peer's connect message arrives with a timestamp echo in the future (`rtt < 0`: `process` returns after
  the state has already moved to ESTABLISHED, `rcv_nxt` stays 0); `abcdef` at sequence number 7 is then stored out of
  order at ring offset 7; the connect message arrives again and is consumed (`rcv_nxt = 7`, the stored range now sits at
  the wrong offset); `abc` at 7 is committed and the `rlist` recovery commits three more bytes that were never written. -/

def hdrT (seq ack : UInt32) (flags : UInt8) (tsecr : UInt32) : Array UInt8 :=
  push32 (push32 (push16 ((push32 (push32 (push32 #[] 0) seq) ack).push 0 |>.push flags) 100) 0) tsecr
def badReply : Array UInt8 := hdrT 0 7 2 5000 ++ #[0, 3, 1, 0, 254, 1, 0]
def goodReply : Array UInt8 := hdrT 0 7 2 0 ++ #[0, 3, 1, 0, 254, 1, 0]
def d6 : Array UInt8 := hdrT 7 7 0 0 ++ #[97, 98, 99, 100, 101, 102]
def d3 : Array UInt8 := hdrT 7 7 0 0 ++ #[97, 98, 99]
def W6 : List UInt8 := [97, 98, 99, 100, 101, 102]

def opsBad : List (UInt32 × Op) :=
  [(1000, .connect), (1001, .packet badReply), (1002, .packet d6), (1003, .packet goodReply), (1004, .packet d3),
   (1005, .recv 100)]

theorem opsBad_ok : ∀ x, x ∈ opsBad → OpOk0 W6 7 x.2 := by
  intro x hx
  unfold opsBad at hx
  rcases List.mem_cons.mp hx with rfl | hx; exact True.intro
  rcases List.mem_cons.mp hx with rfl | hx
  · exact pktOk_of_hdr W6 7 badReply
      { conv := 0, seq := 0, ack := 7, flags := 2, wnd := 100, dataOff := 24, len := 7, tsval := 0, tsecr := 5000 }
      (by decide +kernel) ⟨fun _ => Or.inr ⟨rfl, rfl⟩, fun h => absurd h (by decide), fun h => absurd rfl h⟩
  rcases List.mem_cons.mp hx with rfl | hx
  · exact pktOk_of_hdr W6 7 d6
      { conv := 0, seq := 7, ack := 7, flags := 0, wnd := 100, dataOff := 24, len := 6, tsval := 0, tsecr := 0 }
      (by decide +kernel) ⟨fun h => absurd rfl h, fun _ _ => ⟨by decide, by decide, by decide⟩, fun h => absurd rfl h⟩
  rcases List.mem_cons.mp hx with rfl | hx
  · exact pktOk_of_hdr W6 7 goodReply
      { conv := 0, seq := 0, ack := 7, flags := 2, wnd := 100, dataOff := 24, len := 7, tsval := 0, tsecr := 0 }
      (by decide +kernel) ⟨fun _ => Or.inr ⟨rfl, rfl⟩, fun h => absurd h (by decide), fun h => absurd rfl h⟩
  rcases List.mem_cons.mp hx with rfl | hx
  · exact pktOk_of_hdr W6 7 d3
      { conv := 0, seq := 7, ack := 7, flags := 0, wnd := 100, dataOff := 24, len := 3, tsval := 0, tsecr := 0 }
      (by decide +kernel) ⟨fun h => absurd rfl h, fun _ _ => ⟨by decide, by decide, by decide⟩, fun h => absurd rfl h⟩
  rcases List.mem_cons.mp hx with rfl | hx; exact True.intro
  cases hx

set_option maxRecDepth 100000 in
/-- every packet is honest (`opsBad_ok`), yet `recv` returns `abc` followed by three zero bytes instead of a prefix of
    `abcdef`; `GoodRun` is exactly what fails (after the second operation) -/
theorem dropped_connect_counterexample :
    ((match runG (Sock.init 0) [] opsBad with
      | .ok (_, got) => got == [97, 98, 99, 0, 0, 0]
      | .error _ => false) && !goodRunB (Sock.init 0) opsBad) = true := by decide +kernel

end Example

end Nice.Props.C08
