/-
  C03 — only authenticated peers influence the agent or reach the application (decision kernels).
  What "authenticated" means for status SUCCESS / FORBIDDEN is C04 (STUN validation); the end-to-end
  non-interference claim is tied by paired simulations (with / without an off-path attacker).
-/
import Nice.Model.Gate
import Nice.Props.C03Flow
import Nice.Props.C03Recv
import Nice.Model.FlowRun
import Nice.Props.C04
namespace Nice.Props.C03
open Nice.Gate Nice.Gen

/-- **C03_state_change_needs_auth.**  The only validation statuses after which
    conn_check_handle_inbound_stun may touch agent state are SUCCESS and FORBIDDEN — the two statuses
    stun_agent_validate returns only after the MESSAGE-INTEGRITY comparison succeeded (C04). -/
theorem C03_state_change_needs_auth (status : Nat)
    (h : gate status = .proceed ∨ gate status = .consentRevoked) :
    status = STUN_VALIDATION_SUCCESS ∨ status = STUN_VALIDATION_FORBIDDEN := by
  unfold gate at h
  repeat' split at h
  all_goals first
    | (right; assumption)
    | (left; assumption)
    | (rcases h with h | h <;> cases h)

/-- **C03_forged_is_stutter.**  Every other status is a stutter step for the agent: nothing but an
    error response to the source (400/401/420), a silent drop, or "not control traffic". -/
theorem C03_forged_is_stutter (status : Nat)
    (h1 : status ≠ STUN_VALIDATION_SUCCESS) (h2 : status ≠ STUN_VALIDATION_FORBIDDEN) :
    gate status = .notHandled ∨ gate status = .dropped ∨ ∃ c, gate status = .replyOnly c ∧ (c = 400 ∨ c = 401 ∨ c = 420) := by
  unfold gate
  repeat' split
  all_goals first
    | (left; rfl)
    | (right; left; rfl)
    | (right; right; exact ⟨_, rfl, by decide⟩)
    | contradiction

/-- **C03_data_gate.**  A datagram reaches the application only if its source address has completed
    an authenticated check (is in the component's valid set). -/
theorem C03_data_gate (len : Nat) (fast full : Int) (status : Nat) (srcValid : Bool)
    (h : demux len fast full status srcValid = .deliver) : srcValid = true := by
  unfold demux at h
  split at h
  · cases h
  · split at h
    · assumption
    · cases h

/-- **C02_demux / C03.**  A datagram is consumed as control traffic only if both length checks
    accept it at its full length AND the STUN handler claims it; everything else from a validated
    source is delivered — in particular payloads that merely imitate a STUN header. -/
theorem C03_control_only_if_stun (len : Nat) (fast full : Int) (status : Nat) (srcValid : Bool)
    (h : demux len fast full status srcValid = .control) :
    fast = len ∧ full = len ∧ handled (gate status) = true := by
  unfold demux at h
  split at h
  · assumption
  · split at h <;> cases h

theorem C03_lookalike_delivered (len : Nat) (fast full : Int) (status : Nat)
    (h : ¬ (fast = len ∧ full = len ∧ handled (gate status) = true)) :
    demux len fast full status true = .deliver := by
  unfold demux; simp [h]

/-! non-vacuity -/
example : gate STUN_VALIDATION_UNAUTHORIZED = .replyOnly 401 := by decide
example : gate STUN_VALIDATION_SUCCESS = .proceed := by decide
example : demux 28 28 28 STUN_VALIDATION_NOT_STUN true = .deliver := by decide
example : demux 28 28 28 STUN_VALIDATION_UNAUTHORIZED false = .control := by decide
example : demux 12 (-1) 0 0 false = .drop := by decide

end Nice.Props.C03
