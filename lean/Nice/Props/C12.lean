/-
  C12 — API robustness: what the model can carry (resource bookkeeping over ANY sequence of lifecycle
  operations, and timer re-arm arithmetic).
  Memory safety, use-after-free and leaks of the C implementation cannot be expressed by this model;
  they are OBSERVED on generated API programs under ASan/LSan/UBSan (see checks/C12.py).
-/
import Nice.Model.Lifecycle
import Nice.Props.C13
namespace Nice.Props.C12
open Nice.Lifecycle Nice.Gen

/-- every resource is owned by a stream object that still exists, and every parked stream is awaited -/
structure WF (a : Agent) : Prop where
  disc   : ∀ s ∈ a.discovery, s ∈ a.streams
  trig   : ∀ s ∈ a.triggered, s ∈ a.streams
  cl     : ∀ p ∈ a.checkLists, p.1 ∈ a.streams
  rlive  : ∀ r ∈ a.refreshes, r.st = .live → r.sid ∈ a.streams
  rrem   : ∀ r ∈ a.refreshes, r.st = .removing → r.sid ∈ a.pruning
  rforg  : ∀ r ∈ a.refreshes, r.st = .forgetting → r.sid ∈ a.streams ∨ r.sid ∈ a.pruning
  /-- a removed stream is parked only while a refresh that will release it exists: none is stranded -/
  prun   : ∀ s ∈ a.pruning, (⟨s, .removing⟩ : Refresh) ∈ a.refreshes
  fresh  : ∀ s ∈ a.streams, s < a.nextId
  pfresh : ∀ s ∈ a.pruning, s < a.nextId
  disj   : ∀ s ∈ a.pruning, s ∉ a.streams
  ka     : a.keepalive = true → a.streams ≠ []
  /-- discovery_schedule asserts a non-empty list whenever the counter is positive -/
  us     : 0 < a.unsched → a.discovery ≠ []
  /-- the discovery timer runs only while there are discovery items -/
  dt     : a.discTimer = true → a.discovery ≠ []

theorem wfb_iff (a : Agent) : wfb a = true ↔ WF a := by
  constructor
  · intro h
    simp only [wfb, Bool.and_eq_true, List.all_eq_true, List.contains_iff_mem, decide_eq_true_eq,
      Bool.or_eq_true, Bool.not_eq_true'] at h
    obtain ⟨⟨⟨⟨⟨⟨⟨⟨⟨⟨h1, h2⟩, h3⟩, h4⟩, h5⟩, h6⟩, h7⟩, h8⟩, h9⟩, h12⟩, h13⟩ := h
    refine ⟨h1, h2, h3, ?_, ?_, ?_, h5, h6, h7, ?_, ?_, ?_, ?_⟩
    · intro r hr hs; have := h4 r hr; simp [hs] at this; exact this
    · intro r hr hs; have := h4 r hr; simp [hs] at this; exact this
    · intro r hr hs; have := h4 r hr; simp [hs] at this; exact this
    · intro s hs hc; have := h8 s hs; simp [hc] at this
    · intro hk he; rcases h9 with h9 | h9 <;> simp_all
    · intro hu he; rcases h12 with h12 | h12
      · have : a.unsched = 0 := by simpa using h12
        omega
      · simp [he] at h12
    · intro hd he; rcases h13 with h13 | h13 <;> simp_all
  · intro h
    simp only [wfb, Bool.and_eq_true, List.all_eq_true, List.contains_iff_mem, decide_eq_true_eq,
      Bool.or_eq_true, Bool.not_eq_true']
    refine ⟨⟨⟨⟨⟨⟨⟨⟨⟨⟨h.disc, h.trig⟩, h.cl⟩, ?_⟩, h.prun⟩, h.fresh⟩, h.pfresh⟩, ?_⟩, ?_⟩, ?_⟩, ?_⟩
    · intro r hr
      cases hs : r.st
      · simpa using h.rlive r hr hs
      · simpa using h.rforg r hr hs
      · simpa using h.rrem r hr hs
    · intro s hs; simpa using h.disj s hs
    · cases hk : a.keepalive
      · left; rfl
      · right; have := h.ka hk; cases hl : a.streams <;> simp_all
    · by_cases hu : a.unsched = 0
      · left; simpa using hu
      · right; have := h.us (by omega); cases hl : a.discovery <;> simp_all
    · cases hd : a.discTimer
      · left; rfl
      · right; have := h.dt hd; cases hl : a.discovery <;> simp_all

theorem WF_init : WF {} := by
  constructor <;> simp

theorem WF_add (a : Agent) (h : WF a) : WF (addStream a).1 := by
  obtain ⟨h1, h2, h3, h4, h5, h6, h7, h8, h9, h10, h11, h12, h13⟩ := h
  refine ⟨?_, ?_, ?_, ?_, ?_, ?_, ?_, ?_, ?_, ?_, ?_, h12, h13⟩ <;> simp only [addStream]
  · intro s hs; simp; exact Or.inl (h1 s hs)
  · intro s hs; simp; exact Or.inl (h2 s hs)
  · intro p hp; simp at hp ⊢; rcases hp with hp | hp
    · exact Or.inl (h3 p hp)
    · right; rw [hp]
  · intro r hr hs; simp; exact Or.inl (h4 r hr hs)
  · exact h5
  · intro r hr hs; simp; rcases h6 r hr hs with h | h
    · exact Or.inl (Or.inl h)
    · exact Or.inr h
  · exact h7
  · intro s hs; simp at hs; rcases hs with hs | hs
    · have := h8 s hs; omega
    · omega
  · intro s hs; have := h9 s hs; omega
  · intro s hs; simp; exact ⟨h10 s hs, by have := h9 s hs; omega⟩
  · intro _; simp

theorem WF_close (a : Agent) (sid : Nat) (h : WF a) : WF (closeStream a sid) := by
  obtain ⟨h1, h2, h3, h4, h5, h6, h7, h8, h9, h10, h11, h12, h13⟩ := h
  refine ⟨h1, h2, h3, ?_, ?_, ?_, ?_, h8, ?_, ?_, h11, h12, h13⟩ <;> simp only [closeStream]
  · intro r hr hst; simp at hr; exact h4 r hr.1 hst
  · intro r hr hst; simp at hr ⊢; exact ⟨h5 r hr.1 hst, hr.2⟩
  · intro r hr hst; simp at hr ⊢; rcases h6 r hr.1 hst with h | h
    · exact Or.inl h
    · exact Or.inr ⟨h, hr.2⟩
  · intro s hs'; simp at hs' ⊢; exact ⟨h7 s hs'.1, hs'.2⟩
  · intro s hs'; simp at hs'; exact h9 s hs'.1
  · intro s hs'; simp at hs'; exact h10 s hs'.1

theorem WF_remove (a : Agent) (sid : Nat) (h : WF a) : WF (removeStream a sid) := by
  unfold removeStream
  split
  · rename_i hin
    have hin' : sid ∈ a.streams := by simpa using hin
    obtain ⟨h1, h2, h3, h4, h5, h6, h7, h8, h9, h10, h11, h12, h13⟩ := h
    have hdt : (a.discTimer && !(a.discovery.filter (· != sid)).isEmpty) = true →
        a.discovery.filter (· != sid) ≠ [] := by
      intro hd he
      simp [he] at hd
    have hus : 0 < unschedAfter (a.discovery.filter (· != sid)) a.unsched →
        a.discovery.filter (· != sid) ≠ [] := by
      intro hu he
      simp [unschedAfter, he] at hu
    split
    · rename_i hany
      obtain ⟨r0, hr0, hl0⟩ := List.any_eq_true.mp hany
      refine ⟨?_, ?_, ?_, ?_, ?_, ?_, ?_, ?_, ?_, ?_, ?_, hus, hdt⟩ <;> simp only
      · intro s hs; simp at hs ⊢; exact ⟨h1 s hs.1, hs.2⟩
      · intro s hs; simp at hs ⊢; exact ⟨h2 s hs.1, hs.2⟩
      · intro p hp; simp at hp ⊢; exact ⟨h3 p hp.1, hp.2⟩
      · intro r hr hst
        simp only [List.mem_map] at hr
        obtain ⟨q, hq, rfl⟩ := hr
        by_cases hl : isLiveOf sid q
        · simp [hl] at hst
        · simp only [hl] at hst ⊢
          simp only [Bool.false_eq_true, ↓reduceIte] at hst ⊢
          have := h4 q hq hst
          simp only [isLiveOf, hst, Bool.and_eq_true, beq_iff_eq, not_and] at hl
          simp; exact ⟨this, fun e => hl e (by decide)⟩
      · intro r hr hst
        simp only [List.mem_map] at hr
        obtain ⟨q, hq, rfl⟩ := hr
        by_cases hl : isLiveOf sid q
        · simp only [hl, ↓reduceIte]
          simp only [isLiveOf, Bool.and_eq_true, beq_iff_eq] at hl
          simp [hl.1]
        · simp only [hl, Bool.false_eq_true, ↓reduceIte] at hst ⊢
          simp; exact Or.inr (h5 q hq hst)
      · intro r hr hst
        simp only [List.mem_map] at hr
        obtain ⟨q, hq, rfl⟩ := hr
        by_cases hl : isLiveOf sid q
        · simp [hl] at hst
        · simp only [hl, Bool.false_eq_true, ↓reduceIte] at hst ⊢
          by_cases he : q.sid = sid
          · right; simp [he]
          · rcases h6 q hq hst with h | h
            · left; simp; exact ⟨h, he⟩
            · right; simp; exact Or.inr h
      · intro s hs
        simp only [List.mem_cons] at hs
        simp only [List.mem_map]
        rcases hs with rfl | hs
        · refine ⟨r0, hr0, ?_⟩
          simp only [hl0, ↓reduceIte]
          simp only [isLiveOf, Bool.and_eq_true, beq_iff_eq] at hl0
          simp [hl0.1]
        · refine ⟨⟨s, .removing⟩, h7 s hs, ?_⟩
          simp [isLiveOf]
      · intro s hs; simp at hs; exact h8 s hs.1
      · intro s hs; simp at hs; rcases hs with rfl | hs
        · exact h8 _ hin'
        · exact h9 s hs
      · intro s hs; simp at hs ⊢; rcases hs with rfl | hs
        · intro _; trivial
        · intro hc; exact absurd hc (h10 s hs)
      · intro hk he; rw [he] at hk; simp at hk
    · rename_i hany
      have hnl : ∀ r ∈ a.refreshes, r.st = .live → r.sid ≠ sid := fun r hr hst e =>
        hany (List.any_eq_true.mpr ⟨r, hr, by simp [isLiveOf, e, hst]⟩)
      refine ⟨?_, ?_, ?_, ?_, ?_, ?_, ?_, ?_, ?_, ?_, ?_, hus, hdt⟩ <;> simp only [closeStream]
      · intro s hs; simp at hs ⊢; exact ⟨h1 s hs.1, hs.2⟩
      · intro s hs; simp at hs ⊢; exact ⟨h2 s hs.1, hs.2⟩
      · intro p hp; simp at hp ⊢; exact ⟨h3 p hp.1, hp.2⟩
      · intro r hr hst; simp at hr ⊢; exact ⟨h4 r hr.1 hst, hr.2⟩
      · intro r hr hst; simp at hr ⊢; exact ⟨h5 r hr.1 hst, hr.2⟩
      · intro r hr hst; simp at hr ⊢
        rcases h6 r hr.1 hst with h | h
        · exact Or.inl ⟨h, hr.2⟩
        · exact Or.inr ⟨h, hr.2⟩
      · intro s hs; simp at hs ⊢; exact ⟨h7 s hs.1, hs.2⟩
      · intro s hs; simp at hs; exact h8 s hs.1
      · intro s hs; simp at hs; exact h9 s hs.1
      · intro s hs; simp at hs ⊢; intro hc; exact absurd hc (h10 s hs.1)
      · intro hk he; rw [he] at hk; simp at hk
  · exact h

theorem WF_freed (a : Agent) (sid : Nat) (st : RState) (h : WF a) : WF (refreshFreed a sid st) := by
  unfold refreshFreed
  split
  · exact h
  rename_i hnl
  split
  case isFalse => exact h
  rename_i hmem
  obtain ⟨h1, h2, h3, h4, h5, h6, h7, h8, h9, h10, h11, h12, h13⟩ := h
  have sub : ∀ r ∈ a.refreshes.erase ⟨sid, st⟩, r ∈ a.refreshes := fun r hr => List.mem_of_mem_erase hr
  by_cases hc : st = RState.removing ∧ (!(dropRefresh a ⟨sid, st⟩).refreshes.any (isRemovingOf sid)) = true
  · rw [if_pos hc]
    simp only [dropRefresh] at hc ⊢
    obtain ⟨hst, hnone⟩ := hc
    subst hst
    have hnone' : ∀ r ∈ a.refreshes.erase ⟨sid, .removing⟩, ¬ (r.sid = sid ∧ r.st = .removing) := by
      intro r hr hh
      have : (a.refreshes.erase ⟨sid, .removing⟩).any (isRemovingOf sid) = true :=
        List.any_eq_true.mpr ⟨r, hr, by simp [isRemovingOf, hh.1, hh.2]⟩
      simp [this] at hnone
    refine ⟨h1, h2, h3, ?_, ?_, ?_, ?_, h8, ?_, ?_, h11, h12, h13⟩ <;> simp only [closeStream]
    · intro r hr hs; simp only [List.mem_filter] at hr; exact h4 r (sub r hr.1) hs
    · intro r hr hs; simp only [List.mem_filter] at hr
      simp only [List.mem_filter]; refine ⟨h5 r (sub r hr.1) hs, ?_⟩
      simpa using hr.2
    · intro r hr hs; simp only [List.mem_filter] at hr
      rcases h6 r (sub r hr.1) hs with h | h
      · exact Or.inl h
      · right; simp only [List.mem_filter]; exact ⟨h, by simpa using hr.2⟩
    · intro s hs; simp only [List.mem_filter] at hs ⊢
      have hne : s ≠ sid := by simpa using hs.2
      refine ⟨(List.mem_erase_of_ne ?_).mpr (h7 s hs.1), by simpa using hne⟩
      intro e; injection e with e1 _; exact hne e1
    · intro s hs; simp only [List.mem_filter] at hs; exact h9 s hs.1
    · intro s hs; simp only [List.mem_filter] at hs; exact h10 s hs.1
  · rw [if_neg hc]
    simp only [dropRefresh] at hc ⊢
    refine ⟨h1, h2, h3, fun r hr => h4 r (sub r hr), fun r hr => h5 r (sub r hr), fun r hr => h6 r (sub r hr),
      ?_, h8, h9, h10, h11, h12, h13⟩
    intro s hs
    simp only
    by_cases he : (⟨s, RState.removing⟩ : Refresh) = ⟨sid, st⟩
    · injection he with e1 e2
      subst e1; subst e2
      have : (a.refreshes.erase ⟨s, .removing⟩).any (isRemovingOf s) = true := by
        cases hx : (a.refreshes.erase ⟨s, .removing⟩).any (isRemovingOf s)
        · exact absurd ⟨rfl, by simp [hx]⟩ hc
        · rfl
      obtain ⟨r, hr, hrr⟩ := List.any_eq_true.mp this
      simp only [isRemovingOf, Bool.and_eq_true, beq_iff_eq] at hrr
      have : r = ⟨s, .removing⟩ := by cases r; simp_all
      exact this ▸ hr
    · exact (List.mem_erase_of_ne he).mpr (h7 s hs)

theorem WF_step (a : Agent) (op : Op) (h : WF a) : WF (step a op) := by
  cases op with
  | add => exact WF_add a h
  | remove sid => exact WF_remove a sid h
  | freed sid st => exact WF_freed a sid st h
  | gather sid k =>
    simp only [step]; split
    · rename_i hin
      have hin' : sid ∈ a.streams ∧ k ≠ 0 := by simpa using hin
      have hne : a.discovery ++ List.replicate k sid ≠ [] := by
        intro he
        have : List.replicate k sid = [] := (List.append_eq_nil_iff.mp he).2
        simp at this; exact hin'.2 this
      refine { h with disc := ?_, us := fun _ => hne, dt := fun _ => hne }
      intro s hs; simp at hs; rcases hs with hs | hs
      · exact h.disc s hs
      · rw [hs.2]; exact hin'.1
    · exact h
  | discDone sid =>
    simp only [step]
    refine { h with disc := fun s hs => h.disc s (List.mem_of_mem_erase hs), us := ?_, dt := ?_ }
    · intro hu he
      simp only at hu he
      simp [unschedAfter, he] at hu
    · intro hd he
      simp only at hd he
      simp [he] at hd
  | sched =>
    simp only [step]
    exact { h with us := fun hu => h.us (by simp only at hu; omega) }
  | discFinished =>
    simp only [step]
    exact { h with disc := by simp, us := by simp, dt := by simp }
  | alloc sid =>
    simp only [step]; split
    · rename_i hin
      have hin' : sid ∈ a.streams := by simpa using hin
      refine { h with rlive := ?_, rrem := ?_, rforg := ?_, prun := ?_ }
      · intro r hr hs; simp at hr; rcases hr with hr | hr
        · exact h.rlive r hr hs
        · rw [hr]; exact hin'
      · intro r hr hs; simp at hr; rcases hr with hr | hr
        · exact h.rrem r hr hs
        · rw [hr] at hs; simp at hs
      · intro r hr hs; simp at hr; rcases hr with hr | hr
        · exact h.rforg r hr hs
        · rw [hr] at hs; simp at hs
      · intro s hs; simp only [List.mem_append]; exact Or.inl (h.prun s hs)
    · exact h
  | refreshDropped sid =>
    simp only [step]
    refine { h with rlive := fun r hr => h.rlive r (List.mem_of_mem_erase hr),
                    rrem := fun r hr => h.rrem r (List.mem_of_mem_erase hr),
                    rforg := fun r hr => h.rforg r (List.mem_of_mem_erase hr), prun := ?_ }
    intro s hs
    exact (List.mem_erase_of_ne (by intro e; injection e with _ e2; cases e2)).mpr (h.prun s hs)
  | forget sid =>
    simp only [step]; split
    · rename_i hin
      refine { h with rlive := ?_, rrem := ?_, rforg := ?_, prun := ?_ }
      · intro r hr hs; simp only [List.mem_append, List.mem_singleton] at hr; rcases hr with hr | hr
        · exact h.rlive r (List.mem_of_mem_erase hr) hs
        · rw [hr] at hs; simp at hs
      · intro r hr hs; simp only [List.mem_append, List.mem_singleton] at hr; rcases hr with hr | hr
        · exact h.rrem r (List.mem_of_mem_erase hr) hs
        · rw [hr] at hs; simp at hs
      · intro r hr hs; simp only [List.mem_append, List.mem_singleton] at hr; rcases hr with hr | hr
        · exact h.rforg r (List.mem_of_mem_erase hr) hs
        · rw [hr]; exact Or.inl (h.rlive ⟨sid, .live⟩ hin rfl)
      · intro s hs; simp only [List.mem_append]; left
        exact (List.mem_erase_of_ne (by intro e; injection e with _ e2; cases e2)).mpr (h.prun s hs)
    · exact h
  | pairs sid n =>
    simp only [step]
    refine { h with cl := ?_ }
    intro p hp; simp only [List.mem_map] at hp
    obtain ⟨q, hq, rfl⟩ := hp
    split
    · rename_i he; have : q.1 = sid := by simpa using he
      simp only; rw [← this]; exact h.cl q hq
    · exact h.cl q hq
  | trigger sid =>
    simp only [step]; split
    · rename_i hin
      refine { h with trig := ?_ }
      intro s hs; simp at hs; rcases hs with hs | hs
      · exact h.trig s hs
      · rw [hs]; simpa using hin
    · exact h
  | popTrigger =>
    simp only [step]
    exact { h with trig := fun s hs => h.trig s (List.mem_of_mem_tail hs) }
  | keepaliveStart =>
    simp only [step]; split
    · exact h
    · rename_i hne
      exact { h with ka := fun _ he => hne (by simp only at he; simp [he]) }

/-- **C12_reachable_wf.**  After ANY sequence of lifecycle operations — streams added and removed in any
    order, stale ids, gathering, TURN allocations, forget_relays, asynchronous de-allocation completions in
    any interleaving — every resource is owned by a stream object that still exists, every parked stream
    is still awaited by a refresh, and the keepalive timer is armed only while a stream is left. -/
theorem C12_reachable_wf (ops : List Op) : WF (run ops) := by
  unfold run
  suffices ∀ a, WF a → WF (ops.foldl step a) from this _ WF_init
  induction ops with
  | nil => intro a h; exact h
  | cons op ops ih => intro a h; exact ih _ (WF_step a op h)

/-- **C12_no_dangling.**  After `remove_stream sid` returns, no live container of a well-formed agent
    mentions `sid` — for live and for stale ids alike; what may remain is `removing`/`forgetting`
    refreshes, whose stream object is kept on `pruning` (WF.rrem) until the last of them is freed. -/
theorem C12_no_dangling (a : Agent) (sid : Nat) (h : WF a) : mentions (removeStream a sid) sid = false := by
  have hw := WF_remove a sid h
  have hns : sid ∉ (removeStream a sid).streams := by
    unfold removeStream; split
    · split <;> simp [closeStream]
    · rename_i hs; simpa using hs
  simp only [mentions, Bool.or_eq_false_iff]
  refine ⟨⟨⟨⟨by simpa using hns, ?_⟩, ?_⟩, ?_⟩, ?_⟩
  · simp; exact fun hc => hns (hw.disc _ hc)
  · rw [Bool.eq_false_iff]; intro hc
    obtain ⟨r, hr, hl⟩ := List.any_eq_true.mp hc
    simp only [isLiveOf, Bool.and_eq_true, beq_iff_eq] at hl
    exact hns (hl.1 ▸ hw.rlive r hr (by simpa using hl.2))
  · simp; exact fun hc => hns (hw.trig _ hc)
  · rw [Bool.eq_false_iff]; intro hc
    obtain ⟨p, hp, he⟩ := List.any_eq_true.mp hc
    have : p.1 = sid := by simpa using he
    exact hns (this ▸ hw.cl p hp)

/-- removing a stream leaves every OTHER stream's resources alone -/
theorem C12_remove_preserves (a : Agent) (sid : Nat) :
    ∀ t, t ≠ sid → ((removeStream a sid).discovery.count t = a.discovery.count t ∧
                    (removeStream a sid).triggered.count t = a.triggered.count t ∧
                    ((removeStream a sid).refreshes.filter (·.sid == t)).length = (a.refreshes.filter (·.sid == t)).length ∧
                    ((removeStream a sid).streams.contains t = a.streams.contains t)) := by
  intro t ht
  unfold removeStream
  split
  · split
    · refine ⟨?_, ?_, ?_, ?_⟩
      · simp only; rw [List.count_filter]; simp [ht]
      · simp only; rw [List.count_filter]; simp [ht]
      · simp only [List.filter_map, List.length_map]
        congr 1
        apply List.filter_congr
        intro r _
        simp only [Function.comp]
        split <;> rfl
      · simp [ht]
    · refine ⟨?_, ?_, ?_, ?_⟩
      · simp only [closeStream]; rw [List.count_filter]; simp [ht]
      · simp only [closeStream]; rw [List.count_filter]; simp [ht]
      · simp only [closeStream, List.filter_filter]
        congr 1
        apply List.filter_congr
        intro r _
        by_cases e : r.sid = t
        · simp [e, ht]
        · simp [e]
      · simp [closeStream, ht]
  · exact ⟨rfl, rfl, rfl, rfl⟩

/-- a parked stream is released: once its last `removing` refresh is freed, the stream leaves `pruning`
    and nothing mentions it any more (no stranded stream object, no refresh outliving its sockets) -/
theorem C12_last_refresh_closes (a : Agent) (sid : Nat)
    (hm : (⟨sid, .removing⟩ : Refresh) ∈ a.refreshes)
    (hlast : (a.refreshes.erase ⟨sid, .removing⟩).any (isRemovingOf sid) = false) :
    sid ∉ (refreshFreed a sid .removing).pruning ∧
    ∀ r ∈ (refreshFreed a sid .removing).refreshes, r.sid ≠ sid := by
  unfold refreshFreed
  simp [hm, hlast, closeStream, dropRefresh]

/-- the keepalive timer does not outlive the last stream -/
theorem C12_keepalive_removed_with_last_stream (a : Agent) (sid : Nat)
    (h : a.streams = [sid]) : (removeStream a sid).keepalive = false := by
  unfold removeStream
  simp [h]
  split <;> simp [closeStream]

/-- **C12_rearm_lower_bound (keepalive).**  When nothing is due the keepalive timer is re-armed for
    the whole remaining time (in ms), never more than Tr = 25 s (4 s with consent freshness) and — the
    no-spin part — at least 1 ms whenever at least 1 ms remains. -/
theorem C12_keepalive_rearm (consent : Bool) (rem : Nat) :
    keepaliveRearmMs consent rem ≤ (if consent then 4000 else 25000) ∧
    (1000 ≤ rem → 1 ≤ keepaliveRearmMs consent rem) := by
  unfold keepaliveRearmMs
  have h1 : NICE_AGENT_TIMER_MIN_CONSENT_INTERVAL = 4000 := by decide
  have h2 : NICE_AGENT_TIMER_TR_DEFAULT = 25000 := by decide
  cases consent <;> simp [h1, h2] <;> omega

/-- **C12_rearm_lower_bound (consent tick).**  A consent tick that does not fail re-arms for the whole
    remaining time rounded down to ms: after it fires, less than 1 ms is left, so at most one more
    (sub-millisecond) re-arm happens before the failing tick — the timer cannot spin for longer. -/
theorem C12_consent_rearm (cf : Bool) (p : Nice.Consent.Pair) (now d : Nat) (hl : p.last ≤ now)
    (h : (Nice.Consent.tick cf p now).2 = .rearm d) :
    now + d * 1000 ≤ p.last + Nice.Consent.timeoutUs cf ∧
    p.last + Nice.Consent.timeoutUs cf < now + d * 1000 + 1000 :=
  Nice.Props.C13.rearm_due_le cf p now d hl h

/-! non-vacuity: a history that parks a stream, and one that closes it -/
def exOps : List Op := [.add, .add, .gather 2 3, .alloc 2, .alloc 2, .alloc 1, .forget 2, .keepaliveStart, .remove 2]
example : (run exOps).pruning = [2] ∧ (run exOps).streams = [1] ∧ (run exOps).discovery = [] := by decide
example : mentions (run exOps) 2 = false := by decide
example : (run (exOps ++ [.freed 2 .removing])).pruning = [] ∧
          (run (exOps ++ [.freed 2 .removing])).refreshes = [⟨1, .live⟩] := by decide
example : keepaliveRearmMs false 24999999 = 24999 := by decide

end Nice.Props.C12
