/-
  C12 — API robustness: what the model can carry (bookkeeping and timer re-arm arithmetic).
  Memory safety, use-after-free and leaks of the C implementation cannot be expressed by this model;
  they are OBSERVED on generated API programs under ASan/LSan/UBSan (see checks/C12.py).
-/
import Nice.Model.Lifecycle
import Nice.Props.C13
namespace Nice.Props.C12
open Nice.Lifecycle Nice.Gen

/-- every resource is tagged with a live stream -/
def WF (a : Agent) : Prop :=
  (∀ s ∈ a.discovery, s ∈ a.streams) ∧ (∀ s ∈ a.refreshes, s ∈ a.streams) ∧
  (∀ s ∈ a.triggered, s ∈ a.streams) ∧ (∀ p ∈ a.checkLists, p.1 ∈ a.streams)

theorem not_mem_filter_ne (l : List Nat) (sid : Nat) : sid ∉ l.filter (· != sid) := by
  intro h; simp at h

/-- **C12_no_dangling.**  After `remove_stream sid` returns, no container of a well-formed agent
    mentions `sid` — for live and for stale ids alike. -/
theorem C12_no_dangling (a : Agent) (sid : Nat) (h : WF a) : mentions (removeStream a sid) sid = false := by
  obtain ⟨h1, h2, h3, h4⟩ := h
  unfold removeStream
  split
  · simp [mentions]
  · rename_i hs
    have hs' : sid ∉ a.streams := by simpa using hs
    simp only [mentions, Bool.or_eq_false_iff]
    refine ⟨⟨⟨⟨by simpa using hs', ?_⟩, ?_⟩, ?_⟩, ?_⟩
    · simp; exact fun hc => hs' (h1 _ hc)
    · simp; exact fun hc => hs' (h2 _ hc)
    · simp; exact fun hc => hs' (h3 _ hc)
    · simp; intro x y hxy he; subst he; exact hs' (h4 _ hxy)

/-- removing a stream keeps the agent well-formed, and leaves every OTHER stream's resources alone -/
theorem C12_remove_preserves (a : Agent) (sid : Nat) (h : WF a) :
    WF (removeStream a sid) ∧
    ∀ t, t ≠ sid → ((removeStream a sid).discovery.count t = a.discovery.count t ∧
                    (removeStream a sid).refreshes.count t = a.refreshes.count t ∧
                    ((removeStream a sid).streams.contains t = a.streams.contains t)) := by
  obtain ⟨h1, h2, h3, h4⟩ := h
  unfold removeStream
  split
  · refine ⟨⟨?_, ?_, ?_, ?_⟩, ?_⟩
    · intro s hs; simp at hs ⊢; exact ⟨h1 s hs.1, hs.2⟩
    · intro s hs; simp at hs ⊢; exact ⟨h2 s hs.1, hs.2⟩
    · intro s hs; simp at hs ⊢; exact ⟨h3 s hs.1, hs.2⟩
    · intro p hp; simp at hp ⊢; exact ⟨h4 p hp.1, hp.2⟩
    · intro t ht
      refine ⟨?_, ?_, ?_⟩
      · simp only; rw [List.count_filter]; simp [ht]
      · simp only; rw [List.count_filter]; simp [ht]
      · simp [ht]
  · exact ⟨⟨h1, h2, h3, h4⟩, fun t _ => ⟨rfl, rfl, rfl⟩⟩

/-- the keepalive timer does not outlive the last stream -/
theorem C12_keepalive_removed_with_last_stream (a : Agent) (sid : Nat)
    (h : a.streams = [sid]) : (removeStream a sid).keepalive = false := by
  simp [removeStream, h]

/-- **C12_rearm_lower_bound (keepalive).**  When nothing is due the keepalive timer is re-armed for
    the whole remaining time (in ms), never more than Tr = 25 s (4 s with consent freshness) and — the
    no-spin part — at least 1 ms whenever at least 1 ms remains. -/
theorem C12_keepalive_rearm (consent : Bool) (rem : Nat) :
    keepaliveRearmMs consent rem ≤ (if consent then 4000 else 25000) ∧
    (1000 ≤ rem → 1 ≤ keepaliveRearmMs consent rem) := by
  unfold keepaliveRearmMs
  have h1 : NICE_AGENT_TIMER_MIN_CONSENT_INTERVAL = 4000 := by decide
  have h2 : NICE_AGENT_TIMER_TR_DEFAULT = 25000 := by decide
  cases consent <;> simp [h1, h2] <;> omega

/-- **C12_rearm_lower_bound (consent tick).**  A consent tick that does not fail re-arms for the whole
    remaining time rounded down to ms: after it fires, less than 1 ms is left, so at most one more
    (sub-millisecond) re-arm happens before the failing tick — the timer cannot spin for longer. -/
theorem C12_consent_rearm (cf : Bool) (p : Nice.Consent.Pair) (now d : Nat) (hl : p.last ≤ now)
    (h : (Nice.Consent.tick cf p now).2 = .rearm d) :
    now + d * 1000 ≤ p.last + Nice.Consent.timeoutUs cf ∧
    p.last + Nice.Consent.timeoutUs cf < now + d * 1000 + 1000 :=
  Nice.Props.C13.rearm_due_le cf p now d hl h

/-! non-vacuity -/
example : WF { streams := [1, 2], discovery := [1, 2, 2], checkLists := [(2, 5)] } := by
  refine ⟨?_, ?_, ?_, ?_⟩ <;> simp
example : mentions (removeStream { streams := [1, 2], discovery := [1, 2, 2], checkLists := [(2, 5)] } 2) 2 = false := by decide
example : keepaliveRearmMs false 24999999 = 24999 := by decide

end Nice.Props.C12
