/-
  Reference grammar of STUN messages, written from RFC 5389 §6 (message structure) and §15
  (attributes) — NOT from libnice's C code and not from the executable model.  Core Lean only.

  §6   header = 2 zero bits, 14-bit message type, 16-bit message length (size of the message not
       including the 20-byte header), 32-bit magic cookie, 96-bit transaction id.  "Since all STUN
       attributes are padded to a multiple of 4 bytes, the last 2 bits of this field are always zero."
  §15  attribute = 16-bit type, 16-bit length ("the length of the Value part of the attribute,
       prior to padding, measured in bytes"), value, then padding up to a 4-byte boundary.
  §15.4 "agents MUST ignore all other attributes that follow MESSAGE-INTEGRITY", with the exception
       of FINGERPRINT (§15.5), which is the last attribute.
  The `padded = false` mode is the MS-TURN/OC2007 dialect libnice also speaks: no padding at all.
-/
namespace Nice.Spec.Stun

abbrev B := List UInt8

def be16 (hi lo : UInt8) : Nat := hi.toNat * 256 + lo.toNat

/-- number of padding bytes after a value of `n` bytes -/
def pad4 (n : Nat) : Nat := (4 - n % 4) % 4

def padLen (padded : Bool) (n : Nat) : Nat := if padded then pad4 n else 0

/-- the attributes tile the body exactly -/
inductive Tiles (padded : Bool) : B → Prop
  | nil : Tiles padded []
  | cons (t0 t1 l0 l1 : UInt8) (val pad rest : B) :
      val.length = be16 l0 l1 →
      pad.length = padLen padded (be16 l0 l1) →
      Tiles padded rest →
      Tiles padded (t0 :: t1 :: l0 :: l1 :: (val ++ (pad ++ rest)))

/-- one parsed attribute: type, offset of its value from the start of the message, value length -/
structure Attr where
  type : Nat
  off : Nat
  len : Nat
  deriving DecidableEq, Repr

/-- TLV parser over a body that starts at message offset `off`; `none` = does not tile -/
def parseFrom (padded : Bool) (off : Nat) : B → Option (List Attr)
  | [] => some []
  | t0 :: t1 :: l0 :: l1 :: rest =>
    let n := be16 l0 l1
    let step := n + padLen padded n
    if step ≤ rest.length then
      match parseFrom padded (off + 4 + step) (rest.drop step) with
      | some as => some (⟨be16 t0 t1, off + 4, n⟩ :: as)
      | none => none
    else none
  | _ => none
termination_by b => b.length
decreasing_by simp [List.length_drop]; omega

/-- `L` is the length of a well-formed STUN message at the start of `bs` -/
def WellFormed (padded : Bool) (bs : B) (L : Nat) : Prop :=
  ∃ b0 b1 l0 l1 rest, bs = b0 :: b1 :: l0 :: l1 :: rest ∧
    b0.toNat / 64 = 0 ∧                      -- the two most significant bits are zero
    L = 20 + be16 l0 l1 ∧
    (padded = true → L % 4 = 0) ∧
    L ≤ bs.length ∧
    Tiles padded ((bs.take L).drop 20)

/-- the first two bits are zero and fewer bytes are present than an acceptable header announces -/
def Incomplete (padded : Bool) (bs : B) : Prop :=
  ∃ b0 rest, bs = b0 :: rest ∧ b0.toNat / 64 = 0 ∧
    (bs.length < 4 ∨
     ∃ b1 l0 l1 rest', bs = b0 :: b1 :: l0 :: l1 :: rest' ∧
       (padded = true → (20 + be16 l0 l1) % 4 = 0) ∧ bs.length < 20 + be16 l0 l1)

/-- attributes of a whole message (`none` if the first `L` bytes are not well formed) -/
def parseAttrs (padded : Bool) (bs : B) : Option (List Attr) :=
  match bs with
  | _ :: _ :: l0 :: l1 :: _ =>
    let L := 20 + be16 l0 l1
    if L ≤ bs.length then parseFrom padded 20 ((bs.take L).drop 20) else none
  | _ => none

def MESSAGE_INTEGRITY : Nat := 0x0008
def FINGERPRINT : Nat := 0x8028

/-- the attributes a receiver may look at when it searches for type `t`: everything up to and
    including the first MESSAGE-INTEGRITY or FINGERPRINT; when looking for FINGERPRINT itself,
    up to and including the first FINGERPRINT (it may follow MESSAGE-INTEGRITY) -/
def visibleFor (t : Nat) : List Attr → List Attr
  | [] => []
  | a :: rest =>
    if a.type = FINGERPRINT then [a]
    else if a.type = MESSAGE_INTEGRITY ∧ t ≠ FINGERPRINT then [a]
    else a :: visibleFor t rest

/-- reference lookup: the first visible attribute of type `t` -/
def refFind (t : Nat) (attrs : List Attr) : Option Attr :=
  (visibleFor t attrs).find? (fun a => a.type = t)

/-- MS-TURN (OC2007) swaps the codes of REALM (0x0014) and NONCE (0x0015) -/
def swapRealmNonce (oc2007 : Bool) (t : Nat) : Nat :=
  if oc2007 then (if t = 0x0014 then 0x0015 else if t = 0x0015 then 0x0014 else t) else t

end Nice.Spec.Stun
