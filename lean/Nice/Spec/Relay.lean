/-
  Reference TURN relay (RFC 5766), independent of the client model: how a standards-following relay
  reads what the client writes (Send indication, ChannelData) and how it forwards peer data to the
  client (Data indication, ChannelData).  Written against the RFC's wire format with a generic
  attribute walker; it shares only the address record and the byte helpers with Nice/Model/Turn.lean.
-/
import Nice.Model.Turn
namespace Nice.Relay
open Nice.Sock Nice.Turn

def cookie : Bytes := [0x21, 0x12, 0xA4, 0x42]

/-- walk the TLV attributes of a STUN message body (4-byte aligned) -/
def attrs : Nat → Bytes → Option (List (Nat × Bytes))
  | 0, _ => none
  | fuel + 1, b =>
    if b.isEmpty then some []
    else if b.length < 4 then none
    else
      let t := be16 (b.getD 0 0) (b.getD 1 0)
      let l := be16 (b.getD 2 0) (b.getD 3 0)
      let padded := l + (4 - l % 4) % 4
      if b.length < 4 + padded then none
      else (attrs fuel (b.drop (4 + padded))).map fun rest => (t, (b.drop 4).take l) :: rest

def lookup (as : List (Nat × Bytes)) (t : Nat) : Option Bytes := (as.find? (·.1 == t)).map (·.2)

/-- un-XOR an XOR-PEER-ADDRESS value -/
def unxorPeer (v txid : Bytes) : Option PeerAddr :=
  if v.length != 8 && v.length != 20 then none
  else
    let fam := v.getD 1 0
    if (fam == 1 && v.length == 8) || (fam == 2 && v.length == 20) then
      let port := xorBytes ((v.drop 2).take 2) cookie
      some { ipv6 := fam == 2, addr := xorBytes (v.drop 4) (cookie ++ txid), port := be16 (port.getD 0 0) (port.getD 1 0) }
    else none

/-- the relay receives a Send indication: (peer to forward to, payload) -/
def decodeSend (m : Bytes) : Option (PeerAddr × Bytes) :=
  if m.length < 20 || m.take 2 != [0x00, 0x16] || (m.drop 4).take 4 != cookie then none
  else if be16 (m.getD 2 0) (m.getD 3 0) != m.length - 20 then none
  else
    let txid := (m.drop 8).take 12
    match attrs (m.length + 1) (m.drop 20) with
    | none => none
    | some as =>
      match lookup as 0x0012, lookup as 0x0013 with
      | some a, some d => (unxorPeer a txid).map fun p => (p, d)
      | _, _ => none

/-- the relay receives ChannelData: (channel, payload) -/
def decodeChannelData (m : Bytes) : Option (Nat × Bytes) :=
  if m.length < 4 then none
  else
    let chan := be16 (m.getD 0 0) (m.getD 1 0)
    let l := be16 (m.getD 2 0) (m.getD 3 0)
    if chan < 0x4000 || chan > 0x7FFF || m.length < 4 + l then none else some (chan, (m.drop 4).take l)

/-- the relay forwards a datagram from `p` as a Data indication -/
def forwardData (p : PeerAddr) (data txid : Bytes) : Bytes :=
  let body := attr 0x0012 (xorPeerValue p txid) ++ attr 0x0013 data
  [0x00, 0x17] ++ be16b body.length ++ cookie ++ txid ++ body

/-- … or as ChannelData on a bound channel -/
def forwardChannel (chan : Nat) (data : Bytes) : Bytes := be16b chan ++ be16b data.length ++ data

end Nice.Relay
