import Nice.Model.Copy
import Nice.Drv.Util
namespace Nice.Drv
open Nice.Copy

private def parseBufs (s : String) : Option (List Buf) :=
  (s.splitOn ",").mapM fun h => (parseHex h).map Array.toList

private def showBufs (l : List Buf) : String :=
  ",".intercalate (l.map fun b => hexOf b.toArray)

/-- `copy compact <hex,hex,..> <n>` → hex ; `copy scatter <sz,sz,..> <hex>` → `len <n> bufs <hex,..>` ;
    `copy split <hex,hex,..>` → `frames <hex,..>` (ICE-TCP >0xF800 split) -/
def copyStep (ws : List String) : String :=
  match ws with
  | ["compact", bufs, n] =>
    match parseBufs bufs, n.toNat? with
    | some m, some n => hexOf (compact m n).toArray
    | _, _ => "bad-op"
  | ["scatter", sizes, data] =>
    match (sizes.splitOn ",").mapM String.toNat?, parseHex data with
    | some szs, some d =>
      let (bs, n) := scatter szs d.toList
      s!"len {n} bufs {showBufs (bs.filter (!·.isEmpty))}"
    | _, _ => "bad-op"
  | ["split", bufs] =>
    match parseBufs bufs with
    | some m => s!"frames {showBufs (splitFrames m)}"
    | none => "bad-op"
  | _ => "bad-op"

end Nice.Drv
