import Nice.Model.IceRole
import Nice.Drv.Util
namespace Nice.Drv
open Nice.IceRole

/-- `role onreq <control 0|1> <tie> <reqrole -1|0|1> <q>` → `<newrole> success|switched|err487`
    `role on487 <sentControlling 0|1>` → `<newrole>` -/
def roleStep (ws : List String) : String :=
  match ws with
  | ["onreq", c, t, rr, q] =>
    match c.toNat?, t.toNat?, rr.toInt?, q.toNat? with
    | some c, some t, some rr, some q =>
      let rc : Option Bool := if rr < 0 then none else some (rr != 0)
      let (r, rep) := onRequest (c != 0) (UInt64.ofNat t) rc (UInt64.ofNat q)
      let n := match rep with | .success => "success" | .switched => "switched" | .err487 => "err487"
      s!"{if r then 1 else 0} {n}"
    | _, _, _, _ => "bad-op"
  | ["on487", sc] =>
    match sc.toNat? with
    | some sc => if on487 (sc != 0) then "1" else "0"
    | none => "bad-op"
  | _ => "bad-op"

end Nice.Drv
