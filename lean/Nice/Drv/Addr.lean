import Nice.Model.Addr
import Nice.Model.Sdp
import Nice.Drv.Util
/-! line-protocol sub-driver for `addr …` (agent/address.c) and `sdp …` (SDP code of agent/agent.c);
    the C side is harness/misc_drv.c -/
namespace Nice.Drv
open Nice.Addr Nice.Sdp

structure AddrSt where
  a : Agent := {}
  b : Agent := {}

private def crit (n : Nat) : String := if n == 0 then "" else s!" !{n}"

/-- bytes of a hex word as a C string: cut at the first NUL -/
private def cstr (bs : Array UInt8) : Text := bs.toList.takeWhile (· != 0)

private def hexT (t : Text) : String := hexOf t.toArray

private def num (s : String) : Option Nat :=
  if s.isEmpty || s.length > 20 || !s.toList.all Char.isDigit then none else s.toNat?

/-- `F:HEX:PORT:SCOPE` -/
def parseAddr (s : String) : Option Address :=
  match s.splitOn ":" with
  | [f, h, p, sc] =>
    match num f, parseHex h, num p, num sc with
    | some f, some bs, some p, some sc =>
      if p > 65535 || sc > 4294967295 then none else
      if f == 0 && bs.size == 0 && p == 0 && sc == 0 then some {}
      else if f == 4 && bs.size == 4 && sc == 0 then
        some { family := .v4, bytes := bs.toList, port := UInt16.ofNat p, scope := 0 }
      else if f == 6 && bs.size == 16 then
        some { family := .v6, bytes := bs.toList, port := UInt16.ofNat p, scope := UInt32.ofNat sc }
      else none
    | _, _, _, _ => none
  | _ => none

def showAddr (a : Address) : String :=
  match a.family with
  | .none => "0:-:0:0"
  | .v4 => s!"4:{hexT a.bytes}:{a.port}:0"
  | .v6 => s!"6:{hexT a.bytes}:{a.port}:{a.scope}"

def showCand (c : Cand) : String :=
  s!"{c.type},{c.transport},{showAddr c.addr},{showAddr c.base},{c.priority},{c.streamId},{c.componentId},{hexT c.foundation}"

/-- `<type> <transport> <addr> <base> <priority> <component> <foundation hex>` -/
def parseCandWords (ws : List String) : Option Cand :=
  match ws with
  | [ty, tr, a, b, pr, co, f] =>
    match num ty, num tr, parseAddr a, parseAddr b, num pr, num co, parseHex f with
    | some ty, some tr, some a, some b, some pr, some co, some f =>
      if ty > 1000 || tr > 1000 || pr > 4294967295 || co > 4294967295 then none else
      some { type := ty, transport := tr, addr := a, base := b, priority := UInt32.ofNat pr,
             componentId := UInt32.ofNat co,
             foundation := (cstr f).take Nice.Gen.NICE_CANDIDATE_MAX_FOUNDATION }
    | _, _, _, _, _, _, _ => none
  | _ => none

private def chunks (n : Nat) (l : List UInt8) : List (List UInt8) :=
  let rec go (fuel : Nat) (l : List UInt8) (acc : List (List UInt8)) : List (List UInt8) :=
    match fuel with
    | 0 => acc.reverse
    | f + 1 => if l.isEmpty then acc.reverse else go f (l.drop n) (l.take n :: acc)
  go (l.length + 1) l []

private def classOf (a : Address) : Char :=
  Char.ofNat (48 + (if isPrivate a then 1 else 0) + (if isLinklocal a then 2 else 0))

private def parseInt (s : String) : Option Int :=
  if s.startsWith "-" then (num (s.drop 1).toString).map fun n => - (n : Int)
  else (num s).map fun n => (n : Int)

def addrStep (ws : List String) : String :=
  match ws with
  | ["class", f, h] =>
    match num f, parseHex h with
    | some 4, some bs =>
      if bs.size == 0 || bs.size % 4 != 0 then "bad-op" else
      String.ofList ((chunks 4 bs.toList).map fun b => classOf { family := .v4, bytes := b })
    | some 6, some bs =>
      if bs.size == 0 || bs.size % 16 != 0 then "bad-op" else
      String.ofList ((chunks 16 bs.toList).map fun b => classOf { family := .v6, bytes := b })
    | some 0, some bs => if bs.size == 0 then "0" ++ crit 2 else "bad-op"
    | _, _ => "bad-op"
  | ["eq", a, b] =>
    match parseAddr a, parseAddr b with
    | some a, some b =>
      s!"{if equal a b then 1 else 0}{if equalNoPort a b then 1 else 0}" ++ crit (if equalReached a b then 2 else 0)
    | _, _ => "bad-op"
  | ["trans", a, b, c] =>
    match parseAddr a, parseAddr b, parseAddr c with
    | some a, some b, some c =>
      let d (x : Bool) : String := if x then "1" else "0"
      d (equal a b) ++ d (equal b c) ++ d (equal a c) ++ " " ++
        d (equalNoPort a b) ++ d (equalNoPort b c) ++ d (equalNoPort a c) ++
        crit ((if equalReached a b then 2 else 0) + (if equalReached b c then 2 else 0) + (if equalReached a c then 2 else 0))
    | _, _, _ => "bad-op"
  | ["tostr", a] =>
    match parseAddr a with
    | some a => hexT (Addr.toString a) ++ crit (if isValid a then 0 else 1)
    | none => "bad-op"
  | ["fromstr", h] =>
    match parseHex h with
    | some bs => (match fromString (cstr bs) with | some a => showAddr a | none => "fail")
    | none => "bad-op"
  | ["rt", a] =>
    match parseAddr a with
    | some a =>
      let t := Addr.toString a
      hexT t ++ " " ++ (match fromString t with | some b => showAddr b | none => "fail") ++ crit (if isValid a then 0 else 1)
    | none => "bad-op"
  | ["rt2", h] =>
    match parseHex h with
    | some bs =>
      (match fromString (cstr bs) with
       | none => "fail"
       | some a =>
         let t := Addr.toString a
         showAddr a ++ " " ++ hexT t ++ " " ++ (match fromString t with | some b => showAddr b | none => "fail"))
    | none => "bad-op"
  | ["valid", a] =>
    match parseAddr a with
    | some a => s!"{if isValid a then 1 else 0} {ipVersion a}"
    | none => "bad-op"
  | ["setport", a, p] =>
    match parseAddr a, num p with
    | some a, some p =>
      if p > 4294967295 then "bad-op" else showAddr (setPort a (UInt32.ofNat p)) ++ crit (if isValid a then 0 else 1)
    | _, _ => "bad-op"
  | ["getport", a] =>
    match parseAddr a with
    | some a => s!"{getPort a}" ++ crit (if isValid a then 0 else 1)
    | none => "bad-op"
  | ["num", h] =>
    match parseHex h with
    | some bs => s!"{strtoull (cstr bs)}"
    | none => "bad-op"
  | ["fmtd", x] =>
    match parseInt x with
    | some x => if x < -2147483648 || x > 2147483647 then "bad-op" else hexT (fmtD x)
    | none => "bad-op"
  | _ => "bad-op"

private def showState (ag : Agent) : String :=
  String.intercalate " " (ag.streams.map fun s =>
    s!"s{s.id} u={hexT s.remoteUfrag} p={hexT s.remotePwd}" ++
    String.join (s.comps.map fun c =>
      if c.remotes.isEmpty then "" else s!" c{c.id}[" ++ String.intercalate "|" (c.remotes.map showCand) ++ "]"))

private def mkAgent (counts : List Nat) : Agent :=
  let rec go (i : Nat) : List Nat → List Stream
    | [] => []
    | n :: rest =>
      let sid := UInt32.ofNat i
      { id := sid, localUfrag := (s!"ufrag{i}").toUTF8.toList, localPwd := (s!"password{i}").toUTF8.toList,
        comps := (List.range n).map fun k => { id := UInt32.ofNat (k + 1) } } :: go (i + 1) rest
  { streams := go 1 counts }

def sdpStep (st : AddrSt) (ws : List String) : AddrSt × String :=
  let L := Libc.model
  match ws with
  | "gencand" :: cw =>
    match parseCandWords cw with
    | some c => if isValid c.addr then (st, hexT (genCandidate L c)) else (st, "bad-op")
    | none => (st, "bad-op")
  | ["parsecand", sid, h] =>
    match num sid, parseHex h with
    | some sid, some bs =>
      if sid > 4294967295 then (st, "bad-op") else
      let r := parseCandidateX L (UInt32.ofNat sid) (cstr bs)
      (st, (match r.cand with | some c => "cand " ++ showCand c | none => "none") ++ crit r.crit)
    | _, _ => (st, "bad-op")
  | "rtcand" :: sid :: cw =>
    match num sid, parseCandWords cw with
    | some sid, some c =>
      if sid > 4294967295 || !isValid c.addr then (st, "bad-op") else
      let t := genCandidate L c
      let r := parseCandidateX L (UInt32.ofNat sid) t
      (st, hexT t ++ " " ++ (match r.cand with | some c => "cand " ++ showCand c | none => "none") ++ crit r.crit)
    | _, _ => (st, "bad-op")
  | "new" :: counts =>
    match counts.mapM num with
    | some cs =>
      if cs.isEmpty || cs.length > 8 || cs.any (fun n => n == 0 || n > 256) then (st, "bad-op")
      else ({ a := mkAgent cs, b := mkAgent cs }, "ok")
    | none => (st, "bad-op")
  | _ =>
  if st.a.streams.isEmpty then (st, "bad-op") else   -- no `sdp new` since the last reset
  match ws with
  | ["name", sid, h] =>
    match num sid, parseHex h with
    | some sid, some bs =>
      if sid > 4294967295 then (st, "bad-op") else
      let (a, ok, cr) := setStreamName st.a (UInt32.ofNat sid) (cstr bs)
      ({ st with a := a }, (if ok then "1" else "0") ++ crit (if cr then 1 else 0))
    | _, _ => (st, "bad-op")
  | ["cred", sid, u, p] =>
    match num sid, parseHex u, parseHex p with
    | some sid, some u, some p =>
      if sid > 4294967295 then (st, "bad-op") else
      if sid == 0 then (st, "0" ++ crit 1) else
      let (a, ok) := setLocalCredentials st.a (UInt32.ofNat sid) (cstr u) (cstr p)
      ({ st with a := a }, if ok then "1" else "0")
    | _, _, _ => (st, "bad-op")
  | "local" :: sid :: cw =>
    match num sid, parseCandWords cw with
    | some sid, some c =>
      if sid > 4294967295 || !isValid c.addr then (st, "bad-op") else
      let sid := UInt32.ofNat sid
      match findStream st.a sid with
      | none => (st, "nocomp")
      | some s =>
        match findComp s c.componentId with
        | none => (st, "nocomp")
        | some _ =>
          let c := { c with streamId := sid }
          ({ st with a := updStream st.a sid fun s => updComp s c.componentId fun k =>
              { k with locals := k.locals ++ [c] } }, "ok")
    | _, _ => (st, "bad-op")
  | ["rm", which, sid] =>        -- nice_agent_remove_stream on the generating (a) / parsing (b) agent
    match num sid with
    | some sid =>
      if sid > 4294967295 || (which != "a" && which != "b") then (st, "bad-op") else
      let rm (g : Agent) : Agent := { g with streams := g.streams.filter fun s => s.id != UInt32.ofNat sid }
      (if which == "a" then { st with a := rm st.a } else { st with b := rm st.b }, "ok")
    | none => (st, "bad-op")
  | ["forcerelay", v] =>
    match num v with
    | some v => ({ st with a := { st.a with forceRelay := v != 0 } }, "ok")
    | none => (st, "bad-op")
  | ["gen"] => (st, hexT (genSdp L st.a))
  | ["genstream", sid, inc] =>
    match num sid, num inc with
    | some sid, some inc =>
      if sid > 4294967295 then (st, "bad-op") else
      match genStreamSdp L st.a (UInt32.ofNat sid) (inc != 0) with
      | some t => (st, hexT t)
      | none => (st, "null" ++ crit (if sid == 0 then 1 else 0))
    | _, _ => (st, "bad-op")
  | ["xfer"] =>
    let (b, ret, cr) := parseRemoteSdp L st.b (genSdp L st.a)
    ({ st with b := b }, s!"ret={ret} " ++ showState b ++ crit cr)
  | ["parse", h] =>
    match parseHex h with
    | some bs =>
      let (b, ret, cr) := parseRemoteSdp L st.b (cstr bs)
      ({ st with b := b }, s!"ret={ret} " ++ showState b ++ crit cr)
    | none => (st, "bad-op")
  | ["parsestream", sid, h] =>
    match num sid, parseHex h with
    | some sid, some bs =>
      if sid > 4294967295 then (st, "bad-op") else
      let r := (parseRemoteStreamSdp L st.b (UInt32.ofNat sid) (cstr bs)).getD {}
      let o (x : Option Text) : String := match x with | some t => hexT t | none => "null"
      (st, s!"u={o r.ufrag} p={o r.pwd} n={r.cands.length} [" ++ String.intercalate "|" (r.cands.map showCand) ++ "]"
           ++ crit (r.crit + (if sid == 0 then 1 else 0)))
    | _, _ => (st, "bad-op")
  | ["xferstream", sid, inc] =>
    match num sid, num inc with
    | some sid, some inc =>
      if sid > 4294967295 then (st, "bad-op") else
      match genStreamSdp L st.a (UInt32.ofNat sid) (inc != 0) with
      | none => (st, "null" ++ crit (if sid == 0 then 1 else 0))
      | some t =>
        let r := (parseRemoteStreamSdp L st.b (UInt32.ofNat sid) t).getD {}
        let o (x : Option Text) : String := match x with | some t => hexT t | none => "null"
        (st, s!"u={o r.ufrag} p={o r.pwd} n={r.cands.length} [" ++ String.intercalate "|" (r.cands.map showCand) ++ "]"
             ++ crit r.crit)
    | _, _ => (st, "bad-op")
  | ["state"] => (st, showState st.b)
  | _ => (st, "bad-op")

end Nice.Drv
