/-
  `stun …` sub-driver: line protocol for the STUN message layer model (Nice.Stun).
  The C side is harness/stun_drv.c; both print exactly one line per op.

  Byte strings are lowercase hex, `-` = empty, `null` = NULL pointer where allowed.  Numbers are
  decimal unless noted.  <S> = stun_message_validate_buffer_length verdict: invalid | incomplete | <n>.

  agent / configuration
    stun cfg <compat 0-3 | none> <flags hex>                     -> ok
         stun_agent_init with STUN_ALL_KNOWN_ATTRIBUTES (`none`: messages have msg->agent = NULL)
    stun agent <compat> <flags hex> <all|msoc|-|hex,hex,..> <sw hex|nosw>   -> ok
         stun_agent_init with that known-attribute list (+ stun_agent_set_software)
  builder  (BUILD = `ret <r> len <stun_message_length|-> vl <S of the first len bytes> buf <whole cap-byte buffer>`)
    stun init <cap> <class> <method> <txid 16 bytes>             -> BUILD     (buffer pre-filled with 0xaa)
    stun app <type hex4> bytes <hex> | flag | u32 <n> | u64 <n> | str <hex> | err <code> | sw <hex|null>
           | addr <fam> <port> <ip hex> <addrlen> | xaddr … | xaddrf … <cookie>      -> BUILD   (fam 4 | 6 | other)
    stun raw <type hex4> <length>                                -> BUILD     bare stun_message_append, ret = value offset | 0
    stun ireq|iind <cap> <method> <txid>                         -> BUILD INFO     stun_agent_init_request / _indication
    stun iresp <cap> | ierr <cap> <code> | unk <cap>             -> BUILD INFO [SLOTS]  init_response / init_error /
         build_unknown_attributes_error from the last validated packet (the "request")
    stun fin <key hex|null>                                      -> BUILD INFO SLOTS    stun_agent_finish_message
         INFO = `key <hex|null> lt <0 | 1 ltkey>` (msg->key, long_term_valid/key);
         SLOTS = `slots <i:method:id:key:lt,…|->` (the agent's valid saved transaction ids)
  usages
    stun ucc <cap> <txid> <user|null> <pass|null> <canduse> <controlling> <prio> <tie> <candid|null> <icecompat>
                                                                 -> BUILD INFO SLOTS    stun_usage_ice_conncheck_create
    stun ubind|ukeep <cap> <txid>                                -> BUILD INFO SLOTS    stun_usage_bind_create / _keepalive
    stun uturn <cap> <txid> <prev 0|1> <props> <bandwidth> <lifetime> <user|null> <pass|null> <turncompat>
    stun uturnref <cap> <txid> <prev 0|1> <lifetime> <user|null> <pass|null> <turncompat>
    stun uturnperm <cap> <txid> <user> <pass> <realm> <nonce> <fam|null> <port> <ip> <turncompat>
                                                                 -> BUILD INFO SLOTS    stun_usage_turn_create / _create_refresh /
         _create_permission (prev = 1: the last validated packet is `previous_response`; bandwidth/lifetime signed)
    stun uturnproc <relaylen ≥ 28> <addrlen ≥ 28> <altlen|null> <turncompat>
         -> ret <r> rlen <n> [relay f p ip] alen <n> [addr …] altlen <n|null> [alt …] bw <n|-> lt <n|->
    stun uturnrefproc <turncompat>                               -> ret <r> lt <n|->     (both on the last validated packet)
    stun ureply <cap> <fam> <port> <ip> <srclen> <control> <tie> <icecompat>
         -> ret <StunUsageIceReturn> plen <n> control <0|1> buf <hex> INFO SLOTS       …_conncheck_create_reply
    stun uccproc <addrlen ≥ 28> <icecompat>                      -> ret <r> alen <n> [addr <fam> <port> <ip>]
    stun ubindproc <addrlen ≥ 28> <altlen|null>                  -> ret <r> alen <n> [addr …] altlen <n|null> [alt …]
         (both on the last validated packet)
  received packets
    stun len <pkt> split <n1,n2,..> pad <0|1>                    -> fast <S> fastnt <S> full <S>
         vectored pre-check (n_buffers ≥ 0 and the NULL-terminated convention) and the contiguous validator;
         zero-length buffers allowed
    stun val <pkt> <nocb | none | user=key;user=key…>            -> status <StunValidationStatus> INFO legacy <0|1> SLOTS
         stun_agent_validate with stun_agent_default_validater over that table (`nocb`: NULL callback)
    stun valm <table>                                            -> same + ` pkt <hex>`: validates the first len bytes of
         the message being built, as a received packet, at the same agent
    stun forget <txid>                                           -> <0|1> SLOTS
    stun find <pkt> <type hex4>                                  -> notvalid | none | <value offset> <alen>
    stun get32|get64|getflag <pkt> <type> | geterr <pkt> | getstr <pkt> <type> <buflen>
           | getaddr|getxaddr <pkt> <type> <addrlen> | getxaddrf <pkt> <type> <addrlen> <cookie>
                                                                 -> notvalid | ret <StunMessageReturn> [val …|alen … addr …]
    stun mfind|m32|m64|mflag|merr|mstr|maddr|mxaddr|mxaddrf …    the same accessors on the message being built
    stun hdr <pkt>                                               -> class <n> method <n> cookie <0|1> id <hex> len <n>
  primitives (the model's own SHA-1 / MD5 / HMAC / CRC against GnuTLS and the library)
    stun crc <hex> <typo> | fpr <pkt> <len> <typo> | sha1 <hex> | md5 <hex> | hmac <key> <hex>
    stun creds <realm> <user> <pass> | mac <pkt> <len> <msglen> <key> <pad>
  The lookup ops first run stun_message_validate_buffer_length on the packet with the padding mode of the
  current agent and answer `notvalid` unless it returns the packet's size (the accessors' precondition).
  A model fault prints `fault oob|assert|ub` (the real code then has no defined behaviour).  Transaction
  ids come from the op line (the harness replaces stun_make_transid at link time).
-/
import Nice.Model.Stun
import Nice.Drv.Util
namespace Nice.Drv
open Nice.Stun Nice.Gen

structure StunSt where
  agent : Option Cfg := none        -- = ag.map (·.cfg): what msg->agent points to
  ag : Option Agent := none         -- the StunAgent (saved transaction ids, software, …)
  buf : Bytes := #[]                -- buffer of the message being built
  info : MsgInfo := {}              -- key / long-term key remembered on the message being built
  inited : Bool := false
  req : Option Msg := none          -- the last validated packet, usable as a request
  deriving Inhabited

namespace StunD

def faultName : Fault → String
  | .oob => "fault oob" | .assertFailed => "fault assert" | .ub => "fault ub"

def hexNat (s : String) : Option Nat :=
  if s.isEmpty then none else
  s.toList.foldl (fun acc c => match acc, hexDigit c with
    | some a, some d => some (a * 16 + d) | _, _ => none) (some 0)

def lenResName : LenRes → String
  | .invalid => "invalid" | .incomplete => "incomplete" | .len n => toString n

def splitBufs (pkt : Bytes) (sizes : List Nat) : Option (Array Bytes) :=
  let rec go (off : Nat) : List Nat → Array Bytes → Option (Array Bytes)
    | [], acc => if off == pkt.size then some acc else none
    | n :: ns, acc => if off + n ≤ pkt.size then go (off + n) ns (acc.push (pkt.extract off (off + n))) else none
  go 0 sizes #[]

def parseSizes (s : String) : Option (List Nat) :=
  (s.splitOn ",").mapM String.toNat?

/-- `vl` = the library's own stun_message_validate_buffer_length on the first `len` bytes -/
def showBuild (ag : Option Cfg) (r : String) (buf : Bytes) : String :=
  match messageLength buf with
  | .ok l =>
    let vl := if l.toNat ≤ buf.size then
        match validateLen (buf.extract 0 l.toNat) (!noAlign ag) with
        | .ok r => lenResName r | .error e => faultName e
      else "toolong"
    s!"ret {r} len {l} vl {vl} buf {hexOf buf}"
  | .error _ => s!"ret {r} len - vl - buf {hexOf buf}"

private def retBuf (s : StunSt) (r : M (Ret × Bytes)) : StunSt × String :=
  match r with
  | .error e => (s, faultName e)
  | .ok (ret, b) => ({ s with buf := b }, showBuild s.agent (toString ret.code) b)

def parseAddr (fam port ip alen : String) : Option (SockAddr × Nat) :=
  match fam.toNat?, port.toNat?, parseHex ip, alen.toNat? with
  | some f, some p, some i, some l =>
    if l < 2 || l > 4096 then none else some (⟨f, UInt16.ofNat p, i⟩, l)
  | _, _, _, _ => none

private def showAddr (r : Ret × Option SockAddr × Nat) : String :=
  match r with
  | (ret, some ad, alen) => s!"ret {ret.code} alen {alen} addr {ad.fam} {ad.port} {hexOf ad.ip}"
  | (ret, none, alen) => s!"ret {ret.code} alen {alen}"

/-- precondition of the accessors: the packet validates to exactly its size -/
private def isValid (s : StunSt) (pkt : Bytes) : Bool :=
  match validateLen pkt (!noAlign s.agent) with
  | .ok (.len n) => n == pkt.size
  | _ => false

def parseKnown (k : String) : Option (List UInt16) :=
  if k == "all" then some STUN_ALL_KNOWN_ATTRIBUTES
  else if k == "msoc" then some STUN_MSOC_KNOWN_ATTRIBUTES
  else if k == "-" then some []
  else (k.splitOn ",").mapM fun h => (hexNat h).bind fun n => if n == 0 || n > 0xffff then none else some (UInt16.ofNat n)

def parseSw (k : String) : Option (Option Bytes) :=
  if k == "nosw" then some none else (parseHex k).map some

/-- `null` = NULL pointer, otherwise hex (`-` = empty, non-NULL) -/
def parseKey (k : String) : Option (Option Bytes) :=
  if k == "null" then some none else (parseHex k).map some

def showKey : Option Bytes → String
  | none => "null" | some k => hexOf k

/-- validater table `user=key;user=key` (hex; key may be `null`), `none` = empty table,
    `nocb` = NULL callback -/
def parseValidater (k : String) : Option Validater :=
  if k == "nocb" then some none
  else if k == "none" then some (some fun _ => none)
  else
    let entries := (k.splitOn ";").mapM fun e =>
      match e.splitOn "=" with
      | [u, p] => match parseHex u, parseKey p with
        | some u, some p => some (u, p)
        | _, _ => none
      | _ => none
    entries.map fun tab => some (defaultValidater tab)

def showSlots (ag : Agent) : String :=
  let items := (List.range ag.sent.size).filterMap fun i =>
    let sl := ag.sent.getD i {}
    if sl.valid then
      some s!"{i}:{sl.method}:{hexOf sl.id}:{showKey sl.key}:{if sl.ltValid then "1" ++ hexOf sl.ltKey else "0"}"
    else none
  if items.isEmpty then "-" else ",".intercalate items

def showInfo (i : MsgInfo) : String :=
  s!"key {showKey i.key} lt {if i.ltValid then "1 " ++ hexOf i.ltKey else "0"}"

def execHashes : Hashes := { hmac := Hash.hmacSha1, md5 := Hash.md5 }

def curMsg (s : StunSt) : Msg :=
  { buf := s.buf, agent := s.agent, key := s.info.key, ltKey := s.info.ltKey, ltValid := s.info.ltValid }

def setMsg (s : StunSt) (m : Msg) : StunSt :=
  { s with buf := m.buf, info := { key := m.key, ltKey := m.ltKey, ltValid := m.ltValid } }

def initReqInd (s : StunSt) (isReq : Bool) (cap m id : String) : StunSt × String :=
  match s.ag, cap.toNat?, m.toNat?, parseHex id with
  | some ag, some cap, some m, some id =>
    if id.size != 16 || cap > 70000 then (s, "bad-op") else
    let buf : Bytes := Array.replicate cap 0xaa
    match (if isReq then initRequest ag buf m id else initIndication ag buf m id) with
    | .error e => (s, faultName e)
    | .ok (r, msg) =>
      let s' := setMsg { s with inited := r } msg
      (s', s!"{showBuild s.agent (if r then "1" else "0") msg.buf} {showInfo s'.info}")
  | _, _, _, _ => (s, "bad-op")

def bindOp (s : StunSt) (create : Bool) (cap id : String) : StunSt × String :=
  match s.ag, cap.toNat?, parseHex id with
  | some ag, some cap, some id =>
    if id.size != 16 || cap > 70000 then (s, "bad-op") else
    let buf : Bytes := Array.replicate cap 0xaa
    match (if create then bindCreate execHashes ag buf id else bindKeepalive execHashes ag buf id) with
    | .error e => (s, faultName e)
    | .ok (r, ag', msg) =>
      let s' := setMsg { s with inited := r != 0, ag := some ag' } msg
      (s', s!"{showBuild s.agent (toString r) s'.buf} {showInfo s'.info} slots {showSlots ag'}")
  | _, _, _ => (s, "bad-op")

def buildOut (s : StunSt) (ag : Agent) (r : M (Nat × Agent × Msg)) : StunSt × String :=
  let _ := ag
  match r with
  | .error e => (s, faultName e)
  | .ok (n, ag', msg) =>
    let s' := setMsg { s with inited := n != 0, ag := some ag' } msg
    (s', s!"{showBuild s.agent (toString n) s'.buf} {showInfo s'.info} slots {showSlots ag'}")

end StunD
open StunD

def stunStep (s : StunSt) (ws : List String) : StunSt × String :=
  match ws with
  | ["cfg", "none", _] => ({ s with agent := none, ag := none }, "ok")
  | ["cfg", c, f] =>
    match c.toNat?, hexNat f with
    | some c, some f =>
      if c < 4 then ({ s with agent := some ⟨c, f⟩, ag := some (agentInit STUN_ALL_KNOWN_ATTRIBUTES c f) }, "ok")
      else (s, "bad-op")
    | _, _ => (s, "bad-op")
  | ["agent", c, f, known, sw] =>
    match c.toNat?, hexNat f, parseKnown known, parseSw sw with
    | some c, some f, some known, some sw =>
      if c < 4 then
        ({ s with agent := some ⟨c, f⟩, ag := some { agentInit known c f with software := sw } }, "ok")
      else (s, "bad-op")
    | _, _, _, _ => (s, "bad-op")
  | ["init", cap, c, m, id] =>
    match cap.toNat?, c.toNat?, m.toNat?, parseHex id with
    | some cap, some c, some m, some id =>
      if id.size != 16 || cap > 70000 then (s, "bad-op") else
      let buf : Bytes := Array.replicate cap 0xaa
      match messageInit buf c m id with
      | .error e => (s, faultName e)
      | .ok none => ({ s with buf := buf, inited := false, info := {} }, showBuild s.agent "0" buf)
      | .ok (some b) => ({ s with buf := b, inited := true, info := {} }, showBuild s.agent "1" b)
    | _, _, _, _ => (s, "bad-op")
  | "app" :: ty :: rest =>
    if !s.inited then (s, "bad-op") else
    match hexNat ty with
    | none => (s, "bad-op")
    | some tyN =>
      let t := UInt16.ofNat tyN
      match rest with
      | ["bytes", h] => match parseHex h with
        | some d => retBuf s (appendBytes s.agent s.buf t d) | none => (s, "bad-op")
      | ["flag"] => retBuf s (appendFlag s.agent s.buf t)
      | ["u32", n] => match n.toNat? with
        | some n => retBuf s (append32 s.agent s.buf t (UInt32.ofNat n)) | none => (s, "bad-op")
      | ["u64", n] => match n.toNat? with
        | some n => retBuf s (append64 s.agent s.buf t (UInt64.ofNat n)) | none => (s, "bad-op")
      | ["str", h] => match parseHex h with
        | some d => retBuf s (appendString s.agent s.buf t d) | none => (s, "bad-op")
      | ["err", n] => match n.toNat? with
        | some n => retBuf s (appendError s.agent s.buf n) | none => (s, "bad-op")
      | ["sw", "null"] => retBuf s (appendSoftware s.agent s.buf none)
      | ["sw", h] => match parseHex h with
        | some d => retBuf s (appendSoftware s.agent s.buf (some d)) | none => (s, "bad-op")
      | ["addr", f, p, i, l] => match parseAddr f p i l with
        | some (ad, l) => retBuf s (appendAddr s.agent s.buf t ad l) | none => (s, "bad-op")
      | ["xaddr", f, p, i, l] => match parseAddr f p i l with
        | some (ad, l) => retBuf s (appendXorAddr s.agent s.buf t ad l) | none => (s, "bad-op")
      | ["xaddrf", f, p, i, l, ck] => match parseAddr f p i l, ck.toNat? with
        | some (ad, l), some ck => retBuf s (appendXorAddrFull s.agent s.buf t ad l (UInt32.ofNat ck))
        | _, _ => (s, "bad-op")
      | _ => (s, "bad-op")
  | ["raw", ty, n] =>
    if !s.inited then (s, "bad-op") else
    match hexNat ty, n.toNat? with
    | some tyN, some n =>
      if n > 100000 then (s, "bad-op") else
      match append s.agent s.buf (UInt16.ofNat tyN) n with
      | .error e => (s, faultName e)
      | .ok none => (s, showBuild s.agent "0" s.buf)
      | .ok (some (b, off)) => ({ s with buf := b }, showBuild s.agent (toString off) b)
    | _, _ => (s, "bad-op")
  | ["len", pkt, "split", sz, "pad", pad] =>
    match parseHex pkt, parseSizes sz with
    | some pkt, some sizes =>
      match splitBufs pkt sizes with
      | none => (s, "bad-op")
      | some bufs =>
        let pad := pad == "1"
        let f := match validateFast bufs pkt.size pad with | .ok r => lenResName r | .error e => faultName e
        let full := match validateLen pkt pad with | .ok r => lenResName r | .error e => faultName e
        (s, s!"fast {f} fastnt {f} full {full}")
    | _, _ => (s, "bad-op")
  | ["hdr", pkt] =>
    match parseHex pkt with
    | some pkt =>
      match getClass pkt, getMethod pkt, hasCookie pkt, messageId pkt, messageLength pkt with
      | .ok c, .ok m, .ok hc, .ok id, .ok l =>
        (s, s!"class {c} method {m} cookie {if hc then 1 else 0} id {hexOf id} len {l}")
      | _, _, _, _, _ => (s, "fault oob")
    | none => (s, "bad-op")
  | ["val", pkt, keys] =>
    match s.ag, parseHex pkt, parseValidater keys with
    | some ag, some pkt, some v =>
      match validate execHashes ag pkt v with
      | .error e => (s, faultName e)
      | .ok (st, ag', info) =>
        let req := if st == .notStun || st == .incomplete then s.req
          else some { buf := pkt, agent := some ag.cfg, key := info.key, ltKey := info.ltKey, ltValid := info.ltValid }
        let infoS := if st == .notStun || st == .incomplete then "key - lt -" else showInfo info
        ({ s with ag := some ag', req := req },
         s!"status {st.code} {infoS} legacy {if ag'.legacy then 1 else 0} slots {showSlots ag'}")
    | _, _, _ => (s, "bad-op")
  | ["valm", keys] =>
    -- validate the message being built (its first `len` bytes, as a received packet) at this agent
    match s.ag, parseValidater keys with
    | some ag, some v =>
      if !s.inited then (s, "bad-op") else
      match messageLength s.buf with
      | .error _ => (s, "bad-op")
      | .ok l =>
        if l.toNat > s.buf.size then (s, "toolong") else
        let pkt := s.buf.extract 0 l.toNat
        match validate execHashes ag pkt v with
        | .error e => (s, faultName e)
        | .ok (st, ag', info) =>
          let req := if st == .notStun || st == .incomplete then s.req
            else some { buf := pkt, agent := some ag.cfg, key := info.key, ltKey := info.ltKey, ltValid := info.ltValid }
          let infoS := if st == .notStun || st == .incomplete then "key - lt -" else showInfo info
          ({ s with ag := some ag', req := req },
           s!"status {st.code} {infoS} legacy {if ag'.legacy then 1 else 0} slots {showSlots ag'} pkt {hexOf pkt}")
    | _, _ => (s, "bad-op")
  | ["fin", key] =>
    match s.ag, parseKey key with
    | some ag, some key =>
      if !s.inited then (s, "bad-op") else
      match finishMessage execHashes ag (curMsg s) key with
      | .error e => (s, faultName e)
      | .ok (r, ag', m) =>
        let s' := setMsg { s with ag := some ag' } m
        (s', s!"{showBuild s.agent (toString r) m.buf} {showInfo s'.info} slots {showSlots ag'}")
    | _, _ => (s, "bad-op")
  | ["forget", id] =>
    match s.ag, parseHex id with
    | some ag, some id =>
      if id.size != 16 then (s, "bad-op") else
      let (r, ag') := forgetTransaction ag id
      ({ s with ag := some ag' }, s!"{if r then 1 else 0} slots {showSlots ag'}")
    | _, _ => (s, "bad-op")
  | ["ireq", cap, m, id] => initReqInd s true cap m id
  | ["iind", cap, m, id] => initReqInd s false cap m id
  | ["iresp", cap] =>
    match s.ag, s.req, cap.toNat? with
    | some ag, some req, some cap =>
      if cap > 70000 then (s, "bad-op") else
      let buf : Bytes := Array.replicate cap 0xaa
      match initResponse ag (curMsg s) buf req with
      | .error e => (s, faultName e)
      | .ok (r, msg) =>
        let s' := setMsg { s with inited := r } msg
        (s', s!"{showBuild s.agent (if r then "1" else "0") s'.buf} {showInfo s'.info}")
    | _, _, _ => (s, "bad-op")
  | ["ierr", cap, code] =>
    match s.ag, s.req, cap.toNat?, code.toNat? with
    | some ag, some req, some cap, some code =>
      if cap > 70000 then (s, "bad-op") else
      let buf : Bytes := Array.replicate cap 0xaa
      match initError ag (curMsg s) buf req code with
      | .error e => (s, faultName e)
      | .ok (r, msg) =>
        let s' := setMsg { s with inited := r } msg
        (s', s!"{showBuild s.agent (if r then "1" else "0") s'.buf} {showInfo s'.info}")
    | _, _, _, _ => (s, "bad-op")
  | ["unk", cap] =>
    match s.ag, s.req, cap.toNat? with
    | some ag, some req, some cap =>
      if cap > 70000 then (s, "bad-op") else
      let buf : Bytes := Array.replicate cap 0xaa
      match buildUnknownAttributesError execHashes ag (curMsg s) buf req with
      | .error e => (s, faultName e)
      | .ok (r, ag', msg) =>
        let s' := setMsg { s with inited := r != 0, ag := some ag' } msg
        (s', s!"{showBuild s.agent (toString r) s'.buf} {showInfo s'.info} slots {showSlots ag'}")
    | _, _, _ => (s, "bad-op")
  | ["ucc", cap, id, user, pass, cu, ctl, prio, tie, cid, ic] =>
    match s.ag, cap.toNat?, parseHex id, parseKey user, parseKey pass, prio.toNat?, tie.toNat?, parseKey cid, ic.toNat? with
    | some ag, some cap, some id, some user, some pass, some prio, some tie, some cid, some ic =>
      if id.size != 16 || cap > 70000 then (s, "bad-op") else
      let buf : Bytes := Array.replicate cap 0xaa
      match iceConncheckCreate execHashes ag buf id user pass (cu == "1") (ctl == "1") (UInt32.ofNat prio)
          (UInt64.ofNat tie) cid ic with
      | .error e => (s, faultName e)
      | .ok (r, ag', msg) =>
        let s' := setMsg { s with inited := r != 0, ag := some ag' } msg
        (s', s!"{showBuild s.agent (toString r) s'.buf} {showInfo s'.info} slots {showSlots ag'}")
    | _, _, _, _, _, _, _, _, _ => (s, "bad-op")
  | ["ubind", cap, id] => bindOp s true cap id
  | ["ukeep", cap, id] => bindOp s false cap id
  | ["uccproc", al, ic] =>
    match s.req, al.toNat?, ic.toNat? with
    | some req, some al, some ic =>
      if al > 4096 then (s, "bad-op") else
      match iceConncheckProcess req al ic with
      | .error e => (s, faultName e)
      | .ok (r, ad, al') =>
        (s, s!"ret {r} alen {al'}" ++ (match ad with | some ad => s!" addr {ad.fam} {ad.port} {hexOf ad.ip}" | none => ""))
    | _, _, _ => (s, "bad-op")
  | ["ubindproc", al, alt] =>
    match s.req, al.toNat?, (if alt == "null" then some none else alt.toNat?.map some) with
    | some req, some al, some alt =>
      if al > 4096 || (alt.getD 0) > 4096 then (s, "bad-op") else
      match bindProcess req al alt with
      | .error e => (s, faultName e)
      | .ok (r, ad, al', altA, altL) =>
        (s, s!"ret {r} alen {al'}" ++ (match ad with | some ad => s!" addr {ad.fam} {ad.port} {hexOf ad.ip}" | none => "")
          ++ s!" altlen {match altL with | some n => toString n | none => "null"}"
          ++ (match altA with | some ad => s!" alt {ad.fam} {ad.port} {hexOf ad.ip}" | none => ""))
    | _, _, _ => (s, "bad-op")
  | ["ureply", cap, fam, port, ip, sl, ctl, tie, ic] =>
    match s.ag, s.req, cap.toNat?, parseAddr fam port ip sl, tie.toNat?, ic.toNat? with
    | some ag, some req, some cap, some (src, sl), some tie, some ic =>
      if cap > 70000 then (s, "bad-op") else
      let buf : Bytes := Array.replicate cap 0xaa
      match iceCreateReply execHashes ag req (curMsg s) buf src sl (ctl == "1") (UInt64.ofNat tie) ic with
      | .error e => (s, faultName e)
      | .ok (r, ag', msg) =>
        let s' := setMsg { s with inited := r.plen != 0, ag := some ag' } msg
        (s', s!"ret {r.ret} plen {r.plen} control {if r.control then 1 else 0} buf {hexOf s'.buf} {showInfo s'.info} slots {showSlots ag'}")
    | _, _, _, _, _, _ => (s, "bad-op")
  | ["uturn", cap, id, prev, props, bw, lt, user, pass, tc] =>
    match s.ag, cap.toNat?, parseHex id, props.toNat?, bw.toInt?, lt.toInt?, parseKey user, parseKey pass, tc.toNat? with
    | some ag, some cap, some id, some props, some bw, some lt, some user, some pass, some tc =>
      if id.size != 16 || cap > 70000 || (prev == "1" && s.req.isNone) then (s, "bad-op") else
      let buf : Bytes := Array.replicate cap 0xaa
      buildOut s ag (turnCreate execHashes ag buf id (if prev == "1" then s.req else none) props bw lt user pass tc)
    | _, _, _, _, _, _, _, _, _ => (s, "bad-op")
  | ["uturnref", cap, id, prev, lt, user, pass, tc] =>
    match s.ag, cap.toNat?, parseHex id, lt.toInt?, parseKey user, parseKey pass, tc.toNat? with
    | some ag, some cap, some id, some lt, some user, some pass, some tc =>
      if id.size != 16 || cap > 70000 || (prev == "1" && s.req.isNone) then (s, "bad-op") else
      let buf : Bytes := Array.replicate cap 0xaa
      buildOut s ag (turnCreateRefresh execHashes ag buf id (if prev == "1" then s.req else none) lt user pass tc)
    | _, _, _, _, _, _, _ => (s, "bad-op")
  | ["uturnperm", cap, id, user, pass, realm, nonce, fam, port, ip, tc] =>
    match s.ag, cap.toNat?, parseHex id, parseKey user, parseKey pass, parseKey realm, parseKey nonce, tc.toNat? with
    | some ag, some cap, some id, some user, some pass, some realm, some nonce, some tc =>
      let peer : Option (Option SockAddr) :=
        if fam == "null" then some none else (parseAddr fam port ip "128").map fun x => some x.1
      match peer with
      | none => (s, "bad-op")
      | some peer =>
        if id.size != 16 || cap > 70000 then (s, "bad-op") else
        let buf : Bytes := Array.replicate cap 0xaa
        buildOut s ag (turnCreatePermission execHashes ag (curMsg s) buf id user pass realm nonce peer tc)
    | _, _, _, _, _, _, _, _ => (s, "bad-op")
  | ["uturnproc", rl, al, alt, tc] =>
    match s.req, rl.toNat?, al.toNat?, (if alt == "null" then some none else alt.toNat?.map some), tc.toNat? with
    | some req, some rl, some al, some alt, some tc =>
      if rl > 4096 || al > 4096 || (alt.getD 0) > 4096 then (s, "bad-op") else
      match turnProcess req rl al alt tc with
      | .error e => (s, faultName e)
      | .ok o =>
        let sa (tag : String) : Option SockAddr → String
          | some ad => s!" {tag} {ad.fam} {ad.port} {hexOf ad.ip}" | none => ""
        (s, s!"ret {o.ret} rlen {o.relayLen}{sa "relay" o.relay} alen {o.addrLen}{sa "addr" o.addr} altlen {match o.altLen with | some n => toString n | none => "null"}{sa "alt" o.alt} bw {match o.bandwidth with | some v => toString v | none => "-"} lt {match o.lifetime with | some v => toString v | none => "-"}")
    | _, _, _, _, _ => (s, "bad-op")
  | ["uturnrefproc", tc] =>
    match s.req, tc.toNat? with
    | some req, some tc =>
      match turnRefreshProcess req tc with
      | .error e => (s, faultName e)
      | .ok (r, lt) => (s, s!"ret {r} lt {match lt with | some v => toString v | none => "-"}")
    | _, _ => (s, "bad-op")
  | ["sha1", d] => match parseHex d with
    | some d => (s, hexOf (Hash.sha1 d)) | none => (s, "bad-op")
  | ["md5", d] => match parseHex d with
    | some d => (s, hexOf (Hash.md5 d)) | none => (s, "bad-op")
  | ["hmac", k, d] => match parseHex k, parseHex d with
    | some k, some d => (s, hexOf (Hash.hmacSha1 k d)) | _, _ => (s, "bad-op")
  | ["creds", r, u, p] => match parseHex r, parseHex u, parseHex p with
    | some r, some u, some p => (s, hexOf (hashCreds execHashes r u p)) | _, _, _ => (s, "bad-op")
  | ["mac", pkt, len, mlen, key, pad] =>
    match parseHex pkt, len.toNat?, mlen.toNat?, parseHex key with
    | some pkt, some len, some mlen, some key =>
      match stunSha1 execHashes pkt len (UInt16.ofNat mlen) key (pad == "1") with
      | .error e => (s, faultName e)
      | .ok m => (s, hexOf m)
    | _, _, _, _ => (s, "bad-op")
  | ["crc", d, typo] =>
    match parseHex d with
    | some d => (s, toString (crc32 (typo == "1") d))
    | none => (s, "bad-op")
  | ["fpr", pkt, len, typo] =>
    match parseHex pkt, len.toNat? with
    | some pkt, some len =>
      match fingerprint pkt len (typo == "1") with
      | .error e => (s, faultName e)
      | .ok v => (s, toString v)
    | _, _ => (s, "bad-op")
  | op :: rest =>
    -- accessors: `find|get* <pkt> <type> …` on a received packet, `mfind|m* <type> …` on the message being built
    let isM := op.startsWith "m"
    let name := if isM then (op.drop 1).toString else if op == "find" then "find" else (op.drop 3).toString
    let known := (op == "find" || op.startsWith "get" || isM) &&
      ["find", "32", "64", "flag", "err", "str", "addr", "xaddr", "xaddrf"].contains name
    if !known then (s, "bad-op") else
    let target : Option (Bytes × Bool × List String) :=
      if isM then
        if !s.inited then none else
        match messageLength s.buf with
        | .error _ => none
        | .ok l =>
          let ok := match validateLen (s.buf.extract 0 l.toNat) (!noAlign s.agent) with
            | .ok (.len n) => n == l.toNat && l.toNat ≤ s.buf.size
            | _ => false
          some (s.buf, ok, rest)
      else
        match rest with
        | pkt :: rest' => match parseHex pkt with
          | some pkt => some (pkt, isValid s pkt, rest')
          | none => none
        | [] => none
    match target with
    | none => (s, "bad-op")
    | some (buf, valid, args) =>
      let run (r : Unit → String) : StunSt × String := if valid then (s, r ()) else (s, "notvalid")
      let ag := s.agent
      match name, args with
      | "find", [ty] => match hexNat ty with
        | some ty => run fun _ => match find ag buf (UInt16.ofNat ty) with
          | .error e => faultName e
          | .ok none => "none"
          | .ok (some (off, len)) => s!"{off} {len}"
        | none => (s, "bad-op")
      | "32", [ty] => match hexNat ty with
        | some ty => run fun _ => match find32 ag buf (UInt16.ofNat ty) with
          | .error e => faultName e
          | .ok (.success, v) => s!"ret 0 val {v}"
          | .ok (r, _) => s!"ret {r.code}"
        | none => (s, "bad-op")
      | "64", [ty] => match hexNat ty with
        | some ty => run fun _ => match find64 ag buf (UInt16.ofNat ty) with
          | .error e => faultName e
          | .ok (.success, v) => s!"ret 0 val {v}"
          | .ok (r, _) => s!"ret {r.code}"
        | none => (s, "bad-op")
      | "flag", [ty] => match hexNat ty with
        | some ty => run fun _ => match findFlag ag buf (UInt16.ofNat ty) with
          | .error e => faultName e
          | .ok r => s!"ret {r.code}"
        | none => (s, "bad-op")
      | "err", [] => run fun _ => match findError ag buf with
          | .error e => faultName e
          | .ok (.success, v) => s!"ret 0 val {v}"
          | .ok (r, _) => s!"ret {r.code}"
      | "str", [ty, bl] => match hexNat ty, bl.toNat? with
        | some ty, some bl => if bl > 70000 then (s, "bad-op") else
          run fun _ => match findString ag buf (UInt16.ofNat ty) bl with
          | .error e => faultName e
          | .ok (.success, v) => s!"ret 0 val {hexOf (cstr v)}"
          | .ok (r, _) => s!"ret {r.code}"
        | _, _ => (s, "bad-op")
      | "addr", [ty, al] => match hexNat ty, al.toNat? with
        | some ty, some al => if al > 4096 then (s, "bad-op") else
          run fun _ => match findAddr ag buf (UInt16.ofNat ty) al with
          | .error e => faultName e
          | .ok r => showAddr r
        | _, _ => (s, "bad-op")
      | "xaddr", [ty, al] => match hexNat ty, al.toNat? with
        | some ty, some al => if al > 4096 then (s, "bad-op") else
          run fun _ => match findXorAddr ag buf (UInt16.ofNat ty) al with
          | .error e => faultName e
          | .ok r => showAddr r
        | _, _ => (s, "bad-op")
      | "xaddrf", [ty, al, ck] => match hexNat ty, al.toNat?, ck.toNat? with
        | some ty, some al, some ck => if al > 4096 then (s, "bad-op") else
          run fun _ => match findXorAddrFull ag buf (UInt16.ofNat ty) al (UInt32.ofNat ck) with
          | .error e => faultName e
          | .ok r => showAddr r
        | _, _, _ => (s, "bad-op")
      | _, _ => (s, "bad-op")
  | [] => (s, "bad-op")

end Nice.Drv
