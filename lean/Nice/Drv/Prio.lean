import Nice.Model.Prio
import Nice.Drv.Util
namespace Nice.Drv
open Nice.Prio

structure PrioSt where
  controlling : Bool := true
  list : List Pair := []

private def n (s : String) : Nat := s.toNat?.getD 0

/-- `prio ice|msice <type> <transport> <component> <turnIsUdp> <turnPref> <ipIndex> <reliable> <nat>` -/
def prioStep (ws : List String) : String :=
  match ws with
  | [kind, ty, tr, comp, tu, tp, ip, rel, nat] =>
    let c : Cand := { type := n ty, transport := n tr, componentId := UInt32.ofNat (n comp),
                      turnIsUdp := n tu != 0, turnPref := UInt32.ofNat (n tp), ipPref := UInt32.ofNat (n ip) }
    let r := if kind == "ice" then icePriority c (n rel != 0) (n nat != 0)
             else if kind == "msice" then msIcePriority c (n rel != 0) (n nat != 0) else none
    match r with
    | some p => toString p
    | none => if kind == "ice" || kind == "msice" then "assert" else "bad-op"
  | _ => "bad-op"

private def showList (l : List Pair) : String :=
  "list" ++ String.join (l.map fun p => s!" {p.localPrio}:{p.remotePrio}:{p.priority}")

/-- `plist add <lp> <rp>` | `plist switch` -/
def plistStep (s : PrioSt) (ws : List String) : PrioSt × String :=
  match ws with
  | ["add", lp, rp] =>
    let l := addPair s.controlling (UInt32.ofNat (n lp)) (UInt32.ofNat (n rp)) s.list
    ({ s with list := l }, showList l)
  | ["switch"] =>
    let c := !s.controlling
    let l := recalc c s.list
    ({ controlling := c, list := l }, showList l)
  | _ => (s, "bad-op")

end Nice.Drv
