import Nice.Model.Gather
import Nice.Drv.Util
namespace Nice.Drv
open Nice.Gather

private def parseBeh (w : String) : Option Beh :=
  match w.splitOn ":" with
  | ["s", a] => a.toNat?.map Beh.success
  | ["x"] => some .silent
  | ["f"] => some .foreign
  | ["e"] => some .hardError
  | ["a"] => some .reauth
  | ["r"] => some .alternate
  | _ => none

/-- `gather item <cands: a,b,..|-> <beh> ...` → `done <0|1> rounds <n> cands <a,b,..|->`
    behaviours: `s:<addr>` success, `x` silent, `f` foreign answer, `e` hard error, `a` re-authenticate, `r` alternate -/
def gatherStep (ws : List String) : String :=
  match ws with
  | "item" :: cands :: behs =>
    let cs := if cands == "-" then some [] else (cands.splitOn ",").mapM String.toNat?
    match cs, behs.mapM parseBeh with
    | some cs, some bs =>
      let r := run { item := {}, cands := cs } bs
      let l := if r.cands.isEmpty then "-" else ",".intercalate (r.cands.map toString)
      s!"done {if r.item.done then 1 else 0} rounds {r.item.rounds} cands {l}"
    | _, _ => "bad-op"
  | _ => "bad-op"

end Nice.Drv
