import Nice.Model.Timer
import Nice.Drv.Util
namespace Nice.Drv
open Nice.Timer

def retName : Ret → String
  | .success => "success" | .retransmit => "retransmit" | .timeout => "timeout"

/-- `timer start T N now` | `timer refresh now` | `timer rem now` -/
def timerStep (t : Timer) (ws : List String) : Timer × String :=
  match ws with
  | ["start", T, N, now] =>
    match T.toNat?, N.toNat?, now.toNat? with
    | some T, some N, some now =>
      let t' := start now (UInt32.ofNat T) (UInt32.ofNat N)
      (t', s!"ok delay {t'.delay} retrans {t'.retrans}")
    | _, _, _ => (t, "bad-op")
  | ["refresh", now] =>
    match now.toNat? with
    | some now => let (t', r) := refresh t now
                  (t', s!"{retName r} delay {t'.delay} retrans {t'.retrans}")
    | none => (t, "bad-op")
  | ["rem", now] =>
    match now.toNat? with
    | some now => (t, s!"rem {remainder t now}")
    | none => (t, "bad-op")
  | _ => (t, "bad-op")

end Nice.Drv
