/-
  Line-protocol sub-driver for the stream-socket layer models (same protocol as harness/sock_drv.c).

    sock base scripted|real          base used by the next `new` (real = tcp-bsd over a socketpair;
                                     same model, only the `base` field of the output differs)
    sock new turntcp <draft9|google|msn|oc2007|rfc5766>
    sock new http <userhex|-> <passhex|-> <v4|v6>
    sock new socks5 <userhex|-> <passhex|-> <v4|v6>
    sock new pseudossl <google|msoc>
    sock new rfc4571
    sock new tcpbsd <0|1>
    sock push <hex>        bytes arrive in the kernel buffer below the layer (no recv call)
    sock recv              ONE recv call (one message, one 65536-byte buffer)
    sock feed <hex>        push, then recv while the base is readable (bytes pending or wake-up
                           requested), stopping at the first error return
    sock eof               peer shuts the stream down
    sock send <hex>[,<hex>...]   /  sock sendr <hex>[,...]     one message made of these buffers
    sock wrote <n>[,<n>...]      bytes accepted by the next sendmsg calls (0 = EAGAIN)
    sock writable          the G_IO_OUT source of the tcp-bsd socket is dispatched
  Output: ret <r,...> up [<hex>,...] down [<hex>,...] state <...> base <ok|err|freed|real> pend <n>
-/
import Nice.Model.TurnTcp
import Nice.Model.Http
import Nice.Model.Socks5
import Nice.Model.PseudoSsl
import Nice.Model.Rfc4571
import Nice.Model.SendQueue
import Nice.Model.SockFeed
import Nice.Model.Turn
import Nice.Drv.Util
namespace Nice.Drv
open Nice.Sock

inductive SockLayer where
  | none
  | turntcp (s : Nice.TurnTcp.St)
  | http (s : Nice.Http.St)
  | socks5 (s : Nice.Socks5.St)
  | pssl (s : Nice.PseudoSsl.St)
  | rfc4571 (s : Nice.Rfc4571.St) (t : Nice.Rfc4571.SendSt)
  | tcpbsd (q : Nice.SendQueue.St) (k : Nice.SendQueue.Kernel)

structure SockSt where
  layer   : SockLayer := .none
  base    : Base := {}
  real    : Bool := false     -- this session's base is the real tcp-bsd socket
  useReal : Bool := false     -- `sock base real` seen
  rq      : Nice.SendQueue.St := {}       -- real base: the tcp-bsd send queue below the layer
  turn    : Option Nice.Turn.St := none
  rk      : Nice.SendQueue.Kernel := {}

private def hexL (bs : Bytes) : String := hexOf bs.toArray

private def joinC (xs : List String) : String := ",".intercalate xs

private def upStr (u : Up) : String :=
  match u.clob with
  | none => hexL u.data
  | some c => s!"{hexL u.data}/size={c.length}/{hexL c}"

private def b2n (b : Bool) : Nat := if b then 1 else 0

private def qStr (q : Nice.SendQueue.St) : String :=
  s!"q=[{joinC (q.queue.map hexL)}],err={b2n q.err},src={b2n q.src},wcb={q.wcb}"

private def stateStr : SockLayer → String
  | .none => "none"
  | .turntcp s => s!"exp={s.expecting},len={s.buf.length}" ++ (if s.fault then ",FAULT" else "")
  | .http s =>
    let nm := match s.state with
      | .init => "init" | .headers => "headers" | .body => "body" | .connected => "connected" | .error => "error"
    s!"{nm},cl={s.contentLength},pos={s.pos},fill={s.fill},cap={s.ring.size},q={s.queue.length}" ++
      (if s.fault then ",FAULT" else "")
  | .socks5 s =>
    let nm := match s.state with
      | .init => "init" | .auth => "auth" | .connect => "connect" | .connected => "connected" | .error => "error"
    s!"{nm},q={s.queue.length}"
  | .pssl s => s!"hs={b2n s.handshaken},q={s.queue.length}"
  | .rfc4571 s t =>
    s!"off={s.buf.length},fo={s.fo},fs={s.fs},cs={s.cs},wk={b2n s.wk}," ++ qStr t.q ++
      (if s.fault || t.fault then ",FAULT" else "")
  | .tcpbsd q _ => qStr q

private def isRealLayer : SockLayer → Bool
  | .rfc4571 .. | .tcpbsd .. => true
  | _ => false

private def line (st : SockSt) (rets : List Int) (ups : List Up) (down : List Bytes) : String :=
  let r := if rets.isEmpty then "-" else joinC (rets.map toString)
  let baseStr :=
    if isRealLayer st.layer || st.real then s!"real pend {if st.base.freed then 0 else st.base.pend.length}"
    else s!"{if st.base.freed then "freed" else if st.base.err then "err" else "ok"} pend {st.base.pend.length}"
  s!"ret {r} up [{joinC (ups.map upStr)}] down [{joinC (down.map hexL)}] state {stateStr st.layer} base {baseStr}"

/-- one receive call on the layer under test -/
def sockRecvOnce (st : SockSt) : Res × SockSt :=
  match st.layer with
  | .turntcp s => let (r, s, b) := Nice.TurnTcp.recv s st.base; (r, { st with layer := .turntcp s, base := b })
  | .http s => let (r, s, b) := Nice.Http.recv s st.base; (r, { st with layer := .http s, base := b })
  | .socks5 s => let (r, s, b) := Nice.Socks5.recv s st.base; (r, { st with layer := .socks5 s, base := b })
  | .pssl s => let (r, s, b) := Nice.PseudoSsl.recv s st.base; (r, { st with layer := .pssl s, base := b })
  | .rfc4571 s t =>
    let (r, s, b) := Nice.Rfc4571.recv (fun _ => false) { s with wk := false } st.base
    (r, { st with layer := .rfc4571 s t, base := b })
  | .tcpbsd q k =>
    -- plain tcp-bsd receive
    let ((ret, bytes), b) := st.base.read 65536
    ({ ret := ret, up := if ret ≥ 1 then [{ data := bytes }] else [] }, { st with layer := .tcpbsd q k, base := b })
  | .none => ({ ret := 0 }, st)

/-- the receive machines handed to `Nice.Sock.feed` -/
def turnTcpM : Machine Nice.TurnTcp.St := { recv := Nice.TurnTcp.recv }
/-- HTTP machine with an initial ring of `ringMin` bytes (the code's value is `RING_MIN` = 1024) -/
def httpM' (ringMin : Nat) : Machine Nice.Http.St := { recv := fun s b => Nice.Http.recv s b 65536 ringMin }
def httpM : Machine Nice.Http.St := httpM' Nice.Http.RING_MIN
def socks5M : Machine Nice.Socks5.St := { recv := fun s b => Nice.Socks5.recv s b }
def psslM : Machine Nice.PseudoSsl.St := { recv := fun s b => Nice.PseudoSsl.recv s b }
/-- component_source_prepare clears the wake-up flag before each dispatch -/
def rfc4571M (handled : Bytes → Bool) : Machine Nice.Rfc4571.St :=
  { recv := fun s b => Nice.Rfc4571.recv handled { s with wk := false } b,
    stop := fun r => r == Nice.Rfc4571.RECV_ERROR,
    wake := fun s => s.wk }
def tcpM : Machine Unit :=
  { recv := fun _ b => let ((ret, bytes), b) := b.read 65536
                       ({ ret := ret, up := if ret ≥ 1 then [{ data := bytes }] else [] }, (), b) }

/-- `sock feed`: returns the new state and what was observed -/
def sockFeed (st : SockSt) (chunk : Bytes) : SockSt × Obs :=
  match st.layer with
  | .turntcp s =>
    let (s, b, o) := feed turnTcpM (fun _ => 0) (s, st.base, {}) chunk
    ({ st with layer := .turntcp s, base := b }, o)
  | .http s =>
    let (s, b, o) := feed httpM (fun _ => 0) (s, st.base, {}) chunk
    ({ st with layer := .http s, base := b }, o)
  | .socks5 s =>
    let (s, b, o) := feed socks5M (fun _ => 0) (s, st.base, {}) chunk
    ({ st with layer := .socks5 s, base := b }, o)
  | .pssl s =>
    let (s, b, o) := feed psslM (fun _ => 0) (s, st.base, {}) chunk
    ({ st with layer := .pssl s, base := b }, o)
  | .rfc4571 s t =>
    let (s, b, o) := feed (rfc4571M (fun _ => false)) (fun s => s.buf.length) (s, st.base, {}) chunk
    ({ st with layer := .rfc4571 s t, base := b }, o)
  | .tcpbsd q k =>
    let (_, b, o) := feed tcpM (fun _ => 0) ((), st.base, {}) chunk
    ({ st with layer := .tcpbsd q k, base := b }, o)
  | .none => (st, {})

private def parseBufs (s : String) : Option (List Bytes) :=
  (s.splitOn ",").mapM (fun h => (parseHex h).map Array.toList)

private def optStr (s : String) : Option (Option Bytes) :=
  if s == "-" then some none
  else if s == "0" then some (some [])
  else (parseHex s).map (fun a => some a.toList)

private def newLayer (st : SockSt) (ws : List String) : Option (Res × SockSt) :=
  let fresh : SockSt := { useReal := st.useReal, real := st.useReal }
  match ws with
  | ["tcpbsd", r] =>
    if r == "0" || r == "1" then
      some ({ ret := 0 }, { fresh with real := false, layer := .tcpbsd { reliable := r == "1" } {} })
    else none
  | ["rfc4571"] => some ({ ret := 0 }, { fresh with real := false, layer := .rfc4571 {} {} })
  | ["turntcp", c] =>
    let c? : Option Nice.TurnTcp.Compat := match c with
      | "draft9" => some .draft9 | "google" => some .google | "msn" => some .msn
      | "oc2007" => some .oc2007 | "rfc5766" => some .rfc5766 | _ => none
    c?.map fun c => ({ ret := 0 }, { fresh with layer := .turntcp { compat := c } })
  | ["pseudossl", c] =>
    let c? : Option Nice.PseudoSsl.Compat := match c with
      | "google" => some .google | "msoc" => some .msoc | _ => none
    c?.map fun c => let (r, s) := Nice.PseudoSsl.new c fresh.base; (r, { fresh with layer := .pssl s })
  | [kind, u, p, fam] =>
    if (kind == "http" || kind == "socks5") && (fam == "v4" || fam == "v6") then
      match optStr u, optStr p with
      | some u, some p =>
        let v6 := fam == "v6"
        if kind == "http" then
          let (r, s) := Nice.Http.new (if v6 then "2001:db8::1" else "1.2.3.4") 5678 u p fresh.base
          some (r, { fresh with layer := .http s })
        else
          let addr : Bytes := if v6 then [0x20, 0x01, 0x0d, 0xb8, 0, 0, 0, 0, 0, 0, 0, 0, 0, 0, 0, 1] else [1, 2, 3, 4]
          let (r, s) := Nice.Socks5.new u p v6 addr 5678 fresh.base
          some (r, { fresh with layer := .socks5 s })
      | _, _ => none
    else none
  | _ => none

private def isNone : SockLayer → Bool
  | .none => true
  | _ => false

/-! ### `sock turn …` : TURN client socket (C16), see harness/sock_drv.c for the protocol -/

def turnPeers : List Nice.Turn.PeerAddr :=
  [{ ipv6 := false, addr := [10, 1, 1, 1], port := 1111 }, { ipv6 := false, addr := [10, 1, 1, 2], port := 2222 },
   { ipv6 := true, addr := [0x20, 0x01, 0x0d, 0xb8, 0, 0, 0, 0, 0, 0, 0, 0, 0, 0, 0, 2], port := 3333 },
   { ipv6 := false, addr := [10, 1, 1, 1], port := 1112 }]

private def hexN (n : Nat) : String := String.ofList (Nat.toDigits 16 n)

private def turnState (t : Nice.Turn.St) : String :=
  let ch := joinC (t.channels.map fun (p, c) => s!"{p}:{hexN c}")
  let cur := match t.cur with | some (p, c) => s!"{p}:{hexN c}" | none => "-"
  let q := joinC ((List.range 4).filterMap fun i =>
    match t.queues.find? (·.1 == i) with | some (_, l) => some s!"{i}:{l.length}" | none => none)
  s!"ch=[{ch}] cur={cur}/{b2n t.curMsg.isSome} pend=[{joinC (t.pendB.map toString)}] perm=[{joinC (t.perms.map toString)}] " ++
  s!"sent=[{joinC (t.sentPerms.map toString)}] pp={t.pendPerms.length} q=[{q}] frag=-1" ++ (if t.fault then " FAULT" else "")

private def downStr : Nice.Turn.Down → String
  | .raw b => hexL b
  | .cp seq peer auth => s!"CP({seq},{peer},{b2n auth})"
  | .cb seq chan peer auth => s!"CB({seq},{hexN chan},{peer},{b2n auth})"
  | .rcp seq => s!"RCP({seq})"
  | .rcb seq => s!"RCB({seq})"

private def turnLine (t : Nice.Turn.St) (o : Nice.Turn.Out) : String :=
  let up := joinC (o.up.map fun (src, d) => (match src with | some p => toString p | none => "s") ++ ":" ++ hexL d)
  s!"ret {o.ret} up [{up}] down [{joinC (o.down.map downStr)}] state {turnState t}"

/-- the relay datagrams the model covers: anything the STUN agent does not accept as a message
    (fewer than 20 bytes or first two bits not 00), and well-formed Data indications
    `0017 len cookie txid | 0012 XOR-PEER-ADDRESS | 0013 DATA` naming a peer of the table -/
private def classifyDgram (b : Bytes) : Option (Option (Nat × Bytes)) :=
  if b.length < 20 || (b.getD 0 0).toNat ≥ 0x40 then some none
  else (Nice.Turn.parseDataIndication turnPeers b).map some

def turnStep (st : SockSt) (ws : List String) : SockSt × String :=
  match ws with
  | ["new", c, rel] =>
    let c? : Option Nice.Turn.Compat := match c with | "draft9" => some .draft9 | "rfc5766" => some .rfc5766 | "google" => some .google | _ => none
    match c?, rel with
    | some c, "0" =>
      let t : Nice.Turn.St := { compat := c, peers := turnPeers }
      ({ useReal := false, turn := some t }, turnLine t { ret := 0 })
    | _, _ => ({}, "unmodelled")
  | _ =>
    match st.turn with
    | none => (st, "bad-op")
    | some t =>
      let fin (r : Nice.Turn.Out × Nice.Turn.St) : SockSt × String := ({ st with turn := some r.2 }, turnLine r.2 r.1)
      match ws with
      | [op, p, hs] =>
        match p.toNat?, op with
        | some pi, "send" | some pi, "sendr" =>
          if pi > 3 then (st, "bad-op") else
          match parseBufs hs with
          | some bufs => fin (Nice.Turn.send t pi bufs (op == "sendr"))
          | none => (st, "bad-op")
        | some pi, "from" =>
          if pi > 3 then (st, "bad-op") else
          match parseHex hs with
          | some b => fin (Nice.Turn.recvPlain t b.toList (some pi))
          | none => (st, "bad-op")
        | _, _ => (st, "bad-op")
      | ["advance", ms] =>
        match ms.toNat? with
        | some ms => fin (Nice.Turn.advance t ms)
        | none => (st, "bad-op")
      | ["setpeer", p] =>
        match p.toNat? with
        | some pi => if pi > 3 then (st, "bad-op") else fin (Nice.Turn.setPeer t pi)
        | none => (st, "bad-op")
      | ["dgram", h] =>
        match parseHex h with
        | some b =>
          -- GOOGLE: only datagrams the RFC 3489 agent cannot take for a message are covered
          if t.compat == .google && !(b.size < 20 || (b.getD 0 0).toNat ≥ 0x40) then (st, "unmodelled") else
          match classifyDgram b.toList with
          | some none => fin (Nice.Turn.recvPlain t b.toList none)
          | some (some (peer, data)) => fin (Nice.Turn.recvDataIndication t peer data)
          | none => (st, "unmodelled")
        | none => (st, "bad-op")
      | ["reply", m, seq, code] =>
        let c? : Option Nice.Turn.Code := match code with
          | "ok" => some .ok | "e400" => some .e400 | "e401" => some .e401 | "e438" => some .e438 | "e403" => some .e403 | _ => none
        match seq.toNat?, c? with
        | some seq, some c =>
          if t.compat == .google then (st, "bad-op")
          else if m == "cp" then
            if seq < t.cpReqs.length then fin (Nice.Turn.replyCp t seq c) else (st, "bad-op")
          else if m == "cb" then
            if seq < t.cbReqs.length then fin (Nice.Turn.replyCb t seq c) else (st, "bad-op")
          else (st, "bad-op")
        | _, _ => (st, "bad-op")
      | _ => (st, "bad-op")

def sockStep (st : SockSt) (ws : List String) : SockSt × String :=
  match ws with
  | "turn" :: rest => turnStep st rest
  | ["base", k] => ({ st with useReal := k == "real" }, "ok")
  | "new" :: rest =>
    match newLayer st rest with
    | some (r, st') => (st', line st' [0] r.up r.down)
    | none => ({ useReal := st.useReal }, "bad-op")
  | _ =>
    if isNone st.layer then (st, "bad-op") else
    match ws with
    | ["push", h] =>
      match parseHex h with
      | some bs => let st := { st with base := st.base.push bs.toList }; (st, line st [] [] [])
      | none => (st, "bad-op")
    | ["recv"] =>
      let (r, st) := sockRecvOnce st
      (st, line st [r.ret] r.up r.down)
    | ["feed", h] =>
      match parseHex h with
      | some bs =>
        let (st, o) := sockFeed st bs.toList
        (st, line st o.rets o.ups o.down)
      | none => (st, "bad-op")
    | ["eof"] => let st := { st with base := { st.base with eof := true } }; (st, line st [] [] [])
    | [op, hs] =>
      if op == "send" || op == "sendr" then
        match parseBufs hs with
        | none => (st, "bad-op")
        | some bufs =>
          let rel := op == "sendr"
          match st.layer with
          | .turntcp s =>
            if st.real then
              -- TURN framing handed to the real tcp-bsd socket (partial writes possible)
              let lbufs := Nice.TurnTcp.frame s.compat bufs
              let (r, q, k) := if rel then Nice.SendQueue.sendReliable st.rq st.rk lbufs
                               else Nice.SendQueue.send st.rq st.rk lbufs
              let st := { st with rq := q, rk := k }
              (st, line st [r.ret] [] r.down)
            else
              let r := Nice.TurnTcp.send s st.base bufs rel
              (st, line st [r.ret] [] r.down)
          | .http s =>
            let (r, s) := Nice.Http.send s st.base bufs rel
            let st := { st with layer := .http s }; (st, line st [r.ret] [] r.down)
          | .socks5 s =>
            let (r, s) := Nice.Socks5.send s st.base bufs rel
            let st := { st with layer := .socks5 s }; (st, line st [r.ret] [] r.down)
          | .pssl s =>
            let (r, s) := Nice.PseudoSsl.send s st.base bufs rel
            let st := { st with layer := .pssl s }; (st, line st [r.ret] [] r.down)
          | .rfc4571 s t =>
            let (r, t) := Nice.Rfc4571.send t bufs
            let st := { st with layer := .rfc4571 s t }; (st, line st [r.ret] [] r.down)
          | .tcpbsd q k =>
            let (r, q, k) := if rel then Nice.SendQueue.sendReliable q k bufs else Nice.SendQueue.send q k bufs
            let st := { st with layer := .tcpbsd q k }; (st, line st [r.ret] [] r.down)
          | .none => (st, "bad-op")
      else if op == "wrote" then
        let ns := (hs.splitOn ",").map (fun x => x.toNat?.getD 0)
        let st := match st.layer with
          | .tcpbsd q _ => { st with layer := .tcpbsd q { acc := ns } }
          | .rfc4571 s t => { st with layer := .rfc4571 s { t with k := { acc := ns } } }
          | _ => { st with rk := { acc := ns } }
        (st, line st [] [] [])
      else (st, "bad-op")
    | ["writable"] =>
      match st.layer with
      | .tcpbsd q k =>
        let (r, q, k) := Nice.SendQueue.writable q k
        let st := { st with layer := .tcpbsd q k }; (st, line st [r.ret] [] r.down)
      | .rfc4571 s t =>
        let (r, q, k) := Nice.SendQueue.writable t.q t.k
        let st := { st with layer := .rfc4571 s { t with q := q, k := k } }; (st, line st [r.ret] [] r.down)
      | _ =>
        if st.real then
          let (r, q, k) := Nice.SendQueue.writable st.rq st.rk
          let st := { st with rq := q, rk := k }; (st, line st [r.ret] [] r.down)
        else (st, line st [0] [] [])
    | _ => (st, "bad-op")

end Nice.Drv
