import Nice.Model.CompState
import Nice.Drv.Util
namespace Nice.Drv
open Nice.CompState

/-- `cstate seq <init> <s1> <s2> …` : replay an ANNOUNCED state sequence through the choke-point
    model: every step must be a real change admitted by the whitelist.  → `ok <final>` | `bad <index>` -/
def cstateStep (ws : List String) : String :=
  match ws with
  | "seq" :: init :: rest =>
    match init.toNat? with
    | none => "bad-op"
    | some i =>
      let rec go (cur : Nat) (k : Nat) : List String → String
        | [] => s!"ok {cur}"
        | x :: xs =>
          match x.toNat? with
          | none => "bad-op"
          | some n =>
            match signal cur n with
            | (c, .announced _) => go c (k + 1) xs
            | _ => s!"bad {k}"
      go i 0 rest
  | _ => "bad-op"

end Nice.Drv
