import Nice.Model.Lifecycle
import Nice.Drv.Util
namespace Nice.Drv
open Nice.Lifecycle

/-- snapshot words as printed by harness/sim_drv.c print_res:
    `streams a b discovery .. refreshes 1 2! triggered .. checklists 1:3 pruning .. keepalive 0 .. next N`.
    A disposing refresh (`x!`) is read as `forgetting` while x is a live stream, as `removing` otherwise. -/
private def parseSnap (ws : List String) : Option Agent := do
  let keys := ["streams", "discovery", "refreshes", "triggered", "checklists", "pruning", "keepalive",
               "conncheck", "discoverytimer", "next", "unsched"]
  let rec go (ws : List String) (cur : String) (acc : List (String × List String)) : List (String × List String) :=
    match ws with
    | [] => acc
    | w :: rest =>
      if keys.contains w then go rest w (acc ++ [(w, [])])
      else go rest cur (acc.map fun (k, v) => if k == cur then (k, v ++ [w]) else (k, v))
  let d := go ws "" []
  let get (k : String) : List String := ((d.find? (·.1 == k)).map (·.2)).getD []
  let nats (k : String) : Option (List Nat) := (get k).mapM String.toNat?
  let streams ← nats "streams"
  let discovery ← nats "discovery"
  let triggered ← nats "triggered"
  let pruning ← nats "pruning"
  let refreshes ← (get "refreshes").mapM fun w =>
    if w.endsWith "!" then do
      let x ← (w.dropEnd 1).toString.toNat?
      pure (⟨x, if streams.contains x then .forgetting else .removing⟩ : Refresh)
    else do
      let x ← w.toNat?
      pure (⟨x, .live⟩ : Refresh)
  let checkLists ← (get "checklists").mapM fun w =>
    match w.splitOn ":" with
    | [a, b] => do pure ((← a.toNat?), (← b.toNat?))
    | _ => none
  let ka ← (get "keepalive").head? >>= String.toNat?
  let next ← (get "next").head? >>= String.toNat?
  let dt ← (get "discoverytimer").head? >>= String.toNat?
  let us ← (get "unsched").head? >>= String.toNat?
  pure { streams, discovery, refreshes, triggered, checkLists, pruning, keepalive := ka != 0, nextId := next,
         unsched := us, discTimer := dt != 0 }

private def showSnap (a : Agent) : String :=
  let l (xs : List Nat) := String.join (xs.map fun x => s!" {x}")
  s!"streams{l a.streams} discovery{l a.discovery} refreshes" ++
  String.join (a.refreshes.map fun r => s!" {r.sid}" ++ (if r.st == .live then "" else "!")) ++
  s!" triggered{l a.triggered} checklists" ++ String.join (a.checkLists.map fun p => s!" {p.1}:{p.2}") ++
  s!" pruning{l a.pruning} keepalive {if a.keepalive then 1 else 0} discoverytimer {if a.discTimer then 1 else 0}" ++
  s!" next {a.nextId} unsched {a.unsched}"

/-- `lc rm <sid> <snapshot>` → snapshot after nice_agent_remove_stream ;
    `lc add <snapshot>` → `id <n> <snapshot>` ; `lc wf <snapshot>` → `wf 1|0` ; `lc mentions <sid> <snapshot>` -/
def lcStep (ws : List String) : String :=
  match ws with
  | "rm" :: sid :: snap =>
    match sid.toNat?, parseSnap snap with
    | some sid, some a => showSnap (removeStream a sid)
    | _, _ => "bad-op"
  | "add" :: snap =>
    match parseSnap snap with
    | some a => let (b, id) := addStream a; s!"id {id} {showSnap b}"
    | none => "bad-op"
  | "wf" :: snap =>
    match parseSnap snap with
    | some a => s!"wf {if wfb a then 1 else 0}"
    | none => "bad-op"
  | "mentions" :: sid :: snap =>
    match sid.toNat?, parseSnap snap with
    | some sid, some a => s!"mentions {if mentions a sid then 1 else 0}"
    | _, _ => "bad-op"
  | _ => "bad-op"

end Nice.Drv
