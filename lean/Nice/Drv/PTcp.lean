/-
  Line-protocol sub-driver for the pseudo-TCP model (`Nice.PTcp`).  The C side is harness/ptcp_drv.c.

  Two sockets, named `l` and `r`.  `<s>` below is `l` or `r`.

    ptcp new <s> <conv> finack=<0|1> rcvbuf=<n> sndbuf=<n> nodelay=<0|1> ackdelay=<n>
                                   g_object_new (conversation, callbacks, support-fin-ack), then
                                   g_object_set rcv-buf, snd-buf, no-delay, ack-delay (in this order)
                                   and set_time (current clock).  1 <= rcvbuf, sndbuf <= 4194304.
    ptcp t <ms>                    clock := ms for the process (interposed monotonic clock) and
                                   pseudo_tcp_socket_set_time (ms) on both sockets      -> `ok`
    ptcp connect <s>               pseudo_tcp_socket_connect            ret = gboolean
    ptcp send <s> <hex>            pseudo_tcp_socket_send               ret = gint
    ptcp sendp <s> <n> <k>         send of n pattern bytes b[j] = (k + 131 j + 7 (j / 256)) mod 256
    ptcp recv <s> <n>              pseudo_tcp_socket_recv into an n-byte buffer; x = bytes read
    ptcp pkt <s> <hex>             pseudo_tcp_socket_notify_packet      ret = gboolean
    ptcp pktz <s> <hex> <n>        notify_packet of the given bytes followed by n zero bytes (n <= 70000)
    ptcp clock <s>                 pseudo_tcp_socket_notify_clock
    ptcp next <s> [<t0>]           pseudo_tcp_socket_get_next_clock with *timeout = t0 (default 0);
                                   ret = gboolean, x = *timeout afterwards
    ptcp shut <s> rd|wr|rdwr       pseudo_tcp_socket_shutdown
    ptcp close <s> <0|1>           pseudo_tcp_socket_close (force)
    ptcp mtu <s> <n>               pseudo_tcp_socket_notify_mtu, 296 <= n <= 65535
    ptcp wres <s> ok|toolarge|fail value the WritePacket callback returns from now on
    ptcp q <s>                     x = closed=<is_closed>,rclosed=<is_closed_remotely>,
                                       avail=<get_available_bytes>,space=<get_available_send_space>,
                                       cansend=<can_send>      (called in this order)

  Every socket op answers ONE line:
    ret=<n> x=<extra|-> err=<errno name|0> ev=[<events in call order>] st=<STATE> <private fields>
  events: `p:<hex>` (WritePacket), `opened`, `readable`, `writable`, `closed:<errno name>`.
  The private fields are every scalar of PseudoTcpSocketPrivate plus the three lists, so model and
  implementation are compared on their whole state after every operation.
  A model fault prints `fault <kind>:<site>`; afterwards the socket answers `dead`.
  Anything else -> `bad-op`.
-/
import Nice.Model.PTcp
import Nice.Drv.Util
namespace Nice.Drv.PTcpD
open Nice.PTcp Nice.Drv

inductive Slot where
  | empty
  | live (s : Sock)
  | dead

structure PTcpSt where
  l : Slot := .empty
  r : Slot := .empty
  clk : UInt32 := 0

def errName : Err → String
  | .none => "0" | .EINVAL => "EINVAL" | .EMSGSIZE => "EMSGSIZE" | .ENOTCONN => "ENOTCONN"
  | .EWOULDBLOCK => "EWOULDBLOCK" | .EPIPE => "EPIPE" | .ECONNABORTED => "ECONNABORTED"
  | .ECONNRESET => "ECONNRESET" | .ETIMEDOUT => "ETIMEDOUT"

def stateName : TcpState → String
  | .listen => "LISTEN" | .synSent => "SYN-SENT" | .synReceived => "SYN-RECEIVED"
  | .established => "ESTABLISHED" | .closed => "CLOSED" | .finWait1 => "FIN-WAIT-1"
  | .finWait2 => "FIN-WAIT-2" | .closing => "CLOSING" | .timeWait => "TIME-WAIT"
  | .closeWait => "CLOSE-WAIT" | .lastAck => "LAST-ACK"

def faultName : Fault → String
  | .assert s => s!"fault assert:{s}" | .ub s => s!"fault ub:{s}"
  | .oob s => s!"fault oob:{s}" | .loop s => s!"fault loop:{s}"

def evName : Event → String
  | .packet b => "p:" ++ hexOf b
  | .opened => "opened" | .readable => "readable" | .writable => "writable"
  | .closed e => "closed:" ++ errName e

def b01 (b : Bool) : String := if b then "1" else "0"

def ssegStr (g : SSeg) : String := s!"{g.seq}+{g.len}x{g.xmit}f{g.flags}{if g.unsent then "u" else ""}"
def rsegStr (g : RSeg) : String := s!"{g.seq}+{g.len}"

def dump (s : Sock) : String :=
  let sd := match s.shutdown with | .none => 0 | .graceful => 1 | .forceful => 2
  s!"una={s.snd_una} nxt={s.snd_nxt} rnxt={s.rcv_nxt} rwnd={s.rcv_wnd} swnd={s.snd_wnd} " ++
  s!"cwnd={s.cwnd} ssth={s.ssthresh} rto={s.rx_rto} base={s.rto_base} tack={s.t_ack} mss={s.mss} " ++
  s!"lvl={s.msslevel} mtu={s.mtu_advise} larg={s.largest} dup={s.dup_acks} rec={s.recover} " ++
  s!"fr={b01 s.fast_recovery} srtt={s.rx_srtt} var={s.rx_rttvar} tsr={s.ts_recent} tsl={s.ts_lastack} " ++
  s!"lats={s.last_acked_ts} lsnd={s.lastsend} lrcv={s.lastrecv} ltr={s.last_traffic} rfin={s.rcv_fin} " ++
  s!"sws={s.swnd_scale} rws={s.rwnd_scale} rbl={s.rbuf_len} sbl={s.sbuf_len} " ++
  s!"rb={s.rbuf.data}@{s.rbuf.rpos}/{s.rbuf.cap} sb={s.sbuf.data}@{s.sbuf.rpos}/{s.sbuf.cap} " ++
  s!"fa={b01 s.support_fin_ack} sd={sd} sr={b01 s.shutdown_reads} re={b01 s.bReadEnable} " ++
  s!"we={b01 s.bWriteEnable} og={b01 s.bOutgoing} ng={b01 s.use_nagling} ad={s.ack_delay} " ++
  s!"sl=[{" ".intercalate (s.slist.map ssegStr)}] rl=[{" ".intercalate (s.rlist.map rsegStr)}]"

def reply (ret : Int) (x : String) (s : Sock) : String :=
  s!"ret={ret} x={x} err={errName s.error} ev=[{" ".intercalate (s.out.toList.map evName)}] " ++
  s!"st={stateName s.state} {dump s}"

def kv? (w key : String) : Option Nat :=
  if w.startsWith (key ++ "=") then (w.drop (key.length + 1)).toNat? else none

def patBytes (n k : Nat) : Array UInt8 :=
  (Array.range n).map fun j => UInt8.ofNat ((k + 131 * j + 7 * (j / 256)) % 256)

def getSlot (st : PTcpSt) (n : String) : Option Slot :=
  if n == "l" then some st.l else if n == "r" then some st.r else none

def setSlot (st : PTcpSt) (n : String) (v : Slot) : PTcpSt :=
  if n == "l" then { st with l := v } else { st with r := v }

/-- run an operation on a live socket: clears the event list first; a fault kills the socket -/
def onSock (st : PTcpSt) (n : String) (f : Sock → R (Int × String × Sock)) : PTcpSt × String :=
  match getSlot st n with
  | none | some .empty => (st, "bad-op")
  | some .dead => (st, "dead")
  | some (.live s) =>
    -- drop our reference to the old socket so that the buffers are updated in place
    let st := setSlot st n .dead
    match f { s with out := #[] } with
    | .ok (ret, x, s') => (setSlot st n (.live s'), reply ret x s')
    | .error e => (st, faultName e)

def ptcpNew (st : PTcpSt) (n : String) (conv finack rcvbuf sndbuf nodelay ackdelay : Nat) : PTcpSt × String :=
  if (n != "l" && n != "r") || conv ≥ 2 ^ 32 || finack > 1 || nodelay > 1 || ackdelay ≥ 2 ^ 32 ||
     rcvbuf < 1 || rcvbuf > 4194304 || sndbuf < 1 || sndbuf > 4194304 then (st, "bad-op")
  else
    let s := { Sock.init (UInt32.ofNat conv) with support_fin_ack := finack == 1 }
    let r : R Sock := do
      let s ← setRcvBuf s (UInt32.ofNat rcvbuf)
      let s ← setSndBuf s (UInt32.ofNat sndbuf)
      let s := { s with use_nagling := nodelay == 0, ack_delay := UInt32.ofNat ackdelay }
      pure (setTime s st.clk)
    match r with
    | .ok s => (setSlot st n (.live s), reply 0 "-" s)
    | .error e => (setSlot st n .dead, faultName e)

def ptcpStep (st : PTcpSt) (ws : List String) : PTcpSt × String :=
  let clk := st.clk
  match ws with
  | ["new", n, conv, fa, rb, sb, nd, ad] =>
    match conv.toNat?, kv? fa "finack", kv? rb "rcvbuf", kv? sb "sndbuf", kv? nd "nodelay", kv? ad "ackdelay" with
    | some conv, some fa, some rb, some sb, some nd, some ad => ptcpNew st n conv fa rb sb nd ad
    | _, _, _, _, _, _ => (st, "bad-op")
  | ["t", ms] =>
    match ms.toNat? with
    | some ms =>
      if ms ≥ 2 ^ 32 then (st, "bad-op") else
      let t := UInt32.ofNat ms
      let upd : Slot → Slot
        | .live s => .live (setTime s t)
        | x => x
      ({ l := upd st.l, r := upd st.r, clk := t }, "ok")
    | none => (st, "bad-op")
  | ["connect", n] =>
    onSock st n fun s => do let (b, s) ← connect s clk; pure (if b then 1 else 0, "-", s)
  | ["send", n, hex] =>
    match parseHex hex with
    | some d => onSock st n fun s => do let (r, s) ← send s d clk; pure (r, "-", s)
    | none => (st, "bad-op")
  | ["sendp", n, cnt, k] =>
    match cnt.toNat?, k.toNat? with
    | some cnt, some k =>
      if cnt > 1048576 then (st, "bad-op") else
      onSock st n fun s => do let (r, s) ← send s (patBytes cnt k) clk; pure (r, "-", s)
    | _, _ => (st, "bad-op")
  | ["recv", n, cnt] =>
    match cnt.toNat? with
    | some cnt =>
      if cnt > 1048576 then (st, "bad-op") else
      onSock st n fun s => do let (r, d, s) ← recv s cnt clk; pure (r, hexOf d, s)
    | none => (st, "bad-op")
  | ["pkt", n, hex] =>
    match parseHex hex with
    | some d => onSock st n fun s => do let (b, s) ← notifyPacket s d clk; pure (if b then 1 else 0, "-", s)
    | none => (st, "bad-op")
  | ["pktm", n, hex] =>      -- pseudo_tcp_socket_notify_message (header buffer + body buffer): same parse as `pkt`
    match parseHex hex with
    | some d => onSock st n fun s => do let (b, s) ← notifyMessage s d clk; pure (if b then 1 else 0, "-", s)
    | none => (st, "bad-op")
  | ["pktz", n, hex, z] =>
    match parseHex hex, z.toNat? with
    | some d, some z =>
      if z > 70000 then (st, "bad-op") else
      onSock st n fun s => do
        let (b, s) ← notifyPacket s (d ++ Array.replicate z 0) clk; pure (if b then 1 else 0, "-", s)
    | _, _ => (st, "bad-op")
  | ["clock", n] => onSock st n fun s => do let s ← notifyClock s clk; pure (0, "-", s)
  | ["next", n] =>
    onSock st n fun s => do
      let (b, t, s) ← getNextClock s 0 clk; pure (if b then 1 else 0, toString t, s)
  | ["next", n, t0] =>
    match t0.toNat? with
    | some t0 =>
      if t0 ≥ 2 ^ 64 then (st, "bad-op") else
      onSock st n fun s => do
        let (b, t, s) ← getNextClock s (UInt64.ofNat t0) clk; pure (if b then 1 else 0, toString t, s)
    | none => (st, "bad-op")
  | ["shut", n, how] =>
    let h : Option ShutdownHow :=
      if how == "rd" then some .rd else if how == "wr" then some .wr else if how == "rdwr" then some .rdwr else none
    match h with
    | some h => onSock st n fun s => do let s ← shutdown s h clk; pure (0, "-", s)
    | none => (st, "bad-op")
  | ["close", n, f] =>
    if f != "0" && f != "1" then (st, "bad-op") else
    onSock st n fun s => do let s ← close s (f == "1") clk; pure (0, "-", s)
  | ["mtu", n, m] =>
    match m.toNat? with
    | some m =>
      if m < 296 || m > 65535 then (st, "bad-op") else
      onSock st n fun s => do let s ← notifyMtu s (UInt16.ofNat m); pure (0, "-", s)
    | none => (st, "bad-op")
  | ["wres", n, w] =>
    let r : Option WriteResult :=
      if w == "ok" then some .success else if w == "toolarge" then some .tooLarge
      else if w == "fail" then some .fail else none
    match r with
    | some r => onSock st n fun s => pure (0, "-", { s with wres := r })
    | none => (st, "bad-op")
  | ["q", n] =>
    onSock st n fun s =>
      let c := isClosed s
      let rc := isClosedRemotely s
      let av := getAvailableBytes s
      let (sp, s) := getAvailableSendSpace s
      let (cs, s) := canSend s
      pure (0, s!"closed={b01 c},rclosed={b01 rc},avail={av},space={sp},cansend={b01 cs}", s)
  | _ => (st, "bad-op")

end Nice.Drv.PTcpD

namespace Nice.Drv
abbrev PTcpSt := PTcpD.PTcpSt
def ptcpStep : PTcpSt → List String → PTcpSt × String := PTcpD.ptcpStep
end Nice.Drv
