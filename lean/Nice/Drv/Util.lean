/- shared helpers for the line-protocol drivers (core Lean only) -/
namespace Nice.Drv

def hexDigit (c : Char) : Option Nat :=
  if '0' ≤ c ∧ c ≤ '9' then some (c.toNat - '0'.toNat)
  else if 'a' ≤ c ∧ c ≤ 'f' then some (c.toNat - 'a'.toNat + 10)
  else if 'A' ≤ c ∧ c ≤ 'F' then some (c.toNat - 'A'.toNat + 10)
  else none

/-- "-" is the empty byte string -/
def parseHex (s : String) : Option (Array UInt8) :=
  if s == "-" then some #[] else
  let rec go : List Char → Array UInt8 → Option (Array UInt8)
    | [], acc => some acc
    | [_], _ => none
    | a :: b :: rest, acc =>
      match hexDigit a, hexDigit b with
      | some x, some y => go rest (acc.push (UInt8.ofNat (x * 16 + y)))
      | _, _ => none
  go s.toList #[]

def hexOf (bs : Array UInt8) : String :=
  if bs.isEmpty then "-" else
  let d (n : Nat) : Char := if n < 10 then Char.ofNat (48 + n) else Char.ofNat (87 + n)
  String.ofList (bs.toList.flatMap fun b => [d (b.toNat / 16), d (b.toNat % 16)])

def words (line : String) : List String :=
  (line.trimAscii.toString.splitOn " ").filter (· ≠ "")

end Nice.Drv
