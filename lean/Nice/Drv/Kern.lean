import Nice.Gen.Kernels
import Nice.Drv.Util
namespace Nice.Drv
open Nice.Gen

private def nat (s : String) : Nat := s.toNat?.getD 0
private def u32 (s : String) : UInt32 := UInt32.ofNat (nat s)
private def ptrOf (bs : Array UInt8) : Nat → UInt8 := fun i => bs.getD i 0

/-- `k <kernel> args…` : run a *translated* kernel (tools/extract.py output) -/
def kernStep (ws : List String) : String :=
  match ws with
  | ["ice_priority_full", a, b, c] => toString (nice_candidate_ice_priority_full (u32 a) (u32 b) (u32 c))
  | ["ice_local_preference_full", a, b, c] =>
      if nice_candidate_ice_local_preference_full_pre (u32 a) (u32 b) (u32 c)
      then toString (nice_candidate_ice_local_preference_full (u32 a) (u32 b) (u32 c)) else "assert"
  | ["ms_ice_local_preference_full", a, b, c, d] =>
      if nice_candidate_ms_ice_local_preference_full_pre (u32 a) (u32 b) (u32 c) (u32 d)
      then toString (nice_candidate_ms_ice_local_preference_full (u32 a) (u32 b) (u32 c) (u32 d)) else "assert"
  | ["pair_priority", a, b] => toString (nice_candidate_pair_priority (u32 a) (u32 b))
  | ["ipv4_private", a] => toString (if ipv4_address_is_private (u32 a) != 0 then 1 else 0)
  | ["ipv4_linklocal", a] => toString (if ipv4_address_is_linklocal (u32 a) != 0 then 1 else 0)
  | ["ipv6_private", h] =>
      match parseHex h with
      | some bs => if bs.size == 16 then toString (if ipv6_address_is_private (ptrOf bs) != 0 then 1 else 0) else "bad-op"
      | none => "bad-op"
  | ["ipv6_linklocal", h] =>
      match parseHex h with
      | some bs => if bs.size == 16 then toString (if ipv6_address_is_linklocal (ptrOf bs) != 0 then 1 else 0) else "bad-op"
      | none => "bad-op"
  | ["stun_padding", a] => toString (stun_padding (UInt64.ofNat (nat a)))
  | ["stun_align", a] => toString (stun_align (UInt64.ofNat (nat a)))
  | ["stun_getw", a, b] => toString (stun_getw (ptrOf #[UInt8.ofNat (nat a), UInt8.ofNat (nat b)]))
  | ["stun_optional", a] => toString (if stun_optional (UInt16.ofNat (nat a)) != 0 then 1 else 0)
  | ["stun_class", a, b] => toString (stun_message_get_class (ptrOf #[UInt8.ofNat (nat a), UInt8.ofNat (nat b)]))
  | ["stun_method", a, b] => toString (stun_message_get_method (ptrOf #[UInt8.ofNat (nat a), UInt8.ofNat (nat b)]))
  | ["time_diff", a, b] => toString (time_diff (u32 a) (u32 b)).toInt
  | ["time_is_between", a, b, c] => toString (if time_is_between (u32 a) (u32 b) (u32 c) != 0 then 1 else 0)
  | ["bound", a, b, c] => toString (bound (u32 a) (u32 b) (u32 c))
  | ["larger", a, b] => toString (if ptcp_larger (u32 a) (u32 b) != 0 then 1 else 0)
  | ["larger_eq", a, b] => toString (if ptcp_larger_or_equal (u32 a) (u32 b) != 0 then 1 else 0)
  | ["smaller", a, b] => toString (if ptcp_smaller (u32 a) (u32 b) != 0 then 1 else 0)
  | ["smaller_eq", a, b] => toString (if ptcp_smaller_or_equal (u32 a) (u32 b) != 0 then 1 else 0)
  | _ => "bad-op"

end Nice.Drv
