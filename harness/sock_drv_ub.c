/* same driver, built WITH -fsanitize=alignment (see checks/C17.py EXTRA_UB): used only for the
 * recorded misaligned-load witness corpus/C17/abort/rfc4571_misaligned.ops */
#include "sock_drv.c"
