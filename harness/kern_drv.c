/* kernels + STUN timer: differential driver for the *translated* kernels (validates
 * tools/extract.py) and for the hand-written Timer model. */
#include "common.h"
#include <glib.h>
#include <arpa/inet.h>
/* static functions are reached by including the source files; the harness is linked with
 * --allow-multiple-definition so these copies win over the ones in the static libraries */
#include "agent/candidate.c"
#include "agent/address.c"
#define DEBUG(...) do {} while (0)
#include "stun/usages/timer.h"
#include "stun/utils.h"
#include "stun/stunmessage.h"

/* pseudotcp.c statics: copied by the build script into ptcp_statics.inc from the current source */
#include "ptcp_statics.inc"

/* scripted local address list: 10.0.0.0 .. 10.0.0.63 (index = ip preference) */
GList *nice_interfaces_get_local_ips (gboolean include_loopback)
{
  GList *l = NULL; int i;
  for (i = 63; i >= 0; i--) l = g_list_prepend (l, g_strdup_printf ("10.0.0.%d", i));
  return l;
}
#include "agent/conncheck.h"
#include "agent/agent-priv.h"

static void plist_free (GSList **l) { g_slist_free_full (*l, g_free); *l = NULL; }

int main (void)
{
  GSList *plist = NULL; int controlling = 1;
  char line[1 << 16];
  char *w[MAXW];
  StunTimer timer;
  memset (&timer, 0, sizeof timer);
  setvbuf (stdout, NULL, _IOFBF, 1 << 16);
  while (fgets (line, sizeof line, stdin)) {
    int n;
    if (line[0] == '#' || line[0] == '\n') continue;
    n = split_words (line, w);
    if (n == 0) continue;
    if (!strcmp (w[0], "reset")) { memset (&timer, 0, sizeof timer); plist_free (&plist); controlling = 1; puts ("reset"); }
    else if (!strcmp (w[0], "prio") && n == 10) {
      /* prio ice|msice <type> <transport> <component> <turnIsUdp> <turnPref> <ipIndex> <reliable> <nat> */
      NiceCandidate *c = nice_candidate_new (atoi (w[2]));
      NiceCandidateImpl *ci = (NiceCandidateImpl *) c;
      TurnServer turn; char ip[32]; guint32 pr;
      memset (&turn, 0, sizeof turn);
      c->transport = atoi (w[3]);
      c->component_id = strtoul (w[4], NULL, 10);
      turn.type = atoi (w[5]) ? NICE_RELAY_TYPE_TURN_UDP : NICE_RELAY_TYPE_TURN_TCP;
      turn.preference = strtoul (w[6], NULL, 10);
      if (c->type == NICE_CANDIDATE_TYPE_RELAYED) ci->turn = &turn;
      g_snprintf (ip, sizeof ip, "10.0.0.%d", atoi (w[7]));
      nice_address_set_from_string (&c->addr, ip);
      nice_address_set_from_string (&c->base_addr, ip);
      pr = !strcmp (w[1], "ice") ? nice_candidate_ice_priority (c, atoi (w[8]), atoi (w[9]))
                                 : nice_candidate_ms_ice_priority (c, atoi (w[8]), atoi (w[9]));
      printf ("%u\n", pr);
      ci->turn = NULL;
      nice_candidate_free (c);
    }
    else if (!strcmp (w[0], "copy") && n >= 3) {
      /* real scatter/gather helpers of agent.c on exactly-sized heap blocks */
      if (!strcmp (w[1], "compact") && n == 4) {
        GInputVector v[32]; int nv = 0, k; char *tok, *save = NULL; gsize out_len = 0; guint8 *out;
        NiceInputMessage m; size_t want = strtoul (w[3], NULL, 10);
        for (tok = strtok_r (w[2], ",", &save); tok && nv < 32; tok = strtok_r (NULL, ",", &save)) {
          uint8_t *b; long l = parse_hex (tok, &b); if (l < 0) break;
          v[nv].buffer = b; v[nv].size = l; nv++;
        }
        memset (&m, 0, sizeof m); m.buffers = v; m.n_buffers = nv; m.length = want;
        out = compact_input_message (&m, &out_len);
        { size_t tot = 0; for (k = 0; k < nv; k++) tot += v[k].size; print_hex (out, out_len < tot ? out_len : tot); puts (""); }
        g_free (out);
        for (k = 0; k < nv; k++) free (v[k].buffer);
      } else if (!strcmp (w[1], "scatter") && n == 4) {
        GInputVector v[32]; int nv = 0, k; char *tok, *save = NULL; NiceInputMessage m; uint8_t *d; long dl; gssize r;
        for (tok = strtok_r (w[2], ",", &save); tok && nv < 32; tok = strtok_r (NULL, ",", &save)) {
          v[nv].size = strtoul (tok, NULL, 10); v[nv].buffer = malloc (v[nv].size ? v[nv].size : 1);
          if (!v[nv].size) { free (v[nv].buffer); v[nv].buffer = malloc (0); }
          nv++;
        }
        dl = parse_hex (w[3], &d);
        memset (&m, 0, sizeof m); m.buffers = v; m.n_buffers = nv;
        r = memcpy_buffer_to_input_message (&m, d, dl);
        printf ("len %zd bufs ", r);
        { size_t left = r; int first = 1;
          for (k = 0; k < nv && left > 0; k++) {
            size_t take = v[k].size < left ? v[k].size : left;
            if (take == 0) continue;          /* canonical form: non-empty pieces only */
            if (!first) putchar (','); first = 0;
            print_hex (v[k].buffer, take); left -= take;
          } }
        puts ("");
        free (d); for (k = 0; k < nv; k++) free (v[k].buffer);
      } else puts ("bad-op");
    }
    else if (!strcmp (w[0], "plist") && n >= 2) {
      GSList *i;
      if (!strcmp (w[1], "add") && n == 4) {
        CandidateCheckPair *p = g_new0 (CandidateCheckPair, 1);
        guint32 lp = strtoul (w[2], NULL, 10), rp = strtoul (w[3], NULL, 10);
        /* local/remote priorities are kept in two otherwise unused integer fields */
        p->stream_id = lp; p->component_id = rp;
        p->priority = controlling ? nice_candidate_pair_priority (lp, rp) : nice_candidate_pair_priority (rp, lp);
        plist = g_slist_insert_sorted (plist, p, (GCompareFunc) conn_check_compare);
      } else if (!strcmp (w[1], "switch")) {
        controlling = !controlling;
        for (i = plist; i; i = i->next) {
          CandidateCheckPair *p = i->data;
          p->priority = controlling ? nice_candidate_pair_priority (p->stream_id, p->component_id)
                                    : nice_candidate_pair_priority (p->component_id, p->stream_id);
        }
        plist = g_slist_sort (plist, (GCompareFunc) conn_check_compare);
      } else { puts ("bad-op"); continue; }
      printf ("list");
      for (i = plist; i; i = i->next) {
        CandidateCheckPair *p = i->data;
        printf (" %u:%u:%llu", p->stream_id, p->component_id, (unsigned long long) p->priority);
      }
      printf ("\n");
    }
    else if (!strcmp (w[0], "timer") && n >= 3) {
      if (!strcmp (w[1], "start") && n == 5) {
        verif_now_us = strtoull (w[4], NULL, 10);
        stun_timer_start (&timer, strtoul (w[2], NULL, 10), strtoul (w[3], NULL, 10));
        printf ("ok delay %u retrans %u\n", timer.delay, timer.retransmissions);
      } else if (!strcmp (w[1], "refresh") && n == 3) {
        StunUsageTimerReturn r;
        verif_now_us = strtoull (w[2], NULL, 10);
        r = stun_timer_refresh (&timer);
        printf ("%s delay %u retrans %u\n",
            r == STUN_USAGE_TIMER_RETURN_SUCCESS ? "success" :
            r == STUN_USAGE_TIMER_RETURN_RETRANSMIT ? "retransmit" : "timeout",
            timer.delay, timer.retransmissions);
      } else if (!strcmp (w[1], "rem") && n == 3) {
        verif_now_us = strtoull (w[2], NULL, 10);
        printf ("rem %u\n", stun_timer_remainder (&timer));
      } else puts ("bad-op");
    } else if (!strcmp (w[0], "k") && n >= 2) {
      unsigned long long a[6] = {0};
      int i;
      for (i = 2; i < n && i < 8; i++) a[i - 2] = strtoull (w[i], NULL, 10);
      if (!strcmp (w[1], "ice_priority_full"))
        printf ("%u\n", nice_candidate_ice_priority_full (a[0], a[1], a[2]));
      else if (!strcmp (w[1], "ice_local_preference_full"))
        printf ("%u\n", (unsigned) nice_candidate_ice_local_preference_full (a[0], a[1], a[2]));
      else if (!strcmp (w[1], "ms_ice_local_preference_full"))
        printf ("%u\n", (unsigned) nice_candidate_ms_ice_local_preference_full (a[0], a[1], a[2], a[3]));
      else if (!strcmp (w[1], "pair_priority"))
        printf ("%llu\n", (unsigned long long) nice_candidate_pair_priority (a[0], a[1]));
      else if (!strcmp (w[1], "ipv4_private"))
        printf ("%d\n", ipv4_address_is_private ((guint32) a[0]) ? 1 : 0);
      else if (!strcmp (w[1], "ipv4_linklocal"))
        printf ("%d\n", ipv4_address_is_linklocal ((guint32) a[0]) ? 1 : 0);
      else if (!strcmp (w[1], "ipv6_private") || !strcmp (w[1], "ipv6_linklocal")) {
        uint8_t *b; long l = parse_hex (w[2], &b);
        if (l != 16) puts ("bad-op");
        else printf ("%d\n", (!strcmp (w[1], "ipv6_private") ? ipv6_address_is_private (b)
                                                            : ipv6_address_is_linklocal (b)) ? 1 : 0);
        free (b);
      }
      else if (!strcmp (w[1], "stun_padding")) printf ("%zu\n", stun_padding (a[0]));
      else if (!strcmp (w[1], "stun_align")) printf ("%zu\n", stun_align (a[0]));
      else if (!strcmp (w[1], "stun_getw")) { uint8_t b[2] = { a[0], a[1] }; printf ("%u\n", stun_getw (b)); }
      else if (!strcmp (w[1], "stun_optional")) printf ("%d\n", stun_optional ((uint16_t) a[0]) ? 1 : 0);
      else if (!strcmp (w[1], "stun_class") || !strcmp (w[1], "stun_method")) {
        uint8_t b[20] = { a[0], a[1] }; StunMessage m; memset (&m, 0, sizeof m);
        m.buffer = b; m.buffer_len = 20;
        printf ("%u\n", !strcmp (w[1], "stun_class") ? (unsigned) stun_message_get_class (&m)
                                                     : (unsigned) stun_message_get_method (&m));
      }
      else if (!strcmp (w[1], "time_diff")) printf ("%d\n", (int) time_diff (a[0], a[1]));
      else if (!strcmp (w[1], "time_is_between")) printf ("%d\n", time_is_between (a[0], a[1], a[2]) ? 1 : 0);
      else if (!strcmp (w[1], "bound")) printf ("%u\n", bound (a[0], a[1], a[2]));
      else if (!strcmp (w[1], "larger")) printf ("%d\n", LARGER ((guint32) a[0], (guint32) a[1]) ? 1 : 0);
      else if (!strcmp (w[1], "larger_eq")) printf ("%d\n", LARGER_OR_EQUAL ((guint32) a[0], (guint32) a[1]) ? 1 : 0);
      else if (!strcmp (w[1], "smaller")) printf ("%d\n", SMALLER ((guint32) a[0], (guint32) a[1]) ? 1 : 0);
      else if (!strcmp (w[1], "smaller_eq")) printf ("%d\n", SMALLER_OR_EQUAL ((guint32) a[0], (guint32) a[1]) ? 1 : 0);
      else puts ("bad-op");
    } else puts ("bad-op");
  }
  return 0;
}
