/* C18: differential driver for agent/address.c (`addr …`) and the SDP text code of agent/agent.c
 * (`sdp …`) against the REAL libnice functions.  Lean side: lean/Nice/Drv/Addr.lean.
 * No network is used: candidates are injected directly, nothing is gathered. */
#include "common.h"
#include <errno.h>
#include <glib.h>
#include <glib-object.h>
#include <arpa/inet.h>
#include <netinet/in.h>
#include "agent.h"
#include "agent-priv.h"
#include "stream.h"
#include "component.h"
#include "candidate-priv.h"
#include "address.h"

static unsigned ncrit = 0;
static void log_handler (const gchar *dom, GLogLevelFlags lvl, const gchar *msg, gpointer u)
{
  (void) dom; (void) msg; (void) u;
  if (lvl & G_LOG_LEVEL_CRITICAL) ncrit++;
}
static void end_line (void) { if (ncrit) printf (" !%u", ncrit); putchar ('\n'); ncrit = 0; }

/* strict unsigned decimal, at most 20 digits */
static int num (const char *s, unsigned long long max, unsigned long long *out)
{
  size_t i, n = strlen (s);
  if (n == 0 || n > 20) return 0;
  for (i = 0; i < n; i++) if (s[i] < '0' || s[i] > '9') return 0;
  errno = 0;
  *out = strtoull (s, NULL, 10);
  if (errno) return 0;
  return *out <= max;
}

/* hex word -> freshly malloc'ed, exactly sized NUL-terminated C string (cut at the first NUL byte) */
static char *hex_cstr (const char *w)
{
  uint8_t *b; long n = parse_hex (w, &b), k; char *s;
  if (n < 0) return NULL;
  for (k = 0; k < n && b[k]; k++) ;
  s = malloc (k + 1); memcpy (s, b, k); s[k] = 0;
  free (b);
  return s;
}

/* F:HEX:PORT:SCOPE */
static int parse_addr (const char *w, NiceAddress *a)
{
  char buf[128], *f[4]; int n = 0; char *p; uint8_t *b; long bl;
  unsigned long long fam, port, scope;
  if (strlen (w) >= sizeof buf) return 0;
  strcpy (buf, w);
  f[n++] = buf;
  for (p = buf; *p; p++) if (*p == ':') { *p = 0; if (n == 4) return 0; f[n++] = p + 1; }
  if (n != 4) return 0;
  if (!num (f[0], 6, &fam) || !num (f[2], 65535, &port) || !num (f[3], 0xffffffffULL, &scope)) return 0;
  bl = parse_hex (f[1], &b);
  if (bl < 0) return 0;
  memset (a, 0, sizeof *a);
  if (fam == 0 && bl == 0 && port == 0 && scope == 0) { free (b); return 1; }
  if (fam == 4 && bl == 4 && scope == 0) {
    a->s.ip4.sin_family = AF_INET; memcpy (&a->s.ip4.sin_addr, b, 4); a->s.ip4.sin_port = htons (port);
    free (b); return 1;
  }
  if (fam == 6 && bl == 16) {
    a->s.ip6.sin6_family = AF_INET6; memcpy (&a->s.ip6.sin6_addr, b, 16); a->s.ip6.sin6_port = htons (port);
    a->s.ip6.sin6_scope_id = scope; free (b); return 1;
  }
  free (b);
  return 0;
}

static void show_addr (const NiceAddress *a)
{
  if (a->s.addr.sa_family == AF_INET) {
    printf ("4:"); print_hex ((const uint8_t *) &a->s.ip4.sin_addr, 4); printf (":%u:0", ntohs (a->s.ip4.sin_port));
  } else if (a->s.addr.sa_family == AF_INET6) {
    printf ("6:"); print_hex ((const uint8_t *) &a->s.ip6.sin6_addr, 16);
    printf (":%u:%u", ntohs (a->s.ip6.sin6_port), a->s.ip6.sin6_scope_id);
  } else printf ("0:-:0:0");
}

static void show_cand (const NiceCandidate *c)
{
  printf ("%d,%d,", (int) c->type, (int) c->transport); show_addr (&c->addr); putchar (',');
  show_addr (&c->base_addr);
  printf (",%u,%u,%u,", c->priority, c->stream_id, c->component_id);
  print_hex ((const uint8_t *) c->foundation, strnlen (c->foundation, NICE_CANDIDATE_MAX_FOUNDATION));
}

/* <type> <transport> <addr> <base> <priority> <component> <foundation hex> */
static NiceCandidate *parse_cand (char **w)
{
  unsigned long long ty, tr, pr, co; NiceAddress a, b; char *f; NiceCandidate *c; size_t fl;
  if (!num (w[0], 1000, &ty) || !num (w[1], 1000, &tr) || !parse_addr (w[2], &a) || !parse_addr (w[3], &b)
      || !num (w[4], 0xffffffffULL, &pr) || !num (w[5], 0xffffffffULL, &co)) return NULL;
  f = hex_cstr (w[6]);
  if (!f) return NULL;
  c = nice_candidate_new ((NiceCandidateType) ty);
  c->transport = (NiceCandidateTransport) tr;
  c->addr = a; c->base_addr = b; c->priority = pr; c->component_id = co;
  fl = strlen (f); if (fl > NICE_CANDIDATE_MAX_FOUNDATION) fl = NICE_CANDIDATE_MAX_FOUNDATION;
  memcpy (c->foundation, f, fl);      /* up to 33 bytes: a full array has no terminator */
  free (f);
  return c;
}

static NiceAgent *A = NULL, *B = NULL, *G = NULL;

static NiceAgent *mk_agent (void)
{
  NiceAgent *a = nice_agent_new (g_main_context_default (), NICE_COMPATIBILITY_RFC5245);
  g_object_set (a, "upnp", FALSE, "controlling-mode", FALSE, NULL);
  return a;
}

static void drop_agents (void)
{
  if (A) { g_object_unref (A); A = NULL; }
  if (B) { g_object_unref (B); B = NULL; }
}

static void show_state (NiceAgent *ag)
{
  GSList *i, *j, *k; int first = 1;
  for (i = ag ? ag->streams : NULL; i; i = i->next) {
    NiceStream *s = i->data;
    if (!first) putchar (' ');
    first = 0;
    printf ("s%u u=", s->id); print_hex ((uint8_t *) s->remote_ufrag, strlen (s->remote_ufrag));
    printf (" p="); print_hex ((uint8_t *) s->remote_password, strlen (s->remote_password));
    for (j = s->components; j; j = j->next) {
      NiceComponent *c = j->data;
      if (!c->remote_candidates) continue;
      printf (" c%u[", c->id);
      for (k = c->remote_candidates; k; k = k->next) {
        if (k != c->remote_candidates) putchar ('|');
        show_cand (k->data);
      }
      putchar (']');
    }
  }
}

static int range_private (uint32_t h)
{
  return (h >= 0x0a000000u && h <= 0x0affffffu) || (h >= 0xac100000u && h <= 0xac1fffffu)
      || (h >= 0xc0a80000u && h <= 0xc0a8ffffu) || (h >= 0xa9fe0000u && h <= 0xa9feffffu)
      || (h >= 0x7f000000u && h <= 0x7fffffffu);
}
static int range_linklocal (uint32_t h) { return h >= 0xa9fe0000u && h <= 0xa9feffffu; }

int main (void)
{
  char *line = NULL; size_t cap = 0; char *w[MAXW];
  setvbuf (stdout, NULL, _IOFBF, 1 << 20);
  g_log_set_default_handler (log_handler, NULL);
  while (getline (&line, &cap, stdin) > 0) {
    int n;
    if (line[0] == '#' || line[0] == '\n') continue;
    n = split_words (line, w);
    if (n == 0) continue;
    ncrit = 0;
    if (!strcmp (w[0], "reset") && n == 1) { drop_agents (); ncrit = 0; puts ("reset"); }
    /* ------------------------------------------------------------------ addr */
    else if (!strcmp (w[0], "addr") && n >= 2) {
      if (!strcmp (w[1], "class") && n == 4) {
        unsigned long long fam; uint8_t *b; long bl, k; NiceAddress a;
        if (!num (w[2], 6, &fam) || (bl = parse_hex (w[3], &b)) < 0) { puts ("bad-op"); continue; }
        if (fam == 0 && bl == 0) {
          memset (&a, 0, sizeof a);
          printf ("%d", (nice_address_is_private (&a) ? 1 : 0) + (nice_address_is_linklocal (&a) ? 2 : 0));
          end_line ();
        } else if ((fam == 4 && bl > 0 && bl % 4 == 0) || (fam == 6 && bl > 0 && bl % 16 == 0)) {
          long step = fam == 4 ? 4 : 16;
          for (k = 0; k < bl; k += step) {
            memset (&a, 0, sizeof a);
            if (fam == 4) { a.s.ip4.sin_family = AF_INET; memcpy (&a.s.ip4.sin_addr, b + k, 4); }
            else { a.s.ip6.sin6_family = AF_INET6; memcpy (&a.s.ip6.sin6_addr, b + k, 16); }
            putchar ('0' + (nice_address_is_private (&a) ? 1 : 0) + (nice_address_is_linklocal (&a) ? 2 : 0));
          }
          end_line ();
        } else puts ("bad-op");
        free (b);
      } else if (!strcmp (w[1], "eq") && n == 4) {
        NiceAddress a, b;
        if (!parse_addr (w[2], &a) || !parse_addr (w[3], &b)) { puts ("bad-op"); continue; }
        printf ("%d%d", nice_address_equal (&a, &b) ? 1 : 0, nice_address_equal_no_port (&a, &b) ? 1 : 0);
        end_line ();
      } else if (!strcmp (w[1], "trans") && n == 5) {
        NiceAddress a, b, c;
        if (!parse_addr (w[2], &a) || !parse_addr (w[3], &b) || !parse_addr (w[4], &c)) { puts ("bad-op"); continue; }
        printf ("%d%d%d %d%d%d", nice_address_equal (&a, &b) ? 1 : 0, nice_address_equal (&b, &c) ? 1 : 0,
            nice_address_equal (&a, &c) ? 1 : 0, nice_address_equal_no_port (&a, &b) ? 1 : 0,
            nice_address_equal_no_port (&b, &c) ? 1 : 0, nice_address_equal_no_port (&a, &c) ? 1 : 0);
        end_line ();
      } else if (!strcmp (w[1], "tostr") && n == 3) {
        NiceAddress a; char *dst;
        if (!parse_addr (w[2], &a)) { puts ("bad-op"); continue; }
        dst = calloc (1, INET6_ADDRSTRLEN);      /* exactly the size the API documents */
        nice_address_to_string (&a, dst);
        print_hex ((uint8_t *) dst, strlen (dst)); end_line ();
        free (dst);
      } else if (!strcmp (w[1], "fromstr") && n == 3) {
        NiceAddress a; char *s = hex_cstr (w[2]);
        if (!s) { puts ("bad-op"); continue; }
        memset (&a, 0, sizeof a);
        if (nice_address_set_from_string (&a, s)) show_addr (&a); else printf ("fail");
        end_line ();
        free (s);
      } else if (!strcmp (w[1], "rt") && n == 3) {
        /* to_string then from_string on the real code */
        NiceAddress a, b; char *dst;
        if (!parse_addr (w[2], &a)) { puts ("bad-op"); continue; }
        dst = calloc (1, INET6_ADDRSTRLEN);
        nice_address_to_string (&a, dst);
        print_hex ((uint8_t *) dst, strlen (dst)); putchar (' ');
        memset (&b, 0, sizeof b);
        if (nice_address_set_from_string (&b, dst)) show_addr (&b); else printf ("fail");
        end_line (); free (dst);
      } else if (!strcmp (w[1], "rt2") && n == 3) {
        /* from_string, to_string, from_string */
        NiceAddress a, b; char *s = hex_cstr (w[2]), *dst;
        if (!s) { puts ("bad-op"); continue; }
        memset (&a, 0, sizeof a);
        if (!nice_address_set_from_string (&a, s)) { printf ("fail"); end_line (); free (s); continue; }
        dst = calloc (1, INET6_ADDRSTRLEN);
        nice_address_to_string (&a, dst);
        show_addr (&a); putchar (' '); print_hex ((uint8_t *) dst, strlen (dst)); putchar (' ');
        memset (&b, 0, sizeof b);
        if (nice_address_set_from_string (&b, dst)) show_addr (&b); else printf ("fail");
        end_line (); free (dst); free (s);
      } else if (!strcmp (w[1], "valid") && n == 3) {
        NiceAddress a;
        if (!parse_addr (w[2], &a)) { puts ("bad-op"); continue; }
        printf ("%d %d", nice_address_is_valid (&a) ? 1 : 0, nice_address_ip_version (&a)); end_line ();
      } else if (!strcmp (w[1], "setport") && n == 4) {
        NiceAddress a; unsigned long long p;
        if (!parse_addr (w[2], &a) || !num (w[3], 0xffffffffULL, &p)) { puts ("bad-op"); continue; }
        nice_address_set_port (&a, (guint) p);
        show_addr (&a); end_line ();
      } else if (!strcmp (w[1], "getport") && n == 3) {
        NiceAddress a;
        if (!parse_addr (w[2], &a)) { puts ("bad-op"); continue; }
        printf ("%u", nice_address_get_port (&a)); end_line ();
      } else if (!strcmp (w[1], "num") && n == 3) {
        char *s = hex_cstr (w[2]);
        if (!s) { puts ("bad-op"); continue; }
        printf ("%llu", (unsigned long long) g_ascii_strtoull (s, NULL, 10)); end_line ();
        free (s);
      } else if (!strcmp (w[1], "fmtd") && n == 3) {
        const char *s = w[2]; int neg = s[0] == '-'; unsigned long long v; char buf[32]; long long x;
        if (!num (s + neg, 2147483648ULL, &v)) { puts ("bad-op"); continue; }
        x = neg ? -(long long) v : (long long) v;
        if (x > 2147483647LL) { puts ("bad-op"); continue; }
        g_snprintf (buf, sizeof buf, "%d", (int) x);
        print_hex ((uint8_t *) buf, strlen (buf)); end_line ();
      } else if (!strcmp (w[1], "sweep4") && n == 4) {
        /* implementation only: real classification vs the numeric ranges over [from, to) */
        unsigned long long from, to, h, mism = 0, first = 0, np = 0, nl = 0; int have = 0; NiceAddress a;
        if (!num (w[2], 0x100000000ULL, &from) || !num (w[3], 0x100000000ULL, &to)) { puts ("bad-op"); continue; }
        memset (&a, 0, sizeof a); a.s.ip4.sin_family = AF_INET;
        for (h = from; h < to; h++) {
          int p, l;
          a.s.ip4.sin_addr.s_addr = htonl ((uint32_t) h);
          p = nice_address_is_private (&a) ? 1 : 0; l = nice_address_is_linklocal (&a) ? 1 : 0;
          np += p; nl += l;
          if (p != range_private ((uint32_t) h) || l != range_linklocal ((uint32_t) h)) {
            if (!have) { first = h; have = 1; }
            mism++;
          }
        }
        printf ("sweep %llu mism %llu priv %llu ll %llu first ", to > from ? to - from : 0, mism, np, nl);
        if (have) printf ("%llu", first); else printf ("-");
        end_line ();
      } else puts ("bad-op");
    }
    /* ------------------------------------------------------------------ sdp */
    else if (!strcmp (w[0], "sdp") && n >= 2) {
      if (!G) G = mk_agent ();
      if (!strcmp (w[1], "gencand") && n == 9) {
        NiceCandidate *c = parse_cand (w + 2); gchar *s;
        if (!c) { puts ("bad-op"); continue; }
        if (!nice_address_is_valid (&c->addr)) { nice_candidate_free (c); puts ("bad-op"); continue; }
        s = nice_agent_generate_local_candidate_sdp (G, c);
        print_hex ((uint8_t *) s, strlen (s)); end_line ();
        g_free (s); nice_candidate_free (c);
      } else if (!strcmp (w[1], "parsecand") && n == 4) {
        unsigned long long sid; char *s; NiceCandidate *c;
        if (!num (w[2], 0xffffffffULL, &sid) || !(s = hex_cstr (w[3]))) { puts ("bad-op"); continue; }
        c = nice_agent_parse_remote_candidate_sdp (G, (guint) sid, s);
        if (c) { printf ("cand "); show_cand (c); nice_candidate_free (c); } else printf ("none");
        end_line ();
        free (s);
      } else if (!strcmp (w[1], "rtcand") && n == 10) {
        /* generate with the real code, parse the result with the real code */
        unsigned long long sid; NiceCandidate *c, *r; gchar *s; char *x; size_t l;
        if (!num (w[2], 0xffffffffULL, &sid) || !(c = parse_cand (w + 3))) { puts ("bad-op"); continue; }
        if (!nice_address_is_valid (&c->addr)) { nice_candidate_free (c); puts ("bad-op"); continue; }
        s = nice_agent_generate_local_candidate_sdp (G, c);
        l = strlen (s); x = malloc (l + 1); memcpy (x, s, l + 1);
        print_hex ((uint8_t *) x, l); putchar (' ');
        r = nice_agent_parse_remote_candidate_sdp (G, (guint) sid, x);
        if (r) { printf ("cand "); show_cand (r); nice_candidate_free (r); } else printf ("none");
        end_line ();
        free (x); g_free (s); nice_candidate_free (c);
      } else if (!strcmp (w[1], "new") && n >= 3 && n <= 10) {
        unsigned long long cnt[8]; int i, ok = 1;
        for (i = 2; i < n; i++) if (!num (w[i], 256, &cnt[i - 2]) || cnt[i - 2] == 0) ok = 0;
        if (!ok) { puts ("bad-op"); continue; }
        drop_agents ();
        A = mk_agent (); B = mk_agent ();
        for (i = 2; i < n; i++) {
          char u[32], p[32]; guint ia = nice_agent_add_stream (A, cnt[i - 2]), ib = nice_agent_add_stream (B, cnt[i - 2]);
          g_snprintf (u, sizeof u, "ufrag%u", ia); g_snprintf (p, sizeof p, "password%u", ia);
          nice_agent_set_local_credentials (A, ia, u, p);
          nice_agent_set_local_credentials (B, ib, u, p);
        }
        printf ("ok"); end_line ();
      } else if (!A) { puts ("bad-op"); }
      else if (!strcmp (w[1], "name") && n == 4) {
        unsigned long long sid; char *s;
        if (!num (w[2], 0xffffffffULL, &sid) || !(s = hex_cstr (w[3]))) { puts ("bad-op"); continue; }
        printf ("%d", nice_agent_set_stream_name (A, (guint) sid, s) ? 1 : 0); end_line ();
        free (s);
      } else if (!strcmp (w[1], "cred") && n == 5) {
        unsigned long long sid; char *u, *p;
        if (!num (w[2], 0xffffffffULL, &sid) || !(u = hex_cstr (w[3]))) { puts ("bad-op"); continue; }
        if (!(p = hex_cstr (w[4]))) { free (u); puts ("bad-op"); continue; }
        printf ("%d", nice_agent_set_local_credentials (A, (guint) sid, u, p) ? 1 : 0); end_line ();
        free (u); free (p);
      } else if (!strcmp (w[1], "local") && n == 10) {
        unsigned long long sid; NiceCandidate *c; NiceStream *st; NiceComponent *co;
        if (!num (w[2], 0xffffffffULL, &sid) || !(c = parse_cand (w + 3))) { puts ("bad-op"); continue; }
        if (!nice_address_is_valid (&c->addr)) { nice_candidate_free (c); puts ("bad-op"); continue; }
        if (!agent_find_component (A, (guint) sid, c->component_id, &st, &co)) {
          nice_candidate_free (c); printf ("nocomp"); end_line (); continue;
        }
        c->stream_id = (guint) sid;
        co->local_candidates = g_slist_append (co->local_candidates, c);
        printf ("ok"); end_line ();
      } else if (!strcmp (w[1], "rm") && n == 4) {
        /* remove a stream of the generating (a) or the parsing (b) agent: stream ids are never reused, so the ids of
         * the remaining streams are no longer 1..n */
        unsigned long long sid;
        if (!num (w[3], 0xffffffffULL, &sid) || (strcmp (w[2], "a") && strcmp (w[2], "b"))) { puts ("bad-op"); continue; }
        nice_agent_remove_stream (w[2][0] == 'a' ? A : B, (guint) sid);
        printf ("ok"); end_line ();
      } else if (!strcmp (w[1], "forcerelay") && n == 3) {
        unsigned long long v;
        if (!num (w[2], ~0ULL, &v)) { puts ("bad-op"); continue; }
        g_object_set (A, "force-relay", v ? TRUE : FALSE, NULL);
        printf ("ok"); end_line ();
      } else if (!strcmp (w[1], "gen") && n == 2) {
        gchar *s = nice_agent_generate_local_sdp (A);
        print_hex ((uint8_t *) s, strlen (s)); end_line (); g_free (s);
      } else if (!strcmp (w[1], "genstream") && n == 4) {
        unsigned long long sid, inc; gchar *s;
        if (!num (w[2], 0xffffffffULL, &sid) || !num (w[3], ~0ULL, &inc)) { puts ("bad-op"); continue; }
        s = nice_agent_generate_local_stream_sdp (A, (guint) sid, inc ? TRUE : FALSE);
        if (s) print_hex ((uint8_t *) s, strlen (s)); else printf ("null");
        end_line (); g_free (s);
      } else if ((!strcmp (w[1], "xfer") && n == 2) || (!strcmp (w[1], "parse") && n == 3)) {
        gchar *s; int ret;
        if (n == 2) s = nice_agent_generate_local_sdp (A);
        else { char *t = hex_cstr (w[2]); if (!t) { puts ("bad-op"); continue; } s = g_strdup (t); free (t); }
        {
          /* exactly sized copy so that an over-read of the text is visible to ASan */
          size_t l = strlen (s); char *x = malloc (l + 1); memcpy (x, s, l + 1);
          ret = nice_agent_parse_remote_sdp (B, x);
          free (x);
        }
        g_free (s);
        printf ("ret=%d ", ret); show_state (B); end_line ();
      } else if (!strcmp (w[1], "parsestream") && n == 4) {
        unsigned long long sid; char *s; gchar *u = NULL, *p = NULL; GSList *l, *i;
        if (!num (w[2], 0xffffffffULL, &sid) || !(s = hex_cstr (w[3]))) { puts ("bad-op"); continue; }
        l = nice_agent_parse_remote_stream_sdp (B, (guint) sid, s, &u, &p);
        printf ("u="); if (u) print_hex ((uint8_t *) u, strlen (u)); else printf ("null");
        printf (" p="); if (p) print_hex ((uint8_t *) p, strlen (p)); else printf ("null");
        printf (" n=%u [", g_slist_length (l));
        for (i = l; i; i = i->next) { if (i != l) putchar ('|'); show_cand (i->data); }
        putchar (']'); end_line ();
        g_slist_free_full (l, (GDestroyNotify) nice_candidate_free);
        g_free (u); g_free (p); free (s);
      } else if (!strcmp (w[1], "xferstream") && n == 4) {
        unsigned long long sid, inc; gchar *s, *u = NULL, *p = NULL; GSList *l, *i;
        if (!num (w[2], 0xffffffffULL, &sid) || !num (w[3], ~0ULL, &inc)) { puts ("bad-op"); continue; }
        s = nice_agent_generate_local_stream_sdp (A, (guint) sid, inc ? TRUE : FALSE);
        if (!s) { printf ("null"); end_line (); continue; }
        l = nice_agent_parse_remote_stream_sdp (B, (guint) sid, s, &u, &p);
        printf ("u="); if (u) print_hex ((uint8_t *) u, strlen (u)); else printf ("null");
        printf (" p="); if (p) print_hex ((uint8_t *) p, strlen (p)); else printf ("null");
        printf (" n=%u [", g_slist_length (l));
        for (i = l; i; i = i->next) { if (i != l) putchar ('|'); show_cand (i->data); }
        putchar (']'); end_line ();
        g_slist_free_full (l, (GDestroyNotify) nice_candidate_free);
        g_free (u); g_free (p); g_free (s);
      } else if (!strcmp (w[1], "state") && n == 2) { show_state (B); end_line (); }
      else puts ("bad-op");
    } else puts ("bad-op");
  }
  fflush (stdout);
  return 0;
}
