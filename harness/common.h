/* shared helpers for the line-protocol harnesses */
#ifndef VERIF_COMMON_H
#define VERIF_COMMON_H
#include <stdio.h>
#include <stdlib.h>
#include <string.h>
#include <stdint.h>
#include <time.h>

static uint64_t verif_now_us = 0;
/* interposed: g_get_monotonic_time() and stun_gettime() follow this */
int clock_gettime (clockid_t id, struct timespec *ts)
{
  (void) id;
  ts->tv_sec = verif_now_us / 1000000;
  ts->tv_nsec = (verif_now_us % 1000000) * 1000;
  return 0;
}

static int hexval (int c)
{
  if (c >= '0' && c <= '9') return c - '0';
  if (c >= 'a' && c <= 'f') return c - 'a' + 10;
  if (c >= 'A' && c <= 'F') return c - 'A' + 10;
  return -1;
}

/* parse hex into a freshly malloc'ed, exactly sized block ("-" = empty). returns length or -1 */
static long parse_hex (const char *s, uint8_t **out)
{
  size_t n, i;
  if (strcmp (s, "-") == 0) { *out = malloc (1); free (*out); *out = malloc (0); return 0; }
  n = strlen (s);
  if (n % 2) return -1;
  *out = malloc (n / 2 ? n / 2 : 1);
  if (n / 2 == 0) { free (*out); *out = malloc (0); }
  for (i = 0; i < n / 2; i++) {
    int a = hexval (s[2 * i]), b = hexval (s[2 * i + 1]);
    if (a < 0 || b < 0) { free (*out); return -1; }
    (*out)[i] = (uint8_t) (a * 16 + b);
  }
  return (long) (n / 2);
}

static void print_hex (const uint8_t *b, size_t n)
{
  size_t i;
  if (n == 0) { fputs ("-", stdout); return; }
  for (i = 0; i < n; i++) printf ("%02x", b[i]);
}

#define MAXW 64
static int split_words (char *line, char **w)
{
  int n = 0;
  char *p = strtok (line, " \t\r\n");
  while (p && n < MAXW) { w[n++] = p; p = strtok (NULL, " \t\r\n"); }
  return n;
}
#endif
