/* sim_drv: real NiceAgents in one process under a virtual clock and a virtual UDP network.
 *
 * Protocol: one op per line; the driver prints the events the op produced (one per line, prefixed
 * `ev `) and then a single terminator line starting with `ok` or `err`.
 *
 *  new <name> ctrl=<0|1> compat=<n> opts=<flags int> [ta=<ms>] [rto=<ms>] [rc=<n>] [keepalive=<0|1>]
 *      [stunsrv=<ip:port>] [icetcp=<0|1>] [addrs=<ip,ip,..>] [maxchecks=<n>]
 *  stream <name> <ncomp>                      -> ok stream <id>
 *  attach <name> <sid>                        attach recv callbacks on every component
 *  attach2 <name> <sid>                       the same on a SECOND main context (the application moves its callbacks)
 *  injectsel <name> <sid> <cid> <hex>         datagram from the selected pair's remote address to its local address
 *  gather <name> <sid>
 *  creds <from> <sid> <to> <sid>              deliver local credentials of from/sid to to/sid
 *  cands <from> <sid> <cid> <to> <sid> [idx]  deliver all (or the idx-th) local candidates
 *  run <ms>                                   advance virtual time, dispatching everything due
 *  runidle <max_ms>                           run until no network delivery and no state change for 2 s, or max
 *  send <name> <sid> <cid> <hex>              -> ok ret <n> [err <domain-code>]
 *  restart <name> | restartstream <name> <sid> | rmstream <name> <sid> | consentlost <name> <sid> <cid>
 *  setrole <name> <0|1> | selpair ... | relay <name> <sid> <cid> <ip:port> <user> <pass> <type>
 *  net latency <min_ms> <max_ms> | net loss <percent> <maxconsec> | net dup <percent> | net seed <n>
 *  net blackout <srcname|*> <dstname|*> <from_ms> <to_ms>  (absolute virtual ms) | net dropnext <n>
 *  inject <ip:port from> <ip:port to> <hex>   enqueue a forged datagram (off-path attacker)
 *  server <ip:port> <kind stun|turn> <script> scripted STUN/TURN server endpoint (see srv_* below)
 *  q <name> <sid> <cid>                       -> ok state <s> role <0|1> sel <laddr> <raddr> ...
 *  checklist <name> <sid>                     -> ok <prio:state:nominated:valid ...>  (sorted check)
 *  unref <name>  | drain                      drop the agent / iterate context until idle
 */
#define _GNU_SOURCE
#include "common.h"
#include <dlfcn.h>
#include <errno.h>
#include <poll.h>
#include <fcntl.h>
#include <sys/stat.h>
#include <unistd.h>
#include <sys/socket.h>
#include <netinet/in.h>
#include <arpa/inet.h>
#include <glib.h>
#include <gio/gio.h>
#include "agent.h"
#include "agent-priv.h"
#include "stream.h"
#include "component.h"
#include "conncheck.h"
#include "discovery.h"
#include "stun/stunagent.h"
#include "stun/stunmessage.h"
#include "stun/usages/bind.h"
#include "stun/usages/turn.h"

/* ------------------------------------------------------------------ virtual network */
typedef struct Dgram {
  struct Dgram *next;
  uint64_t due_us;
  struct sockaddr_in from, to;
  size_t len;
  uint8_t *data;
} Dgram;

static Dgram *netq = NULL;          /* sorted by due time, FIFO among equal */
static uint64_t net_seq = 0;
static unsigned lat_min = 1, lat_max = 1, loss_pct = 0, loss_maxconsec = 0, dup_pct = 0, dropnext = 0;
static uint64_t net_rng = 88172645463325252ULL;
static unsigned long n_sent = 0, n_dropped = 0, n_delivered = 0, n_dup = 0;

typedef struct { char src[16], dst[16]; uint64_t from_ms, to_ms; } Blackout;
static Blackout blackouts[32]; static int n_blackouts = 0;

/* consecutive-loss bookkeeping per (src port, dst port) */
typedef struct { uint32_t key; unsigned consec; } LossCtr;
static LossCtr lossctr[4096]; static int n_lossctr = 0;

/* deterministic replacement of stun/rand.c (transaction ids, nonces): replays are exact */
static uint64_t nonce_rng = 0x2545F4914F6CDD1DULL;
void nice_RAND_nonce (uint8_t *dst, int len)
{
  int i;
  for (i = 0; i < len; i++) {
    nonce_rng ^= nonce_rng << 13; nonce_rng ^= nonce_rng >> 7; nonce_rng ^= nonce_rng << 17;
    dst[i] = (uint8_t) (nonce_rng >> 24);
  }
}

static uint64_t rng_next (void)
{
  net_rng ^= net_rng << 13; net_rng ^= net_rng >> 7; net_rng ^= net_rng << 17;
  return net_rng;
}

#define MAXFD 4096
static struct { int used; struct sockaddr_in addr; char owner[16]; } udpfd[MAXFD];

static int (*real_poll) (struct pollfd *, nfds_t, int);
static ssize_t (*real_sendmsg) (int, const struct msghdr *, int);
static ssize_t (*real_recvmsg) (int, struct msghdr *, int);
static ssize_t (*real_sendto) (int, const void *, size_t, int, const struct sockaddr *, socklen_t);
static ssize_t (*real_recvfrom) (int, void *, size_t, int, struct sockaddr *, socklen_t *);
static int (*real_close) (int);

static void init_real (void)
{
  if (real_poll) return;
  real_poll = dlsym (RTLD_NEXT, "poll");
  real_sendmsg = dlsym (RTLD_NEXT, "sendmsg");
  real_recvmsg = dlsym (RTLD_NEXT, "recvmsg");
  real_sendto = dlsym (RTLD_NEXT, "sendto");
  real_recvfrom = dlsym (RTLD_NEXT, "recvfrom");
  real_close = dlsym (RTLD_NEXT, "close");
}

/* is fd a bound IPv4 UDP socket?  (registered lazily) */
static int is_vudp (int fd)
{
  int type = 0; socklen_t l = sizeof type;
  struct sockaddr_in sa; socklen_t sl = sizeof sa;
  if (fd < 0 || fd >= MAXFD) return 0;
  if (udpfd[fd].used) return 1;
  if (getsockopt (fd, SOL_SOCKET, SO_TYPE, &type, &l) != 0 || type != SOCK_DGRAM) return 0;
  memset (&sa, 0, sizeof sa);
  if (getsockname (fd, (struct sockaddr *) &sa, &sl) != 0 || sa.sin_family != AF_INET || sa.sin_port == 0)
    return 0;
  udpfd[fd].used = 1; udpfd[fd].addr = sa; udpfd[fd].owner[0] = 0;
  return 1;
}

int close (int fd)
{
  init_real ();
  if (fd >= 0 && fd < MAXFD) udpfd[fd].used = 0;
  return real_close (fd);
}

static const char *owner_of (const struct sockaddr_in *a);

static void describe_packet (const char *tag, const struct sockaddr_in *from, const struct sockaddr_in *to,
    const uint8_t *d, size_t len);

static void enqueue (const struct sockaddr_in *from, const struct sockaddr_in *to, const uint8_t *d, size_t len,
    uint64_t due)
{
  Dgram *g = calloc (1, sizeof *g), **pp;
  g->due_us = due; g->from = *from; g->to = *to; g->len = len;
  g->data = malloc (len ? len : 1); memcpy (g->data, d, len);
  for (pp = &netq; *pp && (*pp)->due_us <= due; pp = &(*pp)->next);
  g->next = *pp; *pp = g;
  net_seq++;
}

static int blacked_out (const struct sockaddr_in *from, const struct sockaddr_in *to)
{
  int i; uint64_t ms = verif_now_us / 1000;
  const char *s = owner_of (from), *d = owner_of (to);
  for (i = 0; i < n_blackouts; i++) {
    Blackout *b = &blackouts[i];
    if (ms >= b->from_ms && ms < b->to_ms &&
        (!strcmp (b->src, "*") || !strcmp (b->src, s)) && (!strcmp (b->dst, "*") || !strcmp (b->dst, d)))
      return 1;
  }
  return 0;
}

static int trace_packets = 1;

/* key of the unordered endpoint pair */
static uint32_t pair_key (const struct sockaddr_in *a, const struct sockaddr_in *b)
{
  uint32_t x = a->sin_addr.s_addr * 2654435761u ^ a->sin_port, y = b->sin_addr.s_addr * 2654435761u ^ b->sin_port;
  return x < y ? x * 31u + y : y * 31u + x;
}
static LossCtr *loss_ctr (uint32_t key)
{
  int i;
  for (i = 0; i < n_lossctr; i++) if (lossctr[i].key == key) return &lossctr[i];
  if (n_lossctr < 4096) { lossctr[n_lossctr].key = key; lossctr[n_lossctr].consec = 0; return &lossctr[n_lossctr++]; }
  return NULL;
}
static int is_stun_response (const uint8_t *d, size_t len)
{
  StunMessage m;
  if (len < 20 || stun_message_validate_buffer_length (d, len, TRUE) != (int) len) return 0;
  memset (&m, 0, sizeof m); m.buffer = (uint8_t *) d; m.buffer_len = len;
  return stun_message_get_class (&m) == STUN_RESPONSE || stun_message_get_class (&m) == STUN_ERROR;
}

/* per-transaction drop counters (requests and responses only) */
static struct { uint64_t key; unsigned n; } txctr[1 << 16];
static unsigned *txid_ctr (const uint8_t *d, size_t len)
{
  StunMessage m; uint64_t h = 1469598103934665603ULL; int i; unsigned slot;
  if (len < 20 || stun_message_validate_buffer_length (d, len, TRUE) != (int) len) return NULL;
  memset (&m, 0, sizeof m); m.buffer = (uint8_t *) d; m.buffer_len = len;
  if (stun_message_get_class (&m) == STUN_INDICATION) return NULL;
  for (i = 4; i < 20; i++) { h ^= d[i]; h *= 1099511628211ULL; }
  if (h == 0) h = 1;
  for (slot = (unsigned) (h & 0xffff), i = 0; i < 65536; i++, slot = (slot + 1) & 0xffff) {
    if (txctr[slot].key == h) return &txctr[slot].n;
    if (txctr[slot].key == 0) { txctr[slot].key = h; txctr[slot].n = 0; return &txctr[slot].n; }
  }
  return NULL;
}

/* port-preserving full-cone NATs: `net nat <real ip> <public ip>`.  Packets from <real ip> leave with the public
 * address; packets to the public address reach the real one; the real address is not reachable from outside. */
static struct { struct in_addr real, pub; } nat_rules[8]; static int n_nat = 0;

static void vsend (const struct sockaddr_in *from0, const struct sockaddr_in *to0, const uint8_t *d, size_t len)
{
  unsigned lat;
  int drop = 0, k, src_nat = -1;
  struct sockaddr_in fromv = *from0, tov = *to0;
  const struct sockaddr_in *from = &fromv, *to = &tov;
  for (k = 0; k < n_nat; k++) if (fromv.sin_addr.s_addr == nat_rules[k].real.s_addr) { src_nat = k; break; }
  for (k = 0; k < n_nat; k++) {
    if (tov.sin_addr.s_addr == nat_rules[k].pub.s_addr) { tov.sin_addr = nat_rules[k].real; break; }
    if (tov.sin_addr.s_addr == nat_rules[k].real.s_addr && src_nat != k) {
      /* a private address is not routable from outside its NAT */
      n_sent++; n_dropped++;
      if (trace_packets) { describe_packet ("tx", from0, to0, d, len); printf ("ev t=%llu drop nat-unreachable\n", (unsigned long long) (verif_now_us / 1000)); }
      return;
    }
  }
  if (src_nat >= 0 && tov.sin_addr.s_addr != nat_rules[src_nat].real.s_addr) fromv.sin_addr = nat_rules[src_nat].pub;
  n_sent++;
  if (trace_packets) describe_packet ("tx", from, to, d, len);
  if (blacked_out (from, to)) drop = 1;
  else if (dropnext > 0) { dropnext--; drop = 1; }
  else if (loss_pct > 0 && (rng_next () % 100) < loss_pct) {
    /* the property's loss hypothesis: fewer attempts (a request or its response) of a check are lost
     * than the transmission limit.  Enforced per STUN transaction: at most loss_maxconsec packets
     * carrying one transaction id are dropped, so one of its N attempts gets through both ways.
     * Indications and non-STUN data are dropped freely. */
    unsigned *c = txid_ctr (d, len);
    if (c && loss_maxconsec > 0 && *c >= loss_maxconsec) drop = 0;
    else { if (c) (*c)++; drop = 1; }
  }
  if (drop) { n_dropped++; if (trace_packets) printf ("ev t=%llu drop\n", (unsigned long long) (verif_now_us / 1000)); return; }
  lat = lat_min + (lat_max > lat_min ? rng_next () % (lat_max - lat_min + 1) : 0);
  enqueue (from, to, d, len, verif_now_us + (uint64_t) lat * 1000);
  if (dup_pct > 0 && (rng_next () % 100) < dup_pct) {
    n_dup++;
    lat = lat_min + (lat_max > lat_min ? rng_next () % (lat_max - lat_min + 1) : 0);
    enqueue (from, to, d, len, verif_now_us + (uint64_t) lat * 1000 + 500);
  }
}

/* scripted servers live in the same network */
static int server_handle (Dgram *g);

static unsigned long n_popped = 0;       /* datagrams handed to a socket so far */
static Dgram *pop_for (int fd)
{
  Dgram **pp;
  for (pp = &netq; *pp; pp = &(*pp)->next) {
    Dgram *g = *pp;
    if (g->due_us > verif_now_us) break;
    if (g->to.sin_port == udpfd[fd].addr.sin_port &&
        (g->to.sin_addr.s_addr == udpfd[fd].addr.sin_addr.s_addr || udpfd[fd].addr.sin_addr.s_addr == 0)) {
      *pp = g->next; n_popped++; return g;
    }
  }
  return NULL;
}

static int has_for (int fd)
{
  Dgram *g;
  for (g = netq; g; g = g->next) {
    if (g->due_us > verif_now_us) break;
    if (g->to.sin_port == udpfd[fd].addr.sin_port &&
        (g->to.sin_addr.s_addr == udpfd[fd].addr.sin_addr.s_addr || udpfd[fd].addr.sin_addr.s_addr == 0))
      return 1;
  }
  return 0;
}

ssize_t sendmsg (int fd, const struct msghdr *msg, int flags)
{
  init_real ();
  if (is_vudp (fd) && msg->msg_name && ((struct sockaddr *) msg->msg_name)->sa_family == AF_INET) {
    uint8_t buf[70000]; size_t n = 0, i;
    for (i = 0; i < msg->msg_iovlen; i++) {
      if (n + msg->msg_iov[i].iov_len > sizeof buf) { errno = EMSGSIZE; return -1; }
      memcpy (buf + n, msg->msg_iov[i].iov_base, msg->msg_iov[i].iov_len); n += msg->msg_iov[i].iov_len;
    }
    vsend (&udpfd[fd].addr, (struct sockaddr_in *) msg->msg_name, buf, n);
    return (ssize_t) n;
  }
  return real_sendmsg (fd, msg, flags);
}

ssize_t sendto (int fd, const void *b, size_t n, int flags, const struct sockaddr *to, socklen_t tl)
{
  init_real ();
  if (is_vudp (fd) && to && to->sa_family == AF_INET) {
    vsend (&udpfd[fd].addr, (const struct sockaddr_in *) to, b, n);
    return (ssize_t) n;
  }
  return real_sendto (fd, b, n, flags, to, tl);
}

ssize_t recvmsg (int fd, struct msghdr *msg, int flags)
{
  init_real ();
  if (is_vudp (fd)) {
    Dgram *g = pop_for (fd); size_t off = 0, i;
    if (!g) { errno = EAGAIN; return -1; }
    n_delivered++;
    if (trace_packets) describe_packet ("rx", &g->from, &g->to, g->data, g->len);
    for (i = 0; i < msg->msg_iovlen && off < g->len; i++) {
      size_t k = g->len - off; if (k > msg->msg_iov[i].iov_len) k = msg->msg_iov[i].iov_len;
      memcpy (msg->msg_iov[i].iov_base, g->data + off, k); off += k;
    }
    msg->msg_flags = off < g->len ? MSG_TRUNC : 0;
    if (msg->msg_name && msg->msg_namelen >= sizeof (struct sockaddr_in)) {
      memcpy (msg->msg_name, &g->from, sizeof g->from); msg->msg_namelen = sizeof g->from;
    }
    msg->msg_controllen = 0;
    { ssize_t r = (flags & MSG_TRUNC) ? (ssize_t) g->len : (ssize_t) off; free (g->data); free (g); return r; }
  }
  return real_recvmsg (fd, msg, flags);
}

ssize_t recvfrom (int fd, void *b, size_t n, int flags, struct sockaddr *from, socklen_t *fl)
{
  init_real ();
  if (is_vudp (fd)) {
    Dgram *g = pop_for (fd); size_t k;
    if (!g) { errno = EAGAIN; return -1; }
    n_delivered++;
    if (trace_packets) describe_packet ("rx", &g->from, &g->to, g->data, g->len);
    k = g->len < n ? g->len : n; memcpy (b, g->data, k);
    if (from && fl && *fl >= sizeof g->from) { memcpy (from, &g->from, sizeof g->from); *fl = sizeof g->from; }
    free (g->data); free (g);
    return (ssize_t) k;
  }
  return real_recvfrom (fd, b, n, flags, from, fl);
}

int poll (struct pollfd *fds, nfds_t n, int timeout)
{
  nfds_t i; int ready = 0, r;
  init_real ();
  /* never block: time is virtual */
  r = real_poll (fds, n, 0);
  if (r < 0) return r;
  for (i = 0; i < n; i++) {
    if (fds[i].fd >= 0 && is_vudp (fds[i].fd)) {
      fds[i].revents &= ~(POLLIN | POLLOUT);
      if ((fds[i].events & POLLIN) && has_for (fds[i].fd)) fds[i].revents |= POLLIN;
      if (fds[i].events & POLLOUT) fds[i].revents |= POLLOUT;
    }
    if (fds[i].revents) ready++;
  }
  return ready;
}

int ppoll (struct pollfd *fds, nfds_t n, const struct timespec *ts, const sigset_t *ss)
{
  (void) ts; (void) ss;
  return poll (fds, n, 0);
}

/* ------------------------------------------------------------------ agents */
#define MAXAG 8
typedef struct {
  char name[16];
  NiceAgent *agent;
  int alive;
  char addrs[8][32]; int n_addrs;
} Ag;
static Ag ags[MAXAG]; static int n_ags = 0;
static GMainContext *ctx;
static GMainContext *ctx2;   /* a second context an application may move its receive callbacks to (`attach2`) */
static unsigned long n_state_events = 0;

static Ag *find_ag (const char *n)
{
  int i; for (i = 0; i < n_ags; i++) if (!strcmp (ags[i].name, n)) return &ags[i];
  return NULL;
}
static Ag *ag_of (NiceAgent *a)
{
  int i; for (i = 0; i < n_ags; i++) if (ags[i].agent == a) return &ags[i];
  return NULL;
}

static const char *owner_of (const struct sockaddr_in *a)
{
  static char buf[4][16]; static int k = 0; int i, j; char ip[32]; struct in_addr ia = a->sin_addr;
  for (i = 0; i < n_nat; i++) if (ia.s_addr == nat_rules[i].pub.s_addr) ia = nat_rules[i].real;   /* behind a NAT */
  inet_ntop (AF_INET, &ia, ip, sizeof ip);
  for (i = 0; i < n_ags; i++) for (j = 0; j < ags[i].n_addrs; j++) if (!strcmp (ags[i].addrs[j], ip)) return ags[i].name;
  k = (k + 1) % 4; snprintf (buf[k], 16, "?"); return buf[k];
}

/* scripted interface list: every address given to any agent, in declaration order, so that
 * nice_candidate_ip_local_preference() gives distinct local preferences to distinct addresses
 * (the loopback aliases used here are not in the machine's real interface list) */
GList *nice_interfaces_get_local_ips (gboolean include_loopback)
{
  GList *l = NULL; int i, j;
  for (i = 0; i < n_ags; i++) for (j = 0; j < ags[i].n_addrs; j++) l = g_list_append (l, g_strdup (ags[i].addrs[j]));
  return l;
}

static uint64_t now_ms (void) { return verif_now_us / 1000; }

static const char *state_name (guint s)
{
  static const char *n[] = { "DISCONNECTED", "GATHERING", "CONNECTING", "CONNECTED", "READY", "FAILED" };
  return s < 6 ? n[s] : "INVALID";
}

static void addr_str (const NiceAddress *a, char *out)
{
  char ip[INET6_ADDRSTRLEN] = "-";
  if (nice_address_is_valid (a)) nice_address_to_string (a, ip);
  sprintf (out, "%s:%u", ip, nice_address_is_valid (a) ? nice_address_get_port (a) : 0);
}

static void cand_str (const NiceCandidate *c, char *out)
{
  char a[80], b[80];
  addr_str (&c->addr, a); addr_str (&c->base_addr, b);
  sprintf (out, "type=%d tr=%d comp=%u prio=%u addr=%s base=%s found=%s", c->type, c->transport, c->component_id,
      c->priority, a, b, c->foundation);
}

/* last state announced per (agent, stream, component); -1 = nothing announced yet (the getter then says DISCONNECTED) */
#define MAXSID 128
#define MAXCID 8
static int last_announced[MAXAG][MAXSID][MAXCID];
static int last_reported[MAXAG][MAXSID][MAXCID];
static int announced_init = 0;
static void announced_reset (void)
{
  int a, s_, c;
  for (a = 0; a < MAXAG; a++) for (s_ = 0; s_ < MAXSID; s_++) for (c = 0; c < MAXCID; c++) { last_announced[a][s_][c] = -1; last_reported[a][s_][c] = -2; }
  announced_init = 1;
}

static void cb_state (NiceAgent *agent, guint sid, guint cid, guint state, gpointer u)
{
  Ag *g = ag_of (agent);
  if (!announced_init) announced_reset ();
  if (g && sid < MAXSID && cid < MAXCID) last_announced[g - ags][sid][cid] = (int) state;
  NiceComponentState got = nice_agent_get_component_state (agent, sid, cid);
  NiceCandidate *l = NULL, *r = NULL;
  int have = nice_agent_get_selected_pair (agent, sid, cid, &l, &r) ? 1 : 0;
  n_state_events++;
  printf ("ev t=%llu %s state %u %u %s getter=%s havepair=%d\n", (unsigned long long) now_ms (), g ? g->name : "?",
      sid, cid, state_name (state), state_name (got), have);
}
static void cb_gathered (NiceAgent *agent, guint sid, gpointer u)
{
  Ag *g = ag_of (agent);
  printf ("ev t=%llu %s gathering-done %u\n", (unsigned long long) now_ms (), g ? g->name : "?", sid);
}
static void cb_selected (NiceAgent *agent, guint sid, guint cid, NiceCandidate *l, NiceCandidate *r, gpointer u)
{
  Ag *g = ag_of (agent); char a[80], b[80];
  addr_str (&l->addr, a); addr_str (&r->addr, b);
  printf ("ev t=%llu %s selected %u %u local=%s remote=%s ltype=%d rtype=%d lprio=%u rprio=%u\n",
      (unsigned long long) now_ms (), g ? g->name : "?", sid, cid, a, b, l->type, r->type, l->priority, r->priority);
}
static void cb_newcand (NiceAgent *agent, NiceCandidate *c, gpointer u)
{
  Ag *g = ag_of (agent); char s[400];
  cand_str (c, s);
  printf ("ev t=%llu %s new-candidate %u %s\n", (unsigned long long) now_ms (), g ? g->name : "?", c->stream_id, s);
}
static void cb_newremote (NiceAgent *agent, NiceCandidate *c, gpointer u)
{
  Ag *g = ag_of (agent); char s[400];
  cand_str (c, s);
  printf ("ev t=%llu %s new-remote-candidate %u %s\n", (unsigned long long) now_ms (), g ? g->name : "?", c->stream_id, s);
}
static void cb_removed (NiceAgent *agent, guint *ids, gpointer u)
{
  Ag *g = ag_of (agent); int i;
  printf ("ev t=%llu %s streams-removed", (unsigned long long) now_ms (), g ? g->name : "?");
  for (i = 0; ids[i]; i++) printf (" %u", ids[i]);
  printf ("\n");
}
static void cb_writable (NiceAgent *agent, guint sid, guint cid, gpointer u)
{
  Ag *g = ag_of (agent);
  printf ("ev t=%llu %s writable %u %u\n", (unsigned long long) now_ms (), g ? g->name : "?", sid, cid);
}
static void cb_recv (NiceAgent *agent, guint sid, guint cid, guint len, gchar *buf, gpointer u)
{
  Ag *g = ag_of (agent);
  printf ("ev t=%llu %s recv %u %u ", (unsigned long long) now_ms (), g ? g->name : "?", sid, cid);
  print_hex ((uint8_t *) buf, len);
  printf ("\n");
}

/* packet description for the trace */
static void describe_packet (const char *tag, const struct sockaddr_in *from, const struct sockaddr_in *to,
    const uint8_t *d, size_t len)
{
  char fa[32], ta[32];
  inet_ntop (AF_INET, &from->sin_addr, fa, sizeof fa); inet_ntop (AF_INET, &to->sin_addr, ta, sizeof ta);
  printf ("ev t=%llu %s %s %s:%u->%s:%u len=%zu ", (unsigned long long) now_ms (), tag,
      !strcmp (tag, "rx") ? owner_of (to) : owner_of (from),
      fa, ntohs (from->sin_port), ta, ntohs (to->sin_port), len);
  if (len >= 20 && stun_message_validate_buffer_length (d, len, TRUE) == (int) len) {
    StunMessage m; uint64_t tie = 0; uint32_t prio = 0; int role = -1, usec = 0, code = 0; StunTransactionId id;
    memset (&m, 0, sizeof m); m.buffer = (uint8_t *) d; m.buffer_len = len;
    if (stun_message_find64 (&m, STUN_ATTRIBUTE_ICE_CONTROLLING, &tie) == STUN_MESSAGE_RETURN_SUCCESS) role = 1;
    else if (stun_message_find64 (&m, STUN_ATTRIBUTE_ICE_CONTROLLED, &tie) == STUN_MESSAGE_RETURN_SUCCESS) role = 0;
    stun_message_find32 (&m, STUN_ATTRIBUTE_PRIORITY, &prio);
    usec = stun_message_find_flag (&m, STUN_ATTRIBUTE_USE_CANDIDATE) == STUN_MESSAGE_RETURN_SUCCESS;
    stun_message_find_error (&m, &code);
    stun_message_id (&m, id);
    printf ("stun class=%d method=%d role=%d tie=%llu prio=%u usecand=%d err=%d mi=%d txid=", stun_message_get_class (&m),
        stun_message_get_method (&m), role, (unsigned long long) tie, prio, usec, code,
        stun_message_has_attribute (&m, STUN_ATTRIBUTE_MESSAGE_INTEGRITY) ? 1 : 0);
    print_hex (id, 16);
    if (trace_packets >= 2) { printf (" hex="); print_hex (d, len); }
    printf ("\n");
  } else {
    printf ("data ");
    print_hex (d, len > 24 ? 24 : len);
    printf ("\n");
  }
}

/* ------------------------------------------------------------------ main loop under virtual time */
static unsigned tick_cost_us = 20;
static gint glib_timeout (void);
static int iterate_ready (void)
{
  int n = 0;
  /* every dispatching iteration costs a little (virtual) time, as it does on a real clock: without this
   * a timer re-armed with a sub-millisecond remainder (interval 0) would fire for ever at a frozen instant */
  while (g_main_context_iteration (ctx, FALSE)) { n++; verif_now_us += tick_cost_us; if (n > (tick_cost_us ? 20000 : 64)) { if (tick_cost_us) printf ("ev spin-detected\n"); if (getenv ("SIM_DEBUG")) { int k; for (k = 0; k < 3; k++) glib_timeout (); } break; } }
  if (ctx2) {
    /* only socket sources live there (the agent's timers stay on its own context): a source that stays ready without
     * consuming its datagram would keep this loop going for ever */
    int m = 0;
    while (g_main_context_iteration (ctx2, FALSE)) { m++; n++; verif_now_us += tick_cost_us; if (m > 20000) { printf ("ev spin-detected\n"); break; } }
  }
  return n;
}

static unsigned long total_dispatches = 0;

/* earliest GLib timeout in ms (or -1) */
static gint glib_timeout (void)
{
  gint prio, timeout = -1; GPollFD fds[256]; gint n;
  if (!g_main_context_acquire (ctx)) return 0;
  g_main_context_prepare (ctx, &prio);
  n = g_main_context_query (ctx, prio, &timeout, fds, 256);
  if (n > 256) n = 256;
  poll ((struct pollfd *) fds, n, 0);
  if (g_main_context_check (ctx, prio, fds, n)) {
    if (getenv ("SIM_DEBUG")) { int k; fprintf (stderr, "ready t=%llu to=%d:", (unsigned long long) verif_now_us, timeout);
      for (k = 0; k < n; k++) if (fds[k].revents) fprintf (stderr, " fd%d ev%x rev%x vudp%d", fds[k].fd, fds[k].events, fds[k].revents, is_vudp (fds[k].fd)); fprintf (stderr, "\n"); }
    g_main_context_dispatch (ctx); total_dispatches++; timeout = 0; }
  g_main_context_release (ctx);
  return timeout;
}

static void server_pump (void);

static void run_until (uint64_t end_us)
{
  int guard = 0, quiet = 0; uint64_t quiet_at = 0;
  while (1) {
    gint to; uint64_t next;
    total_dispatches += iterate_ready ();
    server_pump ();
    total_dispatches += iterate_ready ();
    to = glib_timeout ();
    if (to == 0) {
      /* with a zero dispatch cost (net tickcost 0) a timer re-armed with a sub-millisecond remainder would fire
       * for ever at a frozen instant: let the instant pass — but only after far more rounds than any finite chain
       * of idle callbacks / datagrams at one instant takes, so that the nudge depends on the instant alone and not
       * on how many (injected) datagrams were handled there: paired runs with and without injected traffic keep
       * identical timing */
      if (tick_cost_us == 0) {
        if (verif_now_us != quiet_at) { quiet_at = verif_now_us; quiet = 0; }
        if (++quiet > 300) { verif_now_us += 1000; quiet = 0; guard = 0; continue; }
      }
      if (++guard > 200000) { printf ("ev spin-detected\n"); break; }
      continue;
    }
    next = end_us;
    if (to > 0 && verif_now_us + (uint64_t) to * 1000 < next) next = verif_now_us + (uint64_t) to * 1000;
    if (netq && netq->due_us < next) next = netq->due_us > verif_now_us ? netq->due_us : verif_now_us;
    if (netq && netq->due_us <= verif_now_us) {
      /* a datagram is due but nobody polled it in (unknown destination): drop it */
      Dgram *g = netq; int known = 0, fd;
      for (fd = 0; fd < MAXFD; fd++) if (udpfd[fd].used && g->to.sin_port == udpfd[fd].addr.sin_port) known = 1;
      if (!known || ++guard > 1000) { netq = g->next; free (g->data); free (g); guard = 0; continue; }
    }
    if (next >= end_us) { verif_now_us = end_us; total_dispatches += iterate_ready (); break; }
    if (next <= verif_now_us) next = verif_now_us + 1000;
    verif_now_us = next;
  }
}

/* ------------------------------------------------------------------ scripted STUN / TURN servers */
typedef struct {
  struct sockaddr_in addr; int kind; /* 0 stun 1 turn */
  char script[256]; int pos; unsigned long nreq;
  char realm[32], nonce[32], user[32], pass[32];
} Server;
static Server servers[8]; static int n_servers = 0;

static bool srv_validater (StunAgent *agent, StunMessage *message, uint8_t *username, uint16_t username_len,
    uint8_t **password, size_t *password_len, void *user_data)
{
  Server *s = user_data;
  if (username_len != strlen (s->user) || memcmp (username, s->user, username_len)) return FALSE;
  *password = (uint8_t *) s->pass; *password_len = strlen (s->pass);
  return TRUE;
}

/* behaviours, one letter per request (the last letter repeats):
 *  d drop | s success | S success twice | l late success (+700 ms) | e error 400 | E error 500 | u 401 with realm/nonce
 *  n 438 stale nonce | r 300 try-alternate (127.0.0.99:3478) | g garbage | x success carrying another transaction id
 *  m success WITHOUT message integrity (turn) | 6 success with an IPv6 mapped address
 *  R (turn) success whose relayed address shares the IP of the mapped address (TURN server on the NAT gateway)
 *  a (turn) authenticate: valid long-term credentials -> signed success, otherwise 401 with realm/nonce
 *  V (turn) as `a`, but the success carries an IPv4 mapped and an IPv6 relayed address (dual-stack relay, RFC 6156: 2001:db8::<last octet of the server, hex>) */
static void srv_reply (Server *s, Dgram *g, char b)
{
  StunAgent sa; StunMessage req, resp; uint8_t buf[1500]; size_t len = 0;
  static const uint16_t known[] = { STUN_ATTRIBUTE_REQUESTED_TRANSPORT, STUN_ATTRIBUTE_LIFETIME, STUN_ATTRIBUTE_USERNAME,
    STUN_ATTRIBUTE_REALM, STUN_ATTRIBUTE_NONCE, STUN_ATTRIBUTE_MESSAGE_INTEGRITY, STUN_ATTRIBUTE_SOFTWARE,
    STUN_ATTRIBUTE_FINGERPRINT, STUN_ATTRIBUTE_XOR_PEER_ADDRESS, STUN_ATTRIBUTE_CHANNEL_NUMBER, STUN_ATTRIBUTE_DATA,
    STUN_ATTRIBUTE_DONT_FRAGMENT, STUN_ATTRIBUTE_EVEN_PORT, 0 };
  struct sockaddr_in mapped = g->from;
  uint64_t due = verif_now_us + 1000;
  StunValidationStatus vs = STUN_VALIDATION_SUCCESS;
  int authed = 0;
  memset (&req, 0, sizeof req);
  if (g->len < 20 || stun_message_validate_buffer_length (g->data, g->len, TRUE) != (int) g->len) return;
  if (s->kind == 1) {
    stun_agent_init (&sa, known, STUN_COMPATIBILITY_RFC5389, STUN_AGENT_USAGE_LONG_TERM_CREDENTIALS);
    vs = stun_agent_validate (&sa, &req, g->data, g->len, srv_validater, s);
    authed = (vs == STUN_VALIDATION_SUCCESS || vs == STUN_VALIDATION_UNKNOWN_REQUEST_ATTRIBUTE) && req.key != NULL;
    if (req.buffer == NULL) { req.buffer = g->data; req.buffer_len = g->len; req.agent = &sa; }
  } else {
    stun_agent_init (&sa, known, STUN_COMPATIBILITY_RFC5389, STUN_AGENT_USAGE_IGNORE_CREDENTIALS);
    req.buffer = g->data; req.buffer_len = g->len; req.agent = &sa;
  }
  if (stun_message_get_class (&req) != STUN_REQUEST) return;  /* indications ignored */
  s->nreq++;
  if (b == 'a') b = authed ? 's' : 'u';
  if (b == 'V') b = authed ? 'v' : 'u';
  printf ("ev t=%llu server %s:%u req method=%d behaviour=%c authed=%d txid=", (unsigned long long) now_ms (),
      inet_ntoa (s->addr.sin_addr), ntohs (s->addr.sin_port), stun_message_get_method (&req), b, authed);
  { StunTransactionId rid; stun_message_id (&req, rid); print_hex (rid, 16); }
  printf (" from=%s:%u\n", inet_ntoa (g->from.sin_addr), ntohs (g->from.sin_port));
  if (b == 'd') return;
  if (b == 'g') { uint8_t junk[40]; int i; for (i = 0; i < 40; i++) junk[i] = rng_next (); enqueue (&s->addr, &g->from, junk, 40, due); return; }
  if (b == 'l') due += 700000;
  if (b == 's' || b == 'S' || b == 'l' || b == 'x' || b == 'm' || b == '6' || b == 'R' || b == 'v') {
    if (b == 'm') { req.key = NULL; req.key_len = 0; req.long_term_valid = FALSE; }
    if (!stun_agent_init_response (&sa, &resp, buf, sizeof buf, &req)) return;
    if (b == '6') {
      struct sockaddr_in6 m6; memset (&m6, 0, sizeof m6); m6.sin6_family = AF_INET6; m6.sin6_port = htons (4242);
      inet_pton (AF_INET6, "2001:db8::7", &m6.sin6_addr);
      stun_message_append_xor_addr (&resp, STUN_ATTRIBUTE_XOR_MAPPED_ADDRESS, (struct sockaddr_storage *) &m6, sizeof m6);
    } else {
      /* pretend a NAT: map to 192.0.2.<last octet of the server> with the same port */
      char ip[32]; snprintf (ip, sizeof ip, "192.0.2.%u", (unsigned) (ntohl (s->addr.sin_addr.s_addr) & 0xff));
      inet_pton (AF_INET, ip, &mapped.sin_addr);
      stun_message_append_xor_addr (&resp, STUN_ATTRIBUTE_XOR_MAPPED_ADDRESS, (struct sockaddr_storage *) &mapped, sizeof mapped);
    }
    if (s->kind == 1 && stun_message_get_method (&req) == STUN_ALLOCATE) {
      struct sockaddr_in rel = s->addr; rel.sin_port = htons (49152 + (s->nreq % 1000));
      if (b == 'R') rel.sin_addr = mapped.sin_addr;     /* relayed address on the same IP as the mapped (NAT gateway) address */
      if (b == 'v') {
        struct sockaddr_in6 r6; memset (&r6, 0, sizeof r6); r6.sin6_family = AF_INET6; r6.sin6_port = rel.sin_port;
        { char ip6[48]; snprintf (ip6, sizeof ip6, "2001:db8::%x", (unsigned) (ntohl (s->addr.sin_addr.s_addr) & 0xff));   /* one per server */
          inet_pton (AF_INET6, ip6, &r6.sin6_addr); }
        stun_message_append_xor_addr (&resp, STUN_ATTRIBUTE_RELAY_ADDRESS, (struct sockaddr_storage *) &r6, sizeof r6);
      } else
      stun_message_append_xor_addr (&resp, STUN_ATTRIBUTE_RELAY_ADDRESS, (struct sockaddr_storage *) &rel, sizeof rel);
      stun_message_append32 (&resp, STUN_ATTRIBUTE_LIFETIME, 600);
    }
    len = stun_agent_finish_message (&sa, &resp, NULL, 0);
    if (b == 'x' && len > 10) buf[10] ^= 0x55;
  } else {
    int code = b == 'e' ? 400 : b == 'E' ? 500 : b == 'u' ? 401 : b == 'n' ? 438 : b == 'r' ? 300 : 400;
    req.key = NULL; req.key_len = 0; req.long_term_valid = FALSE;
    if (!stun_agent_init_error (&sa, &resp, buf, sizeof buf, &req, code)) return;
    if (b == 'u' || b == 'n') {
      char nonce[32]; snprintf (nonce, sizeof nonce, "nonce-%lu", s->nreq);
      stun_message_append_string (&resp, STUN_ATTRIBUTE_REALM, "verif.realm");
      stun_message_append_string (&resp, STUN_ATTRIBUTE_NONCE, nonce);
    }
    if (b == 'r') {
      struct sockaddr_in alt = s->addr; inet_pton (AF_INET, "127.0.0.99", &alt.sin_addr);
      stun_message_append_addr (&resp, STUN_ATTRIBUTE_ALTERNATE_SERVER, (struct sockaddr *) &alt, sizeof alt);
    }
    len = stun_agent_finish_message (&sa, &resp, NULL, 0);
  }
  if (len > 0) {
    enqueue (&s->addr, &g->from, buf, len, due);
    if (b == 'S') enqueue (&s->addr, &g->from, buf, len, due + 2000);
  }
}

static int server_handle (Dgram *g)
{
  int i;
  for (i = 0; i < n_servers; i++) {
    Server *s = &servers[i];
    if (s->addr.sin_port == g->to.sin_port && s->addr.sin_addr.s_addr == g->to.sin_addr.s_addr) {
      char b = s->script[s->pos] ? s->script[s->pos] : 'd';
      StunMessage req; memset (&req, 0, sizeof req); req.buffer = g->data; req.buffer_len = g->len;
      if (g->len >= 20 && stun_message_validate_buffer_length (g->data, g->len, TRUE) == (int) g->len &&
          stun_message_get_class (&req) == STUN_REQUEST && s->script[s->pos] && s->script[s->pos + 1]) s->pos++;
      srv_reply (s, g, b);
      return 1;
    }
  }
  return 0;
}

static void server_pump (void)
{
  Dgram **pp = &netq;
  while (*pp && (*pp)->due_us <= verif_now_us) {
    Dgram *g = *pp; int i, mine = 0;
    for (i = 0; i < n_servers; i++)
      if (servers[i].addr.sin_port == g->to.sin_port && servers[i].addr.sin_addr.s_addr == g->to.sin_addr.s_addr) mine = 1;
    if (mine) { *pp = g->next; server_handle (g); free (g->data); free (g); pp = &netq; }
    else pp = &g->next;
  }
}

/* ------------------------------------------------------------------ ops */
static int parse_ipport (const char *s, struct sockaddr_in *sa)
{
  char ip[64]; const char *c = strrchr (s, ':');
  if (!c || c - s >= (long) sizeof ip) return 0;
  memcpy (ip, s, c - s); ip[c - s] = 0;
  memset (sa, 0, sizeof *sa); sa->sin_family = AF_INET; sa->sin_port = htons (atoi (c + 1));
  return inet_pton (AF_INET, ip, &sa->sin_addr) == 1;
}

static const char *kv (char **w, int n, const char *key, const char *def)
{
  int i; size_t l = strlen (key);
  for (i = 0; i < n; i++) if (!strncmp (w[i], key, l) && w[i][l] == '=') return w[i] + l + 1;
  return def;
}

static void op_new (char **w, int n)
{
  Ag *g; guint opts; const char *addrs; char tmp[256], *p;
  if (n_ags >= MAXAG) { puts ("err too many agents"); return; }
  g = &ags[n_ags++]; memset (g, 0, sizeof *g);
  snprintf (g->name, sizeof g->name, "%s", w[1]);
  opts = atoi (kv (w, n, "opts", "0"));
  g->agent = nice_agent_new_full (ctx, atoi (kv (w, n, "compat", "0")), opts);
  g->alive = 1;
  g_object_set (g->agent, "upnp", FALSE, "controlling-mode", atoi (kv (w, n, "ctrl", "1")),
      "stun-pacing-timer", atoi (kv (w, n, "ta", "20")),
      "stun-initial-timeout", atoi (kv (w, n, "rto", "500")),
      "stun-max-retransmissions", atoi (kv (w, n, "rc", "3")),
      "ice-tcp", atoi (kv (w, n, "icetcp", "0")), "ice-udp", atoi (kv (w, n, "iceudp", "1")),
      "keepalive-conncheck", atoi (kv (w, n, "keepalive", "0")),
      "max-connectivity-checks", atoi (kv (w, n, "maxchecks", "100")),
      "idle-timeout", atoi (kv (w, n, "idle", "5000")), NULL);
  if (kv (w, n, "bytestream", NULL)) g_object_set (g->agent, "bytestream-tcp", atoi (kv (w, n, "bytestream", "0")), NULL);
  if (kv (w, n, "forcerelay", NULL)) g_object_set (g->agent, "force-relay", atoi (kv (w, n, "forcerelay", "0")), NULL);
  if (kv (w, n, "stunsrv", NULL)) {
    struct sockaddr_in sa; char ip[32];
    if (parse_ipport (kv (w, n, "stunsrv", NULL), &sa)) {
      inet_ntop (AF_INET, &sa.sin_addr, ip, sizeof ip);
      g_object_set (g->agent, "stun-server", ip, "stun-server-port", ntohs (sa.sin_port), NULL);
    }
  }
  addrs = kv (w, n, "addrs", n_ags == 1 ? "127.0.0.1" : "127.0.1.1");
  snprintf (tmp, sizeof tmp, "%s", addrs);
  for (p = strtok (tmp, ","); p && g->n_addrs < 8; p = strtok (NULL, ",")) {
    NiceAddress a; nice_address_init (&a);
    if (nice_address_set_from_string (&a, p)) { nice_agent_add_local_address (g->agent, &a); snprintf (g->addrs[g->n_addrs++], 32, "%s", p); }
  }
  g_signal_connect (g->agent, "component-state-changed", G_CALLBACK (cb_state), NULL);
  g_signal_connect (g->agent, "candidate-gathering-done", G_CALLBACK (cb_gathered), NULL);
  g_signal_connect (g->agent, "new-selected-pair-full", G_CALLBACK (cb_selected), NULL);
  g_signal_connect (g->agent, "new-candidate-full", G_CALLBACK (cb_newcand), NULL);
  g_signal_connect (g->agent, "new-remote-candidate-full", G_CALLBACK (cb_newremote), NULL);
  g_signal_connect (g->agent, "streams-removed", G_CALLBACK (cb_removed), NULL);
  g_signal_connect (g->agent, "reliable-transport-writable", G_CALLBACK (cb_writable), NULL);
  { guint64 tb = 0; printf ("ok agent %s\n", g->name); (void) tb; }
}

static void print_checklist (Ag *g, guint sid)
{
  NiceStream *s; GSList *i;
  agent_lock (g->agent);
  s = agent_find_stream (g->agent, sid);
  printf ("ok role=%d", g->agent->controlling_mode ? 1 : 0);
  if (s) for (i = s->conncheck_list; i; i = i->next) {
    CandidateCheckPair *p = i->data; char a[80], b[80];
    addr_str (&p->local->addr, a); addr_str (&p->remote->addr, b);
    printf (" %llu:%d:%d:%d:%u:%s>%s:%u:%u", (unsigned long long) p->priority, p->state, p->nominated, p->valid, p->component_id, a, b,
        p->local->priority, p->remote->priority);
  }
  printf ("\n");
  agent_unlock (g->agent);
}


/* lifecycle snapshot: stream ids tagged on the agent's internal containers (Nice.Model.Lifecycle).
 * A refresh that is being disposed asynchronously is suffixed with '!'. */
static void
print_res (NiceAgent *agent)
{
  GSList *i;
  if (agent == NULL) { printf ("dead"); return; }
  agent_lock (agent);
  printf ("streams");
  for (i = agent->streams; i; i = i->next) printf (" %u", ((NiceStream *) i->data)->id);
  printf (" discovery");
  for (i = agent->discovery_list; i; i = i->next) printf (" %u", ((CandidateDiscovery *) i->data)->stream_id);
  printf (" refreshes");
  for (i = agent->refresh_list; i; i = i->next) printf (" %u%s", ((CandidateRefresh *) i->data)->stream_id, ((CandidateRefresh *) i->data)->disposing ? "!" : "");
  printf (" triggered");
  for (i = agent->triggered_check_queue; i; i = i->next) printf (" %u", ((CandidateCheckPair *) i->data)->stream_id);
  printf (" checklists");
  for (i = agent->streams; i; i = i->next) printf (" %u:%u", ((NiceStream *) i->data)->id, g_slist_length (((NiceStream *) i->data)->conncheck_list));
  printf (" pruning");
  for (i = agent->pruning_streams; i; i = i->next) printf (" %u", ((NiceStream *) i->data)->id);
  printf (" keepalive %d conncheck %d discoverytimer %d next %u unsched %u", agent->keepalive_timer_source != NULL,
      agent->conncheck_timer_source != NULL, agent->discovery_timer_source != NULL, agent->next_stream_id,
      agent->discovery_unsched_items);
  agent_unlock (agent);
}

static struct { char name[16]; int fd; } foreign_tcp[8];

/* C11: "the announced state always matches what the state getter returns": evaluated whenever control is back with
 * the application, i.e. after every public call and every dispatch batch (= before the next script line is executed) */
static void check_getters (const char *after)
{
  int a;
  if (!announced_init) announced_reset ();
  for (a = 0; a < n_ags; a++) {
    GSList *i; guint c;
    if (!ags[a].alive || !ags[a].agent) continue;
    agent_lock (ags[a].agent);
    for (i = ags[a].agent->streams; i; i = i->next) {
      NiceStream *st = i->data;
      for (c = 1; c <= st->n_components && c < MAXCID; c++) {
        NiceComponent *comp = NULL; int ann, got;
        if (st->id >= MAXSID || !agent_find_component (ags[a].agent, st->id, c, NULL, &comp) || !comp) continue;
        got = (int) comp->state; ann = last_announced[a][st->id][c];
        if ((ann == -1 ? 0 : ann) != got) {
          if (last_reported[a][st->id][c] != got * 16 + (ann + 1)) {
            last_reported[a][st->id][c] = got * 16 + (ann + 1);
            printf ("ev t=%llu %s getter-mismatch %u %u getter=%s announced=%s after=%s\n", (unsigned long long) now_ms (),
                ags[a].name, st->id, c, state_name (got), ann == -1 ? "nothing" : state_name (ann), after);
          }
        } else last_reported[a][st->id][c] = -2;
      }
    }
    agent_unlock (ags[a].agent);
  }
}

int main (void)
{
  static char line[1 << 20]; char *w[MAXW]; static char prev_op[32] = "start";
  setvbuf (stdout, NULL, _IOFBF, 1 << 20);
  verif_now_us = 1000000000ULL;   /* start at t = 1000 s so that "0 = unset" sentinels are not hit */
  ctx = g_main_context_new ();
  g_main_context_push_thread_default (ctx);
  while (fgets (line, sizeof line, stdin)) {
    int n; Ag *g;
    if (line[0] == '#' || line[0] == '\n') continue;
    n = split_words (line, w);
    if (n == 0) continue;
    check_getters (prev_op);
    snprintf (prev_op, sizeof prev_op, "%s", w[0]);
    if (!strcmp (w[0], "new") && n >= 2) op_new (w, n);
    else if (!strcmp (w[0], "stream") && n == 3 && (g = find_ag (w[1]))) {
      guint id;
      printf ("ev lc add %s pre ", g->name); print_res (g->agent); putchar ('\n');
      id = nice_agent_add_stream (g->agent, atoi (w[2]));
      printf ("ev lc add %s post ", g->name); print_res (g->agent); putchar ('\n');
      printf ("ok stream %u\n", id);
    }
    else if (!strcmp (w[0], "attach") && n == 3 && (g = find_ag (w[1]))) {
      guint sid = atoi (w[2]), c; NiceStream *s;
      agent_lock (g->agent); s = agent_find_stream (g->agent, sid); c = s ? s->n_components : 0; agent_unlock (g->agent);
      for (; c >= 1; c--) nice_agent_attach_recv (g->agent, sid, c, ctx, cb_recv, NULL);
      puts ("ok");
    }
    else if (!strcmp (w[0], "attach2") && n == 3 && (g = find_ag (w[1]))) {
      /* the application moves the receive callbacks of a stream to another main context */
      guint sid = atoi (w[2]), c; NiceStream *s;
      if (!ctx2) ctx2 = g_main_context_new ();
      agent_lock (g->agent); s = agent_find_stream (g->agent, sid); c = s ? s->n_components : 0; agent_unlock (g->agent);
      for (; c >= 1; c--) nice_agent_attach_recv (g->agent, sid, c, ctx2, cb_recv, NULL);
      total_dispatches += iterate_ready ();
      puts ("ok");
    }
    else if (!strcmp (w[0], "gather") && (n == 3 || n == 4) && (g = find_ag (w[1]))) {
      /* `gather A 1 noiter`: return to the application without running the main loop (asynchronous work such as the
       * resolution of the STUN server name is still pending when the next call is made) */
      gboolean r = nice_agent_gather_candidates (g->agent, atoi (w[2]));
      if (n == 3) total_dispatches += iterate_ready ();
      printf ("ok ret %d\n", r);
    }
    else if (!strcmp (w[0], "creds") && n == 5) {
      Ag *a = find_ag (w[1]), *b = find_ag (w[3]); gchar *u = NULL, *p = NULL; gboolean r = FALSE;
      if (a && b && nice_agent_get_local_credentials (a->agent, atoi (w[2]), &u, &p))
        r = nice_agent_set_remote_credentials (b->agent, atoi (w[4]), u, p);
      printf ("ok ret %d ufrag %s pwd %s\n", r, u ? u : "-", p ? p : "-");
      g_free (u); g_free (p);
      total_dispatches += iterate_ready ();
    }
    else if (!strcmp (w[0], "getcreds") && n == 3 && (g = find_ag (w[1]))) {
      gchar *u = NULL, *p = NULL;
      gboolean r = nice_agent_get_local_credentials (g->agent, atoi (w[2]), &u, &p);
      printf ("ok ret %d ufrag %s pwd %s\n", r, u ? u : "-", p ? p : "-");
      g_free (u); g_free (p);
    }
    else if (!strcmp (w[0], "cands") && n >= 6) {
      Ag *a = find_ag (w[1]), *b = find_ag (w[4]); int idx = n >= 7 ? atoi (w[6]) : -1, k = 0, r = -99;
      if (a && b) {
        GSList *l = nice_agent_get_local_candidates (a->agent, atoi (w[2]), atoi (w[3])), *i, *sub = NULL;
        for (i = l; i; i = i->next, k++) if (idx < 0 || k == idx) sub = g_slist_append (sub, i->data);
        r = sub ? nice_agent_set_remote_candidates (b->agent, atoi (w[5]), atoi (w[3]), sub) : 0;
        g_slist_free (sub);
        g_slist_free_full (l, (GDestroyNotify) nice_candidate_free);
      }
      total_dispatches += iterate_ready ();
      printf ("ok ret %d of %d\n", r, k);
    }
    else if (!strcmp (w[0], "localcands") && n == 4 && (g = find_ag (w[1]))) {
      GSList *l = nice_agent_get_local_candidates (g->agent, atoi (w[2]), atoi (w[3])), *i;
      for (i = l; i; i = i->next) { char s[400]; cand_str (i->data, s); printf ("ev cand %s\n", s); }
      printf ("ok %u\n", g_slist_length (l));
      g_slist_free_full (l, (GDestroyNotify) nice_candidate_free);
    }
    else if (!strcmp (w[0], "remotecands") && n == 4 && (g = find_ag (w[1]))) {
      GSList *l = nice_agent_get_remote_candidates (g->agent, atoi (w[2]), atoi (w[3])), *i;
      for (i = l; i; i = i->next) { char s[400]; cand_str (i->data, s); printf ("ev rcand %s\n", s); }
      printf ("ok %u\n", g_slist_length (l));
      g_slist_free_full (l, (GDestroyNotify) nice_candidate_free);
    }
    else if (!strcmp (w[0], "run") && n == 2) {
      run_until (verif_now_us + strtoull (w[1], NULL, 10) * 1000);
      printf ("ok t=%llu\n", (unsigned long long) now_ms ());
    }
    else if (!strcmp (w[0], "runidle") && n == 2) {
      uint64_t end = verif_now_us + strtoull (w[1], NULL, 10) * 1000;
      while (verif_now_us < end) {
        unsigned long s0 = n_state_events, d0 = n_sent;
        uint64_t step = verif_now_us + 2000000 < end ? verif_now_us + 2000000 : end;
        run_until (step);
        if (s0 == n_state_events && !netq && d0 == n_sent) break;
      }
      printf ("ok t=%llu\n", (unsigned long long) now_ms ());
    }
    else if (!strcmp (w[0], "send") && n == 5 && (g = find_ag (w[1]))) {
      /* the message may be split over several exactly-sized buffers: <hex>,<hex>,... ("-" = empty buffer) */
      GOutputVector v[16]; int nv = 0, k; GError *e = NULL; gssize r; char *tok, *save = NULL;
      NiceOutputMessage m;
      for (tok = strtok_r (w[4], ",", &save); tok && nv < 16; tok = strtok_r (NULL, ",", &save)) {
        uint8_t *b; long l = parse_hex (tok, &b);
        if (l < 0) break;
        v[nv].buffer = b; v[nv].size = l; nv++;
      }
      m.buffers = v; m.n_buffers = nv;
      r = nice_agent_send_messages_nonblocking (g->agent, atoi (w[2]), atoi (w[3]), &m, 1, NULL, &e);
      total_dispatches += iterate_ready ();
      if (e) { printf ("ok ret %zd err %s-%d\n", r, g_quark_to_string (e->domain), e->code); g_error_free (e); }
      else printf ("ok ret %zd\n", r);
      for (k = 0; k < nv; k++) free ((void *) v[k].buffer);
    }
    else if (!strcmp (w[0], "sendm") && n == 5 && (g = find_ag (w[1]))) {
      /* several messages in ONE nice_agent_send_messages_nonblocking call: messages separated by '/', each given as
       * <len>:<seed> (byte j = (seed * 31 + j * 13) & 0xff) split over two buffers; returns how many were accepted */
      NiceOutputMessage ms[16]; GOutputVector vs[32]; int nm = 0, k; GError *e = NULL; gint r; char *tok, *save = NULL;
      for (tok = strtok_r (w[4], "/", &save); tok && nm < 16; tok = strtok_r (NULL, "/", &save)) {
        long len = atol (tok); int seed = strchr (tok, ':') ? atoi (strchr (tok, ':') + 1) : 0; long j, cut;
        uint8_t *b;
        if (len < 0 || len > 1 << 20) break;
        b = malloc (len ? (size_t) len : 1);
        for (j = 0; j < len; j++) b[j] = (uint8_t) (seed * 31 + j * 13);
        cut = len / 3;
        vs[2 * nm].buffer = b; vs[2 * nm].size = (gsize) cut;
        vs[2 * nm + 1].buffer = b + cut; vs[2 * nm + 1].size = (gsize) (len - cut);
        ms[nm].buffers = &vs[2 * nm]; ms[nm].n_buffers = 2; nm++;
      }
      r = nice_agent_send_messages_nonblocking (g->agent, atoi (w[2]), atoi (w[3]), ms, nm, NULL, &e);
      total_dispatches += iterate_ready ();
      if (e) { printf ("ok ret %d err %s-%d\n", r, g_quark_to_string (e->domain), e->code); g_error_free (e); }
      else printf ("ok ret %d\n", r);
      for (k = 0; k < nm; k++) free ((void *) vs[2 * k].buffer);
    }
    else if (!strcmp (w[0], "recvnb") && n == 5 && (g = find_ag (w[1]))) {
      /* nice_agent_recv_messages_nonblocking into ONE message scattered over exactly-sized buffers of the given sizes
       * (a,b,c); the buffers are pre-filled with 0xEE so that a gap left by the library shows in the gathered bytes */
      GInputVector v[16]; int nv = 0, k; GError *e = NULL; gint r; char *tok, *save = NULL; NiceInputMessage m; gsize left;
      for (tok = strtok_r (w[4], ",", &save); tok && nv < 16; tok = strtok_r (NULL, ",", &save)) {
        long l = atol (tok); if (l < 0 || l > 1 << 20) break;
        v[nv].buffer = malloc (l ? (size_t) l : 1); if (l == 0) { free (v[nv].buffer); v[nv].buffer = malloc (0); }
        memset (v[nv].buffer, 0xEE, (size_t) l); v[nv].size = (gsize) l; nv++;
      }
      m.buffers = v; m.n_buffers = nv; m.from = NULL; m.length = 0;
      r = nice_agent_recv_messages_nonblocking (g->agent, atoi (w[2]), atoi (w[3]), &m, 1, NULL, &e);
      total_dispatches += iterate_ready ();
      if (e) { printf ("ok ret %d err %s-%d", r, g_quark_to_string (e->domain), e->code); g_error_free (e); }
      else printf ("ok ret %d", r);
      printf (" len %zu data ", r > 0 ? (size_t) m.length : 0);
      left = r > 0 ? m.length : 0;
      if (left == 0) putchar ('-');
      for (k = 0; k < nv && left > 0; k++) { gsize c = left < v[k].size ? left : v[k].size; print_hex (v[k].buffer, c); left -= c; }
      putchar ('\n');
      for (k = 0; k < nv; k++) free (v[k].buffer);
    }
    else if (!strcmp (w[0], "restart") && n == 2 && (g = find_ag (w[1]))) { printf ("ok ret %d\n", nice_agent_restart (g->agent)); total_dispatches += iterate_ready (); }
    else if (!strcmp (w[0], "restartstream") && n == 3 && (g = find_ag (w[1]))) { printf ("ok ret %d\n", nice_agent_restart_stream (g->agent, atoi (w[2]))); total_dispatches += iterate_ready (); }
    else if (!strcmp (w[0], "rmstream") && n == 3 && (g = find_ag (w[1]))) {
      printf ("ev lc rm %s %s pre ", g->name, w[2]); print_res (g->agent); putchar ('\n');
      nice_agent_remove_stream (g->agent, atoi (w[2]));
      printf ("ev lc rm %s %s post ", g->name, w[2]); print_res (g->agent); putchar ('\n');
      printf ("ev t=%llu %s rmstream-returned %s\n", (unsigned long long) now_ms (), g->name, w[2]); total_dispatches += iterate_ready (); puts ("ok"); }
    else if (!strcmp (w[0], "consentlost") && n == 4 && (g = find_ag (w[1]))) { printf ("ok ret %d\n", nice_agent_consent_lost (g->agent, atoi (w[2]), atoi (w[3]))); total_dispatches += iterate_ready (); }
    else if (!strcmp (w[0], "setrole") && n == 3 && (g = find_ag (w[1]))) { g_object_set (g->agent, "controlling-mode", atoi (w[2]), NULL); puts ("ok"); }
    else if (!strcmp (w[0], "relay") && n == 8 && (g = find_ag (w[1]))) {
      struct sockaddr_in sa; char ip[32]; gboolean r = FALSE;
      if (parse_ipport (w[4], &sa)) { inet_ntop (AF_INET, &sa.sin_addr, ip, sizeof ip);
        r = nice_agent_set_relay_info (g->agent, atoi (w[2]), atoi (w[3]), ip, ntohs (sa.sin_port), w[5], w[6], atoi (w[7])); }
      printf ("ok ret %d\n", r);
    }
    else if (!strcmp (w[0], "net") && n >= 3) {
      if (!strcmp (w[1], "latency") && n == 4) { lat_min = atoi (w[2]); lat_max = atoi (w[3]); puts ("ok"); }
      else if (!strcmp (w[1], "loss") && n == 4) { loss_pct = atoi (w[2]); loss_maxconsec = atoi (w[3]); puts ("ok"); }
      else if (!strcmp (w[1], "dup") && n == 3) { dup_pct = atoi (w[2]); puts ("ok"); }
      else if (!strcmp (w[1], "seed") && n == 3) {
        net_rng = strtoull (w[2], NULL, 10) * 2654435761ULL + 88172645463325252ULL;
        nonce_rng = net_rng ^ 0x9e3779b97f4a7c15ULL;
        g_random_set_seed ((guint32) strtoull (w[2], NULL, 10));   /* libnice's NiceRNG draws from GLib's global RNG */
        puts ("ok");
      }
      else if (!strcmp (w[1], "dropnext") && n == 3) { dropnext = atoi (w[2]); puts ("ok"); }
      else if (!strcmp (w[1], "tickcost") && n == 3) {
        tick_cost_us = atoi (w[2]);
        /* with no dispatch cost the clock only moves to datagram due times and GLib timeouts, all whole milliseconds
         * from here on: start on a millisecond boundary, so that the moment a GLib timeout (millisecond resolution,
         * rounded up) fires does not depend on the sub-millisecond phase of whatever woke the loop before it */
        if (tick_cost_us == 0) verif_now_us = (verif_now_us + 999) / 1000 * 1000;
        puts ("ok");
      }
      else if (!strcmp (w[1], "nat") && n == 4 && n_nat < 8) {
        if (inet_pton (AF_INET, w[2], &nat_rules[n_nat].real) == 1 && inet_pton (AF_INET, w[3], &nat_rules[n_nat].pub) == 1) { n_nat++; puts ("ok"); }
        else puts ("err bad nat");
      }
      else if (!strcmp (w[1], "trace") && n == 3) { trace_packets = atoi (w[2]); puts ("ok"); }
      else if (!strcmp (w[1], "blackout") && n == 6 && n_blackouts < 32) {
        Blackout *b = &blackouts[n_blackouts++];
        snprintf (b->src, 16, "%s", w[2]); snprintf (b->dst, 16, "%s", w[3]);
        b->from_ms = strtoull (w[4], NULL, 10); b->to_ms = strtoull (w[5], NULL, 10); puts ("ok");
      } else puts ("err bad net op");
    }
    else if (!strcmp (w[0], "inject") && n == 4) {
      struct sockaddr_in f, t; uint8_t *b; long l = parse_hex (w[3], &b);
      if (l >= 0 && parse_ipport (w[1], &f) && parse_ipport (w[2], &t)) { enqueue (&f, &t, b, l, verif_now_us + 1000); puts ("ok"); }
      else puts ("err bad inject");
      free (b);
    }
    else if (!strcmp (w[0], "server") && n >= 4 && n_servers < 8) {
      Server *s = &servers[n_servers]; memset (s, 0, sizeof *s);
      snprintf (s->user, sizeof s->user, "%s", n >= 5 ? w[4] : "user"); snprintf (s->pass, sizeof s->pass, "%s", n >= 6 ? w[5] : "pass");
      if (parse_ipport (w[1], &s->addr)) { s->kind = !strcmp (w[2], "turn"); snprintf (s->script, sizeof s->script, "%s", w[3]); n_servers++; puts ("ok"); }
      else puts ("err bad server");
    }
    else if (!strcmp (w[0], "q") && n == 4 && (g = find_ag (w[1]))) {
      guint sid = atoi (w[2]), cid = atoi (w[3]); NiceCandidate *l = NULL, *r = NULL; char a[80] = "-", b[80] = "-";
      gboolean ctrl = FALSE; NiceComponentState st = nice_agent_get_component_state (g->agent, sid, cid);
      g_object_get (g->agent, "controlling-mode", &ctrl, NULL);
      if (nice_agent_get_selected_pair (g->agent, sid, cid, &l, &r)) { addr_str (&l->addr, a); addr_str (&r->addr, b); }
      printf ("ok state %s role %d saved_role %d local %s remote %s\n", state_name (st),
          g->agent->controlling_mode ? 1 : 0, ctrl, a, b);
    }
    else if (!strcmp (w[0], "checklist") && n == 3 && (g = find_ag (w[1]))) print_checklist (g, atoi (w[2]));
    else if (!strcmp (w[0], "stats")) {
      printf ("ok t=%llu sent=%lu dropped=%lu delivered=%lu dup=%lu dispatches=%lu queued=%d\n", (unsigned long long) now_ms (),
          n_sent, n_dropped, n_delivered, n_dup, total_dispatches, netq != NULL);
    }
    else if (!strcmp (w[0], "unref") && n == 2 && (g = find_ag (w[1]))) {
      if (g->alive) { g_object_unref (g->agent); g->alive = 0; g->agent = NULL; }
      total_dispatches += iterate_ready ();
      puts ("ok");
    }
    else if (!strcmp (w[0], "res") && n == 2 && (g = find_ag (w[1])) && g->alive) {
      /* stream ids tagged on the agent's internal containers (for the lifecycle model) */
      printf ("ok "); print_res (g->agent); putchar ('\n');
    }
    else if (!strcmp (w[0], "sdp") && n == 3) {
      Ag *a = find_ag (w[1]), *b = find_ag (w[2]);
      if (a && b && a->alive && b->alive) {
        gchar *sdp = nice_agent_generate_local_sdp (a->agent);
        int r = nice_agent_parse_remote_sdp (b->agent, sdp);
        total_dispatches += iterate_ready ();
        printf ("ok ret %d len %zu\n", r, sdp ? strlen (sdp) : 0);
        g_free (sdp);
      } else puts ("err no agent");
    }
    else if (!strcmp (w[0], "forgetrelays") && n == 4 && (g = find_ag (w[1])) && g->alive) {
      printf ("ok ret %d\n", nice_agent_forget_relays (g->agent, atoi (w[2]), atoi (w[3])));
      total_dispatches += iterate_ready ();
    }
    else if (!strcmp (w[0], "closeasync") && n == 2 && (g = find_ag (w[1])) && g->alive) {
      nice_agent_close_async (g->agent, NULL, NULL);
      total_dispatches += iterate_ready ();
      puts ("ok");
    }
    else if (!strcmp (w[0], "selpair") && n == 6 && (g = find_ag (w[1])) && g->alive) {
      printf ("ok ret %d\n", nice_agent_set_selected_pair (g->agent, atoi (w[2]), atoi (w[3]), w[4], w[5]));
      total_dispatches += iterate_ready ();
    }
    else if (!strcmp (w[0], "selremote") && n >= 6 && (g = find_ag (w[1])) && g->alive) {
      /* nice_agent_set_selected_remote_candidate with a host candidate <ip> <port> [tcp-act|tcp-pass] */
      NiceCandidate *c = nice_candidate_new (NICE_CANDIDATE_TYPE_HOST); gboolean r = FALSE;
      c->transport = n >= 7 && !strcmp (w[6], "tcp-act") ? NICE_CANDIDATE_TRANSPORT_TCP_ACTIVE :
                     n >= 7 && !strcmp (w[6], "tcp-pass") ? NICE_CANDIDATE_TRANSPORT_TCP_PASSIVE : NICE_CANDIDATE_TRANSPORT_UDP;
      c->stream_id = atoi (w[2]); c->component_id = atoi (w[3]); c->priority = 2130706431;
      g_strlcpy (c->foundation, "forced1", NICE_CANDIDATE_MAX_FOUNDATION);
      if (nice_address_set_from_string (&c->addr, w[4])) {
        nice_address_set_port (&c->addr, atoi (w[5]));
        c->base_addr = c->addr;
        r = nice_agent_set_selected_remote_candidate (g->agent, atoi (w[2]), atoi (w[3]), c);
      }
      nice_candidate_free (c);
      total_dispatches += iterate_ready ();
      printf ("ok ret %d\n", r);
    }
    else if (!strcmp (w[0], "detach") && n == 4 && (g = find_ag (w[1])) && g->alive) {
      printf ("ok ret %d\n", nice_agent_attach_recv (g->agent, atoi (w[2]), atoi (w[3]), ctx, NULL, NULL));
    }
    else if (!strcmp (w[0], "getsel") && n == 4 && (g = find_ag (w[1])) && g->alive) {
      NiceCandidate *l = NULL, *r = NULL;
      printf ("ok ret %d\n", nice_agent_get_selected_pair (g->agent, atoi (w[2]), atoi (w[3]), &l, &r));
    }
    else if (!strcmp (w[0], "injectsel") && n == 5 && (g = find_ag (w[1])) && g->alive) {
      /* a datagram that claims to come from the remote address of the selected pair, sent to its local address
       * (what the peer — or anybody who can spoof its address — may send); IPv4 UDP pairs only */
      NiceCandidate *l = NULL, *r = NULL; uint8_t *b; long len = parse_hex (w[4], &b); int done = 0;
      if (len >= 0 && nice_agent_get_selected_pair (g->agent, atoi (w[2]), atoi (w[3]), &l, &r) && l && r &&
          l->transport == NICE_CANDIDATE_TRANSPORT_UDP && nice_address_ip_version (&l->base_addr) == 4 && nice_address_ip_version (&r->addr) == 4) {
        struct sockaddr_in f, t; memset (&f, 0, sizeof f); memset (&t, 0, sizeof t);
        nice_address_copy_to_sockaddr (&r->addr, (struct sockaddr *) &f);
        nice_address_copy_to_sockaddr (&l->base_addr, (struct sockaddr *) &t);
        enqueue (&f, &t, b, len, verif_now_us + 1000); done = 1;
      }
      free (b);
      printf ("ok ret %d\n", done);
    }
    else if (!strcmp (w[0], "tcpconn") && n == 3) {
      /* a foreign party opens its own (real, loopback) TCP connection to <ip:port>, e.g. an agent's tcp-passive candidate */
      struct sockaddr_in sa; int fd, k;
      for (k = 0; k < 8 && !(foreign_tcp[k].fd > 0 && !strcmp (foreign_tcp[k].name, w[1])); k++) ;   /* same name: reuse */
      if (k == 8) for (k = 0; k < 8 && foreign_tcp[k].fd > 0; k++) ;                                      /* else a free slot */
      if (k < 8 && w[2][0] == '@' && (g = find_ag (w[2] + 1)) && g->alive) {
        /* @<agent>: the agent's first tcp-passive host candidate (stream 1, component 1) */
        GSList *cl = nice_agent_get_local_candidates (g->agent, 1, 1), *ci; static char tmp[80]; tmp[0] = 0;
        for (ci = cl; ci; ci = ci->next) { NiceCandidate *c = ci->data;
          if (!tmp[0] && c->transport == NICE_CANDIDATE_TRANSPORT_TCP_PASSIVE && c->type == NICE_CANDIDATE_TYPE_HOST) addr_str (&c->addr, tmp); }
        g_slist_free_full (cl, (GDestroyNotify) nice_candidate_free);
        if (tmp[0]) w[2] = tmp;
      }
      if (k == 8 || !parse_ipport (w[2], &sa)) puts ("err bad tcpconn");
      else {
        if (foreign_tcp[k].fd > 0) close (foreign_tcp[k].fd);
        fd = socket (AF_INET, SOCK_STREAM, 0);
        if (fd >= 0 && connect (fd, (struct sockaddr *) &sa, sizeof sa) == 0) {
          snprintf (foreign_tcp[k].name, sizeof foreign_tcp[k].name, "%s", w[1]); foreign_tcp[k].fd = fd;
          total_dispatches += iterate_ready ();
          { struct sockaddr_in me; socklen_t ml = sizeof me; char ip[32];
            getsockname (fd, (struct sockaddr *) &me, &ml); inet_ntop (AF_INET, &me.sin_addr, ip, sizeof ip);
            printf ("ok connected fd %d local %s:%u\n", fd, ip, ntohs (me.sin_port)); }
        } else { if (fd >= 0) close (fd); printf ("ok refused errno %d\n", errno); }
      }
    }
    else if (!strcmp (w[0], "tcpclose") && n == 2) {
      int k;
      for (k = 0; k < 8 && (foreign_tcp[k].fd <= 0 || strcmp (foreign_tcp[k].name, w[1])); k++) ;
      if (k < 8) { close (foreign_tcp[k].fd); foreign_tcp[k].fd = 0; foreign_tcp[k].name[0] = 0; }
      total_dispatches += iterate_ready ();
      puts ("ok");
    }
    else if (!strcmp (w[0], "tcpsend") && n == 3) {
      int k; uint8_t *b; long l = parse_hex (w[2], &b); ssize_t r = -1;
      for (k = 0; k < 8 && (foreign_tcp[k].fd <= 0 || strcmp (foreign_tcp[k].name, w[1])); k++) ;
      if (k < 8 && l >= 0) r = send (foreign_tcp[k].fd, b, l, MSG_NOSIGNAL);
      if (l >= 0) free (b);
      total_dispatches += iterate_ready ();
      printf ("ok wrote %zd\n", r);
    }
    else if (!strcmp (w[0], "sendburst") && n == 7 && (g = find_ag (w[1])) && g->alive) {
      /* sendburst <A> <sid> <cid> <count> <size> <seed>: back-to-back sends WITHOUT running the main loop in between
       * (the receiver lags behind); message i, byte j = (seed * 31 + i * 7 + j * 13) & 0xff; stops at the first refusal */
      int cnt = atoi (w[4]), sz = atoi (w[5]), seed = atoi (w[6]), i, j, sent = 0; gssize r = 0;
      uint8_t *b = malloc (sz > 0 ? sz : 1);
      for (i = 0; i < cnt; i++) {
        for (j = 0; j < sz; j++) b[j] = (uint8_t) (seed * 31 + i * 7 + j * 13);
        r = nice_agent_send (g->agent, atoi (w[2]), atoi (w[3]), sz, (const gchar *) b);
        if (r != sz) break;
        sent++;
      }
      free (b);
      total_dispatches += iterate_ready ();
      printf ("ok sent %d last %zd\n", sent, r);
    }
    else if (!strcmp (w[0], "settle") && n == 2) {
      /* real-time settling for kernel TCP (ICE-TCP under back-pressure): keep dispatching ready sources, sleeping 1 ms
       * of REAL time between rounds, until nothing was dispatched for 250 consecutive rounds (the kernel's persist timer is 200 ms) or <real ms> elapsed.
       * Virtual time advances only by the dispatch cost. */
      int budget = atoi (w[1]), idle = 0, rounds = 0; unsigned long d0 = total_dispatches;
      while (rounds < budget && idle < 250) {
        int k = iterate_ready ();
        total_dispatches += k;
        idle = k ? 0 : idle + 1;
        usleep (1000); rounds++;
      }
      printf ("ok dispatched %lu rounds %d\n", total_dispatches - d0, rounds);
    }
    else if (!strcmp (w[0], "tcpbuf") && n == 2) {
      /* shrink the kernel buffers of every connected TCP socket: back-pressure for ICE-TCP (partial writes) */
      int fd, cnt = 0, v = atoi (w[1]);
      for (fd = 3; fd < 1024; fd++) {
        int type = 0, acc = 0; socklen_t l = sizeof type;
        if (getsockopt (fd, SOL_SOCKET, SO_TYPE, &type, &l) != 0 || type != SOCK_STREAM) continue;
        l = sizeof acc;
        if (getsockopt (fd, SOL_SOCKET, SO_ACCEPTCONN, &acc, &l) == 0 && acc) continue;
        setsockopt (fd, SOL_SOCKET, SO_SNDBUF, &v, sizeof v);
        setsockopt (fd, SOL_SOCKET, SO_RCVBUF, &v, sizeof v);
        cnt++;
      }
      printf ("ok sockets %d\n", cnt);
    }
    else if (!strcmp (w[0], "leaktest")) { volatile char *x = malloc (77); x[0] = 1; x = NULL; puts ("ok"); }
    else if (!strcmp (w[0], "fdlist")) {
      int fd; char path[64], tgt[256];
      for (fd = 0; fd < 256; fd++) if (fcntl (fd, F_GETFD) != -1) {
        ssize_t k; snprintf (path, sizeof path, "/proc/self/fd/%d", fd); k = readlink (path, tgt, sizeof tgt - 1);
        tgt[k > 0 ? k : 0] = 0; printf ("ev fd %d %s\n", fd, tgt);
      }
      puts ("ok");
    }
    else if (!strcmp (w[0], "fds")) {
      /* number of open descriptors (leak detection for sockets) */
      /* sockets only: GLib itself lazily creates eventfds (wakeups, GTask pool) that are not libnice's */
      int fd, n = 0; struct stat sb;
      for (fd = 0; fd < 1024; fd++) if (fstat (fd, &sb) == 0 && S_ISSOCK (sb.st_mode)) {
        n++;
        if (getenv ("SIM_DEBUG_FDS")) { struct sockaddr_in a, b; socklen_t al = sizeof a, bl = sizeof b; int ty = 0; socklen_t tl = sizeof ty;
          memset (&a, 0, sizeof a); memset (&b, 0, sizeof b);
          getsockname (fd, (struct sockaddr *) &a, &al); getpeername (fd, (struct sockaddr *) &b, &bl); getsockopt (fd, SOL_SOCKET, SO_TYPE, &ty, &tl);
          fprintf (stderr, "fd %d type %d local %s:%u", fd, ty, inet_ntoa (a.sin_addr), ntohs (a.sin_port));
          fprintf (stderr, " peer %s:%u vudp=%d\n", inet_ntoa (b.sin_addr), ntohs (b.sin_port), is_vudp (fd)); }
      }
      printf ("ok fds %d\n", n);
    }
    else if (!strcmp (w[0], "drain")) { total_dispatches += iterate_ready (); puts ("ok"); }
    else puts ("err bad-op");
    fflush (stdout);
  }
  return 0;
}
