/* stun_drv: line-protocol driver for the REAL libnice STUN message layer (stun/*.c).
 * Protocol: see the header comment of lean/Nice/Drv/Stun.lean (the model side); both sides print
 * exactly one line per input line.
 *
 * Memory discipline (C05/C07): every received packet and every element of a receive vector lives in
 * its own exactly-sized malloc block (an empty element points one past the end of a 1-byte block,
 * because ASan does not flag p[0] of malloc(0)); every output buffer is the middle part of a block
 * [64 guard bytes | cap bytes | 64 guard bytes]: the guards hold a canary pattern that is checked
 * after every operation and are additionally ASan-poisoned, so a stray write aborts with a report.
 */
#include "common.h"
#include <arpa/inet.h>
#include <sys/socket.h>
#include <netinet/in.h>
#include <sys/un.h>
#include <sanitizer/asan_interface.h>
#include <gnutls/gnutls.h>
#include <gnutls/crypto.h>
#include "stun/stunagent.h"
#include "stun/stunmessage.h"
#include "stun/stun5389.h"
#include "stun/stuncrc32.h"
#include "stun/stunhmac.h"
#include "stun/utils.h"
#include "stun/usages/ice.h"
#include "stun/usages/bind.h"
#include "stun/usages/turn.h"

#define GUARD 64
#define CANARY 0xC5

/* ---- guarded output buffer ---- */
static uint8_t *g_block = NULL;   /* guard | cap | guard */
static size_t g_cap = 0;
static int g_inited = 0;

static uint8_t *out_alloc_block (size_t cap)
{
  uint8_t *blk = malloc (GUARD + cap + GUARD);
  memset (blk, CANARY, GUARD);
  memset (blk + GUARD, 0xaa, cap);
  memset (blk + GUARD + cap, CANARY, GUARD);
  __asan_poison_memory_region (blk, GUARD);
  __asan_poison_memory_region (blk + GUARD + cap, GUARD);
  return blk;
}

static void out_free_block (uint8_t *blk, size_t cap)
{
  __asan_unpoison_memory_region (blk, GUARD + cap + GUARD);
  free (blk);
}

static void out_commit (uint8_t *blk, size_t cap)
{
  if (g_block) out_free_block (g_block, g_cap);
  g_block = blk; g_cap = cap;
}

static uint8_t *out_new (size_t cap)
{
  out_commit (out_alloc_block (cap), cap);
  return g_block + GUARD;
}

static int canary_ok (void)
{
  size_t i; int ok = 1;
  if (!g_block) return 1;
  __asan_unpoison_memory_region (g_block, GUARD);
  __asan_unpoison_memory_region (g_block + GUARD + g_cap, GUARD);
  for (i = 0; i < GUARD; i++)
    if (g_block[i] != CANARY || g_block[GUARD + g_cap + i] != CANARY) ok = 0;
  __asan_poison_memory_region (g_block, GUARD);
  __asan_poison_memory_region (g_block + GUARD + g_cap, GUARD);
  return ok;
}

static StunAgent agent;
static int have_agent = 0;
static StunMessage msg;
static StunMessage req_msg;          /* last validated packet, usable as request */
static int have_req = 0;
static uint16_t known_custom[300];
static char *agent_software = NULL;

/* memory that must stay alive for the whole session (keys are stored BY POINTER in the agent's
 * saved ids and in validated messages; packets used as requests) */
static void *arena[1 << 16];
static int n_arena = 0;
static void *keep (void *p) { if (n_arena < (1 << 16)) arena[n_arena++] = p; return p; }
static void arena_free (void) { while (n_arena > 0) free (arena[--n_arena]); }

/* transaction ids are supplied by the op line: the harness' definition replaces the library's
 * random stun_make_transid (linked with --allow-multiple-definition) */
static uint8_t next_txid[16];
void stun_make_transid (StunTransactionId id) { memcpy (id, next_txid, 16); }

/* exact copy of a byte string, non-NULL even when empty; kept alive */
static uint8_t *keep_bytes (const uint8_t *b, long n)
{
  uint8_t *p = malloc (n > 0 ? n : 1);
  if (n > 0) memcpy (p, b, n);
  if (n == 0) { free (p); p = (uint8_t *) keep (malloc (1)) + 1; return p; }
  return keep (p);
}

static void show_key (const uint8_t *k, size_t n)
{
  if (!k) fputs ("null", stdout); else print_hex (k, n);
}

static void show_slots (void)
{
  int i, first = 1;
  printf (" slots ");
  for (i = 0; i < STUN_AGENT_MAX_SAVED_IDS; i++) {
    StunAgentSavedIds *s = &agent.sent_ids[i];
    if (!s->valid) continue;
    if (!first) putchar (',');
    first = 0;
    printf ("%d:%u:", i, (unsigned) s->method);
    print_hex (s->id, 16);
    putchar (':');
    show_key (s->key, s->key_len);
    putchar (':');
    if (s->long_term_valid) { putchar ('1'); print_hex (s->long_term_key, 16); } else putchar ('0');
  }
  if (first) putchar ('-');
}

static void show_info (const StunMessage *m)
{
  printf (" key ");
  show_key (m->key, m->key_len);
  printf (" lt ");
  if (m->long_term_valid) { printf ("1 "); print_hex (m->long_term_key, 16); } else putchar ('0');
}

static void print_lenres (const char *name, long r);
static int g_nonl = 0;   /* show_build without the trailing newline */
static void show_build (const char *r)
{
  printf ("ret %s len ", r);
  if (g_cap >= 4) {
    unsigned l = stun_message_length (&msg);
    bool pad = !(have_agent && (agent.usage_flags & STUN_AGENT_USAGE_NO_ALIGNED_ATTRIBUTES));
    printf ("%u ", l);
    if (l <= g_cap) {
      /* the library's own validation of what has been built, on an exactly sized copy */
      uint8_t *c = malloc (l ? l : 1);
      if (l == 0) { free (c); c = (uint8_t *) malloc (1) + 1; }
      memcpy (c, msg.buffer, l);
      print_lenres ("vl", stun_message_validate_buffer_length (c, l, pad));
      free (l ? c : c - 1);
    } else printf ("vl toolong");
  } else printf ("- vl -");
  printf (" buf ");
  if (g_block) print_hex (g_block + GUARD, g_cap); else printf ("-");
  if (!canary_ok ()) printf (" CANARY-DAMAGED");
  if (!g_nonl) printf ("\n");
}

static void show_ret (int r)
{
  char b[32];
  snprintf (b, sizeof b, "%d", r);
  show_build (b);
}

static long hexnat (const char *s)
{
  long v = 0;
  if (!*s) return -1;
  for (; *s; s++) { int d = hexval (*s); if (d < 0) return -1; v = v * 16 + d; if (v > 0xffffffffL) return -1; }
  return v;
}

/* received packet: exactly sized block; an empty packet points one past the end of a 1-byte block */
static long parse_pkt (const char *s, uint8_t **pkt, uint8_t **base)
{
  long l = parse_hex (s, base);
  if (l < 0) return l;
  if (l == 0) { free (*base); *base = malloc (1); *pkt = *base + 1; }
  else *pkt = *base;
  return l;
}

static int isnum (const char *s)
{
  if (!*s) return 0;
  for (; *s; s++) if (*s < '0' || *s > '9') return 0;
  return 1;
}

static int isint (const char *s)
{
  if (*s == '-') s++;
  return isnum (s);
}

/* optional byte string argument: "null" -> NULL; kept alive for the session */
static int opt_bytes (const char *w, uint8_t **p, size_t *n)
{
  uint8_t *d; long l;
  *p = NULL; *n = 0;
  if (!strcmp (w, "null")) return 1;
  l = parse_hex (w, &d);
  if (l < 0) return 0;
  *p = keep_bytes (d, l); *n = (size_t) l; free (d);
  return 1;
}

/* an exactly sized block holding a sockaddr of the requested family; *plen = addrlen */
static uint8_t *make_addr (const char *fam, const char *port, const char *ip, const char *alen, socklen_t *plen)
{
  struct sockaddr_storage ss;
  uint8_t *ipb = NULL, *blk;
  long iplen;
  unsigned long f, p, l;
  if (!isnum (fam) || !isnum (port) || !isnum (alen)) return NULL;
  f = strtoul (fam, NULL, 10); p = strtoul (port, NULL, 10); l = strtoul (alen, NULL, 10);
  if (l < 2 || l > 4096) return NULL;
  iplen = parse_hex (ip, &ipb);
  if (iplen < 0) return NULL;
  memset (&ss, 0, sizeof ss);
  if (f == 4) {
    struct sockaddr_in *a = (struct sockaddr_in *) &ss;
    a->sin_family = AF_INET; a->sin_port = htons ((uint16_t) p);
    memcpy (&a->sin_addr, ipb, iplen < 4 ? iplen : 4);
  } else if (f == 6) {
    struct sockaddr_in6 *a = (struct sockaddr_in6 *) &ss;
    a->sin6_family = AF_INET6; a->sin6_port = htons ((uint16_t) p);
    memcpy (&a->sin6_addr, ipb, iplen < 16 ? iplen : 16);
  } else {
    ss.ss_family = AF_UNIX;
  }
  free (ipb);
  blk = malloc (l);
  memset (blk, 0, l);
  memcpy (blk, &ss, l < sizeof ss ? l : sizeof ss);
  *plen = (socklen_t) l;
  return blk;
}

static void print_sockaddr (const char *tag, const uint8_t *blk)
{
  const struct sockaddr *sa = (const struct sockaddr *) blk;
  if (sa->sa_family == AF_INET) {
    const struct sockaddr_in *a = (const struct sockaddr_in *) blk;
    printf (" %s 4 %u ", tag, (unsigned) ntohs (a->sin_port));
    print_hex ((const uint8_t *) &a->sin_addr, 4);
  } else if (sa->sa_family == AF_INET6) {
    const struct sockaddr_in6 *a = (const struct sockaddr_in6 *) blk;
    printf (" %s 6 %u ", tag, (unsigned) ntohs (a->sin6_port));
    print_hex ((const uint8_t *) &a->sin6_addr, 16);
  }
}

static void show_addr (int r, const uint8_t *blk, socklen_t alen)
{
  printf ("ret %d alen %u", r, (unsigned) alen);
  if (r == STUN_MESSAGE_RETURN_SUCCESS) {
    const struct sockaddr *sa = (const struct sockaddr *) blk;
    if (sa->sa_family == AF_INET) {
      const struct sockaddr_in *a = (const struct sockaddr_in *) blk;
      printf (" addr 4 %u ", (unsigned) ntohs (a->sin_port));
      print_hex ((const uint8_t *) &a->sin_addr, 4);
    } else if (sa->sa_family == AF_INET6) {
      const struct sockaddr_in6 *a = (const struct sockaddr_in6 *) blk;
      printf (" addr 6 %u ", (unsigned) ntohs (a->sin6_port));
      print_hex ((const uint8_t *) &a->sin6_addr, 16);
    }
  }
  printf ("\n");
}

static void print_lenres (const char *name, long r)
{
  if (r == STUN_MESSAGE_BUFFER_INVALID) printf ("%s invalid", name);
  else if (r == STUN_MESSAGE_BUFFER_INCOMPLETE) printf ("%s incomplete", name);
  else printf ("%s %ld", name, r);
}

/* accessor precondition: the packet validates to exactly its size under the agent's padding mode */
static int pkt_valid (const uint8_t *pkt, long n)
{
  bool pad = !(have_agent && (agent.usage_flags & STUN_AGENT_USAGE_NO_ALIGNED_ATTRIBUTES));
  return n > 0 && stun_message_validate_buffer_length (pkt, (size_t) n, pad) == (int) n;
}

static void set_pkt_msg (StunMessage *m, uint8_t *pkt, long n)
{
  memset (m, 0, sizeof *m);
  m->buffer = pkt; m->buffer_len = (size_t) n; m->agent = have_agent ? &agent : NULL;
}

static void do_len (char **w)
{
  uint8_t *pkt, *pktbase; long n = parse_pkt (w[2], &pkt, &pktbase);
  StunInputVector vec[66];
  uint8_t *blocks[66];
  int nb = 0, i, ok = 1;
  size_t off = 0;
  char *p;
  bool pad = !strcmp (w[6], "1");
  long fast, fastnt, full;
  if (n < 0) { puts ("bad-op"); return; }
  for (p = strtok (w[4], ","); p; p = strtok (NULL, ",")) {
    unsigned long sz;
    if (!isnum (p) || nb >= 64) { ok = 0; break; }
    sz = strtoul (p, NULL, 10);
    if (off + sz > (size_t) n) { ok = 0; break; }
    if (sz == 0) { blocks[nb] = malloc (1); vec[nb].buffer = blocks[nb] + 1; }
    else { blocks[nb] = malloc (sz); memcpy (blocks[nb], pkt + off, sz); vec[nb].buffer = blocks[nb]; }
    vec[nb].size = sz; off += sz; nb++;
  }
  if (!ok || off != (size_t) n) { puts ("bad-op"); for (i = 0; i < nb; i++) free (blocks[i]); free (pktbase); return; }
  vec[nb].buffer = NULL; vec[nb].size = 0;
  fast = stun_message_validate_buffer_length_fast (vec, nb, (size_t) n, pad);
  fastnt = stun_message_validate_buffer_length_fast (vec, -1, (size_t) n, pad);
  full = stun_message_validate_buffer_length (pkt, (size_t) n, pad);
  print_lenres ("fast", fast); putchar (' ');
  print_lenres ("fastnt", fastnt); putchar (' ');
  print_lenres ("full", full); putchar ('\n');
  for (i = 0; i < nb; i++) free (blocks[i]);
  free (pktbase);
}

static void do_app (int n, char **w)
{
  long ty = hexnat (w[2]);
  int r;
  if (!g_inited || ty < 0 || ty > 0xffff || n < 4) { puts ("bad-op"); return; }
  if (!strcmp (w[3], "bytes") && n == 5) {
    uint8_t *d; long l = parse_hex (w[4], &d);
    if (l < 0) { puts ("bad-op"); return; }
    r = stun_message_append_bytes (&msg, ty, d, l); free (d); show_ret (r);
  } else if (!strcmp (w[3], "flag") && n == 4) {
    show_ret (stun_message_append_flag (&msg, ty));
  } else if (!strcmp (w[3], "u32") && n == 5 && isnum (w[4])) {
    show_ret (stun_message_append32 (&msg, ty, (uint32_t) strtoull (w[4], NULL, 10)));
  } else if (!strcmp (w[3], "u64") && n == 5 && isnum (w[4])) {
    show_ret (stun_message_append64 (&msg, ty, (uint64_t) strtoull (w[4], NULL, 10)));
  } else if (!strcmp (w[3], "str") && n == 5) {
    uint8_t *d; long l = parse_hex (w[4], &d); char *s;
    if (l < 0) { puts ("bad-op"); return; }
    s = malloc (l + 1); memcpy (s, d, l); s[l] = 0;
    r = stun_message_append_string (&msg, ty, s); free (s); free (d); show_ret (r);
  } else if (!strcmp (w[3], "err") && n == 5 && isnum (w[4])) {
    show_ret (stun_message_append_error (&msg, (StunError) strtoul (w[4], NULL, 10)));
  } else if (!strcmp (w[3], "sw") && n == 5) {
    if (!strcmp (w[4], "null")) show_ret (stun_message_append_software (&msg, NULL));
    else {
      uint8_t *d; long l = parse_hex (w[4], &d); char *s;
      if (l < 0) { puts ("bad-op"); return; }
      s = malloc (l + 1); memcpy (s, d, l); s[l] = 0;
      r = stun_message_append_software (&msg, s); free (s); free (d); show_ret (r);
    }
  } else if ((!strcmp (w[3], "addr") || !strcmp (w[3], "xaddr")) && n == 8) {
    socklen_t al; uint8_t *a = make_addr (w[4], w[5], w[6], w[7], &al);
    if (!a) { puts ("bad-op"); return; }
    if (!strcmp (w[3], "addr")) r = stun_message_append_addr (&msg, ty, (struct sockaddr *) a, al);
    else r = stun_message_append_xor_addr (&msg, ty, (struct sockaddr_storage *) a, al);
    free (a); show_ret (r);
  } else if (!strcmp (w[3], "xaddrf") && n == 9 && isnum (w[8])) {
    socklen_t al; uint8_t *a = make_addr (w[4], w[5], w[6], w[7], &al);
    if (!a) { puts ("bad-op"); return; }
    r = stun_message_append_xor_addr_full (&msg, ty, (struct sockaddr_storage *) a, al,
        (uint32_t) strtoull (w[8], NULL, 10));
    free (a); show_ret (r);
  } else puts ("bad-op");
}

/* accessors: `find|get* <pkt> <type> ...` on a received packet, `mfind|m* <type> ...` on the message
 * being built (buffer_len = cap) */
static void do_get (int n, char **w)
{
  uint8_t *pkt = NULL, *pktbase = NULL; long l = 0; long ty = 0;
  StunMessage m;
  const char *op = w[1];
  int ism = op[0] == 'm';
  const char *name = ism ? op + 1 : (!strcmp (op, "find") ? "find" : op + 3);
  char **a; int na;       /* arguments after the packet */
  int valid;
  if (ism) {
    if (!g_inited) { puts ("bad-op"); return; }
    a = w + 2; na = n - 2;
  } else {
    if (n < 3) { puts ("bad-op"); return; }
    a = w + 3; na = n - 3;
  }
  if (strcmp (name, "find") && strcmp (name, "32") && strcmp (name, "64") && strcmp (name, "flag") &&
      strcmp (name, "err") && strcmp (name, "str") && strcmp (name, "addr") && strcmp (name, "xaddr") &&
      strcmp (name, "xaddrf")) { puts ("bad-op"); return; }
  /* argument syntax first (bad-op must not depend on validity) */
  if (!strcmp (name, "err")) { if (na != 0) { puts ("bad-op"); return; } }
  else {
    if (na < 1 || (ty = hexnat (a[0])) < 0) { puts ("bad-op"); return; }
    if (!strcmp (name, "find") || !strcmp (name, "32") || !strcmp (name, "64") || !strcmp (name, "flag")) {
      if (na != 1) { puts ("bad-op"); return; }
    } else if (!strcmp (name, "str")) {
      if (na != 2 || !isnum (a[1]) || strtoul (a[1], NULL, 10) > 70000) { puts ("bad-op"); return; }
    } else if (!strcmp (name, "xaddrf")) {
      if (na != 3 || !isnum (a[1]) || !isnum (a[2]) || strtoul (a[1], NULL, 10) > 4096) { puts ("bad-op"); return; }
    } else {
      if (na != 2 || !isnum (a[1]) || strtoul (a[1], NULL, 10) > 4096) { puts ("bad-op"); return; }
    }
  }
  if (ism) {
    unsigned ml = g_cap >= 4 ? stun_message_length (&msg) : 0;
    bool pad = !(have_agent && (agent.usage_flags & STUN_AGENT_USAGE_NO_ALIGNED_ATTRIBUTES));
    memset (&m, 0, sizeof m);
    m.buffer = msg.buffer; m.buffer_len = g_cap; m.agent = have_agent ? &agent : NULL;
    valid = 0;
    if (ml <= g_cap && ml > 0) {
      uint8_t *c = malloc (ml); memcpy (c, msg.buffer, ml);
      valid = stun_message_validate_buffer_length (c, ml, pad) == (int) ml;
      free (c);
    }
  } else {
    l = parse_pkt (w[2], &pkt, &pktbase);
    if (l < 0) { puts ("bad-op"); return; }
    valid = pkt_valid (pkt, l);
    set_pkt_msg (&m, pkt, l);
  }
  ty &= 0xffff;
  if (!valid) { puts ("notvalid"); if (pktbase) free (pktbase); return; }
  if (!strcmp (name, "find")) {
    uint16_t alen = 0; const uint8_t *p = stun_message_find (&m, ty, &alen);
    if (!p) puts ("none");
    else printf ("%ld %u\n", (long) (p - m.buffer), (unsigned) alen);
  } else if (!strcmp (name, "32")) {
    uint32_t v = 0; int r = stun_message_find32 (&m, ty, &v);
    if (r == 0) printf ("ret 0 val %u\n", v); else printf ("ret %d\n", r);
  } else if (!strcmp (name, "64")) {
    uint64_t v = 0; int r = stun_message_find64 (&m, ty, &v);
    if (r == 0) printf ("ret 0 val %llu\n", (unsigned long long) v); else printf ("ret %d\n", r);
  } else if (!strcmp (name, "flag")) {
    printf ("ret %d\n", (int) stun_message_find_flag (&m, ty));
  } else if (!strcmp (name, "err")) {
    int code = 0; int r = stun_message_find_error (&m, &code);
    if (r == 0) printf ("ret 0 val %d\n", code); else printf ("ret %d\n", r);
  } else if (!strcmp (name, "str")) {
    size_t bl = strtoul (a[1], NULL, 10);
    char *b; int r;
    if (bl == 0) b = (char *) malloc (1) + 1;   /* zero-sized destination */
    else b = malloc (bl);
    r = stun_message_find_string (&m, ty, b, bl);
    if (r == 0) { printf ("ret 0 val "); print_hex ((uint8_t *) b, strlen (b)); printf ("\n"); }
    else printf ("ret %d\n", r);
    free (bl ? b : b - 1);
  } else {
    unsigned long al = strtoul (a[1], NULL, 10);
    socklen_t sl = (socklen_t) al; uint8_t *blk; int r;
    blk = al ? malloc (al) : (uint8_t *) malloc (1) + 1;
    if (!strcmp (name, "addr")) r = stun_message_find_addr (&m, ty, (struct sockaddr_storage *) blk, &sl);
    else if (!strcmp (name, "xaddr")) r = stun_message_find_xor_addr (&m, ty, (struct sockaddr_storage *) blk, &sl);
    else r = stun_message_find_xor_addr_full (&m, ty, (struct sockaddr_storage *) blk, &sl,
        (uint32_t) strtoull (a[2], NULL, 10));
    show_addr (r, blk, sl); free (al ? blk : blk - 1);
  }
  if (pktbase) free (pktbase);
}

static void stun_op (int n, char **w)
{
  const char *op = n >= 2 ? w[1] : "";
  if (!strcmp (op, "cfg") && n == 4) {
    if (!strcmp (w[2], "none")) { have_agent = 0; puts ("ok"); return; }
    if (isnum (w[2]) && hexnat (w[3]) >= 0 && strtoul (w[2], NULL, 10) < 4) {
      stun_agent_init (&agent, STUN_ALL_KNOWN_ATTRIBUTES, (StunCompatibility) strtoul (w[2], NULL, 10),
          (StunAgentUsageFlags) hexnat (w[3]));
      have_agent = 1; puts ("ok");
    } else puts ("bad-op");
  } else if (!strcmp (op, "agent") && n == 6) {
    const uint16_t *known = NULL;
    if (!isnum (w[2]) || hexnat (w[3]) < 0 || strtoul (w[2], NULL, 10) >= 4) { puts ("bad-op"); return; }
    if (!strcmp (w[4], "all")) known = STUN_ALL_KNOWN_ATTRIBUTES;
    else if (!strcmp (w[4], "msoc")) known = STUN_MSOC_KNOWN_ATTRIBUTES;
    else if (!strcmp (w[4], "-")) { known_custom[0] = 0; known = known_custom; }
    else {
      int k = 0, ok = 1; char *p;
      for (p = strtok (w[4], ","); p; p = strtok (NULL, ",")) {
        long v = hexnat (p);
        if (v <= 0 || v > 0xffff || k >= 290) { ok = 0; break; }
        known_custom[k++] = (uint16_t) v;
      }
      known_custom[k] = 0;
      if (!ok) { puts ("bad-op"); return; }
      known = known_custom;
    }
    if (strcmp (w[5], "nosw")) {
      uint8_t *d; long l = parse_hex (w[5], &d);
      if (l < 0) { puts ("bad-op"); return; }
      agent_software = keep (malloc (l + 1)); memcpy (agent_software, d, l); agent_software[l] = 0; free (d);
    } else agent_software = NULL;
    stun_agent_init (&agent, known, (StunCompatibility) strtoul (w[2], NULL, 10),
        (StunAgentUsageFlags) hexnat (w[3]));
    if (agent_software) stun_agent_set_software (&agent, agent_software);
    have_agent = 1; puts ("ok");
  } else if ((!strcmp (op, "val") && n == 4) || (!strcmp (op, "valm") && n == 3)) {
    static StunDefaultValidaterData vtab[130];
    StunMessageIntegrityValidate cb = stun_agent_default_validater;
    uint8_t *pkt, *base; long l; StunMessage m; int st, nt = 0, ok = 1, early;
    int ism = !strcmp (op, "valm");
    char *keys = ism ? w[2] : w[3];
    if (!have_agent || (ism && !g_inited)) { puts ("bad-op"); return; }
    memset (vtab, 0, sizeof vtab);
    if (!strcmp (keys, "nocb")) cb = NULL;
    else if (strcmp (keys, "none")) {
      char *e, *save = NULL;
      for (e = strtok_r (keys, ";", &save); e; e = strtok_r (NULL, ";", &save)) {
        char *eq = strchr (e, '='); uint8_t *u, *pw; long ul, pl;
        if (!eq || nt >= 128 || strchr (eq + 1, '=')) { ok = 0; break; }
        *eq = 0;
        ul = parse_hex (e, &u);
        if (ul < 0) { ok = 0; break; }
        vtab[nt].username = keep_bytes (u, ul); vtab[nt].username_len = ul; free (u);
        if (!strcmp (eq + 1, "null")) { vtab[nt].password = NULL; vtab[nt].password_len = 0; }
        else {
          pl = parse_hex (eq + 1, &pw);
          if (pl < 0) { ok = 0; break; }
          vtab[nt].password = keep_bytes (pw, pl); vtab[nt].password_len = pl; free (pw);
        }
        nt++;
      }
    }
    if (!ok) { puts ("bad-op"); return; }
    if (ism) {
      if (g_cap < 4) { puts ("bad-op"); return; }
      l = stun_message_length (&msg);
      if ((size_t) l > g_cap) { puts ("toolong"); return; }
      base = malloc (l ? l : 1);
      if (l) { memcpy (base, msg.buffer, l); pkt = base; } else pkt = base + 1;
    } else {
      l = parse_pkt (w[2], &pkt, &base);
      if (l < 0) { puts ("bad-op"); return; }
    }
    keep (base);
    m = req_msg;
    st = stun_agent_validate (&agent, &m, pkt, (size_t) l, cb, vtab);
    early = st == STUN_VALIDATION_NOT_STUN || st == STUN_VALIDATION_INCOMPLETE_STUN;
    printf ("status %d", st);
    if (early) printf (" key - lt -");
    else { req_msg = m; have_req = 1; show_info (&m); }
    printf (" legacy %d", agent.ms_ice2_send_legacy_connchecks ? 1 : 0);
    show_slots ();
    if (ism) { printf (" pkt "); print_hex (pkt, l); }
    printf ("\n");
  } else if (!strcmp (op, "fin") && n == 3) {
    uint8_t *key = NULL; size_t kl = 0; size_t r; char b[32];
    if (!have_agent || !g_inited) { puts ("bad-op"); return; }
    if (strcmp (w[2], "null")) {
      uint8_t *d; long l = parse_hex (w[2], &d);
      if (l < 0) { puts ("bad-op"); return; }
      key = keep_bytes (d, l); kl = l; free (d);
    }
    msg.agent = &agent;
    r = stun_agent_finish_message (&agent, &msg, key, kl);
    snprintf (b, sizeof b, "%zu", r);
    g_nonl = 1; show_build (b); g_nonl = 0;
    show_info (&msg); show_slots (); printf ("\n");
  } else if (!strcmp (op, "forget") && n == 3) {
    uint8_t *id; long l = parse_hex (w[2], &id);
    if (!have_agent || l != 16) { puts ("bad-op"); if (l >= 0) free (id); return; }
    printf ("%d", stun_agent_forget_transaction (&agent, id) ? 1 : 0);
    free (id);
    show_slots (); printf ("\n");
  } else if ((!strcmp (op, "ireq") || !strcmp (op, "iind")) && n == 5) {
    uint8_t *id; long l; unsigned long cap; bool r;
    if (!have_agent || !isnum (w[2]) || !isnum (w[3])) { puts ("bad-op"); return; }
    cap = strtoul (w[2], NULL, 10);
    l = parse_hex (w[4], &id);
    if (l != 16 || cap > 70000) { puts ("bad-op"); if (l >= 0) free (id); return; }
    memcpy (next_txid, id, 16); free (id);
    memset (&msg, 0, sizeof msg);
    out_new (cap);
    if (!strcmp (op, "ireq"))
      r = stun_agent_init_request (&agent, &msg, g_block + GUARD, cap, (StunMethod) strtoul (w[3], NULL, 10));
    else
      r = stun_agent_init_indication (&agent, &msg, g_block + GUARD, cap, (StunMethod) strtoul (w[3], NULL, 10));
    g_inited = r ? 1 : 0;
    g_nonl = 1; show_build (r ? "1" : "0"); g_nonl = 0;
    show_info (&msg); printf ("\n");
  } else if ((!strcmp (op, "iresp") && n == 3) || (!strcmp (op, "ierr") && n == 4) || (!strcmp (op, "unk") && n == 3)) {
    unsigned long cap; uint8_t *blk; size_t r = 0; char b[32];
    if (!have_agent || !have_req || !isnum (w[2]) || (n == 4 && !isnum (w[3]))) { puts ("bad-op"); return; }
    cap = strtoul (w[2], NULL, 10);
    if (cap > 70000) { puts ("bad-op"); return; }
    blk = out_alloc_block (cap);
    if (!strcmp (op, "iresp")) r = stun_agent_init_response (&agent, &msg, blk + GUARD, cap, &req_msg) ? 1 : 0;
    else if (!strcmp (op, "ierr")) r = stun_agent_init_error (&agent, &msg, blk + GUARD, cap, &req_msg,
        (StunError) strtoul (w[3], NULL, 10)) ? 1 : 0;
    else r = stun_agent_build_unknown_attributes_error (&agent, &msg, blk + GUARD, cap, &req_msg);
    /* the message struct is left untouched when the request's class is not REQUEST */
    if (msg.buffer == blk + GUARD) out_commit (blk, cap); else out_free_block (blk, cap);
    g_inited = r != 0;
    snprintf (b, sizeof b, "%zu", r);
    g_nonl = 1; show_build (b); g_nonl = 0;
    show_info (&msg);
    if (!strcmp (op, "unk")) show_slots ();
    printf ("\n");
  } else if (!strcmp (op, "ucc") && n == 12) {
    uint8_t *id, *user = NULL, *pass = NULL; long l, ul = 0, pl = 0; unsigned long cap; char *cid = NULL; size_t r; char b[32];
    if (!have_agent || !isnum (w[2]) || !isnum (w[8]) || !isnum (w[9]) || !isnum (w[11])) { puts ("bad-op"); return; }
    cap = strtoul (w[2], NULL, 10);
    l = parse_hex (w[3], &id);
    if (l != 16 || cap > 70000) { puts ("bad-op"); if (l >= 0) free (id); return; }
    memcpy (next_txid, id, 16); free (id);
    if (strcmp (w[4], "null")) { uint8_t *d; ul = parse_hex (w[4], &d); if (ul < 0) { puts ("bad-op"); return; } user = keep_bytes (d, ul); free (d); }
    if (strcmp (w[5], "null")) { uint8_t *d; pl = parse_hex (w[5], &d); if (pl < 0) { puts ("bad-op"); return; } pass = keep_bytes (d, pl); free (d); }
    if (strcmp (w[10], "null")) { uint8_t *d; long cl = parse_hex (w[10], &d); if (cl < 0) { puts ("bad-op"); return; }
      cid = keep (malloc (cl + 1)); memcpy (cid, d, cl); cid[cl] = 0; free (d); }
    memset (&msg, 0, sizeof msg);
    out_new (cap);
    r = stun_usage_ice_conncheck_create (&agent, &msg, g_block + GUARD, cap, user, ul, pass, pl,
        !strcmp (w[6], "1"), !strcmp (w[7], "1"), (uint32_t) strtoull (w[8], NULL, 10),
        (uint64_t) strtoull (w[9], NULL, 10), cid, (StunUsageIceCompatibility) strtoul (w[11], NULL, 10));
    g_inited = r != 0;
    snprintf (b, sizeof b, "%zu", r);
    g_nonl = 1; show_build (b); g_nonl = 0;
    show_info (&msg); show_slots (); printf ("\n");
  } else if ((!strcmp (op, "ubind") || !strcmp (op, "ukeep")) && n == 4) {
    uint8_t *id; long l; unsigned long cap; size_t r; char b[32];
    if (!have_agent || !isnum (w[2])) { puts ("bad-op"); return; }
    cap = strtoul (w[2], NULL, 10);
    l = parse_hex (w[3], &id);
    if (l != 16 || cap > 70000) { puts ("bad-op"); if (l >= 0) free (id); return; }
    memcpy (next_txid, id, 16); free (id);
    memset (&msg, 0, sizeof msg);
    out_new (cap);
    if (!strcmp (op, "ubind")) r = stun_usage_bind_create (&agent, &msg, g_block + GUARD, cap);
    else r = stun_usage_bind_keepalive (&agent, &msg, g_block + GUARD, cap);
    g_inited = r != 0;
    snprintf (b, sizeof b, "%zu", r);
    g_nonl = 1; show_build (b); g_nonl = 0;
    show_info (&msg); show_slots (); printf ("\n");
  } else if (!strcmp (op, "uccproc") && n == 4) {
    unsigned long al; socklen_t sl; uint8_t *blk; int r;
    if (!have_req || !isnum (w[2]) || !isnum (w[3]) || (al = strtoul (w[2], NULL, 10)) > 4096) { puts ("bad-op"); return; }
    sl = (socklen_t) al;
    blk = al ? malloc (al) : (uint8_t *) malloc (1) + 1;
    r = stun_usage_ice_conncheck_process (&req_msg, (struct sockaddr_storage *) blk, &sl,
        (StunUsageIceCompatibility) strtoul (w[3], NULL, 10));
    printf ("ret %d alen %u", r, (unsigned) sl);
    if (r == STUN_USAGE_ICE_RETURN_SUCCESS) print_sockaddr ("addr", blk);
    printf ("\n");
    free (al ? blk : blk - 1);
  } else if (!strcmp (op, "ubindproc") && n == 4) {
    unsigned long al, alt = 0; socklen_t sl, asl = 0; uint8_t *blk, *ablk = NULL; int r, havealt = strcmp (w[3], "null");
    if (!have_req || !isnum (w[2]) || (havealt && !isnum (w[3]))) { puts ("bad-op"); return; }
    al = strtoul (w[2], NULL, 10);
    if (havealt) alt = strtoul (w[3], NULL, 10);
    if (al > 4096 || alt > 4096) { puts ("bad-op"); return; }
    sl = (socklen_t) al; asl = (socklen_t) alt;
    blk = al ? malloc (al) : (uint8_t *) malloc (1) + 1;
    if (havealt) ablk = alt ? malloc (alt) : (uint8_t *) malloc (1) + 1;
    r = stun_usage_bind_process (&req_msg, (struct sockaddr *) blk, &sl,
        havealt ? (struct sockaddr *) ablk : NULL, havealt ? &asl : NULL);
    printf ("ret %d alen %u", r, (unsigned) sl);
    if (r == STUN_USAGE_BIND_RETURN_SUCCESS) print_sockaddr ("addr", blk);
    if (havealt) printf (" altlen %u", (unsigned) asl); else printf (" altlen null");
    if (havealt && r == STUN_USAGE_BIND_RETURN_ALTERNATE_SERVER) print_sockaddr ("alt", ablk);
    printf ("\n");
    free (al ? blk : blk - 1);
    if (havealt) free (alt ? ablk : ablk - 1);
  } else if (!strcmp (op, "ureply") && n == 10) {
    unsigned long cap; uint8_t *blk, *src; socklen_t srclen; size_t plen; bool control; int r;
    if (!have_agent || !have_req || !isnum (w[2]) || !isnum (w[8]) || !isnum (w[9])) { puts ("bad-op"); return; }
    cap = strtoul (w[2], NULL, 10);
    if (cap > 70000) { puts ("bad-op"); return; }
    src = make_addr (w[3], w[4], w[5], w[6], &srclen);
    if (!src) { puts ("bad-op"); return; }
    blk = out_alloc_block (cap);
    plen = cap; control = !strcmp (w[7], "1");
    r = stun_usage_ice_conncheck_create_reply (&agent, &req_msg, &msg, blk + GUARD, &plen,
        (struct sockaddr_storage *) src, srclen, &control, (uint64_t) strtoull (w[8], NULL, 10),
        (StunUsageIceCompatibility) strtoul (w[9], NULL, 10));
    free (src);
    if (msg.buffer == blk + GUARD) out_commit (blk, cap); else out_free_block (blk, cap);
    g_inited = plen != 0;
    printf ("ret %d plen %zu control %d buf ", r, plen, control ? 1 : 0);
    if (g_block) print_hex (g_block + GUARD, g_cap); else printf ("-");
    if (!canary_ok ()) printf (" CANARY-DAMAGED");
    show_info (&msg); show_slots (); printf ("\n");
  } else if ((!strcmp (op, "uturn") && n == 11) || (!strcmp (op, "uturnref") && n == 9)) {
    int isref = !strcmp (op, "uturnref");
    char **a = w + 2;     /* cap txid prev ... */
    uint8_t *id, *user, *pass; size_t ul, pl, r; long l; unsigned long cap; char b[32];
    const char *sprev = a[2], *suser = isref ? a[4] : a[6], *spass = isref ? a[5] : a[7], *stc = isref ? a[6] : a[8];
    if (!have_agent || !isnum (a[0]) || !isnum (stc) || !isint (isref ? a[3] : a[5]) ||
        (!isref && (!isnum (a[3]) || !isint (a[4])))) { puts ("bad-op"); return; }
    cap = strtoul (a[0], NULL, 10);
    l = parse_hex (a[1], &id);
    if (l != 16 || cap > 70000 || (!strcmp (sprev, "1") && !have_req)) { puts ("bad-op"); if (l >= 0) free (id); return; }
    memcpy (next_txid, id, 16); free (id);
    if (!opt_bytes (suser, &user, &ul) || !opt_bytes (spass, &pass, &pl)) { puts ("bad-op"); return; }
    memset (&msg, 0, sizeof msg);
    out_new (cap);
    if (isref)
      r = stun_usage_turn_create_refresh (&agent, &msg, g_block + GUARD, cap, !strcmp (sprev, "1") ? &req_msg : NULL,
          (int32_t) strtol (a[3], NULL, 10), user, ul, pass, pl, (StunUsageTurnCompatibility) strtoul (stc, NULL, 10));
    else
      r = stun_usage_turn_create (&agent, &msg, g_block + GUARD, cap, !strcmp (sprev, "1") ? &req_msg : NULL,
          (StunUsageTurnRequestPorts) strtoul (a[3], NULL, 10), (int32_t) strtol (a[4], NULL, 10),
          (int32_t) strtol (a[5], NULL, 10), user, ul, pass, pl, (StunUsageTurnCompatibility) strtoul (stc, NULL, 10));
    g_inited = r != 0;
    snprintf (b, sizeof b, "%zu", r);
    g_nonl = 1; show_build (b); g_nonl = 0;
    show_info (&msg); show_slots (); printf ("\n");
  } else if (!strcmp (op, "uturnperm") && n == 12) {
    uint8_t *id, *user, *pass, *realm, *nonce, *peer = NULL, *blk; size_t ul, pl, rl, nl, r; long l; unsigned long cap;
    socklen_t plen; char b[32];
    if (!have_agent || !isnum (w[2]) || !isnum (w[11])) { puts ("bad-op"); return; }
    cap = strtoul (w[2], NULL, 10);
    if (strcmp (w[8], "null")) {
      char l128[] = "128";
      peer = make_addr (w[8], w[9], w[10], l128, &plen);
      if (!peer) { puts ("bad-op"); return; }
    }
    l = parse_hex (w[3], &id);
    if (l != 16 || cap > 70000) { puts ("bad-op"); if (l >= 0) free (id); free (peer); return; }
    memcpy (next_txid, id, 16); free (id);
    if (!opt_bytes (w[4], &user, &ul) || !opt_bytes (w[5], &pass, &pl) || !opt_bytes (w[6], &realm, &rl) ||
        !opt_bytes (w[7], &nonce, &nl)) { puts ("bad-op"); free (peer); return; }
    blk = out_alloc_block (cap);
    r = stun_usage_turn_create_permission (&agent, &msg, blk + GUARD, cap, user, ul, pass, pl, realm, rl, nonce, nl,
        (struct sockaddr_storage *) peer, (StunUsageTurnCompatibility) strtoul (w[11], NULL, 10));
    free (peer);
    if (msg.buffer == blk + GUARD) out_commit (blk, cap); else out_free_block (blk, cap);
    g_inited = r != 0;
    snprintf (b, sizeof b, "%zu", r);
    g_nonl = 1; show_build (b); g_nonl = 0;
    show_info (&msg); show_slots (); printf ("\n");
  } else if (!strcmp (op, "uturnproc") && n == 6) {
    unsigned long rl, al, alt = 0; socklen_t rsl, asl, tsl = 0; uint8_t *rb, *ab, *tb = NULL; int r, havealt = strcmp (w[4], "null");
    uint32_t bw = 0, lt = 0; int bwset, ltset;
    StunMessage probe;
    if (!have_req || !isnum (w[2]) || !isnum (w[3]) || (havealt && !isnum (w[4])) || !isnum (w[5])) { puts ("bad-op"); return; }
    rl = strtoul (w[2], NULL, 10); al = strtoul (w[3], NULL, 10);
    if (havealt) alt = strtoul (w[4], NULL, 10);
    if (rl > 4096 || al > 4096 || alt > 4096) { puts ("bad-op"); return; }
    rsl = (socklen_t) rl; asl = (socklen_t) al; tsl = (socklen_t) alt;
    rb = rl ? calloc (rl, 1) : (uint8_t *) malloc (1) + 1;
    ab = al ? calloc (al, 1) : (uint8_t *) malloc (1) + 1;
    if (havealt) tb = alt ? calloc (alt, 1) : (uint8_t *) malloc (1) + 1;
    /* bandwidth / lifetime are written only when the attribute is found: run twice with different
     * initial values to see whether they were written */
    { uint32_t bw2 = 1, lt2 = 1; socklen_t r2 = rsl, a2 = asl, t2 = tsl;
      uint8_t *rb2 = rl ? calloc (rl, 1) : (uint8_t *) malloc (1) + 1, *ab2 = al ? calloc (al, 1) : (uint8_t *) malloc (1) + 1;
      uint8_t *tb2 = havealt ? (alt ? calloc (alt, 1) : (uint8_t *) malloc (1) + 1) : NULL;
      probe = req_msg;
      stun_usage_turn_process (&probe, (struct sockaddr_storage *) rb2, &r2, (struct sockaddr_storage *) ab2, &a2,
          (struct sockaddr_storage *) tb2, havealt ? &t2 : NULL, &bw2, &lt2, (StunUsageTurnCompatibility) strtoul (w[5], NULL, 10));
      r = stun_usage_turn_process (&req_msg, (struct sockaddr_storage *) rb, &rsl, (struct sockaddr_storage *) ab, &asl,
          (struct sockaddr_storage *) tb, havealt ? &tsl : NULL, &bw, &lt, (StunUsageTurnCompatibility) strtoul (w[5], NULL, 10));
      bwset = bw == bw2; ltset = lt == lt2;
      free (rl ? rb2 : rb2 - 1); free (al ? ab2 : ab2 - 1); if (havealt) free (alt ? tb2 : tb2 - 1);
    }
    printf ("ret %d rlen %u", r, (unsigned) rsl);
    if (rl >= 2) print_sockaddr ("relay", rb);
    printf (" alen %u", (unsigned) asl);
    if (al >= 2) print_sockaddr ("addr", ab);
    if (havealt) printf (" altlen %u", (unsigned) tsl); else printf (" altlen null");
    if (havealt && alt >= 2) print_sockaddr ("alt", tb);
    if (bwset) printf (" bw %u", bw); else printf (" bw -");
    if (ltset) printf (" lt %u", lt); else printf (" lt -");
    printf ("\n");
    free (rl ? rb : rb - 1); free (al ? ab : ab - 1); if (havealt) free (alt ? tb : tb - 1);
  } else if (!strcmp (op, "uturnrefproc") && n == 3 && isnum (w[2])) {
    uint32_t lt = 0, lt2 = 1; int r; StunMessage probe;
    if (!have_req) { puts ("bad-op"); return; }
    probe = req_msg;
    stun_usage_turn_refresh_process (&probe, &lt2, (StunUsageTurnCompatibility) strtoul (w[2], NULL, 10));
    r = stun_usage_turn_refresh_process (&req_msg, &lt, (StunUsageTurnCompatibility) strtoul (w[2], NULL, 10));
    if (lt == lt2) printf ("ret %d lt %u\n", r, lt); else printf ("ret %d lt -\n", r);
  } else if ((!strcmp (op, "sha1") || !strcmp (op, "md5")) && n == 3) {
    uint8_t *d, *base; long l = parse_pkt (w[2], &d, &base); uint8_t out[20];
    if (l < 0) { puts ("bad-op"); return; }
    if (!strcmp (op, "sha1")) { gnutls_hash_fast (GNUTLS_DIG_SHA1, d, l, out); print_hex (out, 20); }
    else { gnutls_hash_fast (GNUTLS_DIG_MD5, d, l, out); print_hex (out, 16); }
    printf ("\n"); free (base);
  } else if (!strcmp (op, "hmac") && n == 4) {
    uint8_t *k, *kb, *d, *db; long kl = parse_pkt (w[2], &k, &kb), l; uint8_t out[20];
    if (kl < 0) { puts ("bad-op"); return; }
    l = parse_pkt (w[3], &d, &db);
    if (l < 0) { puts ("bad-op"); free (kb); return; }
    gnutls_hmac_fast (GNUTLS_MAC_SHA1, k, kl, d, l, out);
    print_hex (out, 20); printf ("\n"); free (kb); free (db);
  } else if (!strcmp (op, "creds") && n == 5) {
    uint8_t *r, *rb, *u, *ub, *pw, *pb; long rl, ul, pl; uint8_t out[16];
    rl = parse_pkt (w[2], &r, &rb);
    if (rl < 0) { puts ("bad-op"); return; }
    ul = parse_pkt (w[3], &u, &ub);
    if (ul < 0) { puts ("bad-op"); free (rb); return; }
    pl = parse_pkt (w[4], &pw, &pb);
    if (pl < 0) { puts ("bad-op"); free (rb); free (ub); return; }
    stun_hash_creds (r, rl, u, ul, pw, pl, out);
    print_hex (out, 16); printf ("\n"); free (rb); free (ub); free (pb);
  } else if (!strcmp (op, "mac") && n == 7 && isnum (w[3]) && isnum (w[4])) {
    uint8_t *d, *db, *k, *kb; long l = parse_pkt (w[2], &d, &db), kl; uint8_t out[20];
    unsigned long len = strtoul (w[3], NULL, 10), ml = strtoul (w[4], NULL, 10);
    if (l < 0) { puts ("bad-op"); return; }
    kl = parse_pkt (w[5], &k, &kb);
    if (kl < 0) { puts ("bad-op"); free (db); return; }
    if (len < 44) puts ("fault assert");
    else if (l < 2 || len - 24 > (unsigned long) l) puts ("fault oob");
    else {
      stun_sha1 (d, len, ml & 0xffff, out, k, kl, !strcmp (w[6], "1"));
      print_hex (out, 20); printf ("\n");
    }
    free (db); free (kb);
  } else if (!strcmp (op, "init") && n == 6) {
    uint8_t *id; long l; unsigned long cap;
    if (!isnum (w[2]) || !isnum (w[3]) || !isnum (w[4])) { puts ("bad-op"); return; }
    cap = strtoul (w[2], NULL, 10);
    l = parse_hex (w[5], &id);
    if (l != 16 || cap > 70000) { puts ("bad-op"); if (l >= 0) free (id); return; }
    memset (&msg, 0, sizeof msg);
    msg.buffer = out_new (cap); msg.buffer_len = cap; msg.agent = have_agent ? &agent : NULL;
    g_inited = stun_message_init (&msg, (StunClass) strtoul (w[3], NULL, 10),
        (StunMethod) strtoul (w[4], NULL, 10), id) ? 1 : 0;
    free (id);
    show_build (g_inited ? "1" : "0");
  } else if (!strcmp (op, "app")) {
    msg.agent = have_agent ? &agent : NULL;
    do_app (n, w);
  } else if (!strcmp (op, "raw") && n == 4) {
    long ty = hexnat (w[2]); unsigned long len; uint8_t *p; char b[32];
    if (!g_inited || ty < 0 || ty > 0xffff || !isnum (w[3])) { puts ("bad-op"); return; }
    len = strtoul (w[3], NULL, 10);
    if (len > 100000) { puts ("bad-op"); return; }
    msg.agent = have_agent ? &agent : NULL;
    p = stun_message_append (&msg, ty, len);
    snprintf (b, sizeof b, "%ld", p ? (long) (p - msg.buffer) : 0L);
    show_build (b);
  } else if (!strcmp (op, "len") && n == 7 && !strcmp (w[3], "split") && !strcmp (w[5], "pad")) {
    do_len (w);
  } else if (!strcmp (op, "find") || !strncmp (op, "get", 3) ||
      (op[0] == 'm' && op[1] && strcmp (op, "md5") && strcmp (op, "mac"))) {
    do_get (n, w);
  } else if (!strcmp (op, "hdr") && n == 3) {
    uint8_t *pkt; long l = parse_hex (w[2], &pkt); StunMessage m; StunTransactionId id;
    if (l < 0) { puts ("bad-op"); return; }
    if (l < 20) { puts ("fault oob"); free (pkt); return; }
    set_pkt_msg (&m, pkt, l);
    stun_message_id (&m, id);
    printf ("class %u method %u cookie %d id ", (unsigned) stun_message_get_class (&m),
        (unsigned) stun_message_get_method (&m), stun_message_has_cookie (&m) ? 1 : 0);
    print_hex (id, 16);
    printf (" len %u\n", (unsigned) stun_message_length (&m));
    free (pkt);
  } else if (!strcmp (op, "crc") && n == 4) {
    uint8_t *d; long l = parse_hex (w[2], &d); crc_data cd;
    if (l < 0) { puts ("bad-op"); return; }
    cd.buf = d; cd.len = l;
    printf ("%u\n", stun_crc32 (&cd, 1, !strcmp (w[3], "1")));
    free (d);
  } else if (!strcmp (op, "fpr") && n == 5 && isnum (w[3])) {
    uint8_t *d; long l = parse_hex (w[2], &d); unsigned long len = strtoul (w[3], NULL, 10);
    if (l < 0) { puts ("bad-op"); return; }
    if (len < 12 || len - 8 > (unsigned long) l || l < 2) { puts ("fault oob"); free (d); return; }
    printf ("%u\n", ntohl (stun_fingerprint (d, len, !strcmp (w[4], "1"))));
    free (d);
  } else puts ("bad-op");
}

int main (void)
{
  static char line[1 << 20];
  char *w[MAXW];
  setvbuf (stdout, NULL, _IOFBF, 1 << 16);
  while (fgets (line, sizeof line, stdin)) {
    int n;
    if (line[0] == '#' || line[0] == '\n') continue;
    n = split_words (line, w);
    if (n == 0) continue;
    if (!strcmp (w[0], "reset")) {
      have_agent = 0; g_inited = 0; have_req = 0;
      memset (&req_msg, 0, sizeof req_msg);
      memset (&msg, 0, sizeof msg);
      if (g_block) { out_free_block (g_block, g_cap); g_block = NULL; g_cap = 0; }
      arena_free ();
      puts ("reset");
    } else if (!strcmp (w[0], "stun")) stun_op (n, w);
    else puts ("bad-op");
    fflush (stdout);
  }
  return 0;
}
