/* pseudo-TCP: line-protocol driver against the REAL PseudoTcpSocket (agent/pseudotcp.c of the
 * current working tree).  Protocol: see the comment at the top of lean/Nice/Drv/PTcp.lean.
 *
 * pseudotcp.c is #included (link with --allow-multiple-definition) so that the private state can be
 * printed after every operation; the socket is driven through its public API only.
 * The fifo rings come from g_slice_alloc (uninitialised memory); they are zero-filled here so that
 * runs are deterministic (the model starts from zeros as well). */
#include "common.h"
#include <errno.h>
#include <glib.h>
#include <glib-object.h>
#include <gio/gio.h>
#define g_slice_alloc(n) g_slice_alloc0 (n)
#include "agent/pseudotcp.c"

typedef struct {
  PseudoTcpSocket *sock;
  PseudoTcpWriteResult wres;
} Slot;

static Slot slots[2];
static guint32 clk_ms = 0;

/* event list of the current operation */
static char *ev = NULL;
static size_t ev_len = 0, ev_cap = 0;

static void ev_reserve (size_t n)
{
  if (ev_len + n + 1 > ev_cap) {
    ev_cap = (ev_len + n + 1) * 2 + 64;
    ev = realloc (ev, ev_cap);
  }
}

static void ev_add (const char *s)
{
  size_t n = strlen (s);
  ev_reserve (n + 1);
  if (ev_len) ev[ev_len++] = ' ';
  memcpy (ev + ev_len, s, n);
  ev_len += n;
  ev[ev_len] = 0;
}

static const char *err_name (int e)
{
  static char buf[32];
  switch (e) {
    case 0: return "0";
    case EINVAL: return "EINVAL";
    case EMSGSIZE: return "EMSGSIZE";
    case ENOTCONN: return "ENOTCONN";
    case EWOULDBLOCK: return "EWOULDBLOCK";
    case EPIPE: return "EPIPE";
    case ECONNABORTED: return "ECONNABORTED";
    case ECONNRESET: return "ECONNRESET";
    case ETIMEDOUT: return "ETIMEDOUT";
    default: snprintf (buf, sizeof buf, "E%d", e); return buf;
  }
}

static void cb_opened (PseudoTcpSocket *t, gpointer d) { (void) t; (void) d; ev_add ("opened"); }
static void cb_readable (PseudoTcpSocket *t, gpointer d) { (void) t; (void) d; ev_add ("readable"); }
static void cb_writable (PseudoTcpSocket *t, gpointer d) { (void) t; (void) d; ev_add ("writable"); }
static void cb_closed (PseudoTcpSocket *t, guint32 err, gpointer d)
{
  char b[64];
  (void) t; (void) d;
  snprintf (b, sizeof b, "closed:%s", err_name ((int) err));
  ev_add (b);
}

static PseudoTcpWriteResult cb_write (PseudoTcpSocket *t, const gchar *buffer, guint32 len, gpointer d)
{
  static const char hx[] = "0123456789abcdef";
  Slot *sl = d;
  guint32 i;
  (void) t;
  ev_reserve (2 * (size_t) len + 4);
  if (ev_len) ev[ev_len++] = ' ';
  ev[ev_len++] = 'p'; ev[ev_len++] = ':';
  if (len == 0) ev[ev_len++] = '-';
  for (i = 0; i < len; i++) {
    ev[ev_len++] = hx[((guint8) buffer[i]) >> 4];
    ev[ev_len++] = hx[((guint8) buffer[i]) & 15];
  }
  ev[ev_len] = 0;
  return sl->wres;
}

static const char *state_name (PseudoTcpState s) { return pseudo_tcp_state_get_name (s); }

static void dump (PseudoTcpSocket *sock)
{
  PseudoTcpSocketPrivate *p = sock->priv;
  GList *i, *u;
  int first = 1, ok = 1;
  guint nu = 0;
  printf ("una=%u nxt=%u rnxt=%u rwnd=%u swnd=%u cwnd=%u ssth=%u rto=%u base=%u tack=%u mss=%u "
      "lvl=%u mtu=%u larg=%u dup=%u rec=%u fr=%d srtt=%u var=%u tsr=%u tsl=%u lats=%u lsnd=%u lrcv=%u "
      "ltr=%u rfin=%u sws=%u rws=%u rbl=%u sbl=%u rb=%zu@%zu/%zu sb=%zu@%zu/%zu fa=%d sd=%d sr=%d re=%d "
      "we=%d og=%d ng=%d ad=%u sl=[",
      p->snd_una, p->snd_nxt, p->rcv_nxt, p->rcv_wnd, p->snd_wnd, p->cwnd, p->ssthresh, p->rx_rto,
      p->rto_base, p->t_ack, p->mss, p->msslevel, p->mtu_advise, p->largest, (unsigned) p->dup_acks,
      p->recover, p->fast_recovery ? 1 : 0, p->rx_srtt, p->rx_rttvar, p->ts_recent, p->ts_lastack,
      p->last_acked_ts, p->lastsend, p->lastrecv, p->last_traffic, p->rcv_fin,
      (unsigned) p->swnd_scale, (unsigned) p->rwnd_scale, p->rbuf_len, p->sbuf_len,
      p->rbuf.data_length, p->rbuf.read_position, p->rbuf.buffer_length,
      p->sbuf.data_length, p->sbuf.read_position, p->sbuf.buffer_length,
      p->support_fin_ack ? 1 : 0, (int) p->shutdown, p->shutdown_reads ? 1 : 0, p->bReadEnable ? 1 : 0,
      p->bWriteEnable ? 1 : 0, p->bOutgoing ? 1 : 0, p->use_nagling ? 1 : 0, p->ack_delay);
  /* unsent_slist must be the in-order subsequence of slist (the model's representation) */
  u = p->unsent_slist.head;
  for (i = p->slist.head; i; i = i->next) {
    SSegment *g = i->data;
    int uns = 0;
    if (u && u->data == g) { uns = 1; u = u->next; nu++; }
    printf ("%s%u+%ux%uf%u%s", first ? "" : " ", g->seq, g->len, (unsigned) g->xmit, (unsigned) g->flags,
        uns ? "u" : "");
    first = 0;
  }
  if (u != NULL) ok = 0;
  printf ("]%s rl=[", ok ? "" : "!unsent-order");
  first = 1;
  for (i = p->rlist; i; i = i->next) {
    RSegment *g = i->data;
    printf ("%s%u+%u", first ? "" : " ", g->seq, g->len);
    first = 0;
  }
  printf ("]");
}

static void reply (Slot *sl, long ret, const char *x)
{
  printf ("ret=%ld x=%s err=%s ev=[%s] st=%s ", ret, x, err_name (pseudo_tcp_socket_get_error (sl->sock)),
      ev_len ? ev : "", state_name (sl->sock->priv->state));
  dump (sl->sock);
  putchar ('\n');
}

static int kv (const char *w, const char *key, unsigned long long *out)
{
  size_t n = strlen (key);
  char *end;
  if (strncmp (w, key, n) || w[n] != '=' || !w[n + 1]) return 0;
  *out = strtoull (w + n + 1, &end, 10);
  return *end == 0;
}

static int num (const char *w, unsigned long long *out)
{
  char *end;
  if (!*w || *w < '0' || *w > '9') return 0;
  errno = 0;
  *out = strtoull (w, &end, 10);
  return *end == 0 && errno == 0;
}

static Slot *slot_of (const char *n)
{
  if (!strcmp (n, "l")) return &slots[0];
  if (!strcmp (n, "r")) return &slots[1];
  return NULL;
}

static void free_slot (Slot *s)
{
  if (s->sock) g_object_unref (s->sock);
  s->sock = NULL;
  s->wres = WR_SUCCESS;
}

static void do_line (char **w, int n)
{
  Slot *sl;
  unsigned long long a, b, c, d, e, f;
  ev_len = 0;
  if (ev) ev[0] = 0;
  if (n < 2) { puts ("bad-op"); return; }
  if (!strcmp (w[1], "t") && n == 3) {
    if (!num (w[2], &a) || a >= (1ULL << 32)) { puts ("bad-op"); return; }
    clk_ms = (guint32) a;
    verif_now_us = (uint64_t) clk_ms * 1000;
    if (slots[0].sock) pseudo_tcp_socket_set_time (slots[0].sock, clk_ms);
    if (slots[1].sock) pseudo_tcp_socket_set_time (slots[1].sock, clk_ms);
    puts ("ok");
    return;
  }
  if (n < 3 || !(sl = slot_of (w[2]))) { puts ("bad-op"); return; }
  if (!strcmp (w[1], "new") && n == 9) {
    PseudoTcpCallbacks cbs = { sl, cb_opened, cb_readable, cb_writable, cb_closed, cb_write };
    if (!num (w[3], &a) || !kv (w[4], "finack", &b) || !kv (w[5], "rcvbuf", &c) || !kv (w[6], "sndbuf", &d) ||
        !kv (w[7], "nodelay", &e) || !kv (w[8], "ackdelay", &f) || a >= (1ULL << 32) || b > 1 || e > 1 ||
        f >= (1ULL << 32) || c < 1 || c > 4194304 || d < 1 || d > 4194304) { puts ("bad-op"); return; }
    free_slot (sl);
    sl->sock = g_object_new (PSEUDO_TCP_SOCKET_TYPE, "conversation", (guint) a, "callbacks", &cbs,
        "support-fin-ack", (gboolean) b, NULL);
    g_object_set (sl->sock, "rcv-buf", (guint) c, NULL);
    g_object_set (sl->sock, "snd-buf", (guint) d, NULL);
    g_object_set (sl->sock, "no-delay", (gboolean) e, NULL);
    g_object_set (sl->sock, "ack-delay", (guint) f, NULL);
    pseudo_tcp_socket_set_time (sl->sock, clk_ms);
    reply (sl, 0, "-");
    return;
  }
  if (!sl->sock) { puts ("bad-op"); return; }
  if (!strcmp (w[1], "connect") && n == 3) {
    reply (sl, pseudo_tcp_socket_connect (sl->sock) ? 1 : 0, "-");
  } else if (!strcmp (w[1], "send") && n == 4) {
    uint8_t *buf; long l = parse_hex (w[3], &buf);
    if (l < 0) { puts ("bad-op"); return; }
    reply (sl, pseudo_tcp_socket_send (sl->sock, (const char *) buf, (guint32) l), "-");
    free (buf);
  } else if (!strcmp (w[1], "sendp") && n == 5) {
    uint8_t *buf; unsigned long long j;
    if (!num (w[3], &a) || !num (w[4], &b) || a > 1048576) { puts ("bad-op"); return; }
    buf = malloc (a ? a : 1);
    if (a == 0) { free (buf); buf = malloc (0); }
    for (j = 0; j < a; j++) buf[j] = (uint8_t) ((b + 131 * j + 7 * (j / 256)) % 256);
    reply (sl, pseudo_tcp_socket_send (sl->sock, (const char *) buf, (guint32) a), "-");
    free (buf);
  } else if (!strcmp (w[1], "recv") && n == 4) {
    char *buf, *hex; gint r; long i;
    static const char hx[] = "0123456789abcdef";
    if (!num (w[3], &a) || a > 1048576) { puts ("bad-op"); return; }
    buf = malloc (a ? a : 1);
    if (a == 0) { free (buf); buf = malloc (0); }
    r = pseudo_tcp_socket_recv (sl->sock, buf, (size_t) a);
    if (r > 0) {
      hex = malloc (2 * (size_t) r + 1);
      for (i = 0; i < r; i++) { hex[2 * i] = hx[((guint8) buf[i]) >> 4]; hex[2 * i + 1] = hx[((guint8) buf[i]) & 15]; }
      hex[2 * r] = 0;
    } else hex = strdup ("-");
    reply (sl, r, hex);
    free (hex); free (buf);
  } else if (!strcmp (w[1], "pkt") && n == 4) {
    uint8_t *buf; long l = parse_hex (w[3], &buf);
    if (l < 0) { puts ("bad-op"); return; }
    reply (sl, pseudo_tcp_socket_notify_packet (sl->sock, (const gchar *) buf, (guint32) l) ? 1 : 0, "-");
    free (buf);
  } else if (!strcmp (w[1], "pktm") && n == 4) {
    /* the entry point the agent uses: a 24-byte header buffer and a body buffer.  Both are exact-size heap blocks
     * (the body block has exactly the received body length), so any read past what was received is reported; the
     * unused tail of the header block holds stale bytes, as the agent's reused buffer would */
    uint8_t *buf, *hdr, *body; long l = parse_hex (w[3], &buf); long bl; GInputVector v[2]; NiceInputMessage m;
    if (l < 0) { puts ("bad-op"); return; }
    bl = l > 24 ? l - 24 : 0;
    hdr = malloc (24); memset (hdr, 0xAA, 24); memcpy (hdr, buf, l < 24 ? (size_t) l : 24);
    body = malloc (bl ? (size_t) bl : 1);
    if (bl == 0) { free (body); body = malloc (0); }
    if (bl) memcpy (body, buf + 24, (size_t) bl);
    v[0].buffer = hdr; v[0].size = 24; v[1].buffer = body; v[1].size = (gsize) bl;
    m.buffers = v; m.n_buffers = 2; m.from = NULL; m.length = (gsize) l;
    reply (sl, pseudo_tcp_socket_notify_message (sl->sock, &m) ? 1 : 0, "-");
    free (buf); free (hdr); free (body);
  } else if (!strcmp (w[1], "pktz") && n == 5) {
    /* the given bytes followed by <n> zero bytes */
    uint8_t *buf, *full; long l = parse_hex (w[3], &buf);
    if (l < 0) { puts ("bad-op"); return; }
    if (!num (w[4], &a) || a > 70000) { free (buf); puts ("bad-op"); return; }
    full = malloc ((size_t) l + a ? (size_t) l + a : 1);
    if ((size_t) l + a == 0) { free (full); full = malloc (0); }
    memcpy (full, buf, (size_t) l);
    memset (full + l, 0, (size_t) a);
    reply (sl, pseudo_tcp_socket_notify_packet (sl->sock, (const gchar *) full, (guint32) (l + a)) ? 1 : 0, "-");
    free (buf); free (full);
  } else if (!strcmp (w[1], "clock") && n == 3) {
    pseudo_tcp_socket_notify_clock (sl->sock);
    reply (sl, 0, "-");
  } else if (!strcmp (w[1], "next") && (n == 3 || n == 4)) {
    guint64 timeout = 0; gboolean r; char b2[32];
    if (n == 4) { if (!num (w[3], &a)) { puts ("bad-op"); return; } timeout = a; }
    r = pseudo_tcp_socket_get_next_clock (sl->sock, &timeout);
    snprintf (b2, sizeof b2, "%llu", (unsigned long long) timeout);
    reply (sl, r ? 1 : 0, b2);
  } else if (!strcmp (w[1], "shut") && n == 4) {
    PseudoTcpShutdown how;
    if (!strcmp (w[3], "rd")) how = PSEUDO_TCP_SHUTDOWN_RD;
    else if (!strcmp (w[3], "wr")) how = PSEUDO_TCP_SHUTDOWN_WR;
    else if (!strcmp (w[3], "rdwr")) how = PSEUDO_TCP_SHUTDOWN_RDWR;
    else { puts ("bad-op"); return; }
    pseudo_tcp_socket_shutdown (sl->sock, how);
    reply (sl, 0, "-");
  } else if (!strcmp (w[1], "close") && n == 4) {
    if (strcmp (w[3], "0") && strcmp (w[3], "1")) { puts ("bad-op"); return; }
    pseudo_tcp_socket_close (sl->sock, w[3][0] == '1');
    reply (sl, 0, "-");
  } else if (!strcmp (w[1], "mtu") && n == 4) {
    if (!num (w[3], &a) || a < 296 || a > 65535) { puts ("bad-op"); return; }
    pseudo_tcp_socket_notify_mtu (sl->sock, (guint16) a);
    reply (sl, 0, "-");
  } else if (!strcmp (w[1], "wres") && n == 4) {
    if (!strcmp (w[3], "ok")) sl->wres = WR_SUCCESS;
    else if (!strcmp (w[3], "toolarge")) sl->wres = WR_TOO_LARGE;
    else if (!strcmp (w[3], "fail")) sl->wres = WR_FAIL;
    else { puts ("bad-op"); return; }
    reply (sl, 0, "-");
  } else if (!strcmp (w[1], "q") && n == 3) {
    char b2[160];
    gboolean cl = pseudo_tcp_socket_is_closed (sl->sock);
    gboolean rc = pseudo_tcp_socket_is_closed_remotely (sl->sock);
    gint av = pseudo_tcp_socket_get_available_bytes (sl->sock);
    gsize sp = pseudo_tcp_socket_get_available_send_space (sl->sock);
    gboolean cs = pseudo_tcp_socket_can_send (sl->sock);
    snprintf (b2, sizeof b2, "closed=%d,rclosed=%d,avail=%d,space=%zu,cansend=%d", cl ? 1 : 0, rc ? 1 : 0, av, sp,
        cs ? 1 : 0);
    reply (sl, 0, b2);
  } else puts ("bad-op");
}

int main (void)
{
  char *line = NULL;
  size_t cap = 0;
  char *w[MAXW];
  while (getline (&line, &cap, stdin) > 0) {
    int n;
    if (line[0] == '#' || line[0] == '\n') continue;
    n = split_words (line, w);
    if (n == 0) continue;
    if (!strcmp (w[0], "reset") && n == 1) {
      free_slot (&slots[0]); free_slot (&slots[1]);
      clk_ms = 0; verif_now_us = 0;
      puts ("reset");
    } else if (!strcmp (w[0], "ptcp")) do_line (w, n);
    else puts ("bad-op");
    fflush (stdout);
  }
  free_slot (&slots[0]); free_slot (&slots[1]);
  return 0;
}
