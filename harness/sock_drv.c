/* sock_drv: line-protocol driver for the stream-based socket layers of libnice (properties C17, C16).
 *
 * The REAL layer code (socket/udp-turn-over-tcp.c, http.c, socks5.c, pseudossl.c, tcp-bsd.c,
 * socket.c, the RFC 4571 paths of agent/agent.c) is compiled into this translation unit by
 * #include (the file-local `socket_*` statics are renamed per file through PFX) so that the private
 * state can be printed, the static agent_recv_message_unlocked() can be called, and indeterminate
 * automatic variables have a fixed value (the check passes -ftrivial-auto-var-init=pattern: 0xAA;
 * uninitialised heap is ASan's 0xBE, see __asan_default_options below).  Linked with
 * --allow-multiple-definition: these copies win over libsocket.a / libagent.a.
 *
 * Protocol (one line in, one line out; see lean/Nice/Drv/Sock.lean for the same text):
 *   sock base scripted|real          base used by the next `new` (default scripted)
 *   sock new turntcp <draft9|google|msn|oc2007|rfc5766>
 *   sock new http <userhex|-> <passhex|-> <v4|v6>
 *   sock new socks5 <userhex|-> <passhex|-> <v4|v6>
 *   sock new pseudossl <google|msoc>
 *   sock new rfc4571                 real NiceAgent + component + tcp-bsd socket over a socketpair
 *   sock new tcpbsd <0|1>            tcp-bsd socket (reliable flag) over a socketpair, sendmsg interposed
 *   sock push <hex>                  bytes arrive in the kernel buffer of the base (no recv call)
 *   sock recv                        ONE recv_messages call (1 message, one 65536-byte buffer)
 *   sock feed <hex>                  push, then recv while the base is readable (bytes pending, or the
 *                                    layer asked for a wake-up), stopping at the first negative return
 *   sock eof                         the peer shuts the stream down
 *   sock send <hex>[,<hex>...]       send_messages (unreliable) of ONE message made of these buffers
 *   sock sendr <hex>[,<hex>...]      send_messages_reliable
 *   sock wrote <n>[,<n>...]          how many bytes the kernel accepts on the next sendmsg calls
 *                                    (0 = EAGAIN; list exhausted = everything)
 *   sock writable                    one iteration of the socket's main context (fires G_IO_OUT source)
 * Output:  ret <r>[,<r>...] up [<hex>,...] down [<hex>,...] state <layer state> base <ok|err|freed> pend <n>
 *   up = messages delivered upward (NiceInputMessage.length bytes of the buffer), one entry per message
 *   down = byte chunks accepted by the base (scripted base: one per message; real base: one per sendmsg)
 */
#define _GNU_SOURCE
#include "common.h"
#include <glib.h>
#include <gio/gio.h>
#include <errno.h>
#include <dlfcn.h>
#include <unistd.h>
#include <fcntl.h>
#include <sys/socket.h>
#include <sys/un.h>

const char *__asan_default_options (void)
{
  return "malloc_fill_byte=190:max_malloc_fill_size=4194304";
}

/* ---- rename the per-file statics ---- */
#define SR_CAT2(a, b) a##b
#define SR_CAT(a, b) SR_CAT2 (a, b)
#define socket_close SR_CAT (PFX, socket_close)
#define socket_recv_messages SR_CAT (PFX, socket_recv_messages)
#define socket_recv_message SR_CAT (PFX, socket_recv_message)
#define socket_send_messages SR_CAT (PFX, socket_send_messages)
#define socket_send_message SR_CAT (PFX, socket_send_message)
#define socket_send_messages_reliable SR_CAT (PFX, socket_send_messages_reliable)
#define socket_is_reliable SR_CAT (PFX, socket_is_reliable)
#define socket_can_send SR_CAT (PFX, socket_can_send)
#define socket_set_writable_callback SR_CAT (PFX, socket_set_writable_callback)
#define socket_is_based_on SR_CAT (PFX, socket_is_based_on)
#define socket_send_more SR_CAT (PFX, socket_send_more)
#define mutex SR_CAT (PFX, mutex)

#include "socket/socket.c"
#define PFX tt_
#include "socket/udp-turn-over-tcp.c"
#undef PFX
#define PFX http_
#include "socket/http.c"
#undef PFX
#define PFX s5_
#include "socket/socks5.c"
#undef PFX
#define PFX ssl_
#include "socket/pseudossl.c"
#undef PFX
#define PFX tcp_
#include "socket/tcp-bsd.c"
#undef PFX
#define PFX turn_
#include "socket/udp-turn.c"
#undef PFX
#undef socket_close
#undef socket_recv_messages
#undef socket_recv_message
#undef socket_send_messages
#undef socket_send_message
#undef socket_send_messages_reliable
#undef socket_is_reliable
#undef socket_can_send
#undef socket_set_writable_callback
#undef socket_is_based_on
#undef socket_send_more
#undef mutex
#include "agent/agent.c"

/* ------------------------------------------------------------------ output collection */
static GString *up_s, *down_s, *ret_s;
static int up_n, down_n, ret_n;

static void out_reset (void)
{
  g_string_truncate (up_s, 0); g_string_truncate (down_s, 0); g_string_truncate (ret_s, 0);
  up_n = down_n = ret_n = 0;
}
static void hex_append (GString *s, const uint8_t *b, size_t n)
{
  static const char d[] = "0123456789abcdef";
  size_t i;
  if (n == 0) { g_string_append_c (s, '-'); return; }
  for (i = 0; i < n; i++) { g_string_append_c (s, d[b[i] >> 4]); g_string_append_c (s, d[b[i] & 15]); }
}
static void add_up (const uint8_t *b, size_t n) { if (up_n++) g_string_append_c (up_s, ','); hex_append (up_s, b, n); }
static void add_down (const uint8_t *b, size_t n) { if (down_n++) g_string_append_c (down_s, ','); hex_append (down_s, b, n); }
static void add_ret (long r) { if (ret_n++) g_string_append_c (ret_s, ','); g_string_append_printf (ret_s, "%ld", r); }

/* ------------------------------------------------------------------ kernel acceptance script */
#define MAXACC 4096
static long acc[MAXACC]; static int acc_n, acc_i;
static int real_fd = -1;       /* our end of the socketpair, given to libnice */
static int peer_fd = -1;       /* the harness end: feed writes here */

ssize_t sendmsg (int fd, const struct msghdr *m, int flags)
{
  static ssize_t (*real) (int, const struct msghdr *, int);
  if (fd == real_fd && real_fd >= 0) {
    size_t tot = 0, i, take, k = 0;
    uint8_t *tmp;
    for (i = 0; i < m->msg_iovlen; i++) tot += m->msg_iov[i].iov_len;
    take = tot;
    if (acc_i < acc_n) { if ((size_t) acc[acc_i] < take) take = acc[acc_i]; acc_i++; }
    if (take == 0 && tot > 0) { errno = EAGAIN; return -1; }
    tmp = malloc (take ? take : 1);
    for (i = 0; i < m->msg_iovlen && k < take; i++) {
      size_t l = m->msg_iov[i].iov_len; if (l > take - k) l = take - k;
      memcpy (tmp + k, m->msg_iov[i].iov_base, l); k += l;
    }
    add_down (tmp, take);
    free (tmp);
    return (ssize_t) take;
  }
  if (!real) real = dlsym (RTLD_NEXT, "sendmsg");
  return real (fd, m, flags);
}

/* ------------------------------------------------------------------ scripted base socket
 * a faithful mirror of tcp-bsd.c socket_recv_messages over a scripted kernel buffer:
 *   recvmsg with data pending returns min(capacity, pending) (0 when capacity is 0!),
 *   with nothing pending EAGAIN, after shutdown 0;  a 0 return sets the sticky error flag. */
static struct {
  uint8_t *pend; size_t plen, poff;
  int err, eof, alive, reliable;
  NiceSocket *sock;
} B;
static NiceAddress remote_addr, local_addr;

static size_t base_pending (void) { return B.plen - B.poff; }

static gint base_recv_messages (NiceSocket *sock, NiceInputMessage *msgs, guint n)
{
  guint i;
  if (B.err) return -1;
  for (i = 0; i < n; i++) {
    size_t cap = 0, avail = base_pending (), take, k = 0;
    gint j;
    gssize len;
    for (j = 0; (msgs[i].n_buffers >= 0 && j < msgs[i].n_buffers) ||
         (msgs[i].n_buffers < 0 && msgs[i].buffers[j].buffer != NULL); j++) cap += msgs[i].buffers[j].size;
    if (avail == 0 && !B.eof) len = -1;        /* EAGAIN */
    else { take = cap < avail ? cap : avail; len = take; }
    if (len > 0) {
      for (j = 0; k < (size_t) len; j++) {
        size_t l = msgs[i].buffers[j].size; if (l > len - k) l = len - k;
        memcpy (msgs[i].buffers[j].buffer, B.pend + B.poff + k, l); k += l;
      }
      B.poff += len;
    }
    msgs[i].length = MAX (len, 0);
    if (len == 0) { B.err = 1; break; }
    if (len < 0) return 0;                      /* would block */
    if (msgs[i].from) *msgs[i].from = remote_addr;
  }
  if (B.err && i == 0) return -1;
  return i;
}
static void base_record (const NiceOutputMessage *m)
{
  GByteArray *a = g_byte_array_new ();
  gint j;
  for (j = 0; (m->n_buffers >= 0 && j < m->n_buffers) || (m->n_buffers < 0 && m->buffers[j].buffer != NULL); j++)
    g_byte_array_append (a, m->buffers[j].buffer, m->buffers[j].size);
  add_down (a->data, a->len);
  g_byte_array_unref (a);
}
static gint base_send_messages (NiceSocket *sock, const NiceAddress *to, const NiceOutputMessage *m, guint n)
{
  guint i;
  if (B.err) return -1;
  for (i = 0; i < n; i++) base_record (&m[i]);
  return n;
}
static gboolean base_is_reliable (NiceSocket *sock) { return B.reliable; }
static gboolean base_can_send (NiceSocket *sock, NiceAddress *a) { return TRUE; }
static void base_set_writable_callback (NiceSocket *sock, NiceSocketWritableCb cb, gpointer d) { }
static void base_close (NiceSocket *sock) { B.alive = 0; B.sock = NULL; }

static NiceSocket *base_new (void)
{
  NiceSocket *s = g_slice_new0 (NiceSocket);
  s->type = NICE_SOCKET_TYPE_TCP_BSD;
  s->addr = local_addr;
  s->recv_messages = base_recv_messages;
  s->send_messages = base_send_messages;
  s->send_messages_reliable = base_send_messages;
  s->is_reliable = base_is_reliable;
  s->can_send = base_can_send;
  s->set_writable_callback = base_set_writable_callback;
  s->close = base_close;
  B.alive = 1; B.err = 0; B.eof = 0; B.reliable = 1; B.sock = s;
  return s;
}

/* ------------------------------------------------------------------ session state */
enum { L_NONE, L_TURNTCP, L_HTTP, L_SOCKS5, L_PSSL, L_RFC4571, L_TCPBSD, L_TURN };
static int layer = L_NONE, use_real_base = 0, real_base = 0;
static NiceSocket *top;          /* layer under test */
static NiceSocket *tcpsock;      /* real tcp-bsd socket (L_TCPBSD, L_RFC4571, real base) */
static GMainContext *ctx;
static GSocket *gsock;
static NiceAgent *agent; static guint stream_id; static NiceStream *stream; static NiceComponent *component;
static NiceCandidate *lcand, *rcand;
static int wcb_count;

static void writable_cb (NiceSocket *s, gpointer d) { wcb_count++; }

static void teardown (void)
{
  if (agent) {
    if (component) { component->selected_pair.local = NULL; component->selected_pair.remote = NULL; }
    if (lcand) { ((NiceCandidateImpl *) lcand)->sockptr = NULL; nice_candidate_free (lcand); lcand = NULL; }
    if (rcand) { nice_candidate_free (rcand); rcand = NULL; }
    nice_agent_remove_stream (agent, stream_id);
    g_object_unref (agent); agent = NULL; stream = NULL; component = NULL;
  }
  if (top && top != tcpsock) { nice_socket_free (top); if (real_base) tcpsock = NULL; }
  top = NULL;
  if (tcpsock) { nice_socket_free (tcpsock); tcpsock = NULL; }
  if (B.sock) { nice_socket_free (B.sock); }
  if (gsock) { g_object_unref (gsock); gsock = NULL; }
  if (peer_fd >= 0) { close (peer_fd); peer_fd = -1; }
  real_fd = -1;
  if (ctx) { while (g_main_context_iteration (ctx, FALSE)); g_main_context_unref (ctx); ctx = NULL; }
  free (B.pend); memset (&B, 0, sizeof B);
  layer = L_NONE; real_base = 0; acc_n = acc_i = 0; wcb_count = 0;
}

static NiceSocket *make_tcpbsd (gboolean reliable)
{
  int sv[2];
  if (socketpair (AF_UNIX, SOCK_STREAM, 0, sv)) return NULL;
  fcntl (sv[0], F_SETFL, O_NONBLOCK); fcntl (sv[1], F_SETFL, O_NONBLOCK);
  real_fd = sv[0]; peer_fd = sv[1];
  gsock = g_socket_new_from_fd (sv[0], NULL);
  g_socket_set_blocking (gsock, FALSE);
  ctx = g_main_context_new ();
  tcpsock = nice_tcp_bsd_socket_new_from_gsock (ctx, gsock, &local_addr, &remote_addr, reliable);
  nice_socket_set_writable_callback (tcpsock, writable_cb, NULL);
  return tcpsock;
}

static size_t pending_now (void)
{
  if (layer == L_TCPBSD || layer == L_RFC4571 || real_base) {
    gssize a = gsock ? g_socket_get_available_bytes (gsock) : 0;
    return a > 0 ? a : 0;
  }
  return base_pending ();
}

static const char *http_names[] = { "init", "headers", "body", "connected", "error" };
static const char *s5_names[] = { "init", "auth", "connect", "connected", "error" };

static void print_line (void)
{
  printf ("ret %s up [%s] down [%s] state ", ret_n ? ret_s->str : "-", up_s->str, down_s->str);
  switch (layer) {
    case L_TURNTCP: { TurnTcpPriv *p = top->priv;
      printf ("exp=%u,len=%zu", p->expecting_len, p->recv_buf_len); break; }
    case L_HTTP: { HttpPriv *p = top->priv;
      printf ("%s,cl=%zu,pos=%zu,fill=%zu,cap=%zu,q=%u", http_names[p->state], p->content_length,
          p->recv_buf_pos, p->recv_buf_fill, p->recv_buf_length, g_queue_get_length (&p->send_queue)); break; }
    case L_SOCKS5: { Socks5Priv *p = top->priv;
      printf ("%s,q=%u", s5_names[p->state], g_queue_get_length (&p->send_queue)); break; }
    case L_PSSL: { PseudoSSLPriv *p = top->priv;
      printf ("hs=%d,q=%u", p->handshaken, g_queue_get_length (&p->send_queue)); break; }
    case L_RFC4571:
      printf ("off=%u,fo=%u,fs=%u,cs=%u,wk=%d", component->rfc4571_buffer_offset, component->rfc4571_frame_offset,
          component->rfc4571_frame_size, component->rfc4571_consumed_size, component->rfc4571_wakeup_needed);
      /* fall through: also print the tcp-bsd queue */
    case L_TCPBSD: { TcpPriv *p = tcpsock->priv; GList *l; int k = 0;
      if (layer == L_RFC4571) printf (",");
      printf ("q=[");
      for (l = p->send_queue.head; l; l = l->next) { NiceSocketQueuedSend *t = l->data;
        if (k++) putchar (','); print_hex ((uint8_t *) t->buf, t->length); }
      printf ("],err=%d,src=%d,wcb=%d", p->error, p->io_source != NULL, wcb_count); break; }
    default: printf ("none");
  }
  if (layer == L_TCPBSD || layer == L_RFC4571 || real_base)
    printf (" base real pend %zu\n", pending_now ());
  else
    printf (" base %s pend %zu\n", !B.alive ? "freed" : B.err ? "err" : "ok", base_pending ());
}

/* one recv call on the layer under test; returns the layer's return value */
static long recv_once (void)
{
  size_t cap = 65536;
  uint8_t *buf = malloc (cap);
  GInputVector v = { buf, cap };
  NiceAddress from;
  NiceInputMessage m = { &v, 1, &from, 0 };
  long r;
  nice_address_init (&from);
  if (layer == L_RFC4571) {
    component->rfc4571_wakeup_needed = FALSE;     /* component_source_prepare does this */
    r = agent_recv_message_unlocked (agent, stream, component, tcpsock, &m);
    if (r == RECV_SUCCESS) add_up (buf, m.length);
  } else {
    r = nice_socket_recv_messages (top, &m, 1);
    if (r >= 1) {
      add_up (buf, m.length);
      if (v.size != cap) {   /* http.c clobbers buffers[].size instead of setting length */
        g_string_append_printf (up_s, "/size=%zu/", v.size);
        hex_append (up_s, buf, v.size < cap ? v.size : cap);
      }
    }
  }
  add_ret (r);
  free (buf);
  return r;
}

static int layer_wakeup (void) { return layer == L_RFC4571 && component->rfc4571_wakeup_needed; }
static int stop_ret (long r) { return layer == L_RFC4571 ? r == RECV_ERROR : r < 0; }

static void do_push (const uint8_t *b, size_t n)
{
  if (layer == L_TCPBSD || layer == L_RFC4571 || real_base) {
    size_t k = 0;
    while (k < n) { ssize_t w = write (peer_fd, b + k, n - k); if (w <= 0) break; k += w; }
  } else {
    size_t rem = base_pending ();
    uint8_t *nb = malloc (rem + n ? rem + n : 1);
    if (rem) memcpy (nb, B.pend + B.poff, rem);
    if (n) memcpy (nb + rem, b, n);
    free (B.pend); B.pend = nb; B.plen = rem + n; B.poff = 0;
  }
}

/* parse "hex,hex,..." into exactly sized buffers */
static int parse_bufs (char *s, GOutputVector *v, int max)
{
  int n = 0; char *p = strtok (s, ",");
  while (p && n < max) {
    uint8_t *b; long l = parse_hex (p, &b);
    if (l < 0) return -1;
    v[n].buffer = b; v[n].size = l; n++;
    p = strtok (NULL, ",");
  }
  return n;
}

static char *hexstr (const char *w)
{
  uint8_t *b; long l; char *s;
  if (!strcmp (w, "-")) return NULL;
  if (!strcmp (w, "0")) return g_strdup ("");
  l = parse_hex (w, &b);
  if (l < 0) return NULL;
  s = g_strndup ((char *) b, l); free (b);
  return s;
}

static int do_new (int n, char **w)
{
  NiceSocket *base;
  NiceAddress proxy_target;
  if (n < 3) return 0;
  teardown ();
  nice_address_init (&remote_addr); nice_address_set_from_string (&remote_addr, "10.0.0.2"); nice_address_set_port (&remote_addr, 3478);
  nice_address_init (&local_addr); nice_address_set_from_string (&local_addr, "10.0.0.1"); nice_address_set_port (&local_addr, 40000);
  real_base = use_real_base;
  if (!strcmp (w[2], "tcpbsd") && n == 4) {
    layer = L_TCPBSD; real_base = 0;
    top = make_tcpbsd (atoi (w[3]));
    return top != NULL;
  }
  if (!strcmp (w[2], "rfc4571") && n == 3) {
    layer = L_RFC4571; real_base = 0;
    if (!make_tcpbsd (TRUE)) return 0;
    top = tcpsock;
    agent = nice_agent_new (ctx, NICE_COMPATIBILITY_RFC5245);
    g_object_set (agent, "upnp", FALSE, NULL);
    stream_id = nice_agent_add_stream (agent, 1);
    if (!agent_find_component (agent, stream_id, 1, &stream, &component)) return 0;
    component->fallback_mode = TRUE;      /* accept data from any remote address */
    lcand = nice_candidate_new (NICE_CANDIDATE_TYPE_HOST);
    lcand->transport = NICE_CANDIDATE_TRANSPORT_TCP_ACTIVE; lcand->addr = local_addr;
    lcand->stream_id = stream_id; lcand->component_id = 1;
    ((NiceCandidateImpl *) lcand)->sockptr = tcpsock;
    rcand = nice_candidate_new (NICE_CANDIDATE_TYPE_HOST);
    rcand->transport = NICE_CANDIDATE_TRANSPORT_TCP_PASSIVE; rcand->addr = remote_addr;
    rcand->stream_id = stream_id; rcand->component_id = 1;
    component->selected_pair.local = (NiceCandidateImpl *) lcand;
    component->selected_pair.remote = (NiceCandidateImpl *) rcand;
    component->selected_pair.remote_consent.have = TRUE;
    return 1;
  }
  base = real_base ? make_tcpbsd (TRUE) : base_new ();
  if (!base) return 0;
  if (!strcmp (w[2], "turntcp") && n == 4) {
    int c = !strcmp (w[3], "draft9") ? NICE_TURN_SOCKET_COMPATIBILITY_DRAFT9 :
            !strcmp (w[3], "google") ? NICE_TURN_SOCKET_COMPATIBILITY_GOOGLE :
            !strcmp (w[3], "msn") ? NICE_TURN_SOCKET_COMPATIBILITY_MSN :
            !strcmp (w[3], "oc2007") ? NICE_TURN_SOCKET_COMPATIBILITY_OC2007 :
            !strcmp (w[3], "rfc5766") ? NICE_TURN_SOCKET_COMPATIBILITY_RFC5766 : -1;
    if (c < 0) return 0;
    layer = L_TURNTCP;
    top = nice_udp_turn_over_tcp_socket_new (base, c);
    return 1;
  }
  if ((!strcmp (w[2], "http") || !strcmp (w[2], "socks5")) && n == 6) {
    char *u = hexstr (w[3]), *p = hexstr (w[4]);
    nice_address_init (&proxy_target);
    if (!strcmp (w[5], "v6")) nice_address_set_from_string (&proxy_target, "2001:db8::1");
    else if (!strcmp (w[5], "v4")) nice_address_set_from_string (&proxy_target, "1.2.3.4");
    else return 0;
    nice_address_set_port (&proxy_target, 5678);
    if (!strcmp (w[2], "http")) { layer = L_HTTP; top = nice_http_socket_new (base, &proxy_target, u, p, NULL); }
    else { layer = L_SOCKS5; top = nice_socks5_socket_new (base, &proxy_target, u, p); }
    g_free (u); g_free (p);
    return 1;
  }
  if (!strcmp (w[2], "pseudossl") && n == 4) {
    int c = !strcmp (w[3], "google") ? NICE_PSEUDOSSL_SOCKET_COMPATIBILITY_GOOGLE :
            !strcmp (w[3], "msoc") ? NICE_PSEUDOSSL_SOCKET_COMPATIBILITY_MSOC : -1;
    if (c < 0) return 0;
    layer = L_PSSL;
    top = nice_pseudossl_socket_new (base, c);
    return 1;
  }
  return 0;
}

/* ------------------------------------------------------------------ TURN client ops (C16)
 *   turn new <draft9|rfc5766|google|msn|oc2007> <base reliable 0|1>
 *   turn send <peer> <hex>[,<hex>...]   /  turn sendr ...      socket_send_messages(_reliable) to peer <peer>
 *   turn setpeer <peer>                 nice_udp_turn_socket_set_peer (ChannelBind)
 *   turn dgram <hex>                    one datagram from the TURN server address; recv_messages with an
 *                                       exactly sized buffer (ASan sees any read past the packet)
 *   turn from <peer> <hex>              one datagram whose source is peer <peer> (not the server)
 *   turn reply <cp|cb> <seq> <ok|e401|e438|e403|e400>   answer to the seq-th CreatePermission / ChannelBind request
 *   turn advance <ms>                   the virtual clock (harness/common.h) advances, the socket's main context runs
 *                                       (request retransmissions / time-outs; keep a session below 200 s: the
 *                                       240 s / 540 s refresh timers are outside the model)
 * peers: 0 = 10.1.1.1:1111  1 = 10.1.1.2:2222  2 = [2001:db8::2]:3333  3 = 10.1.1.1:1112
 * Output: ret <r> up [<src>:<hex>,...] down [<entry>,...] state ch=[p:chan,..] cur=<p:chan|-> pend=[p,..] perm=[..] sent=[..] q=[p:n,..] frag=<n>
 *   src = peer index, `s` for the server address, `?` otherwise
 *   down entries: raw hex with the STUN transaction id zeroed; CreatePermission / ChannelBind requests are
 *   printed decoded: CP(<seq>,<peer>,<auth>) / CB(<seq>,<chan>,<peer>,<auth>), retransmissions RCP(<seq>) / RCB(<seq>)                                   */
static NiceSocket *tsock, *dbase;
static NiceAddress tserver, tlocal, tpeers[4];
static GQueue *dq;              /* pending datagrams: GBytes */
static NiceAddress dfrom;       /* source of the next datagram */
static int dreliable, tcompat;
static uint8_t cp_tx[512][12], cb_tx[512][12]; static int cp_n, cb_n;
static GBytes *cp_req[512], *cb_req[512];    /* the requests as sent (for authenticated replies) */

static int peer_index (const NiceAddress *a)
{
  int i;
  for (i = 0; i < 4; i++) if (nice_address_equal (a, &tpeers[i])) return i;
  return -1;
}
static void peer_str (GString *s, const NiceAddress *a)
{
  int i = peer_index (a);
  if (i >= 0) g_string_append_printf (s, "%d", i);
  else if (nice_address_equal (a, &tserver)) g_string_append_c (s, 's');
  else g_string_append_c (s, '?');
}

static void tdown (const uint8_t *b0, size_t n)
{
  uint8_t *b = g_memdup2 (b0, n ? n : 1);
  size_t off = 0;
  GString *e = g_string_new (NULL);
  if (dreliable && n >= 2) { g_string_append_printf (e, "%02x%02x|", b[0], b[1]); off = 2; }   /* RFC 4571 prefix */
  if (n - off >= 20 && (b[off] & 0xC0) == 0 && b[off + 4] == 0x21 && b[off + 5] == 0x12 && b[off + 6] == 0xA4 && b[off + 7] == 0x42) {
    unsigned type = b[off] << 8 | b[off + 1];
    StunMessage m; memset (&m, 0, sizeof m); m.buffer = b + off; m.buffer_len = n - off;
    if (type == 0x0008 || type == 0x0009) {
      union { struct sockaddr_storage st; struct sockaddr a; } sa; socklen_t sl = sizeof sa; NiceAddress pa; uint32_t ch = 0;
      int auth = stun_message_has_attribute (&m, STUN_ATTRIBUTE_MESSAGE_INTEGRITY);
      nice_address_init (&pa);
      if (stun_message_find_xor_addr (&m, STUN_ATTRIBUTE_XOR_PEER_ADDRESS, &sa.st, &sl) == STUN_MESSAGE_RETURN_SUCCESS)
        nice_address_set_from_sockaddr (&pa, &sa.a);
      {   /* a retransmission carries a transaction id already seen */
        int k, nk = type == 0x0008 ? cp_n : cb_n; uint8_t (*tx)[12] = type == 0x0008 ? cp_tx : cb_tx;
        for (k = 0; k < nk && k < 512; k++) if (!memcmp (tx[k], b + off + 8, 12)) {
          g_string_append_printf (e, "%s(%d)", type == 0x0008 ? "RCP" : "RCB", k);
          if (down_n++) g_string_append_c (down_s, ',');
          g_string_append (down_s, e->str); g_string_free (e, TRUE); g_free (b); return;
        }
      }
      if (type == 0x0008) { if (cp_n < 512) { memcpy (cp_tx[cp_n], b + off + 8, 12); cp_req[cp_n] = g_bytes_new (b + off, n - off); }
        g_string_append_printf (e, "CP(%d,%d,%d)", cp_n++, peer_index (&pa), auth); }
      else { stun_message_find32 (&m, STUN_ATTRIBUTE_CHANNEL_NUMBER, &ch); if (cb_n < 512) { memcpy (cb_tx[cb_n], b + off + 8, 12); cb_req[cb_n] = g_bytes_new (b + off, n - off); }
        g_string_append_printf (e, "CB(%d,%x,%d,%d)", cb_n++, ch >> 16, peer_index (&pa), auth); }
      if (down_n++) g_string_append_c (down_s, ',');
      g_string_append (down_s, e->str); g_string_free (e, TRUE); g_free (b); return;
    }
    {
      /* XOR-PEER-ADDRESS of an IPv6 peer is XORed with the (random) transaction id: re-XOR so that the printed
       * message is the one a zero transaction id would give */
      size_t a = off + 20;
      while (a + 4 <= n) {
        unsigned at = b[a] << 8 | b[a + 1], al = b[a + 2] << 8 | b[a + 3];
        if ((at == 0x0012 || at == 0x0016) && al == 20 && a + 24 <= n && b[a + 5] == 2) { int k; for (k = 0; k < 12; k++) b[a + 12 + k] ^= b[off + 8 + k]; }
        a += 4 + ((al + 3) & ~3u);
      }
    }
    memset (b + off + 8, 0, 12);
  }
  else if ((tcompat == NICE_TURN_SOCKET_COMPATIBILITY_GOOGLE || tcompat == NICE_TURN_SOCKET_COMPATIBILITY_MSN ||
            tcompat == NICE_TURN_SOCKET_COMPATIBILITY_OC2007) && n - off >= 20 && (b[off] & 0xC0) == 0 &&
           (size_t) ((b[off + 2] << 8 | b[off + 3]) + 20) == n - off) {
    /* RFC 3489 style message: 16-byte transaction id, no cookie; MESSAGE-INTEGRITY depends on it */
    size_t a = off + 20;
    memset (b + off + 4, 0, 16);
    while (a + 4 <= n) { unsigned at = b[a] << 8 | b[a + 1], al = b[a + 2] << 8 | b[a + 3];
      if (at == 0x0008 && al == 20 && a + 24 <= n) memset (b + a + 4, 0, 20);
      a += 4 + (tcompat == NICE_TURN_SOCKET_COMPATIBILITY_OC2007 ? al : ((al + 3) & ~3u)); }
  }
  if (down_n++) g_string_append_c (down_s, ',');
  g_string_append (down_s, e->str);
  hex_append (down_s, b + off, n - off);
  g_string_free (e, TRUE); g_free (b);
}

static gint dbase_recv (NiceSocket *sock, NiceInputMessage *msgs, guint n)
{
  guint i;
  for (i = 0; i < n; i++) {
    GBytes *d = g_queue_pop_head (dq); gsize len, k = 0; const uint8_t *p; gint j;
    if (!d) break;
    p = g_bytes_get_data (d, &len);
    for (j = 0; k < len && ((msgs[i].n_buffers >= 0 && j < msgs[i].n_buffers) || (msgs[i].n_buffers < 0 && msgs[i].buffers[j].buffer)); j++) {
      gsize l = msgs[i].buffers[j].size; if (l > len - k) l = len - k;
      memcpy (msgs[i].buffers[j].buffer, p + k, l); k += l;
    }
    msgs[i].length = k;
    if (msgs[i].from) *msgs[i].from = dfrom;
    g_bytes_unref (d);
  }
  return i;
}
static gint dbase_send (NiceSocket *sock, const NiceAddress *to, const NiceOutputMessage *m, guint n)
{
  guint i;
  for (i = 0; i < n; i++) {
    GByteArray *a = g_byte_array_new (); gint j;
    for (j = 0; (m[i].n_buffers >= 0 && j < m[i].n_buffers) || (m[i].n_buffers < 0 && m[i].buffers[j].buffer); j++)
      g_byte_array_append (a, m[i].buffers[j].buffer, m[i].buffers[j].size);
    tdown (a->data, a->len);
    g_byte_array_unref (a);
  }
  return n;
}
static gint dbase_send_reliable (NiceSocket *sock, const NiceAddress *to, const NiceOutputMessage *m, guint n)
{
  if (!dreliable) return -1;      /* udp-bsd.c: reliable sends are not supported on UDP */
  return dbase_send (sock, to, m, n);
}
static gboolean dbase_is_reliable (NiceSocket *s) { return dreliable; }
static void dbase_close (NiceSocket *s) { dbase = NULL; }

static void turn_teardown (void)
{
  if (tsock) { nice_socket_free (tsock); tsock = NULL; }
  if (dbase) { nice_socket_free (dbase); dbase = NULL; }
  if (dq) { g_queue_free_full (dq, (GDestroyNotify) g_bytes_unref); dq = NULL; }
  cp_n = cb_n = 0;
}

static void turn_state (void)
{
  UdpTurnPriv *p = tsock->priv; GList *l; int k, i;
  GString *s = g_string_new ("ch=[");
  for (k = 0, l = p->channels; l; l = l->next) { ChannelBinding *b = l->data;
    g_string_append_printf (s, "%s%d:%x", k++ ? "," : "", peer_index (&b->peer), b->channel); }
  g_string_append (s, "] cur=");
  if (p->current_binding) g_string_append_printf (s, "%d:%x", peer_index (&p->current_binding->peer), p->current_binding->channel);
  else g_string_append_c (s, '-');
  g_string_append_printf (s, "/%d pend=[", p->current_binding_msg != NULL);
  for (k = 0, l = p->pending_bindings; l; l = l->next) g_string_append_printf (s, "%s%d", k++ ? "," : "", peer_index (l->data));
  g_string_append (s, "] perm=[");
  for (k = 0, l = p->permissions; l; l = l->next) g_string_append_printf (s, "%s%d", k++ ? "," : "", peer_index (l->data));
  g_string_append (s, "] sent=[");
  for (k = 0, l = p->sent_permissions; l; l = l->next) g_string_append_printf (s, "%s%d", k++ ? "," : "", peer_index (l->data));
  g_string_append_printf (s, "] pp=%u q=[", g_list_length (p->pending_permissions));
  for (k = 0, i = 0; i < 4; i++) { GQueue *q = g_hash_table_lookup (p->send_data_queues, &tpeers[i]);
    if (q) g_string_append_printf (s, "%s%d:%u", k++ ? "," : "", i, g_queue_get_length (q)); }
  g_string_append_printf (s, "] frag=%d", p->fragment_buffer ? (int) p->fragment_buffer->len : -1);
  printf ("ret %s up [%s] down [%s] state %s\n", ret_n ? ret_s->str : "-", up_s->str, down_s->str, s->str);
  g_string_free (s, TRUE);
}

static void turn_deliver (const uint8_t *b, size_t n, const NiceAddress *from)
{
  size_t cap = n ? n : 1; uint8_t *buf = malloc (cap); GInputVector v = { buf, n }; NiceAddress fr; NiceInputMessage m = { &v, 1, &fr, 0 };
  gint r;
  fflush (stdout);      /* relay traffic may abort the process (recorded finding): keep the completed lines */
  nice_address_init (&fr);
  dfrom = *from;
  g_queue_push_tail (dq, g_bytes_new (b, n));
  r = nice_socket_recv_messages (tsock, &m, 1);
  add_ret (r);
  if (r >= 1) {
    GString *t = g_string_new (NULL); peer_str (t, &fr);
    if (up_n++) g_string_append_c (up_s, ',');
    if (m.length >= 20 && (buf[0] & 0xC0) == 0 && buf[4] == 0x21 && buf[5] == 0x12 && buf[6] == 0xA4 && buf[7] == 0x42)
    {                               /* a STUN answer handed up as data: print with transaction id and MESSAGE-INTEGRITY zeroed */
      size_t a = 20;
      memset (buf + 8, 0, 12);
      while (a + 4 <= m.length) { unsigned at = buf[a] << 8 | buf[a + 1], al = buf[a + 2] << 8 | buf[a + 3];
        if (at == 0x0008 && al == 20 && a + 24 <= m.length) memset (buf + a + 4, 0, 20);
        a += 4 + ((al + 3) & ~3u); }
    }
    g_string_append_printf (up_s, "%s:", t->str); hex_append (up_s, buf, m.length); g_string_free (t, TRUE);
  }
  free (buf);
}

static bool srv_validater (StunAgent *agent, StunMessage *message, uint8_t *username, uint16_t username_len,
    uint8_t **password, size_t *password_len, void *user_data)
{
  static uint8_t pw[] = "pass";
  *password = pw; *password_len = 4;
  return true;
}

static void turn_op (int n, char **w)
{
  if (n >= 4 && !strcmp (w[1], "new")) {
    int c = !strcmp (w[2], "draft9") ? NICE_TURN_SOCKET_COMPATIBILITY_DRAFT9 : !strcmp (w[2], "google") ? NICE_TURN_SOCKET_COMPATIBILITY_GOOGLE :
            !strcmp (w[2], "msn") ? NICE_TURN_SOCKET_COMPATIBILITY_MSN : !strcmp (w[2], "oc2007") ? NICE_TURN_SOCKET_COMPATIBILITY_OC2007 :
            !strcmp (w[2], "rfc5766") ? NICE_TURN_SOCKET_COMPATIBILITY_RFC5766 : -1;
    static const char *pa[4] = { "10.1.1.1", "10.1.1.2", "2001:db8::2", "10.1.1.1" }; static const int pp[4] = { 1111, 2222, 3333, 1112 };
    int i;
    if (c < 0) { puts ("bad-op"); return; }
    teardown (); turn_teardown ();
    layer = L_TURN; tcompat = c; dreliable = atoi (w[3]);
    verif_now_us = 0;
    nice_address_init (&tserver); nice_address_set_from_string (&tserver, "10.9.9.9"); nice_address_set_port (&tserver, 3478);
    nice_address_init (&tlocal); nice_address_set_from_string (&tlocal, "10.0.0.1"); nice_address_set_port (&tlocal, 40000);
    for (i = 0; i < 4; i++) { nice_address_init (&tpeers[i]); nice_address_set_from_string (&tpeers[i], pa[i]); nice_address_set_port (&tpeers[i], pp[i]); }
    dq = g_queue_new ();
    dbase = g_slice_new0 (NiceSocket);
    dbase->type = dreliable ? NICE_SOCKET_TYPE_UDP_TURN_OVER_TCP : NICE_SOCKET_TYPE_UDP_BSD; dbase->addr = tlocal;
    dbase->recv_messages = dbase_recv; dbase->send_messages = dbase_send; dbase->send_messages_reliable = dbase_send_reliable;
    dbase->is_reliable = dbase_is_reliable; dbase->close = dbase_close;
    if (!ctx) ctx = g_main_context_new ();
    tsock = nice_udp_turn_socket_new (ctx, &tlocal, dbase, &tserver, "user", "pass", c);
    add_ret (0); turn_state (); return;
  }
  if (!tsock) { puts ("bad-op"); return; }
  if ((!strcmp (w[1], "send") || !strcmp (w[1], "sendr")) && n == 4) {
    GOutputVector v[64]; NiceOutputMessage m; int pi = atoi (w[2]), nb = parse_bufs (w[3], v, 64), i; long r;
    if (nb <= 0 || pi < 0 || pi > 3) { puts ("bad-op"); return; }
    m.buffers = v; m.n_buffers = nb;
    r = !strcmp (w[1], "send") ? nice_socket_send_messages (tsock, &tpeers[pi], &m, 1) : nice_socket_send_messages_reliable (tsock, &tpeers[pi], &m, 1);
    add_ret (r);
    for (i = 0; i < nb; i++) free ((void *) v[i].buffer);
    turn_state ();
  } else if (!strcmp (w[1], "advance") && n == 3) {
    int it = 0;
    verif_now_us += strtoull (w[2], NULL, 10) * 1000;
    while (g_main_context_iteration (ctx, FALSE) && ++it < 10000);
    add_ret (0); turn_state ();
  } else if (!strcmp (w[1], "setpeer") && n == 3) {
    int pi = atoi (w[2]); if (pi < 0 || pi > 3) { puts ("bad-op"); return; }
    add_ret (nice_udp_turn_socket_set_peer (tsock, &tpeers[pi])); turn_state ();
  } else if (!strcmp (w[1], "dgram") && n == 3) {
    uint8_t *b; long l = parse_hex (w[2], &b); if (l < 0) { puts ("bad-op"); return; }
    turn_deliver (b, l, &tserver); free (b); turn_state ();
  } else if (!strcmp (w[1], "from") && n == 4) {
    uint8_t *b; long l = parse_hex (w[3], &b); int pi = atoi (w[2]); if (l < 0 || pi < 0 || pi > 3) { puts ("bad-op"); return; }
    turn_deliver (b, l, &tpeers[pi]); free (b); turn_state ();
  } else if (!strcmp (w[1], "reply") && n == 5) {
    int cp = !strcmp (w[2], "cp"), seq = atoi (w[3]), code = 0; uint8_t m[128]; size_t len = 20; unsigned type;
    uint8_t *tx = cp ? cp_tx[seq] : cb_tx[seq];
    if (seq < 0 || seq >= (cp ? cp_n : cb_n) || seq >= 512) { puts ("bad-op"); return; }
    if (w[4][0] == 'e') code = atoi (w[4] + 1); else if (strcmp (w[4], "ok")) { puts ("bad-op"); return; }
    type = (cp ? 0x0008 : 0x0009) | (code ? 0x0110 : 0x0100);
    memset (m, 0, sizeof m);
    {
      /* authenticated request: let a server-side StunAgent (libnice's own) validate it and build the answer with
       * MESSAGE-INTEGRITY over the long-term key */
      GBytes *rq = cp ? cp_req[seq] : cb_req[seq]; gsize rl; const uint8_t *rb = g_bytes_get_data (rq, &rl);
      StunMessage rqm; memset (&rqm, 0, sizeof rqm); rqm.buffer = (uint8_t *) rb; rqm.buffer_len = rl;
      if (!code && stun_message_has_attribute (&rqm, STUN_ATTRIBUTE_MESSAGE_INTEGRITY)) {
        StunAgent srv; StunMessage req, resp; static uint8_t rbuf[2048];
        stun_agent_init (&srv, STUN_ALL_KNOWN_ATTRIBUTES, STUN_COMPATIBILITY_RFC5389, STUN_AGENT_USAGE_LONG_TERM_CREDENTIALS);
        memcpy (rbuf, rb, rl);
        if (stun_agent_validate (&srv, &req, rbuf, rl, srv_validater, NULL) == STUN_VALIDATION_SUCCESS &&
            stun_agent_init_response (&srv, &resp, m, sizeof m, &req)) {
          len = stun_agent_finish_message (&srv, &resp, NULL, 0);
          if (dreliable) { uint8_t f[160]; f[0] = len >> 8; f[1] = len & 0xff; memcpy (f + 2, m, len); turn_deliver (f, len + 2, &tserver); }
          else turn_deliver (m, len, &tserver);
          turn_state (); return;
        }
        memset (m, 0, sizeof m); len = 20;
      }
    }
    m[0] = type >> 8; m[1] = type & 0xff; m[4] = 0x21; m[5] = 0x12; m[6] = 0xA4; m[7] = 0x42; memcpy (m + 8, tx, 12);
    if (code) {
      /* ERROR-CODE, and for 401/438 REALM "realm" + NONCE "nonce" */
      m[len++] = 0; m[len++] = 9; m[len++] = 0; m[len++] = 4; m[len++] = 0; m[len++] = 0; m[len++] = code / 100; m[len++] = code % 100;
      if (code == 401 || code == 438) {
        static const uint8_t rn[] = { 0, 0x14, 0, 5, 'r', 'e', 'a', 'l', 'm', 0, 0, 0, 0, 0x15, 0, 5, 'n', 'o', 'n', 'c', 'e', 0, 0, 0 };
        memcpy (m + len, rn, sizeof rn); len += sizeof rn;
      }
    }
    m[2] = (len - 20) >> 8; m[3] = (len - 20) & 0xff;
    if (dreliable) { uint8_t f[160]; f[0] = len >> 8; f[1] = len & 0xff; memcpy (f + 2, m, len); turn_deliver (f, len + 2, &tserver); }
    else turn_deliver (m, len, &tserver);
    turn_state ();
  } else puts ("bad-op");
}

int main (void)
{
  char *line = NULL; size_t lcap = 0;
  char *w[MAXW];
  up_s = g_string_new (NULL); down_s = g_string_new (NULL); ret_s = g_string_new (NULL);
  setvbuf (stdout, NULL, _IOFBF, 1 << 20);
  while (getline (&line, &lcap, stdin) > 0) {
    int n;
    if (line[0] == '#' || line[0] == '\n') continue;
    n = split_words (line, w);
    if (n == 0) continue;
    out_reset ();
    if (!strcmp (w[0], "reset") && n == 1) { turn_teardown (); teardown (); use_real_base = 0; puts ("reset"); continue; }
    if (!strcmp (w[0], "turn")) { turn_op (n, w); continue; }
    if (!strcmp (w[0], "sock") && n >= 2 && !strcmp (w[1], "turn")) { turn_op (n - 1, w + 1); continue; }
    if (strcmp (w[0], "sock") || n < 2) { puts ("bad-op"); continue; }
    if (!strcmp (w[1], "base") && n == 3) {
      use_real_base = !strcmp (w[2], "real"); puts ("ok"); continue;
    }
    if (!strcmp (w[1], "new")) {
      if (!do_new (n, w)) { teardown (); puts ("bad-op"); continue; }
      add_ret (0); print_line (); continue;
    }
    if (layer == L_NONE || layer == L_TURN) { puts ("bad-op"); continue; }
    if (!strcmp (w[1], "push") && n == 3) {
      uint8_t *b; long l = parse_hex (w[2], &b);
      if (l < 0) { puts ("bad-op"); continue; }
      do_push (b, l); free (b); print_line ();
    } else if (!strcmp (w[1], "recv") && n == 2) {
      recv_once (); print_line ();
    } else if (!strcmp (w[1], "feed") && n == 3) {
      uint8_t *b; long l = parse_hex (w[2], &b); long r; int it = 0;
      if (l < 0) { puts ("bad-op"); continue; }
      do_push (b, l); free (b);
      do { r = recv_once (); } while (!stop_ret (r) && (pending_now () > 0 || layer_wakeup ()) && ++it < 1000000);
      print_line ();
    } else if (!strcmp (w[1], "eof") && n == 2) {
      if (layer == L_TCPBSD || layer == L_RFC4571 || real_base) shutdown (peer_fd, SHUT_WR); else B.eof = 1;
      print_line ();
    } else if ((!strcmp (w[1], "send") || !strcmp (w[1], "sendr")) && n == 3) {
      GOutputVector v[64]; NiceOutputMessage m; int nb = parse_bufs (w[2], v, 64), i; long r;
      if (nb <= 0) { puts ("bad-op"); continue; }
      m.buffers = v; m.n_buffers = nb;
      if (layer == L_RFC4571) {
        GError *e = NULL;
        r = nice_agent_send_messages_nonblocking (agent, stream_id, 1, &m, 1, NULL, &e);
        if (e) g_error_free (e);
      } else if (!strcmp (w[1], "send")) r = nice_socket_send_messages (top, &remote_addr, &m, 1);
      else r = nice_socket_send_messages_reliable (top, &remote_addr, &m, 1);
      add_ret (r);
      for (i = 0; i < nb; i++) free ((void *) v[i].buffer);
      print_line ();
    } else if (!strcmp (w[1], "wrote") && n == 3) {
      char *p = strtok (w[2], ",");
      acc_n = acc_i = 0;
      while (p && acc_n < MAXACC) { acc[acc_n++] = strtol (p, NULL, 10); p = strtok (NULL, ","); }
      print_line ();
    } else if (!strcmp (w[1], "writable") && n == 2) {
      add_ret (ctx ? g_main_context_iteration (ctx, FALSE) : 0);
      print_line ();
    } else puts ("bad-op");
  }
  return 0;
}
