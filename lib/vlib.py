"""Shared machinery for the per-property checks (see DESIGN.md section 2).

Every check:  build /repo's current tree (sanitised) -> regenerate Nice/Gen from source ->
lake build the property's theorems -> audit axioms / forbidden tokens -> differential
correspondence + implementation-side oracles -> evidence.  Any broken link triggers the
failing-input search and a VIOLATION line.
"""
import fcntl, hashlib, json, os, random, re, shutil, subprocess, sys, time
from concurrent.futures import ThreadPoolExecutor

ROOT = os.path.dirname(os.path.dirname(os.path.abspath(__file__)))
REPO = os.environ.get("VERIF_REPO", "/repo")
BUILD = os.path.join(ROOT, "build")
MESON = os.path.join(BUILD, "meson-asan")
LEAN = os.path.join(ROOT, "lean")
HARNESS = os.path.join(ROOT, "harness")
EVID = os.path.join(ROOT, "evidence")
REPLAYS = os.path.join(ROOT, "replays")
NCPU = os.cpu_count() or 4
ALLOWED_AXIOMS = {"propext", "Classical.choice", "Quot.sound"}
FORBIDDEN = re.compile(r"\bsorry\b|\badmit\b|^\s*axiom\s|native_decide|bv_decide|implemented_by|\bunsafe\s|maxHeartbeats\s+0\b")

ENV = dict(os.environ)
ENV.update({"G_SLICE": "always-malloc", "G_DEBUG": "gc-friendly",
            "UBSAN_OPTIONS": "halt_on_error=1:print_stacktrace=1",
            "ASAN_OPTIONS": "detect_leaks=0:abort_on_error=0:allocator_may_return_null=1",
            "G_MESSAGES_DEBUG": "", "NICE_DEBUG": ""})


class Lock:
    def __init__(self, name="build"):
        os.makedirs(BUILD, exist_ok=True)
        self.path = os.path.join(BUILD, "." + name + ".lock")

    def __enter__(self):
        self.f = open(self.path, "w")
        fcntl.flock(self.f, fcntl.LOCK_EX)
        return self

    def __exit__(self, *a):
        fcntl.flock(self.f, fcntl.LOCK_UN)
        self.f.close()


def sh(cmd, cwd=None, timeout=None, env=None, input=None):
    r = subprocess.run(cmd, cwd=cwd, capture_output=True, text=True, timeout=timeout,
                       env=env or ENV, input=input)
    return r.returncode, r.stdout, r.stderr


# --------------------------------------------------------------------------- builds
def ensure_libs():
    """sanitised static libraries from /repo's current working tree via its own meson.build"""
    with Lock():
        if not os.path.exists(os.path.join(MESON, "build.ninja")):
            shutil.rmtree(MESON, ignore_errors=True)
            env = dict(ENV, CC="clang-14")
            rc, out, err = sh(["meson", "setup", MESON, REPO, "-Db_sanitize=address,undefined",
                               "-Db_lundef=false", "-Dgstreamer=disabled", "-Dgupnp=disabled",
                               "-Dintrospection=disabled", "-Dexamples=disabled", "-Dtests=disabled",
                               "-Dgtk_doc=disabled", "-Dc_args=-DLIBNICE_VERIF"], env=env)
            if rc != 0:
                return False, out + err
        rc, out, err = sh(["ninja", "-C", MESON])
        return rc == 0, out + err


def extract():
    with Lock():
        rc, out, err = sh([sys.executable, os.path.join(ROOT, "tools", "extract.py")])
        rep = {}
        try:
            rep = json.load(open(os.path.join(BUILD, "extract_report.json")))
        except Exception:
            pass
        return rc == 0, out + err, rep


def lake_build(targets):
    with Lock("lake"):
        rc, out, err = sh(["lake", "build"] + list(targets), cwd=LEAN, timeout=3600)
        return rc == 0, out + err


def model_exe():
    return os.path.join(LEAN, ".lake", "build", "bin", "nicemodel")


def pkgflags(kind):
    return subprocess.check_output(["pkg-config", kind, "glib-2.0", "gio-2.0", "gobject-2.0", "gnutls"],
                                   text=True).split()


def build_harness(name, extra=(), multidef=False):
    """compile harness/<name>.c against the sanitised static libs; returns (ok, exe, log)"""
    with Lock():
        src = os.path.join(HARNESS, name + ".c")
        exe = os.path.join(BUILD, "bin", name)
        os.makedirs(os.path.dirname(exe), exist_ok=True)
        libs = [os.path.join(MESON, p) for p in
                ("agent/libagent.a", "socket/libsocket.a", "stun/libstun.a", "random/libnice-random.a")]
        # rebuild only when an input changed
        deps = [src, os.path.join(HARNESS, "common.h")] + libs + \
               [os.path.join(BUILD, "gen", f) for f in os.listdir(os.path.join(BUILD, "gen"))
                if os.path.exists(os.path.join(BUILD, "gen"))]
        deps += [os.path.join(HARNESS, f) for f in os.listdir(HARNESS) if f.endswith(".h") or f.endswith(".inc")]
        if multidef:
            # the harness #includes repo .c files: depend on all of them
            for d in ("agent", "stun", "stun/usages", "socket", "random"):
                dd = os.path.join(REPO, d)
                deps += [os.path.join(dd, f) for f in os.listdir(dd) if f.endswith((".c", ".h"))]
        if os.path.exists(exe) and all(os.path.getmtime(d) <= os.path.getmtime(exe) for d in deps if os.path.exists(d)):
            return True, exe, "up to date"
        cmd = ["clang-14", "-g", "-O1", "-fsanitize=address,undefined", "-fno-omit-frame-pointer",
               "-w", "-DHAVE_CONFIG_H", "-DLIBNICE_VERIF", "-I" + MESON, "-I" + REPO, "-I" + HARNESS,
               "-I" + os.path.join(BUILD, "gen")]
        for d in ("agent", "random", "socket", "stun", "stun/usages", "nice"):
            cmd.append("-I" + os.path.join(REPO, d))
        # link into a temporary file and rename: a concurrently running check keeps executing the old binary
        tmp = exe + ".tmp%d" % os.getpid()
        cmd += pkgflags("--cflags") + list(extra) + [src, "-o", tmp, "-Wl,--start-group"] + libs + \
            ["-Wl,--end-group"] + pkgflags("--libs") + ["-ldl", "-lm"]
        if multidef:
            cmd.append("-Wl,--allow-multiple-definition")
        rc, out, err = sh(cmd, timeout=600)
        if rc == 0:
            os.replace(tmp, exe)
        elif os.path.exists(tmp):
            os.remove(tmp)
        return rc == 0, exe, out + err


# --------------------------------------------------------------------------- audit
def forbidden_scan(paths):
    """grep the Lean sources for sorry/admit/axiom/native_decide/... outside comments"""
    hits = []
    for p in paths:
        txt = open(p).read()
        txt = re.sub(r"/-.*?-/", lambda m: "\n" * m.group(0).count("\n"), txt, flags=re.S)
        for i, line in enumerate(txt.splitlines(), 1):
            code = line.split("--")[0]
            if FORBIDDEN.search(code):
                hits.append(f"{p}:{i}: {line.strip()}")
    return hits


def lean_sources(roots=None):
    """Lean files in the import closure of `roots` (module names) restricted to this package.
    Default roots: every Props module is NOT included — only what the given property module and the
    driver (Main) import, so that unfinished work in unrelated files cannot break a check."""
    if roots is None:
        out = []
        for d, _, fs in os.walk(os.path.join(LEAN, "Nice")):
            out += [os.path.join(d, f) for f in fs if f.endswith(".lean")]
        out.append(os.path.join(LEAN, "Main.lean"))
        return sorted(out)
    seen, todo = set(), list(roots)
    while todo:
        m = todo.pop()
        if m in seen:
            continue
        path = os.path.join(LEAN, *m.split(".")) + ".lean"
        if not os.path.exists(path):
            continue
        seen.add(m)
        for line in open(path):
            mm = re.match(r"\s*(?:public\s+)?import\s+([\w.]+)", line)
            if mm and (mm.group(1).startswith("Nice.") or mm.group(1) in ("Nice", "Main")):
                todo.append(mm.group(1))
    return sorted(os.path.join(LEAN, *m.split(".")) + ".lean" for m in seen)


def audit_axioms(module, theorems, tag):
    """#print axioms for every property theorem; returns (ok, {theorem: [axioms]}, log)"""
    os.makedirs(os.path.join(BUILD, "audit"), exist_ok=True)
    f = os.path.join(BUILD, "audit", f"Audit_{tag}.lean")
    with open(f, "w") as fh:
        fh.write(f"import {module}\n")
        for t in theorems:
            fh.write(f"#print axioms {t}\n")
    rc, out, err = sh(["lake", "env", "lean", f], cwd=LEAN, timeout=1200)
    res, cur = {}, None
    txt = out + err
    # output: "'Name' depends on axioms: [a, b]"  or  "'Name' does not depend on any axioms"
    for m in re.finditer(r"'([^']+)' (does not depend on any axioms|depends on axioms: \[([^\]]*)\])", txt, re.S):
        res[m.group(1)] = [a.strip() for a in (m.group(3) or "").replace("\n", " ").split(",") if a.strip()]
    ok = rc == 0 and all(t in res for t in theorems) and \
        all(set(ax) <= ALLOWED_AXIOMS for ax in res.values())
    return ok, res, txt


def leanchecker(module):
    rc, out, err = sh(["lake", "env", "leanchecker", module], cwd=LEAN, timeout=3600)
    return rc == 0, out + err


# --------------------------------------------------------------------------- differential runs
def run_lines(exe, lines, timeout=600, env=None):
    """feed lines to a driver; returns (stdout lines, returncode, stderr tail)"""
    try:
        r = subprocess.run([exe], input="\n".join(lines) + "\n", capture_output=True, text=True,
                           timeout=timeout, env=env or ENV)
        return r.stdout.splitlines(), r.returncode, r.stderr[-4000:]
    except subprocess.TimeoutExpired as e:
        out = e.stdout.decode() if isinstance(e.stdout, bytes) else (e.stdout or "")
        return out.splitlines(), -999, "TIMEOUT"


def diff_sessions(harness_exe, sessions, workers=NCPU, model=None, timeout=900):
    """sessions: list of lists of op lines.  Each session runs on fresh driver state (a `reset`
    line precedes it).  Returns list of dicts for sessions where impl and model differ or the
    implementation crashed: {index, line_no, op, impl, model, stderr}."""
    model = model or model_exe()
    nchunks = max(1, min(workers, len(sessions)))
    chunks = [list(range(i, len(sessions), nchunks)) for i in range(nchunks)]

    def work(idxs):
        lines = []
        for i in idxs:
            lines.append("reset")
            lines += sessions[i]
        io, irc, ierr = run_lines(harness_exe, lines, timeout)
        mo, mrc, merr = run_lines(model, lines, timeout)
        bad = []
        # walk line by line
        pos = 0
        for i in idxs:
            n = 1 + len(sessions[i])
            seg_i, seg_m = io[pos:pos + n], mo[pos:pos + n]
            if seg_i != seg_m or len(seg_i) < n:
                k = 0
                while k < min(len(seg_i), len(seg_m)) and seg_i[k] == seg_m[k]:
                    k += 1
                bad.append({"index": i, "line_no": k - 1,
                            "op": (["reset"] + sessions[i])[k] if k < n else None,
                            "impl": seg_i[k] if k < len(seg_i) else "<no output: crashed?>",
                            "model": seg_m[k] if k < len(seg_m) else "<no output>",
                            "impl_rc": irc, "model_rc": mrc,
                            "stderr": ierr if k >= len(seg_i) else ""})
                if len(seg_i) < n or len(seg_m) < n:
                    # stream desynchronised (crash): later sessions of this chunk are rerun alone
                    rest = idxs[idxs.index(i) + 1:]
                    if rest:
                        bad += work_single(rest)
                    break
            pos += n
        return bad, len(io)

    def work_single(idxs):
        out = []
        for i in idxs:
            lines = ["reset"] + sessions[i]
            io, irc, ierr = run_lines(harness_exe, lines, timeout)
            mo, mrc, merr = run_lines(model, lines, timeout)
            if io != mo:
                k = 0
                while k < min(len(io), len(mo)) and io[k] == mo[k]:
                    k += 1
                out.append({"index": i, "line_no": k - 1, "op": lines[k] if k < len(lines) else None,
                            "impl": io[k] if k < len(io) else "<no output: crashed?>",
                            "model": mo[k] if k < len(mo) else "<no output>",
                            "impl_rc": irc, "model_rc": mrc, "stderr": ierr if k >= len(io) else ""})
        return out

    bad, total = [], 0
    with ThreadPoolExecutor(max_workers=nchunks) as ex:
        for b, n in ex.map(work, chunks):
            bad += b
            total += n
    bad.sort(key=lambda d: d["index"])
    return bad, total


def run_impl(harness_exe, sessions, workers=NCPU, timeout=900):
    """run sessions on the implementation only; returns list (per session) of output line lists
    (None entries where the driver died)"""
    nchunks = max(1, min(workers, len(sessions)))
    chunks = [list(range(i, len(sessions), nchunks)) for i in range(nchunks)]
    res = [None] * len(sessions)
    errs = {}

    def work(idxs):
        lines = []
        for i in idxs:
            lines.append("reset")
            lines += sessions[i]
        io, irc, ierr = run_lines(harness_exe, lines, timeout)
        pos = 0
        for i in idxs:
            n = 1 + len(sessions[i])
            if pos + n <= len(io):
                res[i] = io[pos + 1:pos + n]
            else:
                # rerun alone to localise
                o, rc, er = run_lines(harness_exe, ["reset"] + sessions[i], timeout)
                if len(o) == n:
                    res[i] = o[1:]
                else:
                    res[i] = None
                    errs[i] = (o, rc, er)
            pos += n
    with ThreadPoolExecutor(max_workers=nchunks) as ex:
        list(ex.map(work, chunks))
    return res, errs


def shrink_session(harness_exe, session, still_bad, max_rounds=200):
    """delta-debug a session (list of lines) while `still_bad(lines)` holds"""
    cur = list(session)
    n = 2
    rounds = 0
    while len(cur) >= 2 and rounds < max_rounds:
        chunk = max(1, len(cur) // n)
        removed = False
        for i in range(0, len(cur), chunk):
            cand = cur[:i] + cur[i + chunk:]
            rounds += 1
            if cand and still_bad(cand):
                cur = cand
                n = max(n - 1, 2)
                removed = True
                break
        if not removed:
            if chunk == 1:
                break
            n = min(n * 2, len(cur))
    return cur


# --------------------------------------------------------------------------- reporting
class Check:
    def __init__(self, prop, tier, seed, level="proof"):
        self.prop, self.tier, self.seed, self.level = prop, tier, seed, level
        self.t0 = time.time()
        self.rng = random.Random((hash(prop) & 0xffff) * 1000003 + seed)
        self.rng = random.Random(f"{prop}/{seed}")
        self.violations = []
        self.known_hits = []
        self.cov = {"obligations": 0, "discharged": 0, "checker_cmd": "", "trusted_base": [],
                    "evaluations": 0, "distinct_nontrivial": 0, "rule": "", "samples": [],
                    "traces_validated_against_impl": 0, "axioms": {}, "theorems": [],
                    "generator_distribution": {}}
        self.assumptions = []
        self.notes = []
        os.makedirs(EVID, exist_ok=True)
        os.makedirs(REPLAYS, exist_ok=True)

    def violation(self, kind, replay, found_input=True):
        k = len(self.violations)
        path = os.path.join(REPLAYS, f"{self.prop}-{self.tier}-{self.seed}-{k}.json")
        replay = dict(replay, property=self.prop, kind=kind, seed=self.seed, tier=self.tier)
        json.dump(replay, open(path, "w"), indent=1)
        line = f"VIOLATION property={self.prop} replay={path}"
        if not found_input:
            line += " no-failing-input-found"
        print(line, flush=True)
        self.violations.append(path)

    def known(self, text):
        if text in self.known_hits:
            return                       # one line per listed finding
        print(f"KNOWN-FINDING: property={self.prop} {text}", flush=True)
        self.known_hits.append(text)

    def note(self, s):
        print(f"[{self.prop}] {s}", flush=True)
        self.notes.append(s)

    def finish(self):
        ev = {"property_id": self.prop, "tier": self.tier, "seed": self.seed, "level": self.level,
              "coverage": self.cov, "assumptions": self.assumptions,
              "wall_s": round(time.time() - self.t0, 2), "violations": len(self.violations),
              "known_findings_reported": self.known_hits, "notes": self.notes[-40:]}
        if not self.cov["samples"]:
            self.cov["samples"] = ["(no case was generated: the run stopped before exploration)"]
        json.dump(ev, open(os.path.join(EVID, self.prop + ".json"), "w"), indent=1)
        return 1 if self.violations else 0


def known_findings():
    p = os.path.join(ROOT, "KNOWN_FINDINGS.jsonl")
    out = []
    if os.path.exists(p):
        for l in open(p):
            l = l.strip()
            if l and not l.startswith("#"):
                out.append(json.loads(l))
    return out


def std_pipeline(chk, module, theorems, gen_kernels=(), thorough_leanchecker=True):
    """steps shared by all proof-level checks. Returns dict(ok_build, ok_extract, ok_proof, logs)."""
    st = {"libs": False, "extract": False, "proof": False, "audit": False, "log": ""}
    ok, log = ensure_libs()
    st["libs"] = ok
    if not ok:
        chk.note("libnice does not build from the current tree: " + log[-1500:])
        st["log"] = log
        return st
    ok, log, rep = extract()
    st["extract"] = ok
    st["extract_report"] = rep
    if not ok:
        chk.note("translator refused the current source: " + log[-1500:])
        st["log"] = log
    ok2, log2 = lake_build([module, "nicemodel"])
    st["proof"] = ok2
    chk.cov["theorems"] = list(theorems)
    chk.cov["obligations"] = len(theorems)
    cmds = [f"tools/extract.py && (cd lean && lake build {module} nicemodel)"]
    if not ok2:
        st["log"] += log2
        chk.note("lake build failed: " + "\n".join(l for l in log2.splitlines() if "error" in l)[:1500])
        chk.cov["discharged"] = 0
    else:
        hits = forbidden_scan(lean_sources([module, "Main"]))
        ok3, axioms, alog = audit_axioms(module, theorems, chk.prop)
        cmds.append(f"lake env lean build/audit/Audit_{chk.prop}.lean   # #print axioms")
        chk.cov["axioms"] = axioms
        st["audit"] = ok3 and not hits
        if hits:
            chk.note("forbidden tokens in Lean sources: " + "; ".join(hits[:5]))
        if not ok3:
            chk.note("axiom audit failed: " + alog[-800:])
        chk.cov["discharged"] = sum(1 for t in theorems if t in axioms and set(axioms[t]) <= ALLOWED_AXIOMS) \
            if not hits else 0
        if chk.tier == "thorough" and thorough_leanchecker:
            okc, clog = leanchecker(module)
            cmds.append(f"lake env leanchecker {module}")
            chk.cov["leanchecker"] = "ok" if okc else clog[-500:]
            if not okc:
                st["audit"] = False
    chk.cov["checker_cmd"] = " ; ".join(cmds)
    return st
