"""Minimal independent STUN encoder/decoder (RFC 5389) used by attackers and oracles in the checks."""
import hmac, hashlib, struct, zlib

MAGIC = 0x2112A442
A_USERNAME, A_MI, A_ERROR, A_REALM, A_NONCE, A_XOR_MAPPED = 0x0006, 0x0008, 0x0009, 0x0014, 0x0015, 0x0020
A_PRIORITY, A_USE_CAND, A_FINGERPRINT, A_CONTROLLED, A_CONTROLLING = 0x0024, 0x0025, 0x8028, 0x8029, 0x802A


def mtype(cls, method):
    # class bits at 4 and 8
    return ((method & 0x0f80) << 2) | ((method & 0x0070) << 1) | (method & 0x000f) | ((cls & 2) << 7) | ((cls & 1) << 4)


def attr(t, v):
    pad = (4 - len(v) % 4) % 4
    return struct.pack("!HH", t, len(v)) + v + b"\x00" * pad


def build(cls, method, txid, attrs, key=None, fingerprint=False, mi_mutation=None, bad_fp=False):
    """attrs: list of (type, bytes).  key: bytes for MESSAGE-INTEGRITY (short-term).  mi_mutation:
    None | 'truncate' | 'empty' | 'long' | 'flip' | 'omit'"""
    body = b"".join(attr(t, v) for t, v in attrs)
    if key is not None and mi_mutation != "omit":
        # length field covers up to and including M-I
        ln = len(body) + 24
        hdr = struct.pack("!HHI", mtype(cls, method), ln, MAGIC) + txid
        mac = hmac.new(key, hdr + body, hashlib.sha1).digest()
        if mi_mutation == "truncate":
            mac = mac[:10]
        elif mi_mutation == "empty":
            mac = b""
        elif mi_mutation == "long":
            mac = mac + b"\x01\x02\x03\x04"
        elif mi_mutation == "flip":
            mac = bytes([mac[0] ^ 1]) + mac[1:]
        body += attr(A_MI, mac)
    if fingerprint:
        ln = len(body) + 8
        hdr = struct.pack("!HHI", mtype(cls, method), ln, MAGIC) + txid
        crc = (zlib.crc32(hdr + body) & 0xffffffff) ^ 0x5354554e
        if bad_fp:
            crc ^= 0x10
        body += attr(A_FINGERPRINT, struct.pack("!I", crc))
    hdr = struct.pack("!HHI", mtype(cls, method), len(body), MAGIC) + txid
    return hdr + body


def parse(pkt):
    """returns (cls, method, txid, [(type, value, offset)]) or None if not well-formed"""
    if len(pkt) < 20 or pkt[0] >> 6:
        return None
    t, ln, magic = struct.unpack("!HHI", pkt[:8])
    if 20 + ln != len(pkt) or ln % 4:
        return None
    cls = ((t >> 7) & 2) | ((t >> 4) & 1)
    method = ((t & 0x3e00) >> 2) | ((t & 0x00e0) >> 1) | (t & 0x000f)
    off, attrs = 20, []
    while off < len(pkt):
        if off + 4 > len(pkt):
            return None
        at, al = struct.unpack("!HH", pkt[off:off + 4])
        if off + 4 + al > len(pkt):
            return None
        attrs.append((at, pkt[off + 4:off + 4 + al], off))
        off += 4 + al + (4 - al % 4) % 4
    if off != len(pkt):
        return None
    return cls, method, pkt[8:20], attrs


def error_attr(code, reason=b""):
    return struct.pack("!HBB", 0, code // 100, code % 100) + reason
