"""Driver for harness/sim_drv (real NiceAgents under a virtual clock + virtual UDP network)."""
import os, re, subprocess
from lib import vlib


class SimDied(Exception):
    pass


class Sim:
    def __init__(self, exe, env=None):
        import tempfile
        self.errf = tempfile.TemporaryFile(mode="w+")
        self.p = subprocess.Popen([exe], stdin=subprocess.PIPE, stdout=subprocess.PIPE, stderr=self.errf,
                                  text=True, env=env or vlib.ENV, bufsize=1)
        self.ops_done = 0
        self.script = []      # op lines, for the replay file
        self.trace = []       # (op, [events], status)
        self.dead = None

    OP_TIMEOUT = 240      # real seconds one op may take before the simulator is declared hung (busy loop) and killed

    def _watchdog(self):
        self.hung = True
        try:
            self.p.kill()
        except Exception:
            pass

    def op(self, line):
        import threading
        self.script.append(line)
        try:
            self.p.stdin.write(line + "\n")
            self.p.stdin.flush()
        except BrokenPipeError:
            self._died()
        ev = []
        wd = threading.Timer(self.OP_TIMEOUT, self._watchdog)
        wd.daemon = True
        wd.start()
        try:
            return self._read_reply(line, ev)
        finally:
            wd.cancel()

    def _read_reply(self, line, ev):
        while True:
            l = self.p.stdout.readline()
            if l == "":
                if getattr(self, "hung", False):
                    self.dead = f"HUNG: op `{line}` did not return within {self.OP_TIMEOUT} s of real time (busy loop); simulator killed"
                    raise SimDied(self.dead)
                self._died()
            l = l.rstrip("\n")
            if l.startswith("ev "):
                ev.append(l[3:])
            elif l.startswith("ok") or l.startswith("err"):
                self.trace.append((line, ev, l))
                return ev, l
            else:
                ev.append("?? " + l)

    def _stderr(self):
        try:
            self.errf.seek(0)
            return self.errf.read()
        except Exception:
            return ""

    def _died(self):
        self.dead = self._stderr()[-4000:]
        raise SimDied(self.dead)

    def close(self):
        try:
            self.p.stdin.close()
            self.p.wait(timeout=20)
        except Exception:
            self.p.kill()
        err = self._stderr()
        try:
            self.errf.close()
        except Exception:
            pass
        return self.p.returncode, err[-4000:]

    def events(self):
        out = []
        for _, ev, _ in self.trace:
            out += ev
        return out


def kvs(s):
    """parse 'k=v k=v' tokens of an event/ok line into a dict (plus positional words)"""
    d = {}
    for w in s.split():
        if "=" in w:
            k, v = w.split("=", 1)
            d[k] = v
    return d


def parse_q(status):
    # ok state READY role 1 saved_role 1 local a:p remote b:q
    w = status.split()
    return {"state": w[2], "role": int(w[4]), "saved_role": int(w[6]), "local": w[8], "remote": w[10]}


def replay_script(exe, script):
    """run a recorded op list; returns the full transcript text"""
    r = subprocess.run([exe], input="\n".join(script) + "\n", capture_output=True, text=True, env=vlib.ENV, timeout=600)
    return r.stdout, r.stderr, r.returncode


def run_parallel(fn, items, workers=None):
    from concurrent.futures import ThreadPoolExecutor
    with ThreadPoolExecutor(max_workers=workers or vlib.NCPU) as ex:
        return list(ex.map(fn, items))
