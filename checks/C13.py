"""C13 — Keepalives keep the pair warm; sending stops when consent is lost or revoked."""
import json, os, re, struct
from lib import vlib, simlib, stunpy
from checks.common import conclude
from checks import simcommon as sc

MODULE = "Nice.Props.C13"
THEOREMS = [f"Nice.Props.C13.{t}" for t in (
    "C13_constants", "C13_no_early_failure", "C13_failure_when_late", "rearm_due_le", "C13_consent_expiry",
    "C13_answers_keep_alive", "C13_403_immediate", "C13_gate_iff", "C13_consent_interval")] + [
    "Nice.Props.C13Send.C13_send_needs_consent", "Nice.Props.C13Send.analysis_ok",
    "Nice.Props.C13RemoveStream.C13_keepalive_timer_goes_with_last_stream", "Nice.Props.C13RemoveStream.analysis_ok"]
TRUSTED = [
    "Lean 4 kernel; axioms propext, Classical.choice, Quot.sound only (audited every run)",
    "Nice/Gen/SendMessages.lean: skeleton of nice_agent_send_messages_nonblocking_internal REGENERATED from the source on every run "
    "(tools/extract_flow.py; tracked: selected_pair.local and selected_pair.remote_consent.have as memory read under the agent lock, "
    "havocked after every call outside the printed list; events of kind 3 = data handed to pseudo-TCP / a socket); "
    "C13_send_needs_consent holds for every execution of it (Nice/Model/Flow.lean, kernel-evaluated analysis with a proved soundness theorem)",
    "constants (30 s consent timeout, 25 s Tr, 5 s / 4 s consent interval) are regenerated from agent-priv.h on every run and "
    "pinned by theorem C13_constants",
    "Nice/Model/Consent.lean: hand-written kernels of the consent tick, answer/403 handling, send gate and consent interval; "
    "tied by virtual-time simulation of real agents: observed failure instants must lie in the window the theorem gives for the "
    "observed last-answer instant, the send API must fail exactly when the gate model says so, 403s must appear on the wire",
    "timers are assumed to fire at or after their due time with bounded lateness (GLib); the keepalive-gap bound is observed, "
    "not proved (the Tr scheduling loop of priv_conn_keepalive_tick_unlocked is not modelled)",
]
DELTA_MS = 60          # timer lateness + one dispatch allowed by the oracle
EV_STATE = re.compile(r"t=(\d+) (\w+) state (\d+) (\d+) (\w+)")
EV_RX = re.compile(r"t=(\d+) rx (\w+) (\S+)->(\S+) len=\d+ stun class=(\d) method=1 .*err=(\d+)")
EV_TX = re.compile(r"t=(\d+) tx (\w+) (\S+)->(\S+) len=(\d+)")


def connect(exe, seed, rng, consent, ncomp=1):
    cfg = sc.base_config(rng)
    cfg.update(ctrlA=1, ctrlB=0, naA=1, naB=1, ncomp=ncomp, loss=0, lat=rng.choice([1, 5, 30]), dup=0, anyorder=False,
               consent=consent, regA=rng.randint(0, 1), regB=rng.randint(0, 1))
    # a quarter of the sessions use reliable agents (pseudo-TCP over the UDP pair): the send API then goes through the
    # pseudo-TCP branch, which must be closed by lost consent like the datagram branch
    if rng.random() < 0.25:
        cfg.update(extra_opts=2)
    s = sc.start_session(exe, seed, cfg)
    return s, cfg


def now_ms(s):
    return int(s.op("stats")[1].split()[1].split("=")[1])


def scenario(args):
    exe, seed, tier = args
    import random
    rng = random.Random(f"C13/{seed}")
    kind = rng.choice(["blackout-long", "blackout-long", "blackout-short", "revoke", "revoke-early", "idle", "idle-consent", "loss",
                       "blackout-at-ready", "other-stream-removed", "restart-in-blackout"])
    consent = 0 if kind == "idle" else 1
    s = None
    bad = []
    info = {"kind": kind}
    try:
        s, cfg = connect(exe, seed, rng, consent)
        if kind == "revoke-early":
            # revocation before any pair is selected / during nomination
            moment = rng.choice(["before-signalling", "mid-signalling", "after-cands"])
            rev = rng.choice("AB")      # the controlling side (A) still selects a pair through its own checks
            info["revoker"] = rev
            steps = sc.signalling_steps(rng, cfg)
            if moment == "before-signalling":
                s.op(f"consentlost {rev} 1 1")
            for i, st in enumerate(steps):
                s.op(st)
                if moment == "mid-signalling" and i == len(steps) // 2:
                    s.op(f"consentlost {rev} 1 1")
            if moment == "after-cands":
                s.op(f"run {rng.choice([0, 20, 45, 120])}")
                s.op(f"consentlost {rev} 1 1")
            s.op("runidle 60000")
            # no crash is the claim; additionally: every authenticated request the revoker got afterwards is answered 403
            bad += check_403_after_revoke(s, rev)
            bad += probe_after_revoke(s, rng, rev)
            return dict(seed=seed, kind=kind, bad=bad, script=s.script, info=info)
        if kind == "other-stream-removed":
            # two streams, both READY; long after the checks have finished (the pacing timer has stopped) one agent removes one
            # stream: the OTHER stream's pair must stay warm — consent checks keep being sent and answered, the component stays
            # READY and usable for as long as the peer answers
            for ag in "AB":
                s.op(f"stream {ag} 1"); s.op(f"attach {ag} 2"); s.op(f"gather {ag} 2")
            s.op("run 50")
            for sid in (1, 2):
                sc.deliver_signalling(s, rng, sc.signalling_steps(rng, dict(cfg, ncomp=1), sid=sid))
            s.op("runidle 30000")
            ok_ready = all(simlib.parse_q(s.op(f"q {ag} {sid} 1")[1])["state"] == "READY" for ag in "AB" for sid in (1, 2))
            if not ok_ready:
                return dict(seed=seed, kind=kind, bad=[("setup", "two-stream session did not reach READY")], script=s.script, info=info)
            s.op(f"run {rng.choice([6000, 9000, 20000])}")
            who, gone = rng.choice("AB"), rng.choice([1, 2])
            keep = 3 - gone
            s.op(f"rmstream {who} {gone}")
            t0 = now_ms(s)
            s.op("run 60000")
            tfail = first_state(s, who, "FAILED", after=t0)
            q = simlib.parse_q(s.op(f"q {who} {keep} 1")[1])
            if tfail is not None or q["state"] != "READY":
                bad.append(("not-kept-warm", f"agent {who} removed stream {gone} at t={t0}; its stream {keep} (peer still answering) was "
                                             f"announced FAILED at {tfail} / is {q['state']} 60 s later"))
            st = s.op(f"send {who} {keep} 1 aabb")[1]
            if "err" in st:
                bad.append(("not-kept-warm", f"send on the surviving stream {keep} of {who} fails 60 s after stream {gone} was removed: {st}"))
            # the surviving pair is never left silent for longer than the consent-check period (about 5 s, at most 6 s + slack)
            txs = [int(m.group(1)) for e in s.events() for m in [EV_TX.match(e)] if m and m.group(2) == who and int(m.group(1)) >= t0]
            gaps = [b - a for a, b in zip([t0] + txs, txs + [t0 + 60000])]
            if gaps and max(gaps) > 8000:
                bad.append(("silent-pair", f"agent {who} sent nothing for {max(gaps)} ms on its surviving stream after removing stream {gone}"))
            info.update(who=who, gone=gone)
            return dict(seed=seed, kind=kind, bad=bad, script=s.script, info=info)
        if kind == "restart-in-blackout":
            # answers stop; a few seconds into the silence the application restarts ICE and the new remote credentials never
            # arrive: the pair that was kept for media must still lose consent 30 s after its last answer
            sc.deliver_signalling(s, rng, sc.signalling_steps(rng, cfg))
            s.op("runidle 30000")
            if any(simlib.parse_q(s.op(f"q {ag} 1 1")[1])["state"] != "READY" for ag in "AB"):
                return dict(seed=seed, kind=kind, bad=[("setup", "session did not reach READY")], script=s.script, info=info)
            s.op(f"run {rng.choice([3000, 7000, 12000])}")
            t0 = now_ms(s)
            s.op(f"net blackout * * {t0} {t0 + 90000}")
            s.op(f"run {rng.choice([2000, 8000, 15000])}")
            who = rng.choice("AB")
            s.op(rng.choice([f"restart {who}", f"restartstream {who} 1"]))
            s.op("run 60000")
            last = None
            for e in s.events():
                m = EV_RX.match(e)
                if m and m.group(2) == who and m.group(5) == "2" and int(m.group(1)) <= t0:
                    last = int(m.group(1))
            tfail = first_state(s, who, "FAILED", after=t0)
            if tfail is None:
                bad.append(("no-failure", f"agent {who} restarted ICE during a blackout that began at t={t0} (last answer at {last}) and never got new "
                                          f"credentials: FAILED was not announced within 70 s"))
            st = s.op(f"send {who} 1 1 aabb")[1]
            if "err" not in st:
                bad.append(("send-not-denied", f"send on {who} 70 s into the blackout (ICE restarted meanwhile) returned `{st}`"))
            info.update(who=who)
            return dict(seed=seed, kind=kind, bad=bad, script=s.script, info=info)
        steps = sc.signalling_steps(rng, cfg)
        sc.deliver_signalling(s, rng, steps)
        if kind == "blackout-at-ready":
            # the path dies within a round trip of the pair's selection: before any consent check was ever answered
            for _ in range(600):
                s.op("run 5")
                qa = simlib.parse_q(s.op("q A 1 1")[1]); qb = simlib.parse_q(s.op("q B 1 1")[1])
                if qa["state"] == "READY" and qb["state"] == "READY":
                    break
            if qa["state"] != "READY" or qb["state"] != "READY":
                return dict(seed=seed, kind=kind, bad=[("setup", f"session did not reach READY: {qa['state']} {qb['state']}")],
                            script=s.script, info=info)
            s.op(f"run {rng.choice([0, 0, 3, 40])}")
            t0 = now_ms(s)
            direction = rng.choice([("*", "*"), ("A", "B"), ("B", "A")])
            dur = rng.randint(50000, 90000)
            s.op(f"net blackout {direction[0]} {direction[1]} {t0} {t0 + dur}")
            s.op(f"run {dur + 20000}")
            bad += check_expiry(s, t0, dur, direction, "blackout-long")
            info.update(direction=direction, dur=dur)
            return dict(seed=seed, kind=kind, bad=bad, script=s.script, info=info)
        s.op("runidle 30000")
        qa = simlib.parse_q(s.op("q A 1 1")[1]); qb = simlib.parse_q(s.op("q B 1 1")[1])
        if qa["state"] != "READY" or qb["state"] != "READY":
            return dict(seed=seed, kind=kind, bad=[("setup", f"session did not reach READY: {qa['state']} {qb['state']}")],
                        script=s.script, info=info)
        s.op(f"run {rng.randint(0, 12000)}")
        t0 = now_ms(s)
        if kind in ("blackout-long", "blackout-short"):
            direction = rng.choice([("*", "*"), ("A", "B"), ("B", "A")])
            dur = rng.randint(40000, 90000) if kind == "blackout-long" else rng.randint(500, 20000)
            s.op(f"net blackout {direction[0]} {direction[1]} {t0} {t0 + dur}")
            ok_send = s.op("send A 1 1 aabb")[1]
            s.op(f"run {dur + 20000}")
            bad += check_expiry(s, t0, dur, direction, kind)
            info.update(direction=direction, dur=dur)
        elif kind == "revoke":
            s.op("consentlost B 1 1")
            s.op("run 15000")
            bad += check_403_after_revoke(s)
            # A must have failed at the instant it received the first 403 and its send API must be closed
            t403 = first_rx(s, "A", cls=3, err=403)
            tfail = first_state(s, "A", "FAILED", after=t0)
            if t403 is None:
                bad.append(("no-403", "B revoked consent but A never received a 403 within 15 s of consent checks"))
            elif tfail is None or tfail > t403 + 1:
                bad.append(("403-not-immediate", f"A received 403 at t={t403} but FAILED announced at {tfail}"))
            st = s.op("send A 1 1 aabb")[1]
            if "err" not in st or "-14" not in st:
                bad.append(("send-not-denied", f"send after 403 returned `{st}` (expected G_IO_ERROR_PERMISSION_DENIED)"))
        elif kind in ("idle", "idle-consent"):
            span = rng.choice([120000, 300000])
            s.op(f"run {span}")
            limit = (25000 if kind == "idle" else 6000) + sc.TA + DELTA_MS
            for ag in "AB":
                times = [int(m.group(1)) for e in s.events() for m in [EV_TX.match(e)] if m and m.group(2) == ag and int(m.group(1)) >= t0]
                times = [t0] + times + [t0 + span]
                gap = max(b - a for a, b in zip(times, times[1:]))
                if gap > limit:
                    bad.append(("keepalive-gap", f"agent {ag} left its selected UDP pair silent for {gap} ms (> {limit}) with consent={consent}"))
                info[f"maxgap{ag}"] = gap
            for ag in "AB":
                q = simlib.parse_q(s.op(f"q {ag} 1 1")[1])
                if q["state"] != "READY":
                    bad.append(("idle-failed", f"agent {ag} left READY ({q['state']}) although the peer kept answering"))
        elif kind == "loss":
            # loss on the consent checks themselves, but fewer than the timeout allows: must stay usable
            s.op("net loss 40 2")
            s.op("run 120000")
            for ag in "AB":
                # failure is legitimate only if no authenticated answer was received for the whole timeout
                tfail = first_state(s, ag, "FAILED", after=t0)
                rx = [int(m.group(1)) for e in s.events() for m in [EV_RX.match(e)]
                      if m and m.group(2) == ag and m.group(5) == "2" and (tfail is None or int(m.group(1)) <= tfail)]
                if tfail is not None:
                    last = rx[-1] if rx else None
                    if last is None or not (last + 30000 <= tfail <= last + 30000 + 1 + DELTA_MS):
                        bad.append(("lossy-failed", f"agent {ag} FAILED at {tfail} but its last authenticated answer came at {last}"))
                else:
                    gaps = [b - a for a, b in zip(rx, rx[1:])]
                    if gaps and max(gaps) > 30000 + DELTA_MS:
                        bad.append(("missed-expiry", f"agent {ag} stayed READY across a {max(gaps)} ms gap without answers"))
        return dict(seed=seed, kind=kind, bad=bad, script=s.script, info=info)
    except simlib.SimDied as e:
        return dict(seed=seed, kind=kind, bad=[("crash", str(e)[-1500:])], script=s.script if s else [], info=info)
    finally:
        if s:
            s.close()


def first_rx(s, ag, cls, err=None):
    for e in s.events():
        m = EV_RX.match(e)
        if m and m.group(2) == ag and int(m.group(5)) == cls and (err is None or int(m.group(6)) == err):
            return int(m.group(1))
    return None


def first_state(s, ag, state, after=0):
    for e in s.events():
        m = EV_STATE.match(e)
        if m and m.group(2) == ag and m.group(5) == state and int(m.group(1)) >= after:
            return int(m.group(1))
    return None


def probe_after_revoke(s, rng, rev="B"):
    """B revoked its consent locally: whatever happened since (pairs selected or replaced, READY announced), properly
    authenticated checks that reach B later must still be answered 403.  The probes are built outside libnice with the
    stream's real credentials and sent from A's own candidate address."""
    bad = []
    oth = "A" if rev == "B" else "B"
    if getattr(s, "cfg", {}).get("extra_opts", 0) & 2 and first_state(s, rev, "FAILED") is not None:
        # reliable mode: once the revoker's pseudo-TCP connection has died (its peer stopped talking after the 403s) the
        # component is FAILED and libnice detaches its sockets by design — a dead component answers nothing
        return bad
    ca, cb = s.op(f"getcreds {oth} 1")[1].split(), s.op(f"getcreds {rev} 1")[1].split()
    if len(ca) < 7 or len(cb) < 7:
        return bad
    ua, ub, pwb = ca[4], cb[4], cb[6]
    addrs = {"A": [], "B": []}
    for e in s.events():
        m = re.match(r"t=\d+ (\w+) new-candidate \d+ type=0 .*comp=1 .* addr=(\S+) base", e)
        if m:
            addrs[m.group(1)].append(m.group(2))
    if not addrs["A"] or not addrs["B"]:
        return bad
    sent = {}
    for k in range(3):
        txid = bytes(rng.randrange(256) for _ in range(12))
        attrs = [(stunpy.A_USERNAME, (ub + ":" + ua).encode()), (stunpy.A_PRIORITY, struct.pack("!I", 1845501695)),
                 ((stunpy.A_CONTROLLING if oth == "A" else stunpy.A_CONTROLLED), struct.pack("!Q", 2 ** 64 - 1 if oth == "A" else 0))]
        p = stunpy.build(0, 1, txid, attrs, key=pwb.encode(), fingerprint=True)
        s.op(f"inject {addrs[oth][0]} {addrs[rev][0]} {p.hex()}")
        sent[(struct.pack("!I", stunpy.MAGIC) + txid).hex()] = k
        s.op("run 1500")
    answers = {}
    for e in s.events():
        m = re.match(rf"t=\d+ tx {rev} \S+ len=\d+ stun class=(\d) method=1 .*err=(\d+) .*txid=(\w+)", e)
        if m and m.group(3) in sent:
            answers[m.group(3)] = (m.group(1), m.group(2))
    for t, k in sent.items():
        a = answers.get(t)
        if a is None:
            bad.append(("probe-unanswered", f"authenticated check #{k} sent to the revoker after its local revocation got no answer at all"))
        elif a != ("3", "403"):
            bad.append(("not-403", f"authenticated check #{k} sent to the revoker long after its local revocation was answered with class={a[0]} "
                                   f"err={a[1]} instead of 403 (revoker {rev}: {s.op(f'q {rev} 1 1')[1][:60]})"))
    return bad[:2]


def check_403_after_revoke(s, rev="B"):
    """after `consentlost B`, every authenticated request B receives must be answered with 403"""
    bad = []
    seen_revoke = False
    pending = {}
    for op, evs, status in s.trace:
        if op.startswith(f"consentlost {rev}"):
            seen_revoke = True
            if "ret 1" not in status and "ret 0" not in status:
                bad.append(("revoke-api", status))
        if not seen_revoke:
            continue
        for e in evs:
            m = re.match(rf"t=(\d+) rx {rev} \S+ len=\d+ stun class=0 method=1 .*mi=1 txid=(\w+)", e)
            if m:
                pending[m.group(2)] = e
            m = re.match(rf"t=(\d+) tx {rev} \S+ len=\d+ stun class=(\d) method=1 .*err=(\d+) .*txid=(\w+)", e)
            if m and m.group(4) in pending:
                if not (m.group(2) == "3" and m.group(3) == "403"):
                    # allowed only if B has no selected pair / component (consentlost returned 0)
                    bad.append(("not-403", f"after local revocation the revoker answered a check with class={m.group(2)} err={m.group(3)}: {e[:120]}"))
                del pending[m.group(4)]
    return bad[:3]


def check_expiry(s, t0, dur, direction, kind):
    bad = []
    T = 30000
    for ag in "AB":
        other = "B" if ag == "A" else "A"
        # does this agent stop receiving answers?  (its requests are dropped, or the answers are)
        cut = direction == ("*", "*") or direction == (ag, other) or direction == (other, ag)
        tfail = first_state(s, ag, "FAILED", after=t0)
        # last authenticated success answer received before the failure (or before the end)
        last = None
        for e in s.events():
            m = EV_RX.match(e)
            if m and m.group(2) == ag and m.group(5) == "2" and (tfail is None or int(m.group(1)) <= tfail):
                last = int(m.group(1))
        if kind == "blackout-short":
            if tfail is not None:
                bad.append(("early-failure", f"agent {ag} FAILED at t={tfail} although the blackout lasted only {dur} ms (last answer at {last})"))
            st = s.op(f"send {ag} 1 1 aabb")[1]
            if "err" in st and "-27" not in st:        # (reliable mode may answer WOULD_BLOCK while pseudo-TCP recovers)
                bad.append(("send-denied-early", f"send on {ag} failed after a {dur} ms blackout: {st}"))
            continue
        if cut:
            if tfail is None:
                bad.append(("no-failure", f"agent {ag} never announced FAILED although answers stopped at ~{t0} for {dur} ms"))
                continue
            # the expiry instant is (some refresh of the selected pair's consent) + 30 s: the pair's selection, or one of
            # the authenticated answers received since.  Which answers refresh is the code's business (answers to ordinary
            # checks of other pairs right after selection do not); the statement bounds the failure by the LAST answer.
            stamps = [int(m.group(1)) for e in s.events()
                      for m in [re.match(rf"t=(\d+) {ag} selected ", e)] if m and int(m.group(1)) <= tfail]
            stamps = stamps + [int(m.group(1)) for e in s.events() for m in [EV_RX.match(e)]
                               if m and m.group(2) == ag and m.group(5) == "2" and int(m.group(1)) <= tfail]
            # (a pair selected AFTER the last answer — blackout starting at READY — starts its own 30 s from the selection)
            newest = max(stamps + [last]) if last is not None else None
            if last is not None and (tfail > newest + T + 1 + DELTA_MS or
                                     not any(0 <= tfail - (x + T) <= 1 + DELTA_MS for x in stamps)):
                bad.append(("expiry-window", f"agent {ag}: last answer at {last}, FAILED at {tfail}: later than {newest + T + DELTA_MS} or not "
                                             f"30 s after the pair's selection or any authenticated answer ({sorted(set(stamps))[-4:]})"))
            if tfail > t0 + T + 6000 + sc.TA + DELTA_MS:
                bad.append(("expiry-bound", f"agent {ag} FAILED {tfail - t0} ms after the answers stopped (> 30 s + one check interval)"))
            st = s.op(f"send {ag} 1 1 aabb")[1]
            if "err" not in st or "-14" not in st:
                bad.append(("send-not-denied", f"send on {ag} after consent expiry returned `{st}`"))
    return bad


def run(tier, seed):
    chk = vlib.Check("C13", tier, seed)
    chk.cov["trusted_base"] = TRUSTED
    chk.assumptions = ["timers fire at or after their due time, at most a few ms late (virtual clock)", "UDP host pairs"]
    st = vlib.std_pipeline(chk, MODULE, THEOREMS)
    diverged, ofail = [], []
    if st["libs"]:
        ok, exe, log = sc.build_sim()
        if not ok:
            chk.note("harness build failed: " + log[-1500:]); st["libs"] = False; st["log"] = log
        else:
            ncorp = sc.run_corpus(exe, "C13", ofail)
            n = 160 if tier == "quick" else 3000
            res = simlib.run_parallel(scenario, [(exe, seed * 100000 + i, tier) for i in range(n)])
            kinds = {}
            for r in res:
                kinds[r["kind"]] = kinds.get(r["kind"], 0) + 1
                for kind, what in r["bad"]:
                    ofail.append({"why": f"{kind}: {what}", "scenario": r["kind"], "session": r["script"], "info": r["info"]})
            chk.cov["evaluations"] = len(res)
            chk.cov["distinct_nontrivial"] = sum(1 for r in res if not any(k == "setup" for k, _ in r["bad"]))
            chk.cov["traces_validated_against_impl"] = sum(1 for r in res if not r["bad"])
            chk.cov["rule"] = ("one evaluation = one virtual-time session of two real agents with consent freshness: long/short one- or "
                               "two-directional blackouts at random instants, local revocation before selection / during signalling / "
                               "at READY, lossy consent checks, idle sessions of 120-300 s (with and without consent freshness); "
                               "non-trivial = sessions that reached READY before the scenario's event")
            chk.cov["samples"] = [res[0]["script"][:30]]
            chk.cov["generator_distribution"] = {"scenario_kinds": kinds,
                                                 "max_idle_gaps": [r["info"].get("maxgapA") for r in res if "maxgapA" in r["info"]][:10]}
    return conclude(chk, st, diverged, ofail, "sim_drv:C13 consent scenarios")


def replay(path):
    r = json.load(open(path))
    s = r.get("session")
    if not s:
        print(json.dumps(r, indent=1)); return 0
    vlib.ensure_libs()
    ok, exe, log = sc.build_sim()
    out, err, rc = simlib.replay_script(exe, s)
    print(out[-8000:]); print(err[-2000:])
    return 0
