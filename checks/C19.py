"""C19 — STUN retransmission timers follow the configured schedule exactly."""
import json, os
from lib import vlib
from checks.common import conclude

MODULE = "Nice.Props.C19"
THEOREMS = [f"Nice.Props.C19.{t}" for t in (
    "C19_retransmit_count_le", "C19_timeout_after_exact_count", "C19_no_retransmit_after_timeout",
    "C19_remainder_zero_from_deadline", "C19_timeout_reached", "C19_remainder_le_delay_start",
    "C19_remainder_le_delay_refresh", "C19_wait_schedule", "C19_exact_sequence",
    "C19_range_no_overflow", "remainder_le", "refresh_inv", "start_inv")] + [
    "Nice.Props.C19Tick.C19_timer_stops_only_without_work", "Nice.Props.C19Tick.summary_ok"]
TRUSTED = [
    "Lean 4 kernel; axioms allowed: propext, Classical.choice, Quot.sound (audited by #print axioms on every run)",
    "Nice/Gen/ConnCheckTick.lean: skeleton of the pacing-timer callback priv_conn_check_tick_agent_locked REGENERATED from the source "
    "on every run (tools/extract_flow.py; tracked: keep_timer_going, stun_sent, the answers of priv_conn_check_tick_stream_nominate); "
    "C19_timer_stops_only_without_work holds for every execution of it (Nice/Model/Flow.lean): the agent-level clause 'a black-holed "
    "check is abandoned after exactly N transmissions' needs the timers of every stream to keep being polled",
    "hand-written model Nice/Model/Timer.lean of stun/usages/timer.c, tied by the kern_drv differential stream (virtual clock via interposed clock_gettime)",
    "clock modelled as one monotonic microsecond counter split as tv_sec/tv_usec; Windows and gettimeofday fallback paths not modelled",
    "agent-level claim (a black-holed check is abandoned after N transmissions): observed on real agents in simulation with the "
    "A->B direction (or both) black-holed: per transaction <= N transmissions, a superseded transaction is never sent again, the "
    "last transaction of a fully black-holed pair is sent exactly N times; not proved",
]


def gen_session(rng, T, N, pattern):
    """one session: start + polls; returns lines"""
    t0 = rng.choice([0, 1, 999, 999999, 1000000, 123456789, rng.randrange(0, 10 ** 12)])
    lines = [f"timer start {T} {N} {t0}"]
    now = t0
    delay = T
    nEff = max(N, 1)
    k = 1
    deadline = t0 + T * 1000
    polls = 0
    while polls < 2 * nEff + 6:
        polls += 1
        if pattern == "exact":
            now = max(now, deadline)
        elif pattern == "early":
            now = max(now, deadline - rng.choice([1, 999, 1000, 1001, 500000]) if deadline > now else now)
            if rng.random() < 0.5:
                now = max(now, deadline)
        elif pattern == "late":
            now = max(now, deadline + rng.choice([0, 1, 999, 1000, 10 ** 6, 10 ** 9]))
        elif pattern == "subms":
            now = max(now, deadline - 1000 + rng.randrange(0, 2000))
        elif pattern == "dense":
            now = now + rng.choice([1, 10, 100, 1000, 10000, max(1, delay * 250)])
        else:  # random
            now = now + rng.randrange(0, max(2, 3 * delay * 1000))
        if rng.random() < 0.35:
            lines.append(f"timer rem {now}")
        lines.append(f"timer refresh {now}")
        # track the (spec) schedule only to steer the generator towards deadlines
        if now >= deadline and k < nEff:
            delay = delay // 2 if k == nEff - 1 else delay * 2
            k += 1
            deadline = now + delay * 1000
    return lines


def oracle(session, out, T, N):
    """evaluate the property's statement on the implementation's outputs; returns reason or None"""
    nEff = max(N, 1)
    retr = 0
    timed_out = False
    cur_delay = T
    k = 1
    t_set = int(session[0].split()[4])
    for line, o in zip(session[1:], out[1:]):
        w = line.split()
        now = int(w[2])
        ow = o.split()
        if w[1] == "rem":
            rem = int(ow[1])
            if rem > cur_delay:
                return f"remainder {rem} exceeds the wait in force {cur_delay} at t={now}"
            if now >= t_set + cur_delay * 1000 and rem != 0:
                return f"remainder {rem} != 0 at/after the deadline (t={now}, deadline={t_set + cur_delay * 1000})"
            continue
        res, delay = ow[0], int(ow[2])
        if res == "retransmit":
            if timed_out:
                return "retransmit requested after timeout"
            retr += 1
            if retr > nEff - 1:
                return f"more than N-1={nEff - 1} retransmissions requested"
            # schedule: doubles, last one halves
            k += 1
            exp = (T * 2 ** (nEff - 2)) // 2 if k == nEff else T * 2 ** (k - 1)
            if delay != exp:
                return f"wait after transmission {k} is {delay}, schedule says {exp}"
            if now + 1000 <= t_set + cur_delay * 1000:
                return f"retransmit {t_set + cur_delay * 1000 - now} us before the deadline"
            cur_delay = delay
            t_set = now
        elif res == "timeout":
            timed_out = True
            if retr != nEff - 1:
                return f"timeout after {retr} retransmissions, expected exactly {nEff - 1}"
        else:
            if now >= t_set + cur_delay * 1000:
                return f"success (not expired) reported at/after the deadline t={now}"
    return None


def sessions_for(tier, rng):
    Ts = [1, 2, 3, 10, 999, 1000, 1001, 10000, 500, 200]
    pats = ["exact", "early", "late", "subms", "dense", "random"]
    S = []
    meta = []
    if tier == "quick":
        for T in Ts:
            for N in range(0, 17):
                for p in pats:
                    S.append(gen_session(rng, T, N, p)); meta.append((T, N, p))
    else:
        for T in list(range(1, 10001, 37)) + Ts:
            for N in range(0, 17):
                for p in ("exact", "subms"):
                    S.append(gen_session(rng, T, N, p)); meta.append((T, N, p))
        for _ in range(60000):
            T, N, p = rng.randrange(1, 10001), rng.randrange(0, 17), rng.choice(pats)
            S.append(gen_session(rng, T, N, p)); meta.append((T, N, p))
    return S, meta


def blackhole_scenario(args):
    """agent level: A's packets to B are black-holed for the whole session (B's still reach A, so B's checks trigger new
    transactions on A's pairs: those later transactions get the full schedule too).  On every black-holed pair: no transaction is sent more than N times, a transaction that
    has been superseded by a newer one on the same pair is never transmitted again, and the last transaction of a pair
    that had time to run out was transmitted exactly N times."""
    exe, seed, tier = args
    import random, re
    from checks import simcommon as sc
    from lib import simlib
    rng = random.Random(f"C19sim/{seed}")
    cfg = sc.base_config(rng)
    N = rng.choice([2, 3, 3, 4, 5])
    cfg.update(rc=N, rto=rng.choice([100, 200, 500]), loss=0, dup=0, lat=rng.choice([1, 5, 30]), anyorder=False,
               ctrlA=rng.randint(0, 1), ctrlB=rng.randint(0, 1))
    one_way = rng.random() < 0.7
    # a third of the sessions: a second, idle stream (no remote candidates ever) behind the black-holed one and an idle
    # timeout shorter than the longer retransmission waits — the pacing timer must stay alive for the first stream
    two_streams = rng.random() < 0.35
    if two_streams:
        one_way = False
        cfg.update(ncomp=1, newargs=f" idle={rng.choice([150, 300, 600])}")
    # a quarter of the sessions use reliable agents (pseudo-TCP over UDP pairs): their checks on UDP pairs follow the same
    # N-transmission schedule — the one-shot "reliable" timer is for checks sent over TCP sockets only
    if rng.random() < 0.25:
        cfg.update(extra_opts=2)
    s = None
    bad = []
    npairs = 0
    try:
        s = sc.start_session(exe, seed, cfg)
        if two_streams:
            for ag in "AB":
                s.op(f"stream {ag} 1"); s.op(f"attach {ag} 2"); s.op(f"gather {ag} 2")
        s.op("net blackout A B 0 99999999")
        if not one_way:
            s.op("net blackout B A 0 99999999")
        steps = sc.signalling_steps(rng, cfg)
        total = cfg["rto"] * (2 ** (N - 1) - 1) + cfg["rto"] * (2 ** (N - 2) if N > 1 else 1)
        if one_way and rng.random() < 0.5:
            # B learns about A late: A's own checks have all run out (pairs FAILED) when B's first checks arrive, so every
            # transaction they trigger is a LATER transaction on a pair whose first one has ended
            rcv = lambda x: x.split()[3] if x.startswith("creds") else x.split()[4]
            sc.deliver_signalling(s, rng, [x for x in steps if rcv(x) == "A"])
            s.op(f"run {2 * total + 3000}")
            steps = [x for x in steps if rcv(x) == "B"]
        sc.deliver_signalling(s, rng, steps)
        prune_first, keep_src = False, None
        if two_streams and rng.random() < 0.45:
            # both streams check black-holed pairs; the stream that was added FIRST is removed (or restarted) while the second
            # one's checks are in flight: the pacing timer must stay alive for the second stream's retransmissions
            prune_first = True
            sc.deliver_signalling(s, rng, sc.signalling_steps(rng, cfg, sid=2))
            s.op(f"run {rng.choice([30, 150, 400])}")
            keep_src = {re.match(r"cand type=\d tr=\d comp=\d+ prio=\d+ addr=(\S+) ", e).group(1) for e in s.op("localcands A 2 1")[0]
                        if e.startswith("cand ")}
            s.op(rng.choice(["rmstream A 1", "restartstream A 1"]))
        s.op(f"run {20 * total + 30000}")
        t_end = int(s.op("stats")[1].split()[1].split("=")[1])
        pairs = {}
        for e in s.events():
            m = re.match(r"t=(\d+) tx A (\S+)->(\S+) len=\d+ stun class=0 method=1 .*txid=(\w+)", e)
            if m:
                pairs.setdefault((m.group(2), m.group(3)), []).append((int(m.group(1)), m.group(4)))
        for pr, seq in pairs.items():
            if keep_src is not None and pr[0] not in keep_src:
                continue          # (pairs of the removed / restarted stream are not judged)
            npairs += 1
            first, count, order = {}, {}, []
            for t, x in seq:
                if x not in first:
                    first[x] = t; order.append(x)
                count[x] = count.get(x, 0) + 1
                newer = [y for y in order if first[y] > first[x]]
                if newer and t > first[newer[0]]:
                    bad.append(("superseded-retransmitted", f"pair {pr[0]}->{pr[1]}: transaction {x[:12]}.. transmitted again at t={t} after the "
                                                            f"newer {newer[0][:12]}.. had started at t={first[newer[0]]}"))
                    break
            for x, c in count.items():
                if c > N:
                    bad.append(("too-many-transmissions", f"pair {pr[0]}->{pr[1]}: transaction {x[:12]}.. transmitted {c} times, limit {N}"))
            last = order[-1]
            if t_end - first[last] > 2 * total + 2000 and count[last] != N and one_way is False:
                bad.append(("not-exactly-N", f"pair {pr[0]}->{pr[1]}: the last transaction {last[:12]}.. on a fully black-holed pair was "
                                             f"transmitted {count[last]} times, configured {N}"))
            if one_way and t_end - first[last] > 2 * total + 2000 and count[last] != N:
                bad.append(("later-transaction-cut-short", f"pair {pr[0]}->{pr[1]}: transaction {last[:12]}.. (number {len(order)} on this pair, started by "
                                                           f"an inbound check from B) was transmitted {count[last]} times, configured {N}"))
            if bad:
                break
        if two_streams and not bad:
            # the black-holed stream's components must have been given up (FAILED announced), not left CONNECTING for ever
            for ag in ("AB" if not prune_first else "A"):
                q = simlib.parse_q(s.op(f"q {ag} {2 if prune_first else 1} 1")[1])
                if q["state"] not in ("FAILED",):
                    bad.append(("never-abandoned", f"agent {ag}: stream {2 if prune_first else 1} component 1 is {q['state']} {t_end - 1000000} ms after the checks "
                                                   f"began on a fully black-holed path (N={N}, rto={cfg['rto']} ms)"))
        return dict(seed=seed, bad=bad[:3], script=s.script, npairs=npairs, N=N, one_way=one_way, prune_first=prune_first)
    except simlib.SimDied as e:
        return dict(seed=seed, bad=[("crash", str(e)[-800:])], script=s.script if s else [], npairs=npairs, N=N, one_way=one_way)
    finally:
        if s:
            s.close()


def run(tier, seed):
    chk = vlib.Check("C19", tier, seed)
    chk.cov["trusted_base"] = TRUSTED
    chk.assumptions = ["no unsigned overflow: T*2^(N-1) < 2^32 (proved for the property's range T<=10000, N<=16)",
                       "polls are made with the clock the timer was started with"]
    st = vlib.std_pipeline(chk, MODULE, THEOREMS)
    diverged, ofail = [], []
    if st["libs"]:
        ok, exe, log = vlib.build_harness("kern_drv", multidef=True)
        if not ok:
            chk.note("harness build failed: " + log[-1500:])
            st["libs"] = False
            st["log"] = log
        else:
            S, meta = sessions_for(tier, chk.rng)
            corpus = load_corpus()
            S = corpus + S
            meta = [None] * len(corpus) + meta
            outs, errs = vlib.run_impl(exe, S)
            for i, (s, o) in enumerate(zip(S, outs)):
                T, N = int(s[0].split()[2]), int(s[0].split()[3])
                if o is None:
                    ofail.append({"session": s, "why": "implementation crashed / aborted", "stderr": errs.get(i, ("", 0, ""))[2][-1500:]})
                    continue
                why = oracle(s, o, T, N)
                if why:
                    ofail.append({"session": s, "impl_out": o, "why": why})
            if st["proof"] or os.path.exists(vlib.model_exe()):
                diverged, total = vlib.diff_sessions(exe, S)
            chk.cov["evaluations"] = len(S)
            chk.cov["traces_validated_against_impl"] = len(S) - len(diverged)
            distinct = {tuple(s) for s, o in zip(S, outs) if o and any(x.startswith("retransmit") for x in o)}
            chk.cov["distinct_nontrivial"] = len(distinct)
            chk.cov["rule"] = ("sessions = timer start(T,N,t0) followed by remainder/refresh polls in six patterns "
                               "(exact deadline, early, late, sub-ms, dense, random); non-trivial = distinct sessions "
                               "in which the implementation requested at least one retransmission")
            chk.cov["samples"] = [S[len(corpus)][:8], S[-1][:8]]
            dist = {}
            for m in meta:
                if m:
                    dist[m[2]] = dist.get(m[2], 0) + 1
            res_kinds = {}
            for o in outs:
                for x in (o or []):
                    res_kinds[x.split()[0]] = res_kinds.get(x.split()[0], 0) + 1
            chk.cov["generator_distribution"] = {"patterns": dist, "result_kinds": res_kinds, "corpus": len(corpus)}
            # agent level: black-holed pairs of real agents in simulation
            from checks import simcommon as sc
            from lib import simlib
            ok2, sexe, slog = sc.build_sim()
            if ok2:
                sres = simlib.run_parallel(blackhole_scenario, [(sexe, seed * 100000 + i, tier) for i in range(60 if tier == "quick" else 1200)])
                for r in sres:
                    for kind, what in r["bad"]:
                        ofail.append({"why": f"{kind}: {what}", "session": r["script"]})
                chk.cov["generator_distribution"]["blackholed_pairs_inspected"] = sum(r["npairs"] for r in sres)
                chk.cov["generator_distribution"]["blackhole_sessions"] = {"first_stream_pruned": sum(1 for r in sres if r.get("prune_first")),
                                                                            "one_way": sum(1 for r in sres if r["one_way"]),
                                                                            "both_ways": sum(1 for r in sres if not r["one_way"])}
            else:
                chk.note("sim harness build failed: " + slog[-800:])
    return conclude(chk, st, diverged, ofail, "kern_drv:timer")


def load_corpus():
    d = os.path.join(vlib.ROOT, "corpus", "C19")
    out = []
    if os.path.isdir(d):
        for f in sorted(os.listdir(d)):
            out.append([l.strip() for l in open(os.path.join(d, f)) if l.strip() and not l.startswith("#")])
    return out


def replay(path):
    r = json.load(open(path))
    s = r.get("session")
    if not s:
        print(json.dumps(r, indent=1)); return 0
    vlib.ensure_libs(); vlib.extract(); vlib.lake_build(["nicemodel"])
    ok, exe, log = vlib.build_harness("kern_drv", multidef=True)
    io, _, err = vlib.run_lines(exe, ["reset"] + s)
    mo, _, _ = vlib.run_lines(vlib.model_exe(), ["reset"] + s)
    for l, a, b in zip(["reset"] + s, io, mo):
        print(f"{l:40s} impl: {a:40s} model: {b}")
    T, N = int(s[0].split()[2]), int(s[0].split()[3])
    why = oracle(s, io[1:], T, N)
    print("oracle:", why)
    return 1 if why else 0
