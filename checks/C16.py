"""C16 — TURN relaying is transparent: payload and peer address survive wrap/unwrap.

The REAL nice_udp_turn_socket_new (socket/udp-turn.c) runs in harness/sock_drv.c over a scripted
datagram base socket; the same `sock turn …` lines go to the Lean model (Nice/Model/Turn.lean).
Scope of the tie: DRAFT9 and RFC5766 modes (incl. request timers, 401/438 rounds) and the GOOGLE send encoding, over an
unreliable base (see the model header).
Implementation-side oracle = an independent TURN relay written here in Python:
  * every datagram the socket writes is decoded as the relay would (Send indication / ChannelData) and
    must carry exactly (peer, payload) of a send that was made, in order per peer, nothing invented;
  * data for a peer without permission is held and appears, completely and in FIFO order, when the
    CreatePermission answer arrives or the request times out (virtual clock);
  * what the relay forwards (Data indication / ChannelData built HERE) is handed up with exactly the
    payload and that peer as source;
  * no relay datagram (exactly-sized receive buffer) produces a sanitizer report."""
import json, os, re
from lib import vlib
from checks.common import conclude
from checks import C17 as sockchk

MODULE = "Nice.Props.C16"
THEOREMS = [f"Nice.Props.C16.{t}" for t in (
    "C16_wrap_decodes", "C16_channeldata_decodes", "C16_unwrap_inverse", "C16_unwrap_channeldata",
    "C16_held_not_lost", "C16_timeout_flushes", "C16_stale_nonce_reauthenticates", "C16_queue_fifo", "C16_recv_no_fault")] + [
    "Nice.Props.C16Send.C16_no_send_without_permission", "Nice.Props.C16Send.analysis_ok"]
TRUSTED = [
    "Lean 4 kernel; axioms propext, Classical.choice, Quot.sound only (audited every run)",
    "Nice/Gen/TurnSend.lean: skeleton of socket/udp-turn.c socket_send_message REGENERATED from the source on every run "
    "(tools/extract_flow.py; tracked: priv->compatibility, the answer of priv_has_permission_for_peer; marked: what leaves through the "
    "base socket towards the relay / straight to the peer, what is queued): C16_no_send_without_permission holds for every execution "
    "of it (Nice/Model/Flow.lean)",
    "hand-written model Nice/Model/Turn.lean (DRAFT9 / RFC5766, unreliable base) tied to socket/udp-turn.c by the sock_drv `sock turn` "
    "differential stream, incl. request timers on the virtual clock and the GOOGLE Send-request encoding; MSN / OC2007 encodings (HMAC), the GOOGLE channel lock, "
    "the reliable (TURN-over-TCP) re-framing and the 240 s / 540 s refresh timers are outside the model",
    "STUN: the Send indication is modelled byte for byte; CreatePermission / ChannelBind requests and the agent's transaction table are "
    "abstract (sequence numbers); answers are crafted by the harness with libnice's own StunAgent (MESSAGE-INTEGRITY) and their "
    "validation outcome is a model rule — the STUN code itself is covered by C04–C07",
    "reference relay Nice/Spec/Relay.lean (decode of Send indication / ChannelData, forward as Data indication / ChannelData) and its "
    "Python twin in this file",
]
EXTRA = sockchk.EXTRA
PEERS = [(False, bytes([10, 1, 1, 1]), 1111), (False, bytes([10, 1, 1, 2]), 2222),
         (True, bytes.fromhex("20010db8000000000000000000000002"), 3333), (False, bytes([10, 1, 1, 1]), 1112)]
COOKIE = bytes.fromhex("2112a442")



KF_PAD3489 = ("udp-turn.c socket_send_message / stunmessage.c stun_message_append (RFC 3489 compatibility): in GOOGLE (and MSN) mode the "
              "DATA attribute of a Send request is zero-padded to a multiple of 4 and its length field counts the padding: the relay "
              "forwards payload + padding")


def hx(b):
    return b.hex() if b else "-"


# --------------------------------------------------------------------------- reference relay (independent)
def xor(a, b):
    return bytes(x ^ y for x, y in zip(a, b))


def relay_decode(d, channels, mode="rfc5766"):
    """what a standards-following relay makes of a client datagram: ('send', peer, payload) |
    ('chan', peer, payload) | ('req', method) | None (garbage)"""
    if len(d) >= 4 and 0x40 <= d[0] <= 0x7f:
        ch, ln = int.from_bytes(d[0:2], "big"), int.from_bytes(d[2:4], "big")
        if len(d) < 4 + ln or ch not in channels:
            return None
        return ("chan", channels[ch], d[4:4 + ln])
    if mode == "google":
        if not channels and len(d) >= 20 and d[0:2] == b"\x00\x04" and int.from_bytes(d[2:4], "big") == len(d) - 20:
            attrs, i = {}, 20
            while i + 4 <= len(d):
                at, al = int.from_bytes(d[i:i + 2], "big"), int.from_bytes(d[i + 2:i + 4], "big")
                if i + 4 + al > len(d) or al % 4:
                    return None
                attrs.setdefault(at, d[i + 4:i + 4 + al]); i += 4 + al
            if attrs.get(0x0f) != bytes.fromhex("72c64bc6") or 0x11 not in attrs or 0x13 not in attrs:
                return None
            a = attrs[0x11]
            peer = (a[1] == 2, a[4:], int.from_bytes(a[2:4], "big"))
            return ("send", PEERS.index(peer) if peer in PEERS else None, attrs[0x13])
        return None
    if len(d) >= 20 and d[0] < 0x40 and d[4:8] == COOKIE:
        typ, ln, tx = int.from_bytes(d[0:2], "big"), int.from_bytes(d[2:4], "big"), d[8:20]
        if ln != len(d) - 20 or ln % 4:
            return None
        attrs, i = {}, 20
        while i + 4 <= len(d):
            at, al = int.from_bytes(d[i:i + 2], "big"), int.from_bytes(d[i + 2:i + 4], "big")
            if i + 4 + al > len(d):
                return None
            attrs.setdefault(at, d[i + 4:i + 4 + al])
            i += 4 + al + (-al % 4)
        if typ == 0x0016:       # Send indication
            if 0x12 not in attrs or 0x13 not in attrs:
                return None
            a = attrs[0x12]
            fam = a[1]
            port = int.from_bytes(xor(a[2:4], COOKIE), "big")
            addr = xor(a[4:], COOKIE + tx)
            peer = (fam == 2, addr, port)
            return ("send", PEERS.index(peer) if peer in PEERS else None, attrs[0x13])
        return ("req", typ)
    return None


def relay_data_indication(peer, payload, rng):
    ipv6, addr, port = PEERS[peer]
    tx = rng.randbytes(12)
    a = bytes([0, 2 if ipv6 else 1]) + xor(port.to_bytes(2, "big"), COOKIE) + xor(addr, COOKIE + tx)
    body = b"\x00\x12" + len(a).to_bytes(2, "big") + a + b"\x00\x13" + len(payload).to_bytes(2, "big") + payload + bytes(-len(payload) % 4)
    return b"\x00\x17" + len(body).to_bytes(2, "big") + COOKIE + tx + body


def relay_channel_data(chan, payload):
    return chan.to_bytes(2, "big") + len(payload).to_bytes(2, "big") + payload


# --------------------------------------------------------------------------- sessions
def gen_session(rng, tier):
    """a client life: sends to several peers, permission / channel-bind completions in random order relative to the sends,
    401/438 rounds, relay traffic.  The generator keeps its own (reference) view of what is installed only to build
    meaningful relay traffic; the oracle does not trust it."""
    compat = rng.choice(["rfc5766", "rfc5766", "draft9", "google"])
    L = [f"sock turn new {compat} 0"]
    if compat == "google":
        # GOOGLE mode: Send requests (MAGIC-COOKIE, USERNAME, DESTINATION-ADDRESS, OPTIONS, DATA), pass-through receive
        for _ in range(rng.randrange(3, 25)):
            r = rng.random()
            if r < 0.55:
                k = rng.choice([1, 1, 2, 3])
                L.append(f"sock turn send {rng.randrange(4)} " + ",".join(hx(rng.randbytes(rng.choice([0, 1, 2, 3, 4, 5, 8, 100, 1201]))) for _ in range(k)))
            elif r < 0.7:
                L.append(f"sock turn setpeer {rng.randrange(4)}")
            elif r < 0.8:
                L.append(f"sock turn advance {rng.choice([100, 5000, 9000])}")
            else:
                d = bytes([rng.randrange(0x40, 0x100)]) + rng.randbytes(rng.randrange(0, 40)) if rng.random() < .8 else rng.randbytes(rng.randrange(0, 19))
                L.append((f"sock turn dgram {hx(d)}" if rng.random() < .7 else f"sock turn from {rng.randrange(4)} {hx(d)}") if d else "sock turn dgram -")
        return L
    n_long = 0
    cp_sent, cb_sent = 0, 0          # requests that went out so far (upper bounds: replies to unknown seq are `bad-op` on both sides)
    chan_of, next_chan = {}, 0x4000
    n = rng.randrange(4, 30 if tier == "quick" else 80)
    for _ in range(n):
        r = rng.random()
        if rng.random() < 0.12:
            # the virtual clock advances: request retransmissions (500 ms, 1000 ms, 500 ms) and time-outs
            adv = rng.choice([100, 400, 499, 500, 501, 1000, 1500, 2100, 2100, 243000, 243000])   # 243 s: past the 240 s timer whatever GLib's whole-second rounding does
            if adv > 10000:
                # four minutes pass: the periodic 240 s timer forgets every installed permission (at most twice per session:
                # the 540 s channel timers are outside the model)
                n_long += 1
                if n_long > 2:
                    adv = 2100
            L.append(f"sock turn advance {adv}")
            cp_sent += 1; cb_sent += 1
            continue
        if r < 0.42:
            peer = rng.randrange(4)
            k = rng.choice([1, 1, 2, 3])
            ln = rng.choice([1, 2, 3, 5, 16, 100, 1200]) if rng.random() < .97 else rng.choice([20000, 64999, 65000])   # property range 0..65000
            bufs = []
            for j in range(k):
                bufs.append(rng.randbytes(ln // k if rng.random() < .95 else 0))
            L.append(f"sock turn send {peer} " + ",".join(hx(b) for b in bufs))
            cp_sent += 1   # at most one new CreatePermission
        elif r < 0.52:
            peer = rng.randrange(4)
            L.append(f"sock turn setpeer {peer}")
            cb_sent += 1
        elif r < 0.70 and cp_sent:
            seq = rng.randrange(0, cp_sent + 1)
            L.append(f"sock turn reply cp {seq} {rng.choice(['ok', 'ok', 'e401', 'e401', 'e438', 'e400', 'e403'])}")
            cp_sent += 1
        elif r < 0.80 and cb_sent:
            seq = rng.randrange(0, cb_sent + 1)
            L.append(f"sock turn reply cb {seq} {rng.choice(['ok', 'ok', 'e401', 'e401', 'e438', 'e400', 'e403'])}")
            cb_sent += 2
        elif r < 0.90:
            peer = rng.randrange(4)
            payload = rng.randbytes(rng.choice([0, 1, 2, 3, 4, 7, 50, 1000]))
            L.append(f"sock turn dgram {hx(relay_data_indication(peer, payload, rng))}")
            cp_sent += 1
        elif r < 0.96:
            # ChannelData / pass-through traffic: well-formed for a channel that may or may not be bound
            chan = rng.choice([0x4000, 0x4000, 0x4001, 0x4002, 0x5000])
            payload = rng.randbytes(rng.choice([0, 1, 3, 4, 9, 200]))
            d = relay_channel_data(chan, payload) + (bytes(-len(payload) % 4) if rng.random() < .5 else b"")
            if rng.random() < 0.8:
                L.append(f"sock turn dgram {hx(d)}")
            else:
                L.append(f"sock turn from {rng.randrange(4)} {hx(d)}")
        else:
            # garbage the STUN agent does not take for a message
            d = bytes([rng.randrange(0x80, 0x100)]) + rng.randbytes(rng.randrange(3, 40)) if rng.random() < .7 else rng.randbytes(rng.randrange(0, 4))
            if len(d) >= 4 or rng.random() < 0.3:
                L.append(f"sock turn dgram {hx(d)}" if d else "sock turn dgram -")
    # quiescent tail: the relay answers nothing any more; every request runs out (500 + 1000 + 500 ms), so whatever is
    # still held must be released ("held ... until the permission request is answered or has timed out")
    for _ in range(8):
        L.append("sock turn advance 2100")
    L.append("sock turn advance 7")         # marker: the oracle requires empty hold queues here
    return L


def hostile_session(rng):
    """ChannelData on a bound channel with a length field that lies, or a runt packet (fixed 55a791e)"""
    L = ["sock turn new rfc5766 0", "sock turn setpeer 0", "sock turn reply cb 0 e401", "sock turn reply cb 1 ok"]
    kind = rng.choice(["long", "runt", "exact"])
    if kind == "long":
        pl = rng.randbytes(rng.randrange(0, 8))
        L.append(f"sock turn dgram {hx(b'@' + bytes([0]) + (len(pl) + rng.randrange(1, 60000)).to_bytes(2, 'big') + pl)}")
    elif kind == "runt":
        L.append(f"sock turn dgram {hx(rng.choice([b'@', b'@' + bytes([0]), b'@' + bytes([0, 0]), bytes([1]), bytes([0x99, 1, 2])]))}")
    else:
        pl = rng.randbytes(rng.randrange(0, 8))
        L.append(f"sock turn dgram {hx(relay_channel_data(0x4000, pl))}")
    return L, kind


# --------------------------------------------------------------------------- oracle
LINE = re.compile(r"^ret (\S+) up \[(.*?)\] down \[(.*?)\] state (.*)$")


def oracle(L, out, known=None):
    """evaluate the property on the implementation's outputs.  returns reason or None; deviations that fall in a
    recorded class are appended to `known` instead"""
    mode = L[0].split()[3]
    expected = {p: [] for p in range(4)}     # per peer: payloads sent and not yet seen on the wire
    channels = {}                            # channel -> peer, as the RELAY would know them: learnt from CB requests answered ok
    cb_req = {}                              # seq -> (chan, peer)
    cp_req = {}                              # seq -> peer
    held = {p: 0 for p in range(4)}
    for line, o in zip(L, out):
        m = LINE.match(o)
        w = line.split()
        if not m:
            if o in ("bad-op", "unmodelled"):
                continue
            return "unparsable output " + o
        ret, ups, downs, state = m.group(1), m.group(2), m.group(3), m.group(4)
        op = w[2]
        if op in ("send", "sendr"):
            peer = int(w[3])
            payload = b"".join(b"" if h == "-" else bytes.fromhex(h) for h in w[4].split(","))
            if ret == "1":
                expected[peer].append(payload)
        # decode what went down as the relay would
        for d in re.findall(r"R?C[PB]\([^)]*\)|[0-9a-f|-]+", downs):
            if d.startswith("CP("):
                cp_req[int(d[3:-1].split(",")[0])] = int(d[3:-1].split(",")[1])
                continue
            if d.startswith("RCP(") or d.startswith("RCB("):
                continue
            if d.startswith("CB("):
                seq, ch, peer, auth = d[3:-1].split(",")
                cb_req[int(seq)] = (int(ch, 16), int(peer))
                continue
            raw = b"" if d == "-" else bytes.fromhex(d)
            dec = relay_decode(raw, channels, mode)
            if dec is None:
                return f"the relay cannot decode a datagram written by the socket: {d[:80]} (after `{line[:60]}`)"
            if dec[0] == "req":
                continue
            kind, peer, payload = dec
            if op == "reply" and w[3] == "cp" and w[5] == "e438" and cp_req.get(int(w[4])) == peer:
                # 438 Stale Nonce asks for the same request again under the new NONCE: the relay has installed nothing,
                # so what is released now is dropped there ("held ... until the permission request is answered")
                return (f"the relay answered CreatePermission #{w[4]} for peer {peer} with 438 Stale Nonce (a re-authentication round) and the "
                        f"socket released the data it held for that peer ({len(payload)} bytes) instead of repeating the request")
            if peer is None or not expected[peer]:
                return f"the socket wrote data for a peer nothing was sent to: {d[:80]}"
            want = expected[peer][0]
            if mode == "google" and payload != want and len(want) % 4 and payload == want + bytes(-len(want) % 4) and known is not None:
                known.append((KF_PAD3489, line[:120]))
                payload = want
            if expected[peer][0] != payload:
                return (f"payload / order changed on the way to peer {peer}: relay decodes {payload[:16].hex()}… ({len(payload)} bytes), "
                        f"oldest unsent payload is {expected[peer][0][:16].hex()}… ({len(expected[peer][0])} bytes) after `{line[:60]}`")
            expected[peer].pop(0)
        if op == "reply" and w[3] == "cb" and w[5] == "ok" and int(w[4]) in cb_req and ret == "1" and ups in ("s:-",):
            st_ch = re.search(r"ch=\[(.*?)\]", state).group(1)
            ch, peer = cb_req[int(w[4])]
            if f"{peer}:{ch:x}" in st_ch.split(","):
                channels[ch] = peer
        # nothing may stay behind once the queue of a peer is reported empty and permission is installed
        q = dict((int(a), int(b)) for a, b in (x.split(":") for x in re.search(r"q=\[(.*?)\]", state).group(1).split(",") if x))
        if line == "sock turn advance 7" and any(q.values()):
            return (f"payloads are still held for peers {sorted(p for p in q if q[p])} although every request has had 17 s of silence "
                    f"to run through its retransmission schedule and time out (state {state[:120]})")
        for p in range(4):
            if len(expected[p]) != q.get(p, 0):
                return (f"peer {p}: {len(expected[p])} payload(s) accepted but not yet on the wire, the socket holds {q.get(p, 0)} "
                        f"(lost or duplicated) after `{line[:60]}`")
        # unwrap direction
        if op == "dgram":
            raw = b"" if w[3] == "-" else bytes.fromhex(w[3])
            if len(raw) >= 20 and raw[0:2] == b"\x00\x17":
                # built by relay_data_indication: decode it back independently
                a = raw[24:24 + int.from_bytes(raw[22:24], "big")]
                peer = (a[1] == 2, xor(a[4:], COOKIE + raw[8:20]), int.from_bytes(xor(a[2:4], COOKIE), "big"))
                i = 24 + len(a)
                dl = int.from_bytes(raw[i + 2:i + 4], "big")
                payload = raw[i + 4:i + 4 + dl]
                want = f"{PEERS.index(peer)}:{hx(payload)}" if payload else "s:-"
                if ups != want:
                    return f"Data indication from peer {PEERS.index(peer)} with {len(payload)} bytes handed up as [{ups[:80]}]"
            elif len(raw) >= 4 and int.from_bytes(raw[0:2], "big") in channels and len(raw) >= 4 + int.from_bytes(raw[2:4], "big"):
                ch, ln = int.from_bytes(raw[0:2], "big"), int.from_bytes(raw[2:4], "big")
                payload = raw[4:4 + ln]
                want = f"{channels[ch]}:{hx(payload)}" if payload else "s:-"
                if ups != want:
                    return f"ChannelData on channel {ch:x} ({ln} bytes) handed up as [{ups[:80]}]"
    return None


def load_corpus():
    d = os.path.join(vlib.ROOT, "corpus", "C16")
    out = []
    if os.path.isdir(d):
        for f in sorted(os.listdir(d)):
            if f.endswith(".ops"):
                out += sockchk.split_sessions([l.strip() for l in open(os.path.join(d, f)) if l.strip() and not l.startswith("#")])
    return out


def run(tier, seed):
    chk = vlib.Check("C16", tier, seed)
    chk.cov["trusted_base"] = TRUSTED
    chk.assumptions = ["DRAFT9 / RFC5766 modes, unreliable base socket; request timers run on the virtual clock, the 240 s / 540 s refresh timers never fire (sessions last < 200 s)",
                       "relay traffic in the tie: datagrams the STUN agent does not take for a message, and well-formed Data indications"]
    st = vlib.std_pipeline(chk, MODULE, THEOREMS)
    diverged, ofail = [], []
    if not st["libs"]:
        return conclude(chk, st, diverged, ofail, "sock_drv:turn")
    ok, exe, log = vlib.build_harness("sock_drv", extra=EXTRA, multidef=True)
    if not ok:
        chk.note("harness build failed: " + log[-1500:])
        st["libs"] = False; st["log"] = log
        return conclude(chk, st, diverged, ofail, "sock_drv:turn")
    known_texts = {r["text"] for r in vlib.known_findings() if r.get("property") == "C16" and r.get("status") == "known"}
    rng = chk.rng
    corpus = load_corpus()
    S = list(corpus)
    nsess = 1500 if tier == "quick" else 20000
    for _ in range(nsess):
        S.append(gen_session(rng, tier))
    H = [hostile_session(rng) for _ in range(100 if tier == "quick" else 1000)]   # lying length fields, runts: must be harmless now
    S += [L for (L, kind) in H]
    io, mo, errs = sockchk.run_both(exe, S, model=os.path.exists(vlib.model_exe()))
    nval, distinct, ops = 0, set(), {}
    kpad = []
    for i, s in enumerate(S):
        if io[i] is None:
            o1, rc1, er1 = errs.get(i, ([], 0, ""))
            ofail.append({"session": [l[:400] for l in s], "why": "implementation crashed / aborted (sanitizer report or signal)",
                          "impl_out": o1[-2:], "stderr": er1[-1500:]})
            continue
        if mo[i] is not None and mo[i] != io[i]:
            k = 0
            while k < min(len(io[i]), len(mo[i])) and io[i][k] == mo[i][k]:
                k += 1
            if len(diverged) < 50:
                diverged.append({"session": [l[:300] for l in s[:k + 1]], "line_no": k, "impl": io[i][k][:500] if k < len(io[i]) else "<none>",
                                 "model": mo[i][k][:500] if k < len(mo[i]) else "<none>"})
        else:
            nval += 1
        why = oracle(s, io[i], kpad)
        if why and len(ofail) < 50:
            ofail.append({"session": [l[:400] for l in s], "impl_out": [x[:300] for x in io[i]][-6:], "why": why})
        for l, o in zip(s, io[i]):
            ops[l.split()[2]] = ops.get(l.split()[2], 0) + 1
            if " down [" in o and not o.split(" down [")[1].startswith("]") or (" up [" in o and not o.split(" up [")[1].startswith("]")):
                distinct.add(hash((l[:200], o[:200])))
    if kpad:
        if KF_PAD3489 in known_texts:
            chk.known(f"{KF_PAD3489} [{len(kpad)} datagram(s), e.g. `{kpad[0][1]}`]")
        else:
            ofail.append({"session": [kpad[0][1]], "why": "GOOGLE mode: the relay decodes payload + zero padding, not the payload"})
    chk.cov["evaluations"] = len(S)
    chk.cov["traces_validated_against_impl"] = nval
    chk.cov["distinct_nontrivial"] = len(distinct)
    chk.cov["rule"] = ("a session = one TURN socket life (sends, channel binds, request answers, relay traffic); non-trivial = distinct "
                       "(operation, result) pairs in which the implementation wrote a datagram or handed data up")
    chk.cov["samples"] = [S[len(corpus)][:8], S[-1][:8]] if len(S) > len(corpus) else []
    chk.cov["samples"] = [[l[:160] for l in s] for s in chk.cov["samples"]]
    chk.cov["generator_distribution"] = {"sessions": len(S), "corpus": len(corpus), "ops": ops, "hostile": len(H),
                                         "hostile_kinds": {k: sum(1 for _, kk in H if kk == k) for k in ("long", "runt", "exact")}}
    return conclude(chk, st, diverged, ofail, "sock_drv:turn")


def replay(path):
    r = json.load(open(path))
    s = r.get("session")
    if not s:
        print(json.dumps(r, indent=1)[:4000]); return 0
    vlib.ensure_libs(); vlib.extract(); vlib.lake_build(["nicemodel"])
    ok, exe, log = vlib.build_harness("sock_drv", extra=EXTRA, multidef=True)
    io, rc, err = vlib.run_lines(exe, ["reset"] + s)
    mo, _, _ = vlib.run_lines(vlib.model_exe(), ["reset"] + s)
    bad = 0
    for i, l in enumerate(["reset"] + s):
        a = io[i] if i < len(io) else "<no output: crashed>"
        b = mo[i] if i < len(mo) else "<no output>"
        print(f"{l[:90]:90s}\n   impl : {a[:300]}\n   model: {b[:300]}")
        bad += a != b
    if rc:
        print(err[-2000:])
    print("why:", r.get("why"), "| oracle now:", oracle(s, io[1:]) if len(io) == len(s) + 1 else "crashed")
    return 1 if (bad or rc or r.get("why")) else 0
