"""C11 — Component states follow the documented machine and agree with other signals."""
import json, os, re
from lib import vlib, simlib
from checks.common import conclude
from checks import simcommon as sc

MODULE = "Nice.Props.C11"
THEOREMS = [f"Nice.Props.C11.{t}" for t in (
    "C11_whitelist_is_documented", "C11_announced_sequence", "C11_announced_is_documented", "signal_state")] + [
    "Nice.Props.C11GatheringDone.C11_completion_needs_no_pending_discovery", "Nice.Props.C11GatheringDone.analysis_ok"]
TRUSTED = [
    "Lean 4 kernel; axioms propext, Classical.choice, Quot.sound only (audited every run)",
    "Nice/Gen/GatheringDone.lean: skeleton of agent/agent.c agent_gathering_done REGENERATED from the source on every run "
    "(tools/extract_flow.py; tracked: agent->discovery_timer_source; marked: agent_signal_gathering_done; assumed: nothing the function "
    "calls before the announcement creates or destroys the discovery timer): completion is announced only when no discovery item is "
    "scheduled or in flight, for every execution of the skeleton (Nice/Model/Flow.lean)",
    "the transition whitelist is REGENERATED on every run by compiling the g_assert expression of "
    "agent_signal_component_state_change from the current agent.c and evaluating it on all 36 (old,new) pairs; the documented "
    "edges are re-parsed from docs/reference/libnice/states.gv; the theorem whitelist = documented is re-checked by `decide`",
    "hand-written: the choke-point function (early return / assert / update) in Nice/Model/CompState.lean; tied by replaying every "
    "announced state sequence observed on real agents through the Lean model (`cstate seq`)",
    "call-site ordering (selected pair announced before CONNECTED/READY, gathering-done once per run, nothing after "
    "remove_stream) is NOT proved: it is observed on simulated API histories of real agents",
]
STATES = {"DISCONNECTED": 0, "GATHERING": 1, "CONNECTING": 2, "CONNECTED": 3, "READY": 4, "FAILED": 5}
EV_STATE = re.compile(r"t=(\d+) (\w+) state (\d+) (\d+) (\w+) getter=(\w+) havepair=(\d)")


def scenario(args):
    exe, seed, tier = args
    import random
    rng = random.Random(f"C11/{seed}")
    cfg = sc.base_config(rng, tier)
    cfg["anyorder"] = False
    cfg["consent"] = rng.randint(0, 1)
    s = None
    try:
        s = sc.start_session(exe, seed, cfg)
        sids = {"A": [1], "B": [1]}
        steps = sc.signalling_steps(rng, cfg)
        sc.deliver_signalling(s, rng, steps)
        s.op(f"run {rng.choice([0, 50, 300, 2000])}")
        # API history
        for _ in range(rng.randint(1, 5)):
            act = rng.choice(["restart", "restartstream", "rm-readd", "consentlost", "send", "run", "blackout", "reexchange",
                              "force-remote", "force-remote", "force-pair", "force-fresh"])
            ag = rng.choice("AB")
            other = "B" if ag == "A" else "A"
            sid = sids[ag][-1]
            if act == "restart":
                s.op(f"restart {ag}"); s.op(f"restart {other}")
                exchange(s, rng, cfg, sids)
            elif act == "restartstream":
                s.op(f"restartstream {ag} {sid}"); s.op(f"restartstream {other} {sids[other][-1]}")
                exchange(s, rng, cfg, sids)
            elif act == "rm-readd":
                s.op(f"rmstream {ag} {sid}")
                s.op(f"run {rng.choice([0, 30, 500])}")
                ev, st = s.op(f"stream {ag} {cfg['ncomp']}")
                nid = int(st.split()[2])
                sids[ag].append(nid)
                s.op(f"attach {ag} {nid}")
                s.op(f"gather {ag} {nid}")
                s.op(f"restartstream {other} {sids[other][-1]}")
                exchange(s, rng, cfg, sids)
            elif act == "consentlost":
                s.op(f"consentlost {ag} {sid} {rng.randint(1, cfg['ncomp'])}")
            elif act == "send":
                s.op(f"send {ag} {sid} {rng.randint(1, cfg['ncomp'])} {'ab' * rng.randint(1, 40)}")
            elif act == "blackout":
                now = int(s.op("stats")[1].split()[1].split("=")[1])
                s.op(f"net blackout * * {now} {now + rng.choice([3000, 40000])}")
            elif act == "reexchange":
                exchange(s, rng, cfg, sids)
            elif act == "force-remote":
                # forced pair selection: the peer's real address, an address family / transport nothing local matches, garbage
                comp = rng.randint(1, cfg["ncomp"])
                peer = [m.group(1) for e in s.events()
                        for m in [re.match(rf"t=\d+ {other} new-candidate \d+ type=0 .*comp={comp} .* addr=(\S+) base", e)] if m]
                kind = rng.choice(["peer", "peer", "v6", "tcp", "unreachable"])
                if kind == "peer" and peer:
                    ip, port = rng.choice(peer).rsplit(":", 1)
                    s.op(f"selremote {ag} {sid} {comp} {ip} {port}")
                elif kind == "v6":
                    s.op(f"selremote {ag} {sid} {comp} ::1 {rng.randrange(1024, 65000)}")
                elif kind == "tcp":
                    s.op(f"selremote {ag} {sid} {comp} 127.0.1.1 {rng.randrange(1024, 65000)} {rng.choice(['tcp-act', 'tcp-pass'])}")
                else:
                    s.op(f"selremote {ag} {sid} {comp} 127.0.9.9 {rng.randrange(1024, 65000)}")
            elif act == "force-pair":
                s.op(f"selpair {ag} {sid} {rng.randint(1, cfg['ncomp'])} {rng.choice(['1', '2', '3', 'zz'])} {rng.choice(['1', '2', 'remote1', 'zz'])}")
            elif act == "force-fresh":
                # a stream that never gathered: no local candidate can match
                ev, st = s.op(f"stream {ag} 1")
                nid = int(st.split()[2])
                s.op(f"attach {ag} {nid}")
                s.op(f"selremote {ag} {nid} 1 {rng.choice(['127.0.1.1', '::1'])} 4242")
                s.op(f"rmstream {ag} {nid}")
            s.op(f"run {rng.choice([0, 20, 200, 3000, 35000])}")
            # getter == last announced, sampled after every dispatch batch
        s.op("runidle 60000")
        # final getters
        finals = {}
        for ag in "AB":
            for c in range(1, cfg["ncomp"] + 1):
                finals[(ag, sids[ag][-1], c)] = simlib.parse_q(s.op(f"q {ag} {sids[ag][-1]} {c}")[1])["state"]
        bad = analyse(s, finals)
        return dict(seed=seed, cfg=cfg, bad=bad, script=s.script, seqs=s.seqs, nstate=s.nstate)
    except simlib.SimDied as e:
        return dict(seed=seed, cfg=cfg, bad=[("crash/assert", str(e)[-1500:])], script=s.script if s else [], seqs=[], nstate=0)
    finally:
        if s:
            s.close()


def exchange(s, rng, cfg, sids):
    a, b = sids["A"][-1], sids["B"][-1]
    steps = [f"creds A {a} B {b}", f"creds B {b} A {a}"]
    cands = []
    for c in range(1, cfg["ncomp"] + 1):
        cands.append(f"cands A {a} {c} B {b}")
        cands.append(f"cands B {b} {c} A {a}")
    rng.shuffle(cands)
    for st in steps + cands:
        s.op(st)
        if rng.random() < 0.3:
            s.op(f"run {rng.choice([0, 20, 150])}")


def analyse(s, finals):
    """evaluate C11's statement on the event trace of the real agents"""
    bad = []
    last = {}          # (agent, sid, comp) -> last announced state
    seqs = {}          # announced sequences
    selected_since = {}   # (agent,sid,comp) -> bool: a selected-pair announcement since the last (re)start
    removed = set()    # (agent, sid) after rmstream returned
    gathering_runs = {}   # (agent, sid) -> [n gather ops, n gathering-done]
    nstate = 0
    for op, evs, status in s.trace:
        w = op.split()
        if w[0] == "gather":
            gathering_runs.setdefault((w[1], int(w[2])), [0, 0])[0] += 1
        if w[0] in ("restart",):
            for k in list(selected_since):
                if k[0] == w[1]:
                    selected_since[k] = False
            for k in gathering_runs:
                if k[0] == w[1]:
                    gathering_runs[k][0] += 1
        if w[0] == "restartstream":
            for k in list(selected_since):
                if k[0] == w[1] and k[1] == int(w[2]):
                    selected_since[k] = False
            gathering_runs.setdefault((w[1], int(w[2])), [0, 0])[0] += 1
        need = []
        for e in evs + ["<end-of-op>"]:
            if e == "<end-of-op>":
                for key, st in need:
                    if not selected_since.get(key):
                        bad.append(("pair-not-announced", f"{key} announced {st} during `{op[:60]}` but no new-selected-pair "
                                                           f"announcement had been made when that operation returned"))
                continue
            m = EV_STATE.match(e)
            if m:
                nstate += 1
                ag, sid, comp, st, getter, have = m.group(2), int(m.group(3)), int(m.group(4)), m.group(5), m.group(6), int(m.group(7))
                key = (ag, sid, comp)
                if (ag, sid) in removed:
                    bad.append(("signal-after-remove", f"{e}"))
                seqs.setdefault(key, []).append(STATES[st])
                if last.get(key) == st:
                    bad.append(("repeated-state", f"{key} announced {st} twice in a row"))
                if last.get(key) == "CONNECTED" and st == "CONNECTING" and not getattr(s, "has_tcp", False):
                    # the documented machine has no CONNECTED -> CONNECTING edge; the assertion admits it for ONE situation, named in
                    # its comment: the TCP socket of the selected pair died.  These sessions have UDP candidates only.
                    bad.append(("undocumented-transition", f"{key} announced CONNECTED -> CONNECTING in a UDP-only session (no socket "
                                                           f"can have failed): {e[:90]}"))
                last[key] = st
                if st in ("CONNECTED", "READY"):
                    if not have:
                        bad.append(("no-selected-pair", f"{key} announced {st} but no selected pair exists: {e}"))
                    elif not selected_since.get(key):
                        # the statement allows the announcement to follow within the same call / dispatch batch
                        # (forced selection emits the state changes first): decided at the end of this operation
                        need.append((key, st))
                continue
            mm = re.match(r"t=\d+ (\w+) selected (\d+) (\d+) ", e)
            if mm:
                key = (mm.group(1), int(mm.group(2)), int(mm.group(3)))
                selected_since[key] = True
                if key[:2] in removed:
                    bad.append(("signal-after-remove", e))
                continue
            mm = re.match(r"t=\d+ (\w+) gathering-done (\d+)", e)
            if mm:
                k = (mm.group(1), int(mm.group(2)))
                gathering_runs.setdefault(k, [0, 0])[1] += 1
                if k in removed:
                    bad.append(("signal-after-remove", e))
                continue
            mm = re.match(r"t=\d+ (\w+) (new-candidate|new-remote-candidate) (\d+) ", e)
            if mm and (mm.group(1), int(mm.group(3))) in removed:
                bad.append(("signal-after-remove", e))
            mm = re.match(r"t=\d+ (\w+) rmstream-returned (\d+)", e)
            if mm:
                removed.add((mm.group(1), int(mm.group(2))))
    for k, (runs, dones) in gathering_runs.items():
        if dones > runs:
            bad.append(("gathering-done-twice", f"{k}: {dones} gathering-done signals for {runs} gathering runs"))
    for e in s.events():
        mm = re.match(r"t=\d+ (\w+) getter-mismatch (\d+) (\d+) getter=(\w+) announced=(\w+) after=(\S+)", e)
        if mm:
            bad.append(("getter-mismatch", f"({mm.group(1)}, {mm.group(2)}, {mm.group(3)}): when `{mm.group(6)}` returned the getter said "
                                           f"{mm.group(4)} but the last announced state was {mm.group(5)}"))
            break
    for key, st in finals.items():
        if key in last and last[key] != st:
            bad.append(("getter-mismatch", f"{key}: getter says {st}, last announced {last[key]}"))
        if key not in last and st != "DISCONNECTED":
            bad.append(("getter-mismatch", f"{key}: getter says {st}, nothing was ever announced"))
    s.seqs = [[0] + v for v in seqs.values()]
    s.nstate = nstate
    return bad


def run(tier, seed):
    chk = vlib.Check("C11", tier, seed)
    chk.cov["trusted_base"] = TRUSTED
    st = vlib.std_pipeline(chk, MODULE, THEOREMS)
    diverged, ofail = [], []
    if st["libs"]:
        ok, exe, log = sc.build_sim()
        if not ok:
            chk.note("harness build failed: " + log[-1500:]); st["libs"] = False; st["log"] = log
        else:
            sc.run_corpus(exe, "C11", ofail)
            # gathering runs with a STUN server but nothing to discover (shared with C20): completion announced exactly once
            from checks import C20 as G
            for r in simlib.run_parallel(G.edge_scenario, [(exe, seed * 100000 + i, tier) for i in range(6 if tier == "quick" else 40)]) + \
                    simlib.run_parallel(G.two_stream_scenario, [(exe, seed * 100000 + i, tier) for i in range(16 if tier == "quick" else 120)]) + \
                    simlib.run_parallel(G.late_relay_scenario, [(exe, seed * 100000 + i, tier) for i in range(6 if tier == "quick" else 40)]):
                for kind, what in r["bad"]:
                    ofail.append({"why": f"gathering-{kind}: {what}", "session": r["script"]})
            n = 400 if tier == "quick" else 8000
            res = simlib.run_parallel(scenario, [(exe, seed * 100000 + i, tier) for i in range(n)])
            kinds = {}
            allseq = []
            for r in res:
                for kind, what in r["bad"]:
                    ofail.append({"why": f"{kind}: {what}", "config": r["cfg"], "session": r["script"]})
                    kinds[kind] = kinds.get(kind, 0) + 1
                allseq += r["seqs"]
            # tie: every announced sequence must be accepted by the Lean choke-point model
            nval = 0
            if os.path.exists(vlib.model_exe()) and allseq:
                lines = ["cstate seq " + " ".join(map(str, q)) for q in allseq]
                out, rc, err = vlib.run_lines(vlib.model_exe(), lines)
                for q, o in zip(allseq, out):
                    if not o.startswith("ok"):
                        diverged.append({"index": 0, "op": "cstate seq " + " ".join(map(str, q)), "impl": "announced by the agent", "model": o})
                    else:
                        nval += 1
            chk.cov["evaluations"] = len(res)
            chk.cov["distinct_nontrivial"] = len({tuple(q) for q in allseq if len(q) > 3})
            chk.cov["traces_validated_against_impl"] = nval
            chk.cov["rule"] = ("one evaluation = one simulated API history on two real agents (gather, signalling, then 1-5 of: agent "
                               "restart, stream restart, remove+re-add stream, consent lost, send, blackout, re-exchange) under loss/"
                               "latency/duplication; non-trivial = distinct announced state sequences with more than two transitions")
            chk.cov["samples"] = [res[0]["script"][:40], allseq[:5]]
            chk.cov["generator_distribution"] = {"state_events": sum(r["nstate"] for r in res), "sequences": len(allseq),
                                                 "failure_kinds": kinds}
    return conclude(chk, st, diverged, ofail, "sim_drv:C11 histories + choke-point replay")


def replay(path):
    r = json.load(open(path))
    s = r.get("session")
    if not s:
        print(json.dumps(r, indent=1)); return 0
    vlib.ensure_libs()
    ok, exe, log = sc.build_sim()
    out, err, rc = simlib.replay_script(exe, s)
    print(out[-8000:]); print(err[-2000:])
    return 0
