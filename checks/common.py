"""Decision logic shared by all checks: what to report given the state of the proof, the tie and
the implementation-side oracle."""
import json, os
from lib import vlib


def conclude(chk, st, diverged, oracle_fail, stream, extra_replay=None):
    """st: std_pipeline result.  diverged: list of diff records (model vs implementation).
    oracle_fail: list of dicts {session:[lines], why:str, ...} — concrete inputs on which the
    *implementation* violates the property's predicate.
    Policy (brief): a broken proof/translation/correspondence is reported as a violation; with a
    concrete failing input when the search found one, otherwise `no-failing-input-found`."""
    broken = []
    if not st.get("libs"):
        chk.violation("build-failed", {"what": "libnice does not build from the current working tree",
                                       "log": st.get("log", "")[-3000:]}, found_input=False)
        return chk.finish()
    if not st.get("extract"):
        broken.append("translation: tools/extract.py refused the current source (construct outside the "
                      "translatable subset or definition missing): " + st.get("log", "")[-600:])
    if not st.get("proof"):
        broken.append("theorem: `lake build` of the property module fails against the regenerated "
                      "definitions: " + "\n".join(l for l in st.get("log", "").splitlines() if "error" in l)[:1200])
    elif not st.get("audit"):
        broken.append("audit: axiom / forbidden-token audit failed")
    if diverged:
        broken.append(f"correspondence: stream `{stream}` diverges on {len(diverged)} session(s)")
    # 1. concrete failing inputs on the implementation
    for f in oracle_fail[:5]:
        chk.violation("property-failed", dict(f, stream=stream, broken=broken))
    if oracle_fail:
        return chk.finish()
    # 2. nothing concrete: still a violation if a link is broken
    if broken:
        rep = {"what": "the property is no longer shown to hold", "broken": broken, "stream": stream,
               "divergences": diverged[:5]}
        if extra_replay:
            rep.update(extra_replay)
        chk.violation("theorem-or-correspondence-broken", rep, found_input=False)
    return chk.finish()
