"""C14 — ICE restart issues fresh credentials and the session re-converges."""
import json, os, re
from lib import vlib, simlib
from checks.common import conclude
from checks import simcommon as sc

MODULE = "Nice.Props.C14"
THEOREMS = [f"Nice.Props.C14.{t}" for t in (
    "alphabet_length", "alphabet_ice", "alphabet_nodup", "C14_credentials_wellformed", "C14_credentials_are_rng",
    "C14_restart_forgets")] + [f"Nice.Props.C14Restart.{t}" for t in (
    "C14_credentials_reinitialised", "C14_restart_prunes_and_reinitialises", "C14_every_component_restarted_and_announced",
    "creds_ok", "restart_ok", "restart_body_ok")]
TRUSTED = [
    "Lean 4 kernel; axioms propext, Classical.choice, Quot.sound only (audited every run)",
    "Nice/Gen/{InitCredentials,StreamRestart}.lean: obligation skeletons of nice_stream_initialize_credentials and nice_stream_restart "
    "REGENERATED from agent/stream.c on every run (tools/extract_flow.py): every return has generated both local credentials, cleared both "
    "remote ones, pruned the checks; every loop iteration restarts the component and announces GATHERING (Nice/Model/Flow.lean)",
    "the credential alphabet (random/random.c) and the default lengths (agent/stream.h) are regenerated from the source on every run",
    "Nice/Model/Creds.lean: hand-written credential generation and the forgetting part of nice_stream_restart; tied by simulation: "
    "every credential a real agent produces is checked against the model's grammar, and after every restart the real agent's remote "
    "candidate list, check list and component states are compared with the model's post-restart state",
    "freshness (new credentials differ from all earlier ones) is a property of the RNG: proved only as 'credentials are an injective "
    "image of the draws' and measured over all restarts of the run; re-convergence after restart is explored by simulation (as C01); "
    "rejection of pre-restart checks is observed by replaying captured pre-restart requests (expects 401 and no state change)",
]
ICE_CHARS = set("ABCDEFGHIJKLMNOPQRSTUVWXYZabcdefghijklmnopqrstuvwxyz0123456789+/")


def get_creds(s, ag, sid=1):
    w = s.op(f"getcreds {ag} {sid}")[1].split()
    return w[4], w[6]


def scenario(args):
    exe, seed, tier = args
    import random
    rng = random.Random(f"C14/{seed}")
    cfg = sc.base_config(rng, tier)
    cfg["anyorder"] = False
    cfg["loss"] = rng.choice([0, 0, 10, 30])
    moment = rng.choice(["gathering", "mid-check", "ready", "ready", "data", "early-checks"])
    if moment == "early-checks":
        cfg.update(ctrlA=0, ctrlB=1, loss=0, dup=0)
    elif rng.random() < 0.4:
        cfg["nat"] = rng.choice(["A", "B"])       # local peer-reflexive candidates survive a restart
    s = None
    bad, known = [], []
    creds_seen = {"A": [], "B": []}
    n_restarts = 0
    captured = []
    try:
        s = sc.start_session(exe, seed, cfg)
        s.op("net trace 2")
        for ag in "AB":
            creds_seen[ag].append(get_creds(s, ag))
        steps = sc.signalling_steps(rng, cfg)
        if moment == "early-checks":
            # only B learns A's description: B (controlling) checks A, A can only store these early checks.  A restarts.
            # Then A learns B's description while B still uses A's PRE-restart credentials: the stored and the new checks
            # of B are authenticated with the old password, so they must not make A select a pair or leave CONNECTING.
            s.op("creds A 1 B 1")
            for c in range(1, cfg["ncomp"] + 1):
                s.op(f"cands A 1 {c} B 1")
            s.op(f"run {rng.choice([100, 300, 1000])}")
            which0 = rng.choice(["restart A", "restartstream A 1"])
            s.op(which0)
            n_restarts += 1
            creds_seen["A"].append(get_creds(s, "A"))
            if rng.random() < 0.3:      # a second restart before anything else happens
                s.op(which0)
                n_restarts += 1
                creds_seen["A"].append(get_creds(s, "A"))
            n0 = len(s.events())
            order = ["cands"] * cfg["ncomp"] + ["creds"]
            if rng.random() < 0.5:
                order.reverse()
            c = 0
            for o in order:
                if o == "creds":
                    s.op("creds B 1 A 1")
                else:
                    c += 1
                    s.op(f"cands B 1 {c} A 1")
                s.op(f"run {rng.choice([0, 20, 100])}")
            s.op("run 4000")
            for e in s.events()[n0:]:
                if re.search(r" A state 1 \d+ (CONNECTED|READY)", e) or " A selected " in e:
                    bad.append(("old-password-accepted", f"A restarted, its peer still uses the pre-restart credentials, yet: {e[:150]}"))
                    break
        elif moment == "gathering":
            pass
        elif moment == "mid-check":
            sc.deliver_signalling(s, rng, steps)
            s.op(f"run {rng.choice([10, 25, 60, 200])}")
        else:
            sc.deliver_signalling(s, rng, steps)
            s.op("runidle 60000")
            if moment == "data":
                for _ in range(3):
                    s.op(f"send A 1 1 {'cd' * rng.randint(1, 100)}")
                    s.op("run 5")
        # capture an authenticated pre-restart request A -> B (full bytes) for the replay attack
        for e in s.events():
            # as delivered (after any NAT translation), in both directions: (target agent, src, dst, bytes)
            m = re.search(r"rx (\w+) (\S+)->(\S+) len=\d+ stun class=0 method=1 .*mi=1 .* hex=(\w+)", e)
            if m and m.group(1) in ("A", "B"):
                captured.append((m.group(1), m.group(2), m.group(3), m.group(4)))
        for r in range(rng.randint(1, 5)):
            first = rng.choice("AB")
            second = "B" if first == "A" else "A"
            both = rng.random() < 0.8
            which = rng.choice(["restart", "restartstream"])
            order = [first, second] if both else [first]
            for ag in order:
                ev, st = s.op(f"{which} {ag}" + (" 1" if which == "restartstream" else ""))
                n_restarts += 1
                if "ret 1" not in st:
                    bad.append(("restart-api", f"{which} {ag} returned {st}"))
                # components announced GATHERING again, remote candidates forgotten, check list empty
                for c in range(1, cfg["ncomp"] + 1):
                    q = simlib.parse_q(s.op(f"q {ag} 1 {c}")[1])
                    if q["state"] != "GATHERING":
                        bad.append(("not-gathering", f"after {which} {ag}: component {c} is {q['state']}"))
                    nr = int(s.op(f"remotecands {ag} 1 {c}")[1].split()[1])
                    if nr != 0:
                        bad.append(("remote-cands-kept", f"after {which} {ag}: {nr} remote candidates still known for component {c}"))
                cl = s.op(f"checklist {ag} 1")[1].split()[2:]
                if cl:
                    bad.append(("checklist-kept", f"after {which} {ag}: check list still has {len(cl)} pairs"))
                u, p = get_creds(s, ag)
                if len(u) < 4 or len(p) < 22 or not set(u + p) <= ICE_CHARS:
                    bad.append(("malformed-credentials", f"{ag}: ufrag={u!r} pwd={p!r}"))
                if (u, p) in creds_seen[ag] or any(p == op for _, op in creds_seen[ag]) or any(u == ou for ou, _ in creds_seen[ag]):
                    bad.append(("credentials-reused", f"{ag}: ufrag={u} pwd={p} equals an earlier value {creds_seen[ag]}"))
                creds_seen[ag].append((u, p))
                if rng.random() < 0.4:
                    s.op(f"run {rng.choice([0, 10, 100])}")
            if not both:
                # the peer that did not restart must restart too before the new exchange (ICE restart is mutual)
                s.op(f"{which} {second}" + (" 1" if which == "restartstream" else ""))
                creds_seen[second].append(get_creds(s, second))
            # replay a captured pre-restart request against B (spoofing A's address)
            nev0 = len(s.events())
            if captured and rng.random() < 0.7:
                for tgt, src, dst, hx in rng.sample(captured, min(3, len(captured))):
                    s.op(f"inject {src} {dst} {hx}")
                    ev, _ = s.op("run 30")
                    txid = hx[8:40]
                    for e in ev:
                        if " state " in e or "new-remote-candidate" in e or " selected " in e:
                            bad.append(("old-password-accepted", f"a check authenticated with the pre-restart password changed the agent: {e[:160]}"))
                        m = re.search(rf"tx {tgt} \S+ len=\d+ stun class=(\d) method=1 .*err=(\d+) .*txid={txid}", e)
                        if m and m.group(1) == "2":
                            bad.append(("old-password-accepted", f"{tgt} answered a replayed pre-restart check with success: {e[:160]}"))
            # new exchange
            cfg2 = dict(cfg, anyorder=False)
            steps = sc.signalling_steps(rng, cfg2)
            sc.deliver_signalling(s, rng, steps)
            s.op("runidle 90000")
        res = sc.final_queries(s, cfg["ncomp"])
        k1 = sc.cands_before_creds(s)
        for c, (qa, qb) in res.items():
            if qa["state"] != "READY" or qb["state"] != "READY":
                (known if k1 else bad).append(("K1" if k1 else "no-reconvergence", f"component {c}: A={qa['state']} B={qb['state']} after {n_restarts} restarts"))
            elif qa["local"] != qb["remote"] or qa["remote"] != qb["local"]:
                ctrl = "A" if qa["role"] == 1 else "B"
                aggressive = cfg["regA" if ctrl == "A" else "regB"] == 0
                if aggressive and (sc.saw_prflx(s, "A", c) or sc.saw_prflx(s, "B", c)):
                    known.append(("K2", f"component {c} not mirrored"))
                else:
                    bad.append(("not-mirrored", f"component {c}: A {qa['local']}>{qa['remote']}  B {qb['local']}>{qb['remote']}"))
        if res[1][0]["role"] + res[1][1]["role"] != 1 and not k1:
            bad.append(("roles", f"A={res[1][0]['role']} B={res[1][1]['role']}"))
        return dict(seed=seed, cfg=cfg, moment=moment, bad=bad, known=known, script=s.script, n_restarts=n_restarts,
                    creds=[c for ag in "AB" for c in creds_seen[ag]])
    except simlib.SimDied as e:
        return dict(seed=seed, cfg=cfg, moment=moment, bad=[("crash", str(e)[-1500:])], known=[], script=s.script if s else [],
                    n_restarts=n_restarts, creds=[])
    finally:
        if s:
            s.close()


def run(tier, seed):
    chk = vlib.Check("C14", tier, seed)
    chk.cov["trusted_base"] = TRUSTED
    st = vlib.std_pipeline(chk, MODULE, THEOREMS)
    diverged, ofail = [], []
    if st["libs"]:
        ok, exe, log = sc.build_sim()
        if not ok:
            chk.note("harness build failed: " + log[-1500:]); st["libs"] = False; st["log"] = log
        else:
            n = 250 if tier == "quick" else 5000
            res = simlib.run_parallel(scenario, [(exe, seed * 100000 + i, tier) for i in range(n)])
            moments, known_seen = {}, {}
            allcreds = []
            for r in res:
                moments[r["moment"]] = moments.get(r["moment"], 0) + 1
                for kind, what in r["bad"]:
                    ofail.append({"why": f"{kind}: {what}", "config": r["cfg"], "moment": r["moment"], "session": r["script"]})
                for kind, what in r["known"]:
                    known_seen.setdefault(kind, (what, r["seed"]))
                allcreds += r["creds"]
            for k, (what, sd) in sorted(known_seen.items()):
                chk.known((sc.K1_TEXT if k == "K1" else sc.K2_TEXT) + f" [after restart; scenario seed {sd}: {what}]")
            pw = [p for _, p in allcreds]
            if len(set(pw)) != len(pw):
                # (within one session reuse is checked above; across sessions equal passwords would mean a constant RNG)
                dup = [p for p in set(pw) if pw.count(p) > 1][:3]
                chk.note(f"equal passwords across different sessions: {dup}")
            chk.cov["evaluations"] = len(res)
            chk.cov["distinct_nontrivial"] = len(set(pw))
            chk.cov["traces_validated_against_impl"] = sum(1 for r in res if not r["bad"])
            chk.cov["rule"] = ("one evaluation = one simulated session with 1-5 rounds of agent/stream restarts (during gathering, mid-check, "
                               "at READY, while data flows; one side first or both), replay of a captured pre-restart check, new "
                               "signalling and re-convergence under the C01 network schedules; distinct_nontrivial = distinct local "
                               "passwords observed (freshness measurement)")
            chk.cov["samples"] = [res[0]["script"][:40], allcreds[:4]]
            chk.cov["generator_distribution"] = {"restart_moments": moments, "restarts": sum(r["n_restarts"] for r in res),
                                                 "credentials_observed": len(allcreds), "known_classes_seen": sorted(known_seen)}
    return conclude(chk, st, diverged, ofail, "sim_drv:C14 restart scenarios")


def replay(path):
    r = json.load(open(path))
    s = r.get("session")
    if not s:
        print(json.dumps(r, indent=1)); return 0
    vlib.ensure_libs()
    ok, exe, log = sc.build_sim()
    out, err, rc = simlib.replay_script(exe, s)
    print(out[-8000:]); print(err[-2000:])
    return 0
