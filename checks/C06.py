"""C06 — STUN framing and attribute lookup agree with the RFC grammar."""
import json, os
from lib import vlib
from checks.common import conclude
from checks import stunlib as S

MODULE = "Nice.Props.C06"
THEOREMS = [f"Nice.Props.C06.{t}" for t in (
    "C06_length_iff_grammar", "C06_incomplete_iff", "C06_fast_split_independent",
    "C06_fast_agrees_with_full", "C06_find_is_reference", "C06_walk_terminates_no_fault",
    "C06_fast_split_independent_with_empties")] + ["Nice.Props.C03Recv.demux_same_padding"]
# demux_same_padding: in the skeleton of agent_recv_message_unlocked regenerated from the source, the vectored pre-check and the
# contiguous check receive textually the same padding argument (so C06_fast_agrees_with_full applies to the demultiplexer)
TRUSTED = [
    "Lean 4 kernel; axioms allowed: propext, Classical.choice, Quot.sound (audited by #print axioms on every run)",
    "hand-written model Nice/Model/Stun/{Basic,Find}.lean of stun/stunmessage.c (validate_buffer_length{,_fast}, find), "
    "tied by the stun_drv differential stream; translated kernels stun_getw/stun_align/stun_padding from tools/extract.py",
    "reference grammar Nice/Spec/StunGrammar.lean written from RFC 5389 §6/§15; checks/stunlib.py is a second independent parser",
    "find is stated for packets the length check accepts with total length < 65536 (stun_message_length is 16-bit)",
]
STREAM = "stun_drv:len+find"


def pad_of(flags):
    return not (flags & S.F_NOALIGN)


def rand_cfg(rng):
    """(cfg line, compat or None, padded)"""
    r = rng.random()
    if r < 0.1:
        return "stun cfg none 0", None, True
    compat = rng.randrange(4)
    flags = rng.choice([0, 0, S.F_NOALIGN, S.F_NOALIGN, rng.randrange(0, 512)])
    if compat == S.OC2007 and rng.random() < 0.5:
        flags |= S.F_NOALIGN    # what the agent uses for OC2007
    return f"stun cfg {compat} {flags:x}", compat, pad_of(flags)


def len_lines(pkt, splits, pad):
    return [f"stun len {S.hx(pkt)} split {','.join(map(str, sp))} pad {1 if pad else 0}" for sp in splits]


def lookup_lines(rng, pkt, padded, compat):
    """find / typed accessor ops for a packet (types present in it, the special ones, absent ones)"""
    types = {S.MI, S.FPR, S.REALM, S.NONCE, rng.choice(S.KNOWN_TYPES), rng.randrange(0x10000)}
    if S.verdict(pkt, padded) == len(pkt):
        for (t, _, _) in S.attrs_of(pkt, padded):
            types.add(t)
    types = sorted(types)
    rng.shuffle(types)
    h = S.hx(pkt)
    out = []
    for t in types[:8]:
        out.append(f"stun find {h} {t:04x}")
    for t in types[:3]:
        op = rng.choice(["get32", "get64", "getflag", "getstr", "getaddr", "getxaddr", "geterr", "getxaddrf"])
        if op == "geterr":
            out.append(f"stun geterr {h}")
        elif op == "getstr":
            out.append(f"stun getstr {h} {t:04x} {rng.choice([0, 1, 4, 8, 64, 1024])}")
        elif op in ("getaddr", "getxaddr"):
            out.append(f"stun {op} {h} {t:04x} {rng.choice([0, 8, 15, 16, 27, 28, 128])}")
        elif op == "getxaddrf":
            out.append(f"stun {op} {h} {t:04x} {rng.choice([16, 28, 128])} {rng.getrandbits(32)}")
        else:
            out.append(f"stun {op} {h} {t:04x}")
    return out


def gen_packet(rng, padded, kind):
    if kind == "valid":
        return S.valid_message(rng, padded)
    if kind == "mutant":
        m = S.valid_message(rng, padded)
        for _ in range(rng.choice([1, 1, 2])):
            m = S.mutate(rng, m, padded)
        return m
    if kind == "prefix":
        m = S.valid_message(rng, padded)
        return m[:rng.randrange(0, len(m) + 1)]
    if kind == "big":
        return S.big_message(rng, padded, rng.choice([512, 1024, 2040, 2048]))
    if kind == "bigmutant":
        return S.mutate(rng, S.big_message(rng, padded, rng.choice([1024, 2048])), padded)[:2048]
    if kind == "headerish":   # random bytes behind a plausible header
        n = rng.choice([0, 1, 2, 3, 4, 5, 19, 20, 21, 24, 28, rng.randrange(0, 64)])
        b = bytearray(S.rand_bytes(rng, n))
        if n:
            b[0] &= rng.choice([0x3f, 0x3f, 0xff])
        if n >= 4 and rng.random() < 0.7:
            b[2] = 0
            b[3] = rng.choice([0, 4, 8, max(0, n - 20) & 0xff, (n - 20 + 4) & 0xff, rng.randrange(256)])
        return bytes(b)
    return S.rand_bytes(rng, rng.choice([0, 1, 2, 3, 4, 7, 20, 21, 23, 24, rng.randrange(0, 80), rng.randrange(0, 2049)]))


def sessions_for(tier, rng):
    sessions, kinds = [], {}
    quick = tier == "quick"

    def add(kind, lines):
        sessions.append(lines)
        kinds[kind] = kinds.get(kind, 0) + 1

    # 1. exhaustive splits of short byte strings: every prefix length n <= NS of valid messages,
    #    all 2^(n-1) splits into non-empty buffers, both padding modes
    NS = 11 if quick else 14
    for _ in range(12 if quick else 40):
        padded = rng.random() < 0.7
        m = S.valid_message(rng, padded)
        if rng.random() < 0.3:
            m = S.mutate(rng, m, padded)
        for n in range(1, min(NS, len(m)) + 1):
            sp = list(S.all_splits(n))
            for i in range(0, len(sp), 512):
                add("short-allsplits", len_lines(m[:n], sp[i:i + 512], padded))
    # 2. whole messages: all 2^7 splits of the first 8 bytes (the header check looks at bytes 0-3),
    #    remainder in one further buffer or random pieces
    for _ in range(120 if quick else 600):
        padded = rng.random() < 0.7
        m = gen_packet(rng, padded, rng.choice(["valid", "valid", "mutant", "prefix"]))
        if len(m) < 9:
            continue
        sps = []
        for head in S.all_splits(8):
            rest = len(m) - 8
            tail = S.rand_split(rng, rest, 3) if rng.random() < 0.5 else [rest]
            if rng.random() < 0.5:   # last head part merged with the tail's first
                sps.append(head[:-1] + [head[-1] + tail[0]] + tail[1:])
            else:
                sps.append(head + tail)
        add("msg-headsplits", len_lines(m, sps, padded))
    # 3. generated packets x random splits (1..6 buffers) + lookups
    N = 12000 if quick else 80000
    dist = ["valid"] * 5 + ["mutant"] * 5 + ["prefix"] * 2 + ["big", "bigmutant", "headerish", "headerish", "random"]
    for _ in range(N):
        cfg, compat, padded = rand_cfg(rng)
        kind = rng.choice(dist)
        m = gen_packet(rng, padded, kind)
        lines = [cfg]
        sps = [[len(m)]] + [S.rand_split(rng, len(m), 6) for _ in range(7)] if len(m) else [[0]]
        lines += len_lines(m, sps, padded)
        if len(m) and rng.random() < 0.25:      # splits with zero-length buffers (fix 669dd63)
            lines += len_lines(m, [S.rand_split(rng, len(m), 6, empties=True) for _ in range(2)], padded)
        if rng.random() < 0.3:
            lines += len_lines(m, sps[:2], not padded)
        if len(m) <= 600 or rng.random() < 0.2:
            lines += lookup_lines(rng, m, padded, compat)
        add(kind, lines)
    # 4. all prefixes of valid messages (one session per message)
    for _ in range(150 if quick else 800):
        padded = rng.random() < 0.7
        m = S.valid_message(rng, padded, nmax=5, maxvar=24)
        lines = []
        for n in range(0, len(m) + 1):
            lines += len_lines(m[:n], [[n], S.rand_split(rng, n, 4)] if n else [[0]], padded)
        add("all-prefixes", lines)
    return sessions, kinds


def parse_cfg(line):
    w = line.split()
    if w[2] == "none":
        return None, True
    return int(w[2]), pad_of(int(w[3], 16))


def oracle(session, out):
    """the C06 statement evaluated on the implementation's outputs with the independent parser"""
    compat, cfg_pad = None, True
    for line, o in zip(session, out):
        w = line.split()
        if w[1] == "cfg":
            compat, cfg_pad = parse_cfg(line)
        elif w[1] == "len":
            pkt = S.unhx(w[2])
            pad = w[6] == "1"
            ow = o.split()
            if len(ow) != 6:
                return f"{line[:80]}: malformed output {o!r}"
            fast, fastnt, full = ow[1], ow[3], ow[5]
            hv, v = str(S.header_verdict(pkt, pad)), str(S.verdict(pkt, pad))
            if full != v:
                return f"length check says {full}, grammar says {v} for {S.hx(pkt)[:120]} pad={pad}"
            if fast != hv or fastnt != hv:
                return (f"vectored pre-check says {fast}/{fastnt} for split {w[4]}, contiguous header verdict is "
                        f"{hv} for {S.hx(pkt)[:120]} pad={pad}")
            if full not in ("invalid", "incomplete") and fast != full:
                return f"vectored pre-check {fast} disagrees with full check {full}"
        elif w[1] in ("find", "get32", "get64", "getflag", "getstr", "getaddr", "getxaddr", "getxaddrf", "geterr"):
            pkt = S.unhx(w[2])
            ok = S.verdict(pkt, cfg_pad) == len(pkt) and len(pkt) > 0
            if not ok:
                if o != "notvalid":
                    return f"{w[1]} on a packet the grammar rejects answered {o!r}"
                continue
            if o == "notvalid":
                return f"{w[1]}: library rejects a packet the grammar accepts: {S.hx(pkt)[:120]}"
            attrs = S.attrs_of(pkt, cfg_pad)
            t = int(w[3], 16) if w[1] != "geterr" else S.ERROR_CODE
            exp = S.ref_find(attrs, t, compat)
            if w[1] == "find":
                got = None if o == "none" else tuple(int(x) for x in o.split())
                if got != exp:
                    return f"find {t:04x} returned {got}, independent parser's first match is {exp} in {S.hx(pkt)[:160]}"
                if got and got[0] + got[1] > len(pkt):
                    return f"find {t:04x} result {got} lies outside the {len(pkt)}-byte packet"
            else:
                why = accessor_oracle(w, o, pkt, exp)
                if why:
                    return why
    return None


def accessor_oracle(w, o, pkt, exp):
    """typed accessors: result must be the decoding of the independent parser's first match"""
    op = w[1]
    ow = o.split()
    ret = int(ow[1])
    if exp is None:
        return None if ret == 1 else f"{op}: attribute absent per the parser but ret={ret}"
    off, l = exp
    val = pkt[off:off + l]
    if ret == 1:
        return f"{op}: parser finds the attribute at {off} but the library says NOT_FOUND"
    if op == "get32":
        if l == 4:
            return None if (ret == 0 and int(ow[3]) == int.from_bytes(val, "big")) else f"get32 -> {o}, expected {int.from_bytes(val, 'big')}"
        return None if ret == 2 else f"get32 on {l}-byte attribute -> {o}"
    if op == "get64":
        if l == 8:
            return None if (ret == 0 and int(ow[3]) == int.from_bytes(val, "big")) else f"get64 -> {o}"
        return None if ret == 2 else f"get64 on {l}-byte attribute -> {o}"
    if op == "getflag":
        return None if ret == (0 if l == 0 else 2) else f"getflag on {l}-byte attribute -> {o}"
    if op == "getstr":
        bl = int(w[4])
        if l >= bl:
            return None if ret == 3 else f"getstr {l} bytes into {bl} -> {o}"
        cs = val.split(b"\0")[0]
        return None if (ret == 0 and S.unhx(ow[3]) == cs) else f"getstr -> {o}, expected {S.hx(cs)}"
    if op == "geterr":
        if l < 4:
            return None if ret == 2 else f"geterr on {l}-byte attribute -> {o}"
        cls, num = val[2] & 7, val[3]
        if 3 <= cls <= 6 and num <= 99:
            return None if (ret == 0 and int(ow[3]) == cls * 100 + num) else f"geterr -> {o}, expected {cls * 100 + num}"
        return None if ret == 2 else f"geterr class {cls} number {num} -> {o}"
    if op in ("getaddr", "getxaddr", "getxaddrf"):
        alen = int(w[4])
        if l < 4:
            return None if ret == 2 else f"{op} on {l}-byte attribute -> {o}"
        fam = val[1]
        if fam not in (1, 2):
            return None if ret == 4 else f"{op} family {fam} -> {o}"
        need, vl = (16, 8) if fam == 1 else (28, 20)
        if alen < need or l != vl:
            return None if ret == 2 else f"{op} fam {fam} len {l} addrlen {alen} -> {o}"
        if ret != 0:
            return f"{op} -> {o} for a well-formed address attribute"
        port = int.from_bytes(val[2:4], "big")
        ip = val[4:]
        if op != "getaddr":
            ck = S.MAGIC if op == "getxaddr" else int(w[5])
            port ^= (ck >> 16) & 0xffff
            key = ck.to_bytes(4, "big") if fam == 1 else pkt[4:20]
            ip = bytes(a ^ b for a, b in zip(ip, key))
        got = (int(ow[5]), int(ow[6]), S.unhx(ow[7]))
        exp_t = (4 if fam == 1 else 6, port, ip)
        return None if got == exp_t else f"{op} -> {got}, expected {exp_t}"
    return None


def demux_scenario(args):
    """agent level: the demultiplexer of agent_recv_message_unlocked asks the vectored pre-check and then the contiguous
    check about the same datagram; for every compatibility mode the two must agree with the grammar of THAT mode (padded
    attributes, or unpadded for OC2007 / OC2007R2).  Two real agents reach READY; the peer's validated address then sends
    well-formed Binding requests without credentials whose total length is and is not a multiple of four.  The agent
    must treat every one of them as control traffic (it answers 400); none may reach the application as data."""
    exe, seed, tier = args
    import random, re, struct, zlib
    from lib import simlib, stunpy
    rng = random.Random(f"C06demux/{seed}")
    compat = rng.choice([0, 5, 5, 4])
    padded = compat not in (4, 5)
    s = simlib.Sim(exe)
    bad = []
    try:
        s.op(f"net seed {seed}"); s.op("net latency 1 2")
        s.op(f"new A ctrl=1 compat={compat} opts=0"); s.op(f"new B ctrl=0 compat={compat} opts=0")
        for ag in "AB":
            s.op(f"stream {ag} 1"); s.op(f"attach {ag} 1"); s.op(f"gather {ag} 1")
        s.op("run 50")
        for st_ in ("creds A 1 B 1", "creds B 1 A 1", "cands A 1 1 B 1", "cands B 1 1 A 1"):
            s.op(st_)
        s.op("runidle 20000")
        qa = simlib.parse_q(s.op("q A 1 1")[1])
        if qa["state"] != "READY":
            return dict(seed=seed, compat=compat, bad=[], script=s.script, n=0, ready=False)
        sent = []
        # half of the sessions: the application has no receive callback and pulls with nice_agent_recv_messages_nonblocking
        # into scattered buffers, some of them EMPTY in the middle of the vector: the contiguous copy the demultiplexer
        # checks must still be the whole datagram
        pull = rng.random() < 0.5
        if pull:
            s.op("detach A 1 1")
        for L in rng.sample(range(1, 40), 12):
            val = bytes(rng.randrange(33, 127) for _ in range(L))
            body = struct.pack("!HH", 0x0006, L) + val + (b"\0" * ((4 - L % 4) % 4) if padded else b"")
            txid = bytes(rng.randrange(256) for _ in range(12))
            # FINGERPRINT (both agents' STUN usage demands it): CRC-32 of everything before it, length field already final
            pre = struct.pack("!HHI", 0x0001, len(body) + 8, 0x2112A442) + txid + body
            msg = pre + struct.pack("!HHI", 0x8028, 4, (zlib.crc32(pre) & 0xffffffff) ^ 0x5354554e)
            sent.append(msg.hex())
            s.op(f"inject {qa['remote']} {qa['local']} {msg.hex()}")
            s.op("run 20")
            if pull:
                layout = rng.choice(["8,0,2048", "0,4096", "20,0,0,1,4096", "1,1,0,2,4096", "4096", "8,2048", "3,0,65536"])
                for _ in range(3):
                    st = s.op(f"recvnb A 1 1 {layout}")[1]
                    m = re.match(r"ok ret (-?\d+)(?: err \S+)? len (\d+) data (\S+)", st)
                    if not m or int(m.group(1)) <= 0:
                        break
                    got = m.group(3).replace("-", "")      # (the driver prints `-` for an empty buffer)
                    if got in sent:
                        bad.append(f"compatibility {compat}, receive vector {{{layout}}}: a well-formed {len(msg)}-byte Binding request from the validated peer "
                                   f"address was returned by nice_agent_recv_messages_nonblocking as data ({got[:40]}..)")
                if bad:
                    break
        s.op("run 200")
        for e in s.events():
            m = re.match(r"t=\d+ A recv 1 1 (\S+)", e)
            if m and m.group(1) in sent:
                n = len(m.group(1)) // 2
                bad.append(f"compatibility {compat} ({'padded' if padded else 'unpadded'} attributes): a well-formed {n}-byte Binding request "
                           f"from the validated peer address was handed to the application as data ({m.group(1)[:40]}..)")
                break
        return dict(seed=seed, compat=compat, bad=bad, script=s.script, n=len(sent), ready=True)
    except simlib.SimDied as e:
        return dict(seed=seed, compat=compat, bad=["crash: " + str(e)[-800:]], script=s.script, n=0, ready=False)
    finally:
        s.close()


def run(tier, seed):
    chk = vlib.Check("C06", tier, seed)
    chk.cov["trusted_base"] = TRUSTED
    chk.assumptions = ["vectored pre-check: total_length equals the sum of the buffer sizes",
                       "lookup theorems: the packet passed the length check and is shorter than 65536 bytes"]
    st = vlib.std_pipeline(chk, MODULE, THEOREMS)
    diverged, ofail = [], []
    if st["libs"]:
        ok, exe, log = vlib.build_harness("stun_drv", multidef=True)
        if not ok:
            chk.note("harness build failed: " + log[-1500:])
            st["libs"] = False
            st["log"] = log
        else:
            gen, kinds = sessions_for(tier, chk.rng)
            corpus = S.load_corpus(vlib.ROOT, "C06")
            Ss = corpus + gen
            outs, errs = vlib.run_impl(exe, Ss)
            nlen = nfind = nvalid = 0
            results = {}
            distinct = set()
            for i, (s, o) in enumerate(zip(Ss, outs)):
                if o is None:
                    ofail.append({"session": s, "why": "implementation crashed / aborted (sanitizer report?)",
                                  "stderr": errs.get(i, ("", 0, ""))[2][-1500:]})
                    continue
                why = oracle(s, o)
                if why:
                    ofail.append({"session": s, "impl_out": o, "why": why})
                for line, x in zip(s, o):
                    w = line.split()
                    if w[1] == "len":
                        nlen += 1
                        full = x.split()[5]
                        results[full if full in ("invalid", "incomplete") else "length"] = \
                            results.get(full if full in ("invalid", "incomplete") else "length", 0) + 1
                        if full not in ("invalid", "incomplete"):
                            distinct.add(w[2])
                    elif w[1] != "cfg":
                        nfind += 1
                        k = "lookup:" + ("notvalid" if x == "notvalid" else "none" if x in ("none", "ret 1") else "hit")
                        results[k] = results.get(k, 0) + 1
                        if x not in ("notvalid", "none", "ret 1"):
                            distinct.add(line)
            from checks import simcommon as sc
            from lib import simlib
            ok2, sexe, log2 = sc.build_sim()
            if ok2:
                dm = simlib.run_parallel(demux_scenario, [(sexe, seed * 100000 + i, tier) for i in range(8 if tier == "quick" else 80)])
                for r in dm:
                    for w_ in r["bad"]:
                        ofail.append({"why": "agent demultiplexer: " + w_, "session": r["script"]})
                chk.cov["agent_demux_sessions"] = {"sessions": len(dm), "ready": sum(1 for r in dm if r["ready"]),
                                                   "requests_injected": sum(r["n"] for r in dm),
                                                   "by_compatibility": {str(c): sum(1 for r in dm if r["compat"] == c) for c in (0, 4, 5)}}
            else:
                chk.note("simulator build failed (agent-level demultiplexer sessions skipped): " + log2[-500:])
            if os.path.exists(vlib.model_exe()):
                diverged, total = vlib.diff_sessions(exe, Ss)
            chk.cov["evaluations"] = nlen + nfind
            chk.cov["traces_validated_against_impl"] = len(Ss) - len(diverged)
            chk.cov["distinct_nontrivial"] = len(distinct)
            chk.cov["rule"] = ("one evaluation = one `len` line (both validators on one split) or one lookup; non-trivial = "
                               "distinct packets accepted with a length by the real full validator + distinct lookups that "
                               "hit an attribute (measured on the implementation's outputs)")
            chk.cov["samples"] = [Ss[len(corpus)][:2], Ss[-1][:2]] if Ss else []
            chk.cov["generator_distribution"] = {"session_kinds": kinds, "result_kinds": results,
                                                 "corpus": len(corpus), "len_lines": nlen, "lookup_lines": nfind}
    return conclude(chk, st, diverged, ofail, STREAM)


def replay(path):
    r = json.load(open(path))
    s = r.get("session")
    if not s:
        print(json.dumps(r, indent=1)[:4000]); return 0
    vlib.ensure_libs(); vlib.extract(); vlib.lake_build(["nicemodel"])
    ok, exe, log = vlib.build_harness("stun_drv", multidef=True)
    io, rc, err = vlib.run_lines(exe, ["reset"] + s)
    mo, _, _ = vlib.run_lines(vlib.model_exe(), ["reset"] + s)
    bad = 0
    for k, l in enumerate(["reset"] + s):
        a = io[k] if k < len(io) else "<crashed>"
        b = mo[k] if k < len(mo) else "<none>"
        if a != b:
            bad += 1
            print(f"{l[:100]}\n   impl : {a[:200]}\n   model: {b[:200]}")
    if len(io) < len(s) + 1:
        print("implementation died:", err[-1500:]); return 1
    why = oracle(s, io[1:])
    print("oracle:", why, "| differing lines:", bad)
    return 1 if (why or bad) else 0
