"""C01 — ICE converges: both agents READY on mirrored selected pairs, one controller."""
import json, os, re
from lib import vlib, simlib
from checks.common import conclude
from checks import simcommon as sc

MODULE = "Nice.Props.C01"
THEOREMS = [f"Nice.Props.C01.{t}" for t in (
    "C01_role_stable_when_roles_differ", "C01_role_resolution", "C01_role_resolved_by_request",
    "C01_role_resolved_by_487", "C01_one_controller_after_resolution", "C01_mirror_priority",
    "invE_step", "invD_step", "switched_stays",
    "C01_selected_is_max_nominated", "C01_selected_was_nominated", "C01_selection_order_independent", "C01_mirror_priority_gen")]
TRUSTED = [
    "Nice/Gen/RoleConflict.lean: the guard of the role-switching `if` of stun_usage_ice_conncheck_create_reply (tie-breaker comparison) "
    "is REGENERATED from stun/usages/ice.c on every run and used by the IceRole model: the convergence theorems (InvD/InvE, exactly one "
    "controller) are re-checked against what the code compares now",
    "Lean 4 kernel; axioms propext, Classical.choice, Quot.sound only (audited every run)",
    "Nice/Model/IceRole.lean: hand-written kernels of the role-conflict decision (stun/usages/ice.c create_reply) and the 487 rule "
    "(conncheck.c), tied on every run by the role monitor: every STUN request a real agent receives in simulation is replayed "
    "through the Lean kernel and the predicted reply (success / 487) and role are compared with what the agent does next",
    "Nice/Gen/Select.lean is regenerated from the source: the replacement guard of conn_check_update_selected_pair and the "
    "role-dependent argument order of agent_candidate_pair_priority; the selection theorems (selected = highest-priority "
    "nominated pair, independent of processing order; mirror pairs get equal priorities) are about these definitions, and the "
    "simulation compares every real agent's selected pair with the highest-priority nominated valid pair of its check list",
    "the theorems cover role resolution and pair selection only; READY on mirrored pairs for the whole check-list engine is NOT proved: it is "
    "explored by simulating two real NiceAgents under a virtual clock and a virtual UDP network (interposed sendmsg/recvmsg/poll/"
    "clock_gettime; scripted interface list) with loss/duplication/delay/reordering that respects the property's loss hypothesis",
    "ICE-TCP is not part of this simulation (UDP host candidates only; an eighth of the sessions use reliable agents)",
]


def scenario(args):
    exe, seed, tier = args
    import random
    rng = random.Random(f"C01/{seed}")
    cfg = sc.base_config(rng, tier)
    # a less-travelled agent option under which convergence must hold just the same: reliable agents (pseudo-TCP over the
    # selected UDP pair).  (Keepalives sent as connectivity checks were tried and dropped: they are single-shot transactions
    # outside the loss hypothesis, and in aggressive mode they legitimately move the controlled side's selection later.)
    if rng.random() < 0.12:
        cfg.update(extra_opts=2)
    s = None
    try:
        s = sc.start_session(exe, seed, cfg)
        steps = sc.signalling_steps(rng, cfg)
        sc.deliver_signalling(s, rng, steps)
        s.op("runidle 120000")
        res = sc.final_queries(s, cfg["ncomp"])
        s.op("run 30000")   # quiet period: keepalives only; roles/pairs must not move
        res2 = sc.final_queries(s, cfg["ncomp"])
        st = s.op("stats")[1]
        bad, known = [], []
        k1 = sc.cands_before_creds(s)
        for c, (qa, qb) in res2.items():
            if qa["state"] != "READY" or qb["state"] != "READY":
                (known if k1 else bad).append(("K1" if k1 else "not-ready", f"component {c}: A={qa['state']} B={qb['state']}"))
                continue
            if qa["local"] != qb["remote"] or qa["remote"] != qb["local"]:
                ctrl = "A" if qa["role"] == 1 else "B"
                controlled = "B" if ctrl == "A" else "A"
                aggressive = cfg["regA" if ctrl == "A" else "regB"] == 0
                if k1:
                    known.append(("K1", f"component {c} not mirrored after checks were cancelled for lack of credentials"))
                elif aggressive and (sc.saw_prflx(s, controlled, c) or sc.saw_prflx(s, ctrl, c)):
                    known.append(("K2", f"component {c}: A {qa['local']}>{qa['remote']}  B {qb['local']}>{qb['remote']}"))
                else:
                    bad.append(("not-mirrored", f"component {c}: A {qa['local']}>{qa['remote']}  B {qb['local']}>{qb['remote']}"))
            if res[c] != res2[c]:
                bad.append(("moved-after-quiet", f"component {c}: {res[c]} -> {res2[c]}"))
        ra, rb = res2[1][0]["role"], res2[1][1]["role"]
        if not k1 or any(e.startswith("t=") and " tx " in e for e in s.events()):
            anytx = any(" tx A " in e and "class=0" in e for e in s.events()) and any(" tx B " in e and "class=0" in e for e in s.events())
            if anytx and ra + rb != 1:
                (known if k1 else bad).append(("K1" if k1 else "roles", f"controlling flags at quiescence: A={ra} B={rb}"))
        # selection kernel: the selected pair is the highest-priority nominated+valid pair of the agent's own check list
        for ag in "AB":
            ev_, stt = s.op(f"checklist {ag} 1")
            best = {}
            role_now = int(stt.split()[1].split("=")[1])
            for w in stt.split()[2:]:
                f = w.split(":")
                # prio:state:nominated:valid:component:laddr:lport>raddr:rport:lprio:rprio
                prio, nominated, valid, comp = int(f[0]), int(f[2]), int(f[3]), int(f[4])
                pair = ":".join(f[5:-2])
                # both agents must compute the same priority for the same pair (mirrored selection depends on it): G is the
                # controlling side's candidate priority FOR THE ROLE THE AGENT HAS NOW (also after a role switch)
                lp, rp = int(f[-2]), int(f[-1])
                G, D = (lp, rp) if role_now else (rp, lp)
                want = 2 ** 32 * min(G, D) + 2 * max(G, D) + (1 if G > D else 0)
                if prio != want and (G, D) != (2 ** 32 - 1, 2 ** 32 - 1) and not any(b[0] == "stale-pair-priority" for b in bad):
                    bad.append(("stale-pair-priority", f"agent {ag} (controlling={role_now}) holds pair {pair} with priority {prio}; for its "
                                                        f"current role the RFC value is {want} (local {lp}, remote {rp})"))
                if nominated and valid and (comp not in best or prio > best[comp][0]):
                    best[comp] = (prio, pair)
            for c, (qa, qb) in res2.items():
                q = qa if ag == "A" else qb
                if q["state"] == "READY" and c in best and best[c][1] != f"{q['local']}>{q['remote']}":
                    bad.append(("selected-not-max-nominated", f"agent {ag} component {c}: selected {q['local']}>{q['remote']} but the "
                                                               f"highest-priority nominated valid pair of its check list is {best[c][1]} (prio {best[c][0]})"))
        mon = role_monitor(s, cfg)
        return dict(seed=seed, cfg=cfg, bad=bad, known=known, stats=st, script=s.script, role_obs=mon,
                    nev=len(s.events()), ready=all(q[0]["state"] == "READY" and q[1]["state"] == "READY" for q in res2.values()))
    except simlib.SimDied as e:
        return dict(seed=seed, cfg=cfg, bad=[("crash", str(e)[-1500:])], known=[], stats="", script=s.script if s else [],
                    role_obs=[], nev=0, ready=False)
    finally:
        if s:
            s.close()


RX = re.compile(r"rx (\w+) \S+ len=\d+ stun class=0 method=1 role=(-?\d+) tie=(\d+) .*mi=1 txid=(\w+)")
TXQ = re.compile(r"tx (\w+) \S+ len=\d+ stun class=0 method=1 role=(-?\d+) tie=(\d+)")
TXR = re.compile(r"tx (\w+) \S+ len=\d+ stun class=(2|3) method=1 .*err=(\d+) .*txid=(\w+)")


def role_monitor(s, cfg):
    """observations for the Lean role kernel: (receiver role before, receiver tie, request role, request tie,
    reply class observed, receiver role in its next own request)"""
    ties = {}
    role = {"A": cfg["ctrlA"], "B": cfg["ctrlB"]}
    obs = []
    ev = s.events()
    for i, e in enumerate(ev):
        m = TXQ.search(e)
        if m:
            ties[m.group(1)] = int(m.group(3))
            if m.group(2) != "-1":
                role[m.group(1)] = int(m.group(2))
            continue
        m = RX.search(e)
        if m and m.group(1) in ("A", "B"):
            x, rr, q, txid = m.group(1), int(m.group(2)), int(m.group(3)), m.group(4)
            if x not in ties:
                continue
            # the reply to this txid is the next tx of x carrying it (if the agent answered at all)
            rep = None
            for e2 in ev[i + 1:i + 12]:
                m2 = TXR.search(e2)
                if m2 and m2.group(1) == x and m2.group(4) == txid:
                    rep = "err487" if (m2.group(2) == "3" and m2.group(3) == "487") else ("success" if m2.group(2) == "2" else "other")
                    break
            if rep is None or rep == "other":
                continue
            # receiver's role right after: its next own request, if any
            nxt = None
            for e2 in ev[i + 1:]:
                m3 = TXQ.search(e2)
                if m3 and m3.group(1) == x and m3.group(2) != "-1":
                    nxt = int(m3.group(2))
                    break
            obs.append((role[x], ties[x], rr, q, rep, nxt))
            # track the role as the implementation shows it
            if nxt is not None:
                pass
    return obs


def check_roles_with_model(all_obs):
    """replay every observation through the Lean kernel (nicemodel `role onreq`)"""
    lines = [f"role onreq {r} {t} {rr} {q}" for (r, t, rr, q, rep, nxt) in all_obs]
    if not lines:
        return [], 0
    out, rc, err = vlib.run_lines(vlib.model_exe(), lines)
    bad = []
    for (r, t, rr, q, rep, nxt), o in zip(all_obs, out):
        w = o.split()
        if len(w) != 2:
            bad.append((r, t, rr, q, rep, nxt, o)); continue
        mrole, mrep = int(w[0]), w[1]
        irep = "err487" if rep == "err487" else "success"
        mrep2 = "err487" if mrep == "err487" else "success"
        if irep != mrep2:
            bad.append((r, t, rr, q, rep, nxt, o))
    return bad, len(lines)


def run(tier, seed):
    chk = vlib.Check("C01", tier, seed)
    chk.cov["trusted_base"] = TRUSTED
    chk.assumptions = ["distinct 64-bit tie-breakers", "loss hypothesis of the property: fewer consecutive lost attempts than the "
                       "transmission limit on every endpoint pair (enforced by the virtual network)"]
    st = vlib.std_pipeline(chk, MODULE, THEOREMS)
    diverged, ofail = [], []
    if st["libs"]:
        ok, exe, log = sc.build_sim()
        if not ok:
            chk.note("harness build failed: " + log[-1500:]); st["libs"] = False; st["log"] = log
        else:
            n = 1500 if tier == "quick" else 30000
            base = seed * 100000
            res = simlib.run_parallel(scenario, [(exe, base + i, tier) for i in range(n)])
            kinds, known_seen = {}, {}
            all_obs = []
            for r in res:
                for kind, what in r["bad"]:
                    ofail.append({"why": f"{kind}: {what}", "config": r["cfg"], "session": r["script"], "stats": r["stats"]})
                for kind, what in r["known"]:
                    known_seen.setdefault(kind, (what, r["seed"]))
                all_obs += r["role_obs"]
                key = f"ctrl={r['cfg']['ctrlA']}{r['cfg']['ctrlB']} reg={r['cfg']['regA']}{r['cfg']['regB']} loss={r['cfg']['loss']}"
                kinds[key] = kinds.get(key, 0) + 1
            # committed witnesses of the known findings run first; each still-failing one is reported once
            for fn, k in (("cands_before_creds.scn", "K1"), ("aggressive_prflx_not_mirrored.scn", "K2")):
                pth = os.path.join(vlib.ROOT, "corpus", "C01", fn)
                if os.path.exists(pth):
                    script = [l.strip() for l in open(pth) if l.strip() and not l.startswith("#")]
                    out, err, rc = simlib.replay_script(exe, script)
                    qs = [simlib.parse_q(l) for l in out.splitlines() if l.startswith("ok state ")]
                    half = qs[len(qs) // 2:]
                    failing = any(half[i]["state"] != "READY" or half[i + 1]["state"] != "READY" or
                                  half[i]["local"] != half[i + 1]["remote"] or half[i]["remote"] != half[i + 1]["local"]
                                  for i in range(0, len(half) - 1, 2))
                    if rc != 0:
                        ofail.append({"why": f"witness {fn} crashed the agent", "session": script, "stderr": err[-1500:]})
                    elif failing:
                        known_seen.pop(k, None)
                        chk.known((sc.K1_TEXT if k == "K1" else sc.K2_TEXT) + f" [witness corpus/C01/{fn}]")
            for k, (what, sd) in sorted(known_seen.items()):
                chk.known((sc.K1_TEXT if k == "K1" else sc.K2_TEXT) + f" [e.g. scenario seed {sd}: {what}]")
            badobs, nobs = ([], 0)
            if os.path.exists(vlib.model_exe()):
                badobs, nobs = check_roles_with_model(all_obs)
                for b in badobs[:20]:
                    diverged.append({"index": 0, "op": f"role onreq {b[0]} {b[1]} {b[2]} {b[3]}", "impl": b[4], "model": b[6]})
            # a role-kernel divergence with a concrete observation IS a concrete input for the kernel claim,
            # but the property-level failing input is searched among the scenario oracles above
            chk.cov["evaluations"] = len(res)
            chk.cov["distinct_nontrivial"] = len({json.dumps(r["cfg"], sort_keys=True) + str(r["seed"]) for r in res if r["ready"]})
            chk.cov["traces_validated_against_impl"] = nobs - len(badobs)
            chk.cov["rule"] = ("one evaluation = one simulated session of two real agents (random initial roles, nomination modes, 1-3 "
                               "addresses, 1-2 components, loss 0-50% with < N consecutive, latency 1-200 ms, duplication, random "
                               "interleaving of credentials / trickled candidates / time); non-trivial = sessions in which every "
                               "component reached READY on both sides; traces_validated = received connectivity checks replayed "
                               "through the Lean role kernel with matching reply")
            chk.cov["samples"] = [res[0]["script"][:30]]
            chk.cov["generator_distribution"] = {"configs": kinds, "role_observations": nobs,
                                                 "known_classes_seen": sorted(known_seen),
                                                 "sessions_ready": sum(1 for r in res if r["ready"])}
    return conclude(chk, st, diverged, ofail, "sim_drv:C01 sessions + role monitor")


def replay(path):
    r = json.load(open(path))
    s = r.get("session")
    if not s:
        print(json.dumps(r, indent=1)); return 0
    vlib.ensure_libs()
    ok, exe, log = sc.build_sim()
    out, err, rc = simlib.replay_script(exe, s)
    print(out[-6000:])
    print(err[-2000:])
    return 0
