"""Shared by the STUN checks (C04-C07): an INDEPENDENT STUN codec written from RFC 5389 §6/§15
(not from the C code, not from the Lean model), grammar-aware generators, mutators, buffer splits.
All randomness comes from the `rng` passed in (chk.rng)."""
import struct, hashlib, hmac as _hmac, zlib

MAGIC = 0x2112A442
MI, FPR = 0x0008, 0x8028
USERNAME, REALM, NONCE, ERROR_CODE, SOFTWARE = 0x0006, 0x0014, 0x0015, 0x0009, 0x8022
MAPPED, XOR_MAPPED, PRIORITY, USE_CAND, CONTROLLED, CONTROLLING = 0x0001, 0x0020, 0x0024, 0x0025, 0x8029, 0x802A
UNKNOWN_ATTRS, LIFETIME, DATA, MS_IMPL = 0x000A, 0x000D, 0x0013, 0x8070
# usage flags
F_SHORT, F_LONG, F_FPR, F_SW, F_IGN, F_NOIND, F_FORCE, F_NOALIGN, F_CONSENT = [1 << i for i in range(9)]
RFC3489, RFC5389, MSICE2, OC2007 = 0, 1, 2, 3

# the repo's attribute table (stun/stunmessage.h) with a generator of valid lengths for each
# kind: 'addr' (8 or 20), 'u32', 'u64', 'flag', 'var', 'mi' (20), 'err', 'u16list'
ATTR_TABLE = {
    0x0001: 'addr', 0x0002: 'addr', 0x0003: 'u32', 0x0004: 'addr', 0x0005: 'addr', 0x0006: 'var',
    0x0007: 'var', 0x0008: 'mi', 0x0009: 'err', 0x000A: 'u16list', 0x000B: 'addr', 0x000C: 'u32',
    0x000D: 'u32', 0x000E: 'addr', 0x000F: 'u32', 0x0010: 'u32', 0x0011: 'addr', 0x0012: 'addr',
    0x0013: 'var', 0x0014: 'var', 0x0015: 'var', 0x0016: 'addr', 0x0017: 'u32', 0x0018: 'u32',
    0x0019: 'u32', 0x001A: 'flag', 0x0020: 'addr', 0x0021: 'u32', 0x0022: 'u64', 0x0023: 'u32',
    0x0024: 'u32', 0x0025: 'flag', 0x8001: 'u32', 0x8008: 'u32', 0x8020: 'addr', 0x8022: 'var',
    0x8023: 'addr', 0x8028: 'u32', 0x8029: 'u64', 0x802A: 'u64', 0x8050: 'var', 0x8054: 'var',
    0x8070: 'u32', 0xC001: 'u32',
}
KNOWN_TYPES = sorted(ATTR_TABLE)


def hx(b):
    return b.hex() if b else "-"


def unhx(s):
    return b"" if s == "-" else bytes.fromhex(s)


def pad4(n):
    return (4 - n % 4) % 4


# ----------------------------------------------------------------------------- encoding
def msg_type(cls, method):
    """RFC 5389 §6: method bits M0-M11 and class bits C0,C1 interleaved"""
    return ((method & 0xF80) << 2) | ((method & 0x070) << 1) | (method & 0x00F) | ((cls & 2) << 7) | ((cls & 1) << 4)


def type_class(t):
    return ((t & 0x0100) >> 7) | ((t & 0x0010) >> 4)


def type_method(t):
    return ((t & 0x3e00) >> 2) | ((t & 0x00e0) >> 1) | (t & 0x000f)


def enc_attr(t, val, padded=True, lenfield=None):
    l = len(val) if lenfield is None else lenfield
    out = struct.pack(">HH", t, l & 0xffff) + val
    if padded:
        out += b"\0" * pad4(len(val))
    return out


def build(cls, method, txid, attrs, padded=True, lenfield=None, mtype=None):
    """attrs: list of (type, value bytes) or raw bytes objects (pre-encoded)"""
    body = b"".join(a if isinstance(a, bytes) else enc_attr(a[0], a[1], padded) for a in attrs)
    t = msg_type(cls, method) if mtype is None else mtype
    l = len(body) if lenfield is None else lenfield
    return struct.pack(">HH", t, l & 0xffff) + txid + body


# ----------------------------------------------------------------------------- reference parser
def header_verdict(bs, padded):
    """what a header-only look at the bytes must say: 'invalid' | 'incomplete' | L"""
    if len(bs) == 0 or bs[0] >> 6:
        return "invalid"
    if len(bs) < 4:
        return "incomplete"
    L = 20 + ((bs[2] << 8) | bs[3])
    if padded and L % 4:
        return "invalid"
    if len(bs) < L:
        return "incomplete"
    return L


def parse_attrs(body, padded):
    """RFC 5389 §15 TLV sequence tiling `body` exactly: list of (type, value offset in body, length)
    or None"""
    out, pos = [], 0
    while pos < len(body):
        if len(body) - pos < 4:
            return None
        t, l = struct.unpack(">HH", body[pos:pos + 4])
        step = l + (pad4(l) if padded else 0)
        if pos + 4 + step > len(body):
            return None
        out.append((t, pos + 4, l))
        pos += 4 + step
    return out


def verdict(bs, padded):
    """the C06 statement: L iff the first L bytes are a well-formed message; incomplete iff the two
    top bits are zero and fewer bytes are present than an acceptable header announces"""
    h = header_verdict(bs, padded)
    if not isinstance(h, int):
        return h
    return h if parse_attrs(bs[20:h], padded) is not None else "invalid"


def attrs_of(bs, padded):
    """[(type, value offset in message, length)] of a message accepted by verdict"""
    L = 20 + ((bs[2] << 8) | bs[3])
    return [(t, o + 20, l) for t, o, l in parse_attrs(bs[20:L], padded)]


def swap_oc2007(t, compat):
    if compat == OC2007:
        return {REALM: NONCE, NONCE: REALM}.get(t, t)
    return t


def ref_find(attrs, t, compat=None):
    """first attribute of type t an independent parser finds, honouring "nothing but FINGERPRINT
    follows MESSAGE-INTEGRITY, nothing follows FINGERPRINT".  attrs = [(type, off, len)]"""
    t = swap_oc2007(t, compat)
    for (at, off, l) in attrs:
        if at == t:
            return (off, l)
        if at == MI and t != FPR:
            return None
        if at == FPR:
            return None
    return None


# ----------------------------------------------------------------------------- crypto (reference)
def crc32_fpr(msg_upto_fpr_attr, total_len_field=None):
    """FINGERPRINT value for a message whose FINGERPRINT attribute starts at len(msg_upto_fpr_attr):
    CRC-32 of the bytes before it (with the header length covering the attribute) xor 0x5354554e"""
    b = bytearray(msg_upto_fpr_attr)
    l = len(b) + 8 - 20 if total_len_field is None else total_len_field
    b[2:4] = struct.pack(">H", l & 0xffff)
    return (zlib.crc32(bytes(b)) & 0xffffffff) ^ 0x5354554e


def mi_hmac(key, msg_upto_mi_attr, compat, lenfield=None):
    """MESSAGE-INTEGRITY for a message whose M-I attribute starts at len(msg_upto_mi_attr):
    HMAC-SHA1 over the preceding bytes with the header length rewritten to cover M-I (RFC 5389
    §15.4); RFC 3489 additionally zero-pads the text to a multiple of 64 bytes."""
    b = bytearray(msg_upto_mi_attr)
    l = len(b) + 24 - 20 if lenfield is None else lenfield
    b[2:4] = struct.pack(">H", l & 0xffff)
    if compat in (RFC3489, OC2007, MSICE2) and len(b) % 64:
        b += b"\0" * (64 - len(b) % 64)
    return _hmac.new(key, bytes(b), hashlib.sha1).digest()


def trim_var(v):
    """libnice's credential trimming: leading '"', trailing '"' and NUL"""
    while v and v[:1] == b'"':
        v = v[1:]
    while v and v[-1:] in (b'"', b"\0"):
        v = v[:-1]
    return v


def long_term_key(user, realm, password):
    return hashlib.md5(trim_var(user) + b":" + trim_var(realm) + b":" + trim_var(password)).digest()


# ----------------------------------------------------------------------------- generators
def rand_bytes(rng, n):
    return bytes(rng.getrandbits(8) for _ in range(n))


def rand_txid(rng, cookie=None):
    if cookie is None:
        cookie = rng.random() < 0.75
    if cookie:
        return struct.pack(">I", MAGIC) + rand_bytes(rng, 12)
    t = rand_bytes(rng, 16)
    return t if t[:4] != struct.pack(">I", MAGIC) else b"\0" + t[1:]


def rand_value(rng, kind, maxvar=40):
    if kind == 'addr':
        if rng.random() < 0.6:
            return b"\0\x01" + rand_bytes(rng, 2) + rand_bytes(rng, 4)
        return b"\0\x02" + rand_bytes(rng, 2) + rand_bytes(rng, 16)
    if kind == 'u32':
        return rand_bytes(rng, 4)
    if kind == 'u64':
        return rand_bytes(rng, 8)
    if kind == 'flag':
        return b""
    if kind == 'mi':
        return rand_bytes(rng, 20)
    if kind == 'err':
        code = rng.choice([300, 400, 401, 403, 420, 438, 487, 500, 699, rng.randrange(300, 700)])
        return b"\0\0" + bytes([code // 100, code % 100]) + rand_bytes(rng, rng.randrange(0, 12))
    if kind == 'u16list':
        return rand_bytes(rng, 2 * rng.randrange(0, 6))
    return rand_bytes(rng, rng.choice([0, 1, 2, 3, 4, 5, 7, 8, 13, rng.randrange(0, maxvar + 1)]))


def rand_attr(rng, maxvar=40):
    r = rng.random()
    if r < 0.75:
        t = rng.choice(KNOWN_TYPES)
        return (t, rand_value(rng, ATTR_TABLE[t], maxvar))
    if r < 0.9:   # unknown type, comprehension-required or optional
        t = rng.choice([0x0000, 0x001B, 0x0030, 0x7fff, 0x8000, 0x8002, 0xBEEF, 0xffff, rng.randrange(0, 0x10000)])
        return (t, rand_bytes(rng, rng.randrange(0, maxvar + 1)))
    t = rng.choice(KNOWN_TYPES)   # known type with an invalid length for its kind
    return (t, rand_bytes(rng, rng.choice([0, 1, 2, 3, 5, 7, 9, 19, 21])))


def rand_attrs(rng, nmax=8, maxvar=40, tail=True):
    n = rng.choice([0, 1, 1, 2, 3, 4, rng.randrange(0, nmax + 1)])
    attrs = [rand_attr(rng, maxvar) for _ in range(n)]
    if tail:   # mostly-valid ordering: M-I then FINGERPRINT last
        attrs = [a for a in attrs if a[0] not in (MI, FPR)] if rng.random() < 0.7 else attrs
        r = rng.random()
        if r < 0.3:
            attrs.append((MI, rand_bytes(rng, 20)))
        if r < 0.15 or 0.3 <= r < 0.45:
            attrs.append((FPR, rand_bytes(rng, 4)))
    return attrs


def rand_class_method(rng):
    cls = rng.randrange(4)
    method = rng.choice([1, 1, 1, 2, 3, 4, 6, 7, 8, 9, 0, 0xfff, rng.randrange(0, 0x1000)])
    return cls, method


def valid_message(rng, padded=True, nmax=8, maxvar=40):
    cls, method = rand_class_method(rng)
    return build(cls, method, rand_txid(rng), rand_attrs(rng, nmax, maxvar), padded)


def big_message(rng, padded=True, target=2048):
    """valid message close to `target` bytes"""
    attrs = []
    size = 20
    while size < target - 8:
        t, v = rand_attr(rng, 300)
        if t in (MI, FPR):
            continue
        e = enc_attr(t, v, padded)
        if size + len(e) > target:
            break
        attrs.append(e)
        size += len(e)
    cls, method = rand_class_method(rng)
    return build(cls, method, rand_txid(rng), attrs, padded)


def mutate(rng, m, padded=True):
    """nearly-valid mutants of a valid encoding"""
    b = bytearray(m)
    k = rng.randrange(9)
    if k == 0 and b:     # bit flips
        for _ in range(rng.choice([1, 1, 2, 5])):
            i = rng.randrange(len(b))
            b[i] ^= 1 << rng.randrange(8)
    elif k == 1 and len(b) >= 4:   # header length field +-1 / +-4
        l = ((b[2] << 8) | b[3]) + rng.choice([-4, -1, 1, 4, 3, -3, 8])
        b[2:4] = struct.pack(">H", l & 0xffff)
    elif k == 2 and b:   # truncation
        b = b[:rng.randrange(len(b))]
    elif k == 3 and len(b) >= 24:  # an attribute length field +-1 / +-4
        try:
            at = attrs_of(bytes(b), padded)
            t, off, l = rng.choice(at)
            nl = l + rng.choice([-4, -1, 1, 4, 2, -2, 0x100])
            b[off - 2:off] = struct.pack(">H", nl & 0xffff)
        except Exception:
            pass
    elif k == 4 and len(b) >= 24:  # reorder / duplicate attributes (header length fixed up or not)
        try:
            at = attrs_of(bytes(b), padded)
            L = 20 + ((b[2] << 8) | b[3])
            chunks = []
            for i, (t, off, l) in enumerate(at):
                end = at[i + 1][1] - 4 if i + 1 < len(at) else L
                chunks.append(bytes(b[off - 4:end]))
            if rng.random() < 0.5:
                rng.shuffle(chunks)
            else:
                chunks.insert(rng.randrange(len(chunks) + 1), rng.choice(chunks))
            body = b"".join(chunks)
            hdr = bytearray(b[:20])
            if rng.random() < 0.8:
                hdr[2:4] = struct.pack(">H", len(body) & 0xffff)
            b = hdr + body
        except Exception:
            pass
    elif k == 5 and len(b) >= 20:  # M-I / FINGERPRINT placed early
        ins = enc_attr(rng.choice([MI, FPR]), rand_bytes(rng, rng.choice([20, 4, 4, 20, 0, 19])), padded)
        try:
            at = attrs_of(bytes(b), padded)
            pos = rng.choice([20] + [off - 4 for (_, off, _) in at])
        except Exception:
            pos = 20
        b = b[:pos] + ins + b[pos:]
        l = len(b) - 20
        b[2:4] = struct.pack(">H", l & 0xffff)
    elif k == 6:         # append garbage / extra bytes after the message
        b += rand_bytes(rng, rng.choice([1, 2, 3, 4, 8, 20]))
    elif k == 7 and b:   # first byte top bits
        b[0] = (b[0] & 0x3f) | (rng.randrange(4) << 6)
    elif k == 8 and len(b) >= 4:   # type field
        b[0:2] = struct.pack(">H", rng.choice([0x0115, 0x0017, 0x0001, 0x0101, 0x0111, 0x0011, rng.randrange(0x4000)]))
    return bytes(b)


def all_splits(n):
    """all 2^(n-1) compositions of n into positive parts (n >= 1)"""
    if n == 0:
        yield []
        return
    for mask in range(1 << (n - 1)):
        parts, cur = [], 1
        for i in range(n - 1):
            if mask >> i & 1:
                parts.append(cur)
                cur = 1
            else:
                cur += 1
        parts.append(cur)
        yield parts


def rand_split(rng, n, kmax=6, empties=False):
    """random split of n bytes into 1..kmax buffers (optionally with empty ones)"""
    k = rng.randrange(1, kmax + 1)
    if n == 0:
        return [0] * (k if empties else 1)
    if empties:
        cuts = sorted(min(n, rng.choice([0, 0, 1, 2, 3, 4, n, rng.randrange(0, n + 1)])) for _ in range(k - 1))
    else:
        k = min(k, n)
        pool = list(range(1, n))
        # bias towards cuts inside the first four bytes (where the vectored check looks)
        cuts = set()
        while len(cuts) < k - 1:
            cuts.add(rng.choice([1, 2, 3]) if (rng.random() < 0.5 and n > 3) else rng.choice(pool))
        cuts = sorted(cuts)
    parts, prev = [], 0
    for c in cuts:
        parts.append(c - prev)
        prev = c
    parts.append(n - prev)
    return parts


def load_corpus(vroot, prop):
    import os
    d = os.path.join(vroot, "corpus", prop)
    out = []
    if os.path.isdir(d):
        for f in sorted(os.listdir(d)):
            if f.endswith(".ops"):
                out.append([l.strip() for l in open(os.path.join(d, f)) if l.strip() and not l.startswith("#")])
    return out


# ----------------------------------------------------------------------------- C04/C05 helpers
_CRC_TABLE = []
for _i in range(256):
    _c = _i
    for _ in range(8):
        _c = (_c >> 1) ^ 0xEDB88320 if _c & 1 else _c >> 1
    _CRC_TABLE.append(_c)


def crc32_table(data, typo=False):
    """CRC-32 (polynomial 0xedb88320) by table; `typo` = the WLM 2009 table with one wrong entry"""
    crc = 0xffffffff
    for b in data:
        lkp = _CRC_TABLE[(crc ^ b) & 0xff]
        if typo and lkp == 0x8bbeb8ea:
            lkp = 0x8bbe8ea
        crc = lkp ^ (crc >> 8)
    return crc ^ 0xffffffff


def fpr_value(pkt, fpr_attr_off, typo=False):
    """expected FINGERPRINT value for the attribute whose header starts at fpr_attr_off: CRC-32 of the
    message bytes before it xor 0x5354554e (header length as in the packet: it covers FINGERPRINT)"""
    return crc32_table(pkt[:fpr_attr_off], typo) ^ 0x5354554e


def find_error_code(attrs, pkt, compat=None):
    """independent decoding of the first visible ERROR-CODE: code or None"""
    f = ref_find(attrs, ERROR_CODE, compat)
    if not f or f[1] < 4:
        return None
    cls, num = pkt[f[0] + 2] & 7, pkt[f[0] + 3]
    if 3 <= cls <= 6 and num <= 99:
        return cls * 100 + num
    return None


def mac_expected(pkt, mi_value_off, compat, key):
    """M-I the compatibility mode defines for a message whose M-I value starts at mi_value_off:
    RFC 5389 §15.4 (header length rewritten to end at M-I); RFC 3489 / OC2007 additionally zero-pad
    the text to 64; MS-ICE2 keeps the header length of the whole message and pads"""
    prefix = bytearray(pkt[:mi_value_off - 4])
    if compat == MSICE2:
        lf = (pkt[2] << 8) | pkt[3]
    else:
        lf = mi_value_off          # = (mi_value_off + 20) - 20
    prefix[2:4] = struct.pack(">H", lf & 0xffff)
    if compat in (RFC3489, OC2007, MSICE2) and len(prefix) % 64:
        prefix += b"\0" * (64 - len(prefix) % 64)
    return _hmac.new(key, bytes(prefix), hashlib.sha1).digest()


def authentic(rng, compat, flags, cls, method, txid, user, realm, nonce, password, extra, with_mi=True,
              with_fpr=None, lt=None):
    """a message with RFC-correct MESSAGE-INTEGRITY (and FINGERPRINT) built independently of libnice"""
    padded = not (flags & F_NOALIGN)
    lt = bool(flags & F_LONG) if lt is None else lt
    if with_fpr is None:
        with_fpr = compat in (RFC5389, MSICE2) and bool(flags & F_FPR)
    attrs = []
    if user is not None:
        attrs.append((USERNAME, user))
    if realm is not None:
        attrs.append((swap_oc2007(REALM, compat), realm))
    if nonce is not None:
        attrs.append((swap_oc2007(NONCE, compat), nonce))
    pos = rng.randrange(len(attrs) + 1) if attrs else 0
    attrs = attrs[:pos] + list(extra) + attrs[pos:] if rng.random() < 0.5 else attrs + list(extra)
    body = b"".join(enc_attr(t, v, padded) for t, v in attrs)
    total = 20 + len(body) + (24 if with_mi else 0) + (8 if with_fpr else 0)
    hdr = struct.pack(">HH", msg_type(cls, method), (total - 20) & 0xffff) + txid
    msg = hdr + body
    if with_mi:
        key = long_term_key(user or b"", realm or b"", password) if lt else password
        mi = mac_expected(msg + struct.pack(">HH", MI, 20), len(msg) + 4, compat, key)
        msg += struct.pack(">HH", MI, 20) + mi
    if with_fpr:
        msg += struct.pack(">HHI", FPR, 4, fpr_value(msg, len(msg)))
    return msg
